"""C31 — requirement / xor rules are enforced exactly, and before any execution
(pydra/compose/base/task.py Task._rule_violations/_check_rules, field.py Requirement(Set).satisfied,
engine/job.py Job.__init__, engine/submitter.py Submitter.__call__)."""
import os
import re
import shutil
import tempfile
from concurrent.futures import ThreadPoolExecutor

from .lib import coqio, rulegen as rg
from .lib.runner import Outcome, Failure

PROP = "C31"
PROPS_FILE = "Props/C31.v"
MANIFEST = dict(
    text="Partial. Coq theorems (closed under the global context), for ALL well-formed task definitions (any number "
         "of fields, requirement sets, xor groups) and ALL assignments: C31_iff_roles — _rule_violations accepts "
         "exactly when the statement's formula holds with the code's three role-specific tests for 'set'; "
         "C31_partial — it accepts exactly when the statement's formula (set = truthy) holds, on every assignment "
         "outside the computable class `uncontested = false`; C31_refuted / C31_no_uniform_notion_of_set — the "
         "formula at full strength fails on the unchanged code for every possible meaning of 'set' (a str field "
         "with requirements left at '' is rejected; '' / False-on-bool|None satisfy a requirement while the xor "
         "check calls them unset): known findings F31a/F31b; C31_before_execution — validate-then-run. The model is "
         "tied to the code by building real python/shell task classes (exhaustive small grammar + sampled up to 5 "
         "fields) x every assignment and comparing the exact error list, acceptance by _check_rules, and (running "
         "tasks through Task.__call__, Submitter and Job) zero body executions on rejection.",
    note="Trusted: Coq kernel + vm_compute; hand-written model of _rule_violations/Requirement.satisfied and of the "
         "order validate-then-run; lazy values, attrs.validate and ShellTask's argstr/template checks not modelled; "
         "correspondence is differential testing.",
    technique="Coq proof (list induction: error list empty <-> quantified formula; counting <-> uniqueness under NoDup) "
              "+ refutation by witness + model/impl correspondence via generated cases",
    design="§8 Group H / C31",
)
TIE_NAME = "Model.Rules.rule_violations/submitter_call vs Task._rule_violations/_check_rules, Submitter.__call__, Job.__init__"
TRUSTED = [
    "Model/Rules.v: hand-written model of Task._rule_violations, Requirement.satisfied, RequirementSet.satisfied, "
    "of define()'s name checks (wf_def) and of the order `_check_rules` -> `Job.__init__` -> run in Submitter.__call__",
    "value kinds: NOTHING, None, bool, str, int, other object (only its truthiness); field type kinds: `is bool`, "
    "optional fileset, other — read from the real class with pydra's own predicates by harness/lib/rulegen.py",
    "not modelled: lazy values (skipped by the code), attrs.validate (type/allowed_values validators), "
    "ShellTask's extra argstr/path_template name checks, the worker/cache protocol after validation (Section variable `run`, no hypothesis)",
]
ASSUMPTIONS = [
    "'set' in the statement is read as 'truthy' (pydra's define() requires fields in requires/xor to be of 'optional or truthy/falsy type'); "
    "C31_no_uniform_notion_of_set shows the refutation holds for every other reading as well",
    "definitions are well-formed (unique non-empty field names, requirement/xor names are fields, xor groups are sets): enforced by define()",
]
RULE = ("distinct (definition, assignment) pairs on real python/shell task classes; non-trivial = the definition has at "
        "least one requirement set or xor group and the assignment sets (truthy) at least one field that carries a "
        "requirement, is named in one, or is in an xor group")

IMPORTS = ["Model.Rules", "Spec.Rules"]
EXTRA = rg.COQ_ABBREV + """
Definition row := (list value * list error * bool)%type.
Definition grp := (taskdef * list row)%type.
Definition env_for (d : taskdef) (vals : list value) : env := env_of (combine (map fname (fields d)) vals).
Definition subset (a b : list string) : bool := forallb (fun x => existsb (String.eqb x) b) a.
Definition set_eqb (a b : list string) : bool := subset a b && subset b a && Nat.eqb (List.length a) (List.length b).
Definition err_eqb (a b : error) : bool :=
  match a, b with
  | EMandatory x, EMandatory y => String.eqb x y
  | ERequires x, ERequires y => String.eqb x y
  | EXorMany x, EXorMany y => set_eqb x y
  | EXorNone x, EXorNone y => set_eqb x y
  | _, _ => false
  end.
Definition tie_row (d : taskdef) (r : row) : bool :=
  let '(vals, errs, accepted) := r in
  list_eqb err_eqb (rule_violations d (env_for d vals)) errs && Bool.eqb (rules_ok d (env_for d vals)) accepted.
Definition spec_row (d : taskdef) (r : row) : bool :=
  let '(vals, errs, accepted) := r in Bool.eqb (spec_okb d (env_for d vals)) accepted.
Definition dom_row (d : taskdef) (r : row) : bool := let '(vals, _, _) := r in uncontested d (env_for d vals).
Definition trig_row (d : taskdef) (r : row) : bool := let '(vals, _, _) := r in uncontested_trigger d (env_for d vals).
Definition wf_row (d : taskdef) (r : row) : bool := wf_def d.
Fixpoint bad_rows_from (ok : taskdef -> row -> bool) (i : nat) (gs : list grp) : list (nat * list nat) :=
  match gs with
  | [] => []
  | g :: r => match bad (ok (fst g)) (snd g) with
              | [] => bad_rows_from ok (S i) r
              | l => (i, l) :: bad_rows_from ok (S i) r
              end
  end.
"""
CHECKS = ["tie", "spec", "dom", "trig", "wf"]


def _write_shard(path, groups):
    with open(path, "w") as f:
        f.write("From Pydra Require Import Base.Prelude %s.\n" % " ".join(IMPORTS))
        f.write("Set Printing Width 1000000.\nSet Printing Depth 1000000.\n" + EXTRA + "\n")
        f.write("Definition cases : list grp :=\n [")
        f.write(";\n  ".join(groups))
        f.write("]%list.\n")
        for c in CHECKS:
            f.write("Eval vm_compute in (bad_rows_from %s_row 0 cases).\n" % c)


_PAIR = re.compile(r"\((\d+)(?:%nat)?, \[([^\]]*)\](?:%list)?\)")


def _coqc(path, timeout=900):
    import subprocess
    import time
    t0 = time.time()
    p = subprocess.run(["timeout", str(timeout), "coqc"] + coqio.COQFLAGS + ["-noglob", path],
                       stdout=subprocess.PIPE, stderr=subprocess.STDOUT, text=True, cwd=os.path.dirname(path))
    return p.returncode, p.stdout, time.time() - t0


def eval_groups(ctx, name, groups, rows_per_shard=2500):
    """groups: list of (def_literal, [row_literal...]). Returns {check: set((gi, ri))}."""
    shards, cur, cur_rows, start = [], [], 0, 0
    for gi, (dlit, rows) in enumerate(groups):
        cur.append("(%s, [%s])" % (dlit, "; ".join(rows)))
        cur_rows += len(rows)
        if cur_rows >= rows_per_shard:
            shards.append((start, cur))
            cur, cur_rows, start = [], 0, gi + 1
    if cur:
        shards.append((start, cur))
    paths = []
    for k, (st, gl) in enumerate(shards):
        p = os.path.join(ctx.scratch.dir, "groups_%s_%d.v" % (name, k))
        _write_shard(p, gl)
        paths.append((st, p))
    res = {c: set() for c in CHECKS}
    errors = []
    with ThreadPoolExecutor(max_workers=6) as ex:
        outs = list(ex.map(lambda sp: (sp[0], sp[1]) + _coqc(sp[1]), paths))
    for st, p, rc, out, _ in outs:
        if rc != 0:
            errors.append((p, out[-2000:]))
            continue
        vals = coqio.split_evals(out)
        if len(vals) != len(CHECKS):
            errors.append((p, "expected %d evals: %r" % (len(CHECKS), out[-1500:])))
            continue
        for c, v in zip(CHECKS, vals):
            for m in _PAIR.finditer(v):
                gi = st + int(m.group(1))
                for x in m.group(2).split(";"):
                    x = x.strip().replace("%nat", "")
                    if x:
                        res[c].add((gi, int(x)))
    if errors:
        raise coqio.CoqCaseError(errors)
    return res


def observe(spec, assignments, side_file=None):
    """Build the real class once, apply every assignment; read the model's input back from the real objects."""
    cls = rg.build(spec, side_file)
    md = rg.model_def(cls)
    rows = []
    for a in assignments:
        task = rg.make_task(cls, spec, a)
        errs = rg.parse_errors(task._rule_violations())
        try:
            task._check_rules()
            accepted = True
        except ValueError:
            accepted = False
        rows.append({"assignment": list(a), "values": rg.model_values(task, md), "errors": errs, "accepted": accepted})
    return cls, md, rows


def row_lit(r):
    return "([%s], %s, %s)" % ("; ".join(rg.coq_value(v) for v in r["values"]),
                               rg.coq_errors(r["errors"]).replace("%list", "").replace("%string", ""),
                               coqio.boolean(r["accepted"]))


def _interesting(md, r):
    """non-trivial: some rule exists and a field taking part in a rule is truthy-set"""
    names = set()
    for f in md["fields"]:
        if f["requires"]:
            names.add(f["name"])
            names.update(n for rs in f["requires"] for n, _ in rs)
    for x in md["xor"]:
        names.update(n for n in x if n)
    if not names:
        return False
    for f, v in zip(md["fields"], r["values"]):
        if f["name"] in names and v not in (rg.UNSET, None, False, "", 0) and v != {"obj": False}:
            return True
    return False


def _stream(ctx, label, items, out, state, spec_compare=True):
    """items: list of (spec, assignments). Observe the implementation now; Coq evaluates all streams together in _flush."""
    import time
    t0 = time.time()
    groups, meta = [], []
    for spec, assigns in items:
        try:
            cls, md, rows = observe(spec, assigns)
        except Exception as e:                      # a generated definition the real define() rejects
            out.failures.append(Failure(case={"spec": spec}, observed="define() raised %s: %s" % (type(e).__name__, e),
                                        expected="a valid definition (wf_def = true)", kind="tie",
                                        note="generator produced a definition the code rejects"))
            continue
        groups.append((rg.coq_def(md), [row_lit(r) for r in rows]))
        meta.append((spec, md, rows))
    state["pending"].append((label, spec_compare, groups, meta))
    out.extra.setdefault("phase_wall_s", {})["observe_" + label] = round(time.time() - t0, 1)


def _flush(ctx, out, state):
    import time
    pending, state["pending"] = state["pending"], []
    allgroups = [g for _, _, groups, _ in pending for g in groups]
    if not allgroups:
        return
    t1 = time.time()
    res_all = eval_groups(ctx, "all%d" % state["flushes"], allgroups)
    state["flushes"] += 1
    out.extra.setdefault("phase_wall_s", {})["coq_evaluation"] = round(time.time() - t1, 1)
    off = 0
    for label, spec_compare, groups, meta in pending:
        n = len(groups)
        res = {c: {(gi - off, ri) for gi, ri in res_all[c] if off <= gi < off + n} for c in CHECKS}
        off += n
        if meta:
            _process(ctx, label, meta, res, out, state, spec_compare)


def _process(ctx, label, meta, res, out, state, spec_compare):
    dist = out.distribution
    nrows = sum(len(m[2]) for m in meta)
    out.evaluations += nrows
    out.traces_validated += nrows
    dist["defs_" + label] = len(meta)
    dist["assignments_" + label] = nrows
    for spec, md, rows in meta:
        dist["fields_%d" % len(spec["fields"])] = dist.get("fields_%d" % len(spec["fields"]), 0) + 1
        dist["kind_" + spec["kind"]] = dist.get("kind_" + spec["kind"], 0) + 1
        for r in rows:
            key = (repr(spec), tuple(map(repr, r["assignment"])))
            if key not in state["seen"]:
                state["seen"].add(key)
                if _interesting(md, r):
                    out.distinct_nontrivial += 1
            dist["accepted" if r["accepted"] else "rejected"] = dist.get("accepted" if r["accepted"] else "rejected", 0) + 1
            for e in r["errors"]:
                dist["err_" + e[0]] = dist.get("err_" + e[0], 0) + 1
    dist["outside_uncontested"] = dist.get("outside_uncontested", 0) + len(res["dom"])
    if len(out.samples) < 4 and meta:
        spec, md, rows = meta[len(meta) // 2]
        out.samples.append({"spec": spec, "observed": rows[:4]})
    for gi, ri in sorted(res["wf"])[:5]:
        spec, md, rows = meta[gi]
        out.failures.append(Failure(case={"spec": spec}, observed="define() accepted it", expected="wf_def = false",
                                    kind="tie", note="model's wf_def rejects a definition define() accepts"))
    for gi, ri in sorted(res["tie"])[:3]:
        spec, md, rows = meta[gi]
        r = rows[ri]
        out.failures.append(Failure(case={"spec": spec, "assignment": r["assignment"]},
                                    observed={"errors": r["errors"], "accepted": r["accepted"]},
                                    expected=_model_says(ctx, md, r, "t%d_%d" % (gi, ri)), kind="tie",
                                    note="rule_violations (model) differs from Task._rule_violations/_check_rules"))
    if not spec_compare:
        return
    per_finding = {}
    for gi, ri in sorted(res["spec"]):
        spec, md, rows = meta[gi]
        r = rows[ri]
        finding = None
        note = "the statement's formula (set = truthy) and _check_rules disagree"
        if (gi, ri) in res["dom"] and (gi, ri) not in res["tie"]:
            # inside the excluded class of C31_partial and the code still does what the model says
            finding = "F31a" if (gi, ri) in res["trig"] else "F31b"
        state["spec_fail"][finding] = state["spec_fail"].get(finding, 0) + 1
        per_finding[finding] = per_finding.get(finding, 0) + 1
        if per_finding[finding] > 12:
            continue
        out.failures.append(Failure(
            case={"spec": spec, "assignment": r["assignment"]},
            observed={"errors": r["errors"], "accepted": r["accepted"]},
            expected={"formula_holds": not r["accepted"]}, kind="spec", finding=finding, note=note))


def _model_says(ctx, md, r, name):
    d = rg.coq_def(md)
    e = "(env_of (combine (map fname (fields %s)) %s))" % (d, coqio.lst([rg.coq_value(v) for v in r["values"]]))
    try:
        v = coqio.eval_terms(ctx.scratch, name, IMPORTS,
                             ["rule_violations %s %s" % (d, e), "spec_okb %s %s" % (d, e), "uncontested %s %s" % (d, e)],
                             extra=rg.COQ_ABBREV)
        return {"model_rule_violations": v[0], "spec_okb": v[1], "uncontested": v[2]}
    except Exception as ex:      # pragma: no cover
        return repr(ex)


# ---------------------------------------------------------------------------------------------------
def spec_to_mdef(spec):
    kinds = {"bool": "TBool", "file?": "TOptFileset"}
    return {"fields": [{"name": f["name"], "kind": kinds.get(f["type"], "TOther"), "may_unset": False,
                        "requires": f.get("requires", [])} for f in spec["fields"]],
            "xor": spec.get("xor", [])}


def _malformed(ctx, out, n):
    cases, meta = [], []
    for _ in range(n):
        spec = rg.malformed_def(ctx.rng, ctx.rng.randint(1, 4))
        try:
            rg.build(spec)
            raised = False
        except ValueError:
            raised = True
        cases.append(coqio.pair(rg.coq_def(spec_to_mdef(spec)), coqio.boolean(raised)))
        meta.append((spec, raised))
    res = coqio.run_cases(ctx.scratch, "c31wf", IMPORTS, "(taskdef * bool)", cases,
                          {"tie": "(fun c => Bool.eqb (negb (wf_def (fst c))) (snd c))"}, extra=rg.COQ_ABBREV)
    out.evaluations += n
    out.traces_validated += n
    out.distribution["malformed_definitions_rejected_by_define"] = sum(1 for _, r in meta if r)
    for i in res["tie"][:5]:
        out.failures.append(Failure(case={"spec": meta[i][0]}, observed={"define_raised": meta[i][1]},
                                    expected={"wf_def": meta[i][1]}, kind="tie",
                                    note="define()'s reference checks differ from wf_def"))


def _count(path):
    try:
        with open(path) as f:
            return len(f.read().splitlines())
    except FileNotFoundError:
        return 0


def run_entry_points(spec, assignment, root, side):
    """Run one (definition, assignment) through Task.__call__, Submitter.__call__ and Job(); return per entry
    point ('rejected', errors, executions) or ('ran', None, executions)."""
    from pydra.engine.submitter import Submitter
    from pydra.engine.job import Job
    cls = rg.build(spec, side)
    md = rg.model_def(cls)
    obs = {}

    def attempt(label, fn):
        before = _count(side)
        try:
            fn()
            obs[label] = ["ran", None, _count(side) - before]
        except ValueError as e:
            lines = str(e).splitlines()
            errs = rg.parse_errors([ln for ln in lines[1:] if not ln.startswith("Full crash report")]) \
                if lines and lines[0].startswith("Found the following errors") else [["?", str(e)[:200]]]
            obs[label] = ["rejected", errs, _count(side) - before]

    def fresh():           # a new cache directory per attempt: nothing may be served from a cache
        return tempfile.mkdtemp(prefix="c", dir=root)

    attempt("call", lambda: rg.make_task(cls, spec, assignment)(cache_root=fresh(), worker="debug"))

    def via_submitter():
        with Submitter(cache_root=fresh(), worker="debug") as sub:
            sub(rg.make_task(cls, spec, assignment))
    attempt("submitter", via_submitter)

    def via_job():
        with Submitter(cache_root=fresh(), worker="debug") as sub:
            Job(rg.make_task(cls, spec, assignment), sub, "main")
    attempt("job_init", via_job)
    task = rg.make_task(cls, spec, assignment)
    return md, rg.model_values(task, md), obs


def _before_execution(ctx, out, state, n):
    rng = ctx.rng
    root = tempfile.mkdtemp(prefix="c31-")
    side = os.path.join(root, "side.txt")
    cases, meta = [], []
    try:
        for i in range(n):
            spec = rg.sample_def(rng, rng.randint(1, 4), kind="python")
            a = rg.sample_assignments(rng, spec, 10 ** 6)
            a = rng.choice(a)
            try:
                md, values, obs = run_entry_points(spec, a, root, side)
            except Exception as e:
                out.failures.append(Failure(case={"spec": spec, "assignment": a}, observed=repr(e), kind="tie",
                                            note="running the task through the entry points failed unexpectedly"))
                continue
            # canonical observation: rejected with errors and 0 executions | ran with 1 execution (job_init: 0)
            lits = []
            for label, expect_runs in (("call", 1), ("submitter", 1), ("job_init", 0)):
                st, errs, execs = obs[label]
                if st == "rejected":
                    lits.append("(Rejected %s, %s)" % (rg.coq_errors(errs), coqio.nat(execs)))
                else:
                    lits.append("(Ran %s, %s)" % (coqio.nat(expect_runs), coqio.nat(execs)))
            cases.append(coqio.pair(rg.coq_def(md), coqio.lst([rg.coq_value(v) for v in values]), coqio.lst(lits)))
            meta.append({"spec": spec, "assignment": a, "observed": obs})
            state["exec_rejected"] += sum(1 for v in obs.values() if v[0] == "rejected")
            state["exec_on_rejection"] += sum(v[2] for v in obs.values() if v[0] == "rejected")
    finally:
        shutil.rmtree(root, ignore_errors=True)
    extra = EXTRA + """
Definition out_eqb (a b : outcome) : bool :=
  match a, b with
  | Rejected x, Rejected y => list_eqb err_eqb x y
  | Ran x, Ran y => Nat.eqb x y
  | _, _ => false
  end.
Definition ecase := (taskdef * list value * list (outcome * nat))%type.
(* entry points 0,1 run the body once when accepted; entry point 2 (Job.__init__ alone) never runs it *)
Definition exec_tie (c : ecase) : bool :=
  let '(d, vals, obs) := c in
  let e := env_for d vals in
  match obs with
  | [(o1, n1); (o2, n2); (o3, n3)] =>
      out_eqb (submitter_call (fun _ _ => 1) d e) o1 && out_eqb (submitter_call (fun _ _ => 1) d e) o2
      && out_eqb (submitter_call (fun _ _ => 0) d e) o3
      && Nat.eqb n1 (match o1 with Ran k => k | Rejected _ => 0 end)
      && Nat.eqb n2 (match o2 with Ran k => k | Rejected _ => 0 end)
      && Nat.eqb n3 0
  | _ => false
  end.
(* the property: a rejected task executes nothing; a task that executed satisfies the formula (outside the
   excluded class) *)
Definition exec_spec (c : ecase) : bool :=
  let '(d, vals, obs) := c in
  let e := env_for d vals in
  forallb (fun p => match fst p with
                    | Rejected _ => Nat.eqb (snd p) 0
                    | Ran _ => spec_okb d e || negb (uncontested d e)
                    end) obs
  && (spec_okb d e || negb (uncontested d e) || forallb (fun p => Nat.eqb (snd p) 0) obs).
"""
    res = coqio.run_cases(ctx.scratch, "c31exec", IMPORTS, "ecase", cases, {"tie": "exec_tie", "spec": "exec_spec"},
                          extra=extra)
    out.evaluations += 3 * len(meta)
    out.traces_validated += 3 * len(meta)
    out.distribution["entry_point_runs"] = 3 * len(meta)
    for kind in ("spec", "tie"):
        for i in res[kind][:10]:
            out.failures.append(Failure(case={"spec": meta[i]["spec"], "assignment": meta[i]["assignment"], "stream": "exec"},
                                        observed=meta[i]["observed"],
                                        expected="rejected tasks execute nothing; executed tasks satisfy the rules"
                                        if kind == "spec" else "submitter_call model", kind=kind,
                                        note="a task whose rules are violated was executed / executed before the report"
                                        if kind == "spec" else "validate-then-run model differs from Submitter/Job"))


def run(ctx):
    rng = ctx.rng
    os.makedirs(ctx.scratch.dir, exist_ok=True)     # the runner's widened pass re-uses (and may have removed) the directory
    out = Outcome(rule=RULE)
    state = {"seen": set(), "spec_fail": {}, "exec_rejected": 0, "exec_on_rejection": 0, "pending": [], "flushes": 0}
    thorough = ctx.tier == "thorough"

    # 0. corpus (past disagreements / finding witnesses), replayed first
    corpus = [(c["spec"], c["assignments"]) for c in ctx.corpus() if "spec" in c]
    if corpus:
        _stream(ctx, "corpus", corpus, out, state)

    # 1. exhaustive small grammar: every definition x every assignment.  n <= 2 always; the complete n = 3 grammar
    #    (19,200 definitions, ~480k assignments) when the search is widened or VERIF_C31_FULL=1, a random part otherwise.
    full3 = ctx.widen > 1 or os.environ.get("VERIF_C31_FULL") == "1"
    exh = []
    for n in (1, 2):
        for spec in rg.enum_defs(n):
            exh.append((spec, [list(a) for a in rg.all_assignments(spec)]))
    if full3:
        exh += [(s, [list(a) for a in rg.all_assignments(s)]) for s in rg.enum_defs(3)]
    out.distribution["exhaustive_up_to_fields"] = 3 if full3 else 2
    _stream(ctx, "exhaustive", exh, out, state)
    if full3:
        _flush(ctx, out, state)

    # 2. sampled definitions, 3..5 fields, python and shell, in-scope types; every assignment (capped)
    if not full3:
        three = list(rg.enum_defs(3))
        sub = rng.sample(three, min(len(three), ctx.budget(100, 1200)))
        _stream(ctx, "grammar3", [(s, [list(a) for a in rg.all_assignments(s)]) for s in sub], out, state)
    nsamp = ctx.budget(200, 700)
    items = []
    for _ in range(nsamp):
        spec = rg.sample_def(rng, rng.choice([3, 4, 4, 5, 5]))
        items.append((spec, rg.sample_assignments(rng, spec, 32 if not thorough else 48)))
    _stream(ctx, "sampled", items, out, state)

    # 3. extended types (mandatory str, int?, Any): model and spec; optional fileset fields (the deliberate
    #    `value is True` escape, outside the statement's optional/bool/str scope): model only
    items, items_fs = [], []
    for _ in range(ctx.budget(80, 300)):
        pool = rg.IN_SCOPE + ["strM", "int?", "any"]
        spec = rg.sample_def(rng, rng.choice([2, 3, 4, 5]), pool=pool)
        items.append((spec, rg.sample_assignments(rng, spec, 32 if not thorough else 48)))
    for _ in range(ctx.budget(50, 200)):
        spec = rg.sample_def(rng, rng.choice([2, 3, 4]), pool=rg.IN_SCOPE + ["file?", "file?"], kind="python")
        items_fs.append((spec, rg.sample_assignments(rng, spec, 32 if not thorough else 48)))
    _stream(ctx, "extended", items, out, state)
    _stream(ctx, "optfileset", items_fs, out, state, spec_compare=False)

    _flush(ctx, out, state)
    import time
    # 4. definitions define() must reject
    t0 = time.time()
    _malformed(ctx, out, ctx.budget(40, 300))
    out.extra["phase_wall_s"]["malformed"] = round(time.time() - t0, 1)

    # 5. violations are reported before any execution
    t0 = time.time()
    _before_execution(ctx, out, state, ctx.budget(40, 250))
    out.extra["phase_wall_s"]["before_execution"] = round(time.time() - t0, 1)

    out.extra["spec_disagreements_by_finding"] = {str(k): v for k, v in state["spec_fail"].items()}
    out.extra["rejections_observed_at_entry_points"] = state["exec_rejected"]
    out.extra["body_executions_on_rejection"] = state["exec_on_rejection"]
    out.exhaustive = False
    return out


def replay(ctx, payload):
    c = payload["case"]
    spec, a = c["spec"], c.get("assignment")
    cls, md, rows = observe(spec, [a])
    r = rows[0]
    print("definition (read back from the real class):", md)
    print("assignment:", a, "-> values", r["values"])
    print("implementation: _rule_violations =", r["errors"], " _check_rules accepted =", r["accepted"])
    m = _model_says(ctx, md, r, "replay")
    print("model :", m["model_rule_violations"] if isinstance(m, dict) else m)
    if isinstance(m, dict):
        print("spec  : formula holds =", m["spec_okb"], " (uncontested =", m["uncontested"] + ")")
