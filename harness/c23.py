"""C23 — Field values reach the command intact
(pydra/compose/shell/task.py split_cmd [shlex re-tokenisation of built strings], _format_arg; templating.argstr_formatting)."""
import json
import shutil
import tempfile

from .lib import coqio, shellgen as sg
from .lib.runner import Outcome, Failure

PROP = "C23"
PROPS_FILE = "Props/C23.v"
MANIFEST = dict(
    text="Partial. The property at full strength (C23_full_statement: whatever characters a string/path element "
         "contains it arrives as its own argument or verbatim inside the argument built by its argstr/separator) is "
         "REFUTED for the unchanged code by machine-checked witnesses (C23_refuted_space: 'a b' becomes two arguments; "
         "C23_refuted_quote: \"it's\" raises ValueError; finding F23; braces and the bracket clean-up rewrite templated "
         "values, F23b). C23_verbatim_benign proves for ALL fields and values inside a computable class (non-empty "
         "text without whitespace, quotes, backslash, braces; clean-up patterns absent) that the faithful model of "
         "_command_pos_args/_format_arg/split_cmd (string building + shlex re-tokenisation + quote stripping) returns "
         "exactly the reference contribution; C23_own_argument / C23_inside_template spell this out for every benign "
         "string. The shlex model is compared with CPython's shlex on every run; the model with pydra on generated "
         "fields with values from the full alphabet; a sample of tasks is really executed and the child's sys.argv "
         "compared.",
    note="Trusted: Coq kernel + vm_compute; hand-written models Model/Shell.v and Base/Shlex.v (differentially tested "
         "against pydra and CPython shlex on every run); str.format modelled for plain {name} only; non-ASCII Unicode "
         "whitespace outside the byte-string model.",
    technique="Coq proof (shlex.split = whitespace split on quote-free text; str.replace/str.format/strip lemmas over a "
              "template AST) + refutation witnesses + model/impl correspondence via generated cases.v + CPython shlex "
              "differential + real child processes",
    design="§8 Group F / C23",
)
TIE_NAME = ("Model.Shell.command_pos_args/split_cmd + Base.Shlex.split vs ShellTask._command_args (through Native.execute), "
            "CPython shlex.split, and the argv a real child process receives")
TRUSTED = [
    "Model/Shell.v: _format_arg / argstr_formatting / split_cmd (incl. the quote-stripping regular expression) by hand",
    "Base/Shlex.v: CPython shlex.split (POSIX, whitespace_split) as a state machine, compared with CPython on every run",
    "modelled-not-verified: str.format only for plain {name}; str(float) from Python; Path values are rendered by "
    "pathlib before they reach the model",
    "the harness: shellgen generator / Gallina encoder / exception canonicaliser / finding classifier",
]
ASSUMPTIONS = ["strings are byte strings (UTF-8) without NUL and without non-ASCII Unicode whitespace"]
RULE = ("1-3 field definitions (str/path/list/MultiInputObj, argstr empty/flag/templated/'...', separators) with "
        "positions absent or dense, values drawn 60% from the C23 alphabet (blank, tab, newline, quotes, backslash, "
        "$ * ; [ ] , unicode, vertical tab, 0x1c-0x1f) and 8% brace strings in templated fields, else benign words; "
        "non-trivial = some string/path element contains a character outside [A-Za-z0-9_./-]; distinct = distinct "
        "(definition, values) JSON; plus random strings over the shlex alphabet compared between CPython shlex and "
        "Base/Shlex.v; plus real executions with a python child printing sys.argv")

WS = set(" \t\n\r\x0b\x0c\x1c\x1d\x1e\x1f")


def atoms_of(case):
    for f in case["fields"]:
        v = case["values"].get(f["name"])
        if f["argstr"] is None or v is None or isinstance(v, bool):
            continue
        for a in (v["list"] if isinstance(v, dict) else [v]):
            if a[0] in ("str", "path"):
                yield f, a[1]


def classify(case, obs):
    """finding class of a spec failure outside the theorem's domain (None = not a known class)"""
    cls = None
    templated = any(sg.has_placeholder(f) for f in case["fields"])
    for f in case["fields"]:            # a field without argstr can still be referenced from another field's template
        v = case["values"].get(f["name"])
        if v is None or isinstance(v, bool):
            continue
        for a in (v["list"] if isinstance(v, dict) else [v]):
            if a[0] not in ("str", "path"):
                continue
            s = a[1]
            # what shlex re-tokenises: blank, tab, CR, LF, quotes, backslash ...
            if any(ch in " \t\n\r'\"\\" for ch in s):
                return "F23"
            # ... and what str.strip() in argstr_formatting removes at the ends of a templated argument
            if templated and s and (s[0] in WS or s[-1] in WS):
                return "F23"
            if templated and any(ch in "{}[]," for ch in a[1]):
                cls = "F23b"
    return cls


WHAT = {"F23": "value with whitespace / quote / backslash is re-tokenised by split_cmd",
        "F23b": "templated value rewritten by str.format braces or the bracket clean-up"}


def gen_cases(ctx, n, file_dir=None):
    rng = ctx.rng
    cases = [c for c in ctx.corpus() if "fields" in c]
    while len(cases) < n:
        c = sg.gen_definition(rng, max_fields=3, form="functional", pos_mode=rng.choice(["none", "dense"]),
                              kinds=["str", "str", "path", "list", "multi", "bool", "int"], file_dir=file_dir)
        sg.gen_values(rng, c, nasty=0.6, braces=0.08, falsy=0.0, unset=0.1)
        if isinstance(c["append"], dict):
            c["append"] = []
        for f in c["fields"]:            # order is C22's subject: no negative positions here (no wrap-around rejections)
            if f["pos"] is not None and f["pos"] < 0:
                f["pos"] = None
            if f["argstr"] and f["argstr"]["dots"]:   # '...' with a non-blank separator is C22's finding F22e
                f["sep"] = " "
        cases.append(c)
    return cases


def special(s):
    return any(not (ch.isascii() and (ch.isalnum() or ch in "_./-")) for ch in s)


def run(ctx):
    import shutil as _sh, tempfile as _tf
    file_dir = _tf.mkdtemp(prefix="verif-c23-files-")
    try:
        return _run(ctx, file_dir)
    finally:
        _sh.rmtree(file_dir, ignore_errors=True)


def _run(ctx, file_dir):
    import time
    t0 = time.time()
    rng = ctx.rng
    n = ctx.budget(300, 2500)
    cases = gen_cases(ctx, n, file_dir)
    metas, codes = sg.evaluate_argv(ctx, "c23", cases)
    t1 = time.time()
    dist = {"errors_ENoClosingQuote": 0, "errors_ENoEscaped": 0, "errors_EFormat": 0, "errors_other": 0,
            "templated_fields": 0, "list_fields": 0, "string_elements": 0, "elements_with_special_chars": 0}
    seen, nontrivial = set(), 0
    for c, obs in zip(cases, metas):
        e = obs["error"]
        if e:
            dist["errors_" + e if "errors_" + e in dist else "errors_other"] += 1
        dist["templated_fields"] += sum(sg.has_placeholder(f) for f in c["fields"])
        dist["list_fields"] += sum(f["ty"] in ("list", "multi") for f in c["fields"])
        els = [s for _, s in atoms_of(c)]
        dist["string_elements"] += len(els)
        dist["elements_with_special_chars"] += sum(special(s) for s in els)
        key = json.dumps([c["fields"], c["values"], c["append"]], sort_keys=True)
        if key not in seen:
            seen.add(key)
            nontrivial += any(special(s) for s in els)
    dist["in_partial_theorem_domain"] = sum(1 for k in codes if not k & 4)
    dist["spec_disagreements"] = sum(1 for k in codes if k & 2)
    out = Outcome(evaluations=len(cases), distinct_nontrivial=nontrivial, rule=RULE, distribution=dist,
                  traces_validated=len(cases),
                  samples=[{"case": sg.strip_case(c), "observed": {k: metas[i][k] for k in ("argv", "error")}}
                           for i, c in enumerate(cases[:3])],
                  extra={"model_agreements": sum(1 for k in codes if not k & 1),
                         "model_agreements_outside_domain": sum(1 for k in codes if k & 4 and not k & 1),
                         "cases_outside_domain": sum(1 for k in codes if k & 4)})
    by_class, pending = {}, []
    for i, k in enumerate(codes):
        c, obs = cases[i], metas[i]
        observed = {x: obs[x] for x in ("argv", "error", "stage")}
        if k & 2:
            fid = classify(c, obs) if k & 4 else None
            by_class[fid] = by_class.get(fid, 0) + 1
            if sum(1 for f, _ in pending if f.finding == fid and f.kind == "spec") < 3:
                pending.append((Failure(case=sg.strip_case(c), observed=observed, kind="spec", finding=fid,
                                        note=WHAT.get(fid, "a value does not arrive verbatim"
                                                      + (" inside the domain of C23_verbatim_benign" if not k & 4 else ""))),
                                sg.spec_term(c)))
        if k & 1 and (not k & 4 or k & 2) and sum(1 for f, _ in pending if f.kind == "tie") < 6:
            pending.append((Failure(case=sg.strip_case(c), observed=observed, kind="tie",
                                    note="model != implementation" + (" inside the domain of C23_verbatim_benign"
                                                                        if not k & 4 else " (and implementation != spec)")),
                            sg.model_term(c)))
    dist["spec_disagreements_by_class"] = {str(k): v for k, v in by_class.items()}
    out.failures = sg.fill_expected(ctx, pending)
    t2 = time.time()

    # ---- CPython shlex vs Base/Shlex.v
    strings = sg.gen_shlex_strings(rng, ctx.budget(300, 3000)) + [s for c in cases[:100] for _, s in atoms_of(c)]
    nshlex, bad = sg.check_shlex(ctx, "c23shlex", strings)
    out.evaluations += nshlex
    out.extra["shlex_strings_compared_with_cpython"] = nshlex
    out.extra["shlex_disagreements"] = len(bad)
    for s, r, k in bad[:5]:
        out.failures.append(Failure(case={"string": s}, observed={"cpython_shlex": r}, kind="tie",
                                    expected="Base/Shlex.v differs (code %d: 1=split, 2=join)" % k,
                                    note="Base/Shlex.v != CPython shlex"))
    t3 = time.time()

    # ---- what a real child process receives (observation point check)
    nchild = ctx.budget(8, 40)
    tmp = tempfile.mkdtemp(prefix="verif-c23-")
    child_ok = child_bad = 0
    try:
        picks = [i for i, o in enumerate(metas) if o["argv"] is not None]
        rng.shuffle(picks)
        for i in picks[:nchild]:
            c, obs = cases[i], metas[i]
            got = sg.observe_child(c, tmp)
            if got == obs["argv"]:
                child_ok += 1
            else:
                child_bad += 1
                out.failures.append(Failure(case=sg.strip_case(c), observed={"child_sys_argv": got},
                                            expected={"argv_handed_to_execute": obs["argv"]}, kind="tie",
                                            note="the executed child does not receive the argv observed at Native.execute"))
    finally:
        shutil.rmtree(tmp, ignore_errors=True)
    out.traces_validated += child_ok
    out.extra["child_processes_matching"] = child_ok
    out.extra["child_processes_differing"] = child_bad
    out.extra["phase_wall_s"] = {"implementation_and_coq": round(t1 - t0, 1), "replay_values": round(t2 - t1, 1),
                                 "shlex": round(t3 - t2, 1), "children": round(time.time() - t3, 1)}
    return out


def replay(ctx, payload):
    c = payload["case"]
    if "string" in c:
        import shlex
        try:
            print("CPython shlex.split:", shlex.split(c["string"]))
        except ValueError as e:
            print("CPython shlex.split: ValueError", e)
        print("Base/Shlex.v       :", coqio.eval_terms(ctx.scratch, "replay", ["Base.Shlex"], ["split %s" % coqio.string(c["string"])])[0])
        return 0
    obs = sg.observe(c)
    print("definition:", json.dumps(c["fields"]))
    print("values    :", json.dumps(c["values"]), "append:", c["append"], "exe:", c["exe"])
    print("implementation: argv=%s error=%s" % (obs["argv"], obs["error"]))
    vals = coqio.eval_terms(ctx.scratch, "replay", sg.IMPORTS, [sg.model_term(c), sg.spec_term(c)], extra=sg.ARGV_DEFS)
    print("model         :", vals[0])
    print("spec          :", vals[1])
    return 0
