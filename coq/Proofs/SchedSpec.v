(* Proofs/SchedSpec.v — facts about the specification objects of Spec/Sched.v themselves
   (graphs in topological order, the one-pass computation of "downstream of a failure"). *)
From Pydra Require Import Base.Prelude Base.SchedBase Spec.Sched Proofs.SchedA.
Local Open Scope nat_scope.

Lemma topo_b_nodup seen g :
  topo_b seen g = true -> NoDup (map nid g) /\ (forall x, In x (map nid g) -> ~ In x seen).
Proof.
  revert seen. induction g as [|nd g IH]; intros seen; cbn.
  - intros _. split; [constructor|tauto].
  - rewrite !andb_true_iff, negb_true_iff. intros [[_ Hx] H3].
    destruct (IH _ H3) as [ND Hs]. split.
    + constructor; [|exact ND]. intros H. apply (Hs _ H). left; reflexivity.
    + intros x [<-|Hin].
      * intros H. apply mem_nat_In in H. congruence.
      * intros H. apply (Hs _ Hin). right; exact H.
Qed.

Section Taint.
Variable g : graph.
Variable fails : job -> bool.
Hypothesis WF : wf_graph g.

Lemma tainted_nodes_acc nodes : forall acc x, In x acc -> In x (tainted_nodes g fails nodes acc).
Proof.
  induction nodes as [|nd r IH]; intros acc x H; cbn; [exact H|].
  destruct (existsb _ (npreds nd)); apply IH; [right|]; exact H.
Qed.

Lemma tainted_nodes_from nodes : forall acc x,
  In x (tainted_nodes g fails nodes acc) -> In x acc \/ In x (map nid nodes).
Proof.
  induction nodes as [|nd r IH]; intros acc x; cbn; [auto|].
  destruct (existsb _ (npreds nd)); intros H; apply IH in H.
  - destruct H as [[<-|H]|H]; auto.
  - destruct H; auto.
Qed.

Lemma tainted_nodes_app pre rest acc :
  tainted_nodes g fails (pre ++ rest) acc = tainted_nodes g fails rest (tainted_nodes g fails pre acc).
Proof.
  revert acc. induction pre as [|nd pre IH]; intros acc; cbn; [reflexivity|].
  destruct (existsb _ (npreds nd)); apply IH.
Qed.

Lemma existsb_ext_in {A} (f h : A -> bool) l :
  (forall x, In x l -> f x = h x) -> existsb f l = existsb h l.
Proof.
  induction l as [|x l IH]; cbn; intros H; [reflexivity|].
  rewrite (H x (or_introl eq_refl)). f_equal. apply IH. intros y Hy. apply H. right; exact Hy.
Qed.

Lemma tainted_char nd :
  In nd g ->
  tainted_b g fails (nid nd) =
  existsb (fun p => tainted_b g fails p || has_fail_b g fails p) (npreds nd).
Proof.
  intros Hin. apply in_split in Hin. destruct Hin as [pre [rest E]].
  pose proof WF as W. unfold wf_graph in W. rewrite E in W.
  destruct (topo_b_split _ _ _ _ W) as [Hp [_ Hn]].
  destruct (topo_b_nodup _ _ W) as [ND _]. rewrite map_app in ND. cbn in ND.
  pose proof (NoDup_remove_2 _ _ _ ND) as Hn2.
  assert (Hrest : ~ In (nid nd) (map nid rest)). { intros H. apply Hn2. apply in_or_app. right; exact H. }
  set (A := tainted_nodes g fails pre []).
  set (cond := existsb (fun p => mem_nat p A || has_fail_b g fails p) (npreds nd)).
  set (T := if cond then tainted_nodes g fails rest (nid nd :: A) else tainted_nodes g fails rest A).
  assert (Hfull : tainted_nodes g fails g [] = T).
  { unfold T, cond, A. rewrite E at 2. rewrite tainted_nodes_app. reflexivity. }
  unfold tainted_b. rewrite Hfull.
  assert (HAT : forall x, In x A -> In x T).
  { intros x Hx. unfold T. destruct cond; apply tainted_nodes_acc; [right|]; exact Hx. }
  assert (HTA : forall x, In x T -> In x A \/ (x = nid nd /\ cond = true) \/ In x (map nid rest)).
  { intros x Hx. unfold T in Hx. destruct cond; apply tainted_nodes_from in Hx.
    - destruct Hx as [[<-|Hx]|Hx]; auto.
    - destruct Hx; auto. }
  (* membership of a predecessor in the final list equals membership in A *)
  assert (HA : forall p, In p (npreds nd) -> mem_nat p T = mem_nat p A).
  { intros p Hpp. destruct (Hp p Hpp) as [[]|Hpre].
    assert (Hp2 : ~ In p (map nid (nd :: rest))).
    { intros H. apply in_split in Hpre. destruct Hpre as [l1 [l2 El]].
      rewrite El in ND. rewrite <- app_assoc in ND. cbn in ND.
      apply NoDup_remove_2 in ND. apply ND. apply in_or_app. right. apply in_or_app. right. exact H. }
    destruct (mem_nat p A) eqn:M.
    - apply mem_nat_In. apply mem_nat_In in M. auto.
    - destruct (mem_nat p T) eqn:M2; [|reflexivity].
      exfalso. apply mem_nat_In in M2.
      assert (M3 : ~ In p A). { intros H. apply mem_nat_In in H. congruence. }
      destruct (HTA _ M2) as [H|[[H _]|H]]; [contradiction| |].
      + apply Hp2. left. symmetry; exact H.
      + apply Hp2. right; exact H. }
  assert (Hcond : existsb (fun p => mem_nat p T || has_fail_b g fails p) (npreds nd) = cond).
  { unfold cond. apply existsb_ext_in. intros p Hpp. rewrite (HA p Hpp). reflexivity. }
  rewrite Hcond.
  destruct cond eqn:C.
  - apply mem_nat_In. unfold T. apply tainted_nodes_acc. left; reflexivity.
  - destruct (mem_nat (nid nd) T) eqn:M; [|reflexivity].
    exfalso. apply mem_nat_In in M. destruct (HTA _ M) as [H|[[_ H]|H]]; [|discriminate|contradiction].
    unfold A in H. apply tainted_nodes_from in H. destruct H as [[]|H]. contradiction.
Qed.

End Taint.
