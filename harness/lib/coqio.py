"""Emit Gallina literals, run coqc under a timeout, parse the short index lists it prints.

Everything the correspondence drivers need to talk to Coq lives here.  Nothing is cached between
runs: each check writes its own scratch directory under coq/Generated/<id>.<pid>/ and removes it.
"""
import fcntl
import os
import re
import shutil
import subprocess
import time

VERIF = os.path.dirname(os.path.dirname(os.path.dirname(os.path.abspath(__file__))))
COQ = os.path.join(VERIF, "coq")
COQFLAGS = ["-Q", COQ, "Pydra", "-w", "-notation-overridden,-deprecated-hint-without-locality,-deprecated-syntactic-definition"]


# ---------------------------------------------------------------- literals
def nat(n):
    assert isinstance(n, int) and 0 <= n < 5000, n
    return "%d%%nat" % n


def z(n):
    return "(%d)%%Z" % n


def boolean(b):
    return "true" if b else "false"


def string(s):
    """Coq `string` literal for a Python str (encoded utf-8) or bytes."""
    b = s.encode("utf-8") if isinstance(s, str) else bytes(s)
    if all(32 <= c <= 126 for c in b):
        return '"' + b.decode("ascii").replace('"', '""') + '"%string'
    return "(bs [" + "; ".join(str(c) for c in b) + "]%nat)"


def lst(items):
    return "[" + "; ".join(items) + "]%list"


def pair(*items):
    return "(" + ", ".join(items) + ")"


def option(x):
    return "None" if x is None else "(Some %s)" % x


def app(ctor, *args):
    return "(" + " ".join([ctor] + list(args)) + ")" if args else ctor


# ---------------------------------------------------------------- build
def _lock():
    f = open(os.path.join(COQ, ".build.lock"), "w")
    fcntl.flock(f, fcntl.LOCK_EX)
    return f


def make(targets, timeout=1500):
    """(Re)build the given .vo targets. Returns (ok, output)."""
    lk = _lock()
    try:
        subprocess.run([os.path.join(COQ, "mkproject.sh")], check=True)
        try:
            p = subprocess.run(["timeout", str(timeout), "make", "-j8"] + list(targets), cwd=COQ,
                               stdout=subprocess.PIPE, stderr=subprocess.STDOUT, text=True)
        except Exception as e:  # pragma: no cover
            return False, repr(e)
        return p.returncode == 0, p.stdout
    finally:
        lk.close()


class Scratch:
    def __init__(self, prop):
        self.dir = os.path.join(COQ, "Generated", "%s.%d" % (prop, os.getpid()))
        shutil.rmtree(self.dir, ignore_errors=True)
        os.makedirs(self.dir)

    def close(self):
        shutil.rmtree(self.dir, ignore_errors=True)


def coqc(path, timeout=600):
    t0 = time.time()
    p = subprocess.run(["timeout", str(timeout), "coqc"] + COQFLAGS + [path],
                       stdout=subprocess.PIPE, stderr=subprocess.STDOUT, text=True, cwd=os.path.dirname(path))
    return p.returncode, p.stdout, time.time() - t0


_EVAL = re.compile(r"^\s*=\s*(.*?)\n\s*:\s", re.S | re.M)


def split_evals(out):
    """The values printed by successive `Eval vm_compute in ...` commands, as raw text."""
    return [re.sub(r"\s+", " ", m.group(1)).strip() for m in _EVAL.finditer(out)]


def parse_nat_list(txt):
    txt = txt.strip()
    if txt.endswith("%nat"):
        txt = txt[:-4]
    assert txt.startswith("[") and txt.endswith("]"), txt
    body = txt[1:-1].strip()
    return [int(x.replace("%nat", "")) for x in body.split(";")] if body else []


def run_cases(scratch, name, imports, case_type, cases, checks, extra="", shard=300, timeout=600):
    """Write cases_<name>_<k>.v files, compile them in parallel, and return
    {check_name: sorted list of global case indices for which the boolean check is false}.

    imports   : list of logical module names (e.g. "Model.Mount")
    case_type : Gallina type of one case
    cases     : list of Gallina terms
    checks    : {check_name: Gallina function case_type -> bool}
    """
    files = []
    for k in range(0, max(len(cases), 1), shard):
        part = cases[k:k + shard]
        path = os.path.join(scratch.dir, "cases_%s_%d.v" % (name, k // shard))
        with open(path, "w") as f:
            f.write("From Pydra Require Import Base.Prelude %s.\n" % " ".join(imports))
            f.write("Set Printing Width 1000000.\nSet Printing Depth 1000000.\n")
            f.write(extra + "\n")
            f.write("Definition cases : list (%s) :=\n [" % case_type)
            f.write(";\n  ".join(part))
            f.write("]%list.\n")
            for cname, fn in checks.items():
                f.write("Eval vm_compute in (bad (%s) cases).\n" % fn)
        files.append((k, path))
    procs = []
    results = {c: [] for c in checks}
    pending = list(files)
    running = []
    maxpar = 8
    errors = []
    while pending or running:
        while pending and len(running) < maxpar:
            k, path = pending.pop(0)
            pr = subprocess.Popen(["timeout", str(timeout), "coqc"] + COQFLAGS + [path],
                                  stdout=subprocess.PIPE, stderr=subprocess.STDOUT, text=True,
                                  cwd=os.path.dirname(path))
            running.append((k, path, pr))
        k, path, pr = running.pop(0)
        out, _ = pr.communicate()
        if pr.returncode != 0:
            errors.append((path, out[-2000:]))
            continue
        vals = split_evals(out)
        if len(vals) != len(checks):
            errors.append((path, "expected %d evals, got %r" % (len(checks), out[-2000:])))
            continue
        for cname, v in zip(checks, vals):
            results[cname].extend(k + i for i in parse_nat_list(v))
    if errors:
        raise CoqCaseError(errors)
    for c in results:
        results[c].sort()
    return results


class CoqCaseError(Exception):
    pass


def eval_terms(scratch, name, imports, terms, extra="", timeout=300):
    """Evaluate Gallina terms with vm_compute and return their printed values (raw text)."""
    path = os.path.join(scratch.dir, "eval_%s.v" % name)
    with open(path, "w") as f:
        f.write("From Pydra Require Import Base.Prelude %s.\n" % " ".join(imports))
        f.write("Set Printing Width 1000000.\nSet Printing Depth 1000000.\n" + extra + "\n")
        for t in terms:
            f.write("Eval vm_compute in (%s).\n" % t)
    rc, out, _ = coqc(path, timeout)
    if rc != 0:
        raise CoqCaseError([(path, out[-2000:])])
    return split_evals(out)


def print_assumptions(scratch, prop_module, theorems, timeout=300):
    """Return {theorem: assumptions text} by compiling a tiny file that imports the compiled Props file."""
    path = os.path.join(scratch.dir, "assum.v")
    with open(path, "w") as f:
        f.write("From Pydra Require Import %s.\n" % prop_module)
        for t in theorems:
            f.write('Print Assumptions %s.\n' % t)
    rc, out, _ = coqc(path, timeout)
    if rc != 0:
        return None, out
    # outputs are separated: either "Closed under the global context" or "Axioms:\n..."
    chunks = re.split(r"(?=Closed under the global context|Axioms:)", out)
    chunks = [c.strip() for c in chunks if c.strip()]
    res = {}
    for t, c in zip(theorems, chunks):
        res[t] = c
    return res, out


def run_case_codes(scratch, name, imports, case_type, cases, code_fn, extra="", shard=300, timeout=600, maxpar=6):
    """Like run_cases, but evaluates ONE Gallina function case_type -> nat per case (e.g. a bit mask of several
    checks, so that model and spec are evaluated once) and returns the list of codes in case order."""
    files = []
    for k in range(0, max(len(cases), 1), shard):
        part = cases[k:k + shard]
        path = os.path.join(scratch.dir, "codes_%s_%d.v" % (name, k // shard))
        with open(path, "w") as f:
            f.write("From Pydra Require Import Base.Prelude %s.\n" % " ".join(imports))
            f.write("Set Printing Width 1000000.\nSet Printing Depth 1000000.\n")
            f.write(extra + "\n")
            f.write("Definition cases : list (%s) :=\n [" % case_type)
            f.write(";\n  ".join(part))
            f.write("]%list.\n")
            f.write("Eval vm_compute in (map (%s) cases).\n" % code_fn)
        files.append((k, path, len(part)))
    codes = [None] * len(cases)
    pending, running, errors = list(files), [], []
    while pending or running:
        while pending and len(running) < maxpar:
            k, path, n = pending.pop(0)
            pr = subprocess.Popen(["timeout", str(timeout), "coqc"] + COQFLAGS + [path],
                                  stdout=subprocess.PIPE, stderr=subprocess.STDOUT, text=True,
                                  cwd=os.path.dirname(path))
            running.append((k, path, n, pr))
        k, path, n, pr = running.pop(0)
        out, _ = pr.communicate()
        if pr.returncode != 0:
            errors.append((path, out[-2000:]))
            continue
        vals = split_evals(out)
        if len(vals) != 1:
            errors.append((path, "expected 1 eval, got %r" % out[-2000:]))
            continue
        got = parse_nat_list(vals[0])
        if len(got) != n:
            errors.append((path, "expected %d codes, got %d" % (n, len(got))))
            continue
        codes[k:k + n] = got
    if errors:
        raise CoqCaseError(errors)
    return codes
