(* Proofs/SchedL.v — when no job fails the sequential loop ends by itself within |jobs| + 1 iterations. *)
From Pydra Require Import Base.Prelude Base.SchedBase Model.Sched Spec.Sched Proofs.SchedA Proofs.SchedSpec Proofs.SchedSpec2 Proofs.SchedB Proofs.SchedC Proofs.SchedD Proofs.SchedE Proofs.SchedF Proofs.SchedG Proofs.SchedH Proofs.SchedI Proofs.SchedJ Proofs.SchedK.
Local Open Scope nat_scope.

Section LiveSync.
Variable V : Type.
Variable body : nat -> nat -> list (list (option V)) -> V.
Variable fails : job -> bool.
Variable vr : variant.
Hypothesis F14 : fix14 vr = true.
Variable g : graph.
Hypothesis WF : wf_graph g.
Variable kmax : option nat.
Hypothesis NF : forall j, fails j = false.
Hypothesis NJ : forall nd, In nd g -> 1 <= njobs nd.
Hypothesis KP : forall k, kmax = Some k -> 1 <= k.

Notation world := (world V).
Notation sstate := (sstate V).
Notation lstate := (lstate V).
Notation GInv := (GInv V fails g).
Notation WInv := (WInv V fails).
Notation SyInv := (SyInv V body fails vr g).
Notation runs := (@runs V).

Lemma run_tasks_struct ss : forall tasks (w : world) errs tr acc,
  visible w = [] ->
  let '(w', errs', tr', acc', failed) := run_tasks body fails tasks ss w errs tr acc in
  failed = false /\ visible w' = [] /\ count_finish tr <= count_finish tr'
  /\ (exists new, acc' = acc ++ new /\ forall j, In j new -> In j tasks)
  /\ (forall j r, tasks = j :: r -> is_ok w j = false -> S (count_finish tr) <= count_finish tr').
Proof.
  induction tasks as [|j tasks IH]; intros w errs tr acc Hv; cbn [run_tasks].
  - split; [reflexivity|split; [exact Hv|split; [lia|split]]].
    + exists []. rewrite app_nil_r. split; [reflexivity|intros j []].
    + intros j r X; discriminate.
  - destruct (is_ok w j) eqn:Ok.
    + specialize (IH w errs tr acc Hv).
      destruct (run_tasks body fails tasks ss w errs tr acc) as [[[[w' errs'] tr'] acc'] failed].
      destruct IH as [A [B [C [[new [D1 D2]] _]]]].
      split; [exact A|split; [exact B|split; [exact C|split]]].
      * exists new. split; [exact D1|intros q Hq; right; apply D2; exact Hq].
      * intros j0 r X Y. inversion X; subst j0 r. congruence.
    + unfold job_result. rewrite NF.
      specialize (IH (mkW (results w ++ [(j, Some (body (fst j) (snd j) (ninputs (nst ss (fst j)))))]) []) errs
                     (EFinish j true :: ELaunch j :: tr) (acc ++ [j]) eq_refl).
      destruct (run_tasks body fails tasks ss _ errs _ (acc ++ [j])) as [[[[w' errs'] tr'] acc'] failed].
      destruct IH as [A [B [C [[new [D1 D2]] _]]]].
      rewrite count_finish_cons_f, count_finish_cons_l in C.
      split; [exact A|split; [exact B|split; [lia|split]]].
      * exists (j :: new). rewrite D1, <- app_assoc. split; [reflexivity|].
        intros q [<-|Hq]; [left; reflexivity|right; apply D2; exact Hq].
      * intros _ _ _ _. lia.
Qed.

Record SPInv (ls : lstate) : Prop := {
  sp_vis : visible (ls_w ls) = [];
  sp_run : forall n, running (nst (ls_ss ls) n) = [];
  sp_fs : forall j, In j (ls_futured ls) -> runs (ls_ss ls) j;
  sp_none : forall j, In j (ls_tasks ls) -> is_none (ls_w ls) j = true;
  sp_q : ls_tasks ls = [] -> any_not_done vr g (ls_w ls) (ls_ss ls) = false
}.

Lemma sync_step_prog (ls : lstate) :
  SyInv ls -> no_err V (ls_w ls) -> SPInv ls ->
  match sync_step body fails vr g kmax ls with
  | Stop Finished _ => True
  | Stop _ _ => False
  | Continue ls' => SPInv ls' /\ S (count_finish (ls_trace ls)) <= count_finish (ls_trace ls')
  end.
Proof.
  intros S NE P. destruct S as [[G W Vi T Tt Pr] FD PE PA]. destruct P as [SV SR SF SN SQ]. unfold sync_step.
  rewrite (gi_raised _ _ _ _ _ G).
  destruct (is_nil (ls_tasks ls)) eqn:Nt.
  - apply is_nil_true in Nt. rewrite (SQ Nt). cbn. exact I.
  - cbn [negb orb].
    rewrite PE in Tt.
    pose proof (run_tasks_spec V body fails vr g WF (ls_w ls) (ls_ss ls) (ls_tasks ls) (ls_w ls) (ls_errors ls) (ls_trace ls) (ls_futured ls) []
                  G (wle_refl V _) W Vi Tt FD NE PA T) as RS.
    pose proof (run_tasks_struct (ls_ss ls) (ls_tasks ls) (ls_w ls) (ls_errors ls) (ls_trace ls) [] SV) as RT.
    destruct (run_tasks body fails (ls_tasks ls) (ls_ss ls) (ls_w ls) (ls_errors ls) (ls_trace ls) []) as [[[[w1 errs1] tr1] launched] failed].
    destruct RS as [new [Ea [L1 [W1 [V1 [T1 [FD1 [NE1 P1]]]]]]]]. cbn in Ea. subst launched.
    destruct RT as [Ff [Hv1 [Cm [[new' [Ea' Hn']] Cs]]]]. cbn in Ea'. subst new'. subst failed.
    assert (G1 : GInv w1 (ls_ss ls)) by (eapply GInv_mono; eauto).
    assert (FS1 : forall j, In j (ls_futured ls ++ new) -> runs (ls_ss ls) j).
    { intros j Hj. apply in_app_or in Hj. destruct Hj as [Hj|Hj]; [apply SF; exact Hj|apply T; apply Hn'; exact Hj]. }
    assert (Hfin : forall j, is_none w1 j = false -> started_flag (nst (ls_ss ls) (fst j)) = true).
    { intros j Hj. apply FS1. apply (ti_res_fut _ _ _ _ _ _ _ _ _ _ T1 j Hj). }
    pose proof (poll_keeps V body fails vr F14 g WF kmax w1 (ls_ss ls) (ls_futured ls ++ new) G1 W1 FS1) as [G4 [T5 FS4]].
    pose proof (poll_run_from V body vr F14 g kmax w1 (ls_ss ls)) as RF4.
    pose proof (poll_none V body fails vr F14 g WF kmax w1 (ls_ss ls) G1 W1 Hfin) as NO4.
    assert (PP : snd (poll vr g kmax w1 (ls_ss ls)) <> [] \/ any_not_done vr g w1 (fst (poll vr g kmax w1 (ls_ss ls))) = false).
    { apply (poll_progress V body fails vr F14 g WF kmax NF NJ KP w1 (ls_ss ls) G1 W1).
      - intros n i Hi. rewrite SR in Hi. destruct Hi.
      - intros j. rewrite Hv1. reflexivity. }
    destruct (poll vr g kmax w1 (ls_ss ls)) as [ss2 tasks2]. cbn [fst snd] in *.
    split.
    + constructor; cbn [ls_ss ls_w ls_tasks ls_futured ls_pending ls_errors ls_trace].
      * exact Hv1.
      * intros n. apply nil_of_no_mem. intros i Hi. destruct (RF4 n i Hi) as [X|X].
        -- rewrite SR in X. destruct X.
        -- rewrite Hv1 in X. discriminate.
      * exact FS4.
      * exact NO4.
      * intros Ht0. destruct PP as [X|X]; [contradiction|exact X].
    + cbn [ls_trace]. destruct (ls_tasks ls) as [|j r] eqn:Et; [discriminate|].
      apply (Cs j r eq_refl). pose proof (SN j (or_introl eq_refl)) as X.
      unfold is_none, is_ok in *. destruct (probe_job (ls_w ls) j); congruence.
Qed.

Lemma sync_finish_bound (ls : lstate) : SyInv ls -> count_finish (ls_trace ls) <= List.length (all_jobs g).
Proof.
  intros S. pose proof (li_t _ _ _ _ _ _ _ (sy_l _ _ _ _ _ _ S)) as T.
  pose proof (ti_count _ _ _ _ _ _ _ _ _ _ T) as C.
  assert (L : count_launch (ls_trace ls) = List.length (ls_futured ls)).
  { rewrite <- (ti_fut _ _ _ _ _ _ _ _ _ _ T). symmetry. apply count_launch_rev. }
  assert (B : List.length (ls_futured ls) <= List.length (all_jobs g)).
  { apply NoDup_incl_length; [apply (ti_nodup _ _ _ _ _ _ _ _ _ _ T)|].
    intros j Hj. apply (ti_fut_ok _ _ _ _ _ _ _ _ _ _ T j Hj). }
  lia.
Qed.

Lemma run_sync_loop_terminates : forall fuel ls,
  SyInv ls -> no_err V (ls_w ls) -> SPInv ls ->
  List.length (all_jobs g) + 1 <= fuel + count_finish (ls_trace ls) ->
  o_status (run_sync_loop body fails vr g kmax fuel ls) = Finished.
Proof.
  induction fuel as [|f IH]; intros ls S NE P B.
  - pose proof (sync_finish_bound ls S). lia.
  - cbn [run_sync_loop].
    pose proof (sync_step_spec V body fails vr F14 g WF kmax ls S NE) as S1.
    pose proof (sync_step_prog ls S NE P) as S2.
    destruct (sync_step body fails vr g kmax ls) as [ls'|st ls'].
    + destruct S1 as [S' NE']. destruct S2 as [P' C]. apply IH; auto. lia.
    + destruct st; try contradiction. reflexivity.
Qed.

Lemma SPInv_init : SPInv (ls_init V vr g kmax).
Proof.
  unfold ls_init.
  assert (W0 : WInv (w_init V)). { intros j. split; unfold is_ok, is_err, probe_job; cbn; discriminate. }
  pose proof (poll_run_from V body vr F14 g kmax (w_init V) (ss_init V)) as RF.
  pose proof (poll_none V body fails vr F14 g WF kmax (w_init V) (ss_init V) (GInv_init V body fails g) W0) as NO.
  pose proof (poll_progress V body fails vr F14 g WF kmax NF NJ KP (w_init V) (ss_init V) (GInv_init V body fails g) W0) as PP.
  destruct (poll vr g kmax (w_init V) (ss_init V)) as [ss tasks]. cbn [fst snd] in *.
  constructor; cbn [ls_ss ls_w ls_tasks ls_futured ls_pending ls_errors ls_trace].
  - reflexivity.
  - intros n. apply nil_of_no_mem. intros i Hi. destruct (RF n i Hi) as [X|X]; [destruct X|discriminate].
  - intros j [].
  - apply NO. intros j Hj. unfold is_none, probe_job in Hj. cbn in Hj. discriminate.
  - intros Ht. destruct PP as [X|X]; [intros n i []|reflexivity|contradiction|exact X].
Qed.

Theorem sync_terminates fuel :
  List.length (all_jobs g) + 1 <= fuel -> o_status (run_sync V body fails vr g kmax fuel) = Finished.
Proof.
  intros B. unfold run_sync. destruct (SyInv_init V body fails vr F14 g WF kmax) as [S NE].
  apply run_sync_loop_terminates; auto; [apply SPInv_init|lia].
Qed.

End LiveSync.
