(* Proofs/StateClass2.v — C02: good_removalb proved for flat outer products whose operands are plain fields or inner
   PAIRS of plain fields. *)
From Coq Require Import Permutation Sorting.Sorted.
From Pydra Require Import Base.Prelude Model.State Spec.State Proofs.State Proofs.StateSpell Proofs.StateComb
  Proofs.StateProj Proofs.StateClass.

Inductive atom := AF (f : nat) | AP (g1 g2 : nat).
Definition sa (a : atom) : spl := match a with AF f => Fld f | AP g1 g2 => Inner [Fld g1; Fld g2] end.
Definition afields (a : atom) : list nat := match a with AF f => [f] | AP g1 g2 => [g1; g2] end.
Definition atoks (a : atom) : list tok := match a with AF f => [TF f] | AP g1 g2 => [TF g1; TF g2; TDot] end.
Definition atoms_spl (l : list atom) : spl := Outer (map sa l).

Lemma rpn_sa a : rpn (sa a) = atoks a.
Proof. destruct a; reflexivity. Qed.

Lemma rpn_atoms a l : rpn (atoms_spl (a :: l)) = atoks a ++ flat_map (fun b => atoks b ++ [TMul]) l.
Proof.
  unfold atoms_spl. cbn [map rpn]. rewrite rpn_sa. f_equal.
  induction l as [|b l IH]; [reflexivity|]. cbn [map flat_map]. rewrite rpn_sa, IH. reflexivity.
Qed.

Lemma leaves_atoms l : leaves (atoms_spl l) = flat_map afields l.
Proof.
  unfold atoms_spl. cbn [leaves]. induction l as [|a l IH]; [reflexivity|]. cbn [map flat_map]. rewrite IH.
  destruct a; reflexivity.
Qed.

(* ---------------------------------------------------------------- remove_inp_from_splitter_rpn *)
Section RemoveA.
  Variable rm : list nat.
  Definition keepa (a : atom) : bool := match a with AF f => negb (memb f rm) | AP g1 _ => negb (memb g1 rm) end.
  (* an inner pair is removed as a whole or not at all *)
  Definition closeda (a : atom) : Prop := match a with AF _ => True | AP g1 g2 => memb g2 rm = memb g1 rm end.

  Definition rblock (a : atom) : list tok :=
    match a with AF f => [TMul; TF f] | AP g1 g2 => [TMul; TDot; TF g2; TF g1] end.
  Definition rblocks (l : list atom) : list tok := flat_map rblock l.
  Definition aw (a : atom) : nat := match a with AF _ => 2 | AP _ _ => 4 end.
  Fixpoint AW (l : list atom) : nat := match l with [] => 0 | a :: l' => aw a + AW l' end.

  Definition sgb (a : atom) (ii : nat) : list nat := match a with AF _ => [ii] | AP _ _ => [ii; S ii] end.
  Definition inb (a : atom) (ii : nat) : list nat := match a with AF _ => [S ii] | AP _ _ => [S (S ii); S (S (S ii))] end.
  Definition flb (a : atom) : list nat := match a with AF _ => [1] | AP _ _ => [2; 0] end.

  Fixpoint SGa (l : list atom) (ii : nat) : list nat :=
    match l with [] => [] | a :: l' => (if keepa a then sgb a ii else []) ++ SGa l' (aw a + ii) end.
  Fixpoint INa (l : list atom) (ii : nat) : list nat :=
    match l with [] => [] | a :: l' => (if keepa a then inb a ii else []) ++ INa l' (aw a + ii) end.
  (* from_last_sign after the scan, most recent first *)
  Fixpoint FLa (l : list atom) : list nat :=
    match l with [] => [] | a :: l' => FLa l' ++ (if keepa a then flb a else []) end.

  Lemma loop_blocks : forall l ii sgn inp fls tail, Forall closeda l ->
    remove_loop (rblocks l ++ tail) ii rm sgn inp fls =
    remove_loop tail (AW l + ii) rm (rev (SGa l ii) ++ sgn) (rev (INa l ii) ++ inp) (FLa l ++ fls).
  Proof.
    induction l as [|a l IH]; intros ii sgn inp fls tail C.
    - reflexivity.
    - apply Forall_cons_iff in C as [Ca C]. cbn [rblocks flat_map]. fold (rblocks l). rewrite <- app_assoc.
      cbn [SGa INa FLa AW]. destruct a as [f|g1 g2]; cbn [rblock app remove_loop keepa closeda aw sgb inb flb Nat.add] in *.
      + destruct (memb f rm); cbn [negb Nat.leb tl app].
        * rewrite IH by exact C. rewrite app_nil_r. f_equal. lia.
        * rewrite IH by exact C. cbn [rev app]. rewrite <- !app_assoc. cbn [app]. f_equal. lia.
      + rewrite Ca. destruct (memb g1 rm); cbn [negb Nat.leb tl app].
        * rewrite IH by exact C. rewrite app_nil_r. f_equal. lia.
        * rewrite IH by exact C. cbn [rev app]. rewrite <- !app_assoc. cbn [app]. f_equal. lia.
  Qed.

  Lemma SGa_bd l : forall ii x, In x (SGa l ii) -> ii <= x < AW l + ii.
  Proof.
    induction l as [|a l IH]; intros ii x H; cbn [SGa AW] in *; [contradiction|]. apply in_app_or in H as [H|H].
    - destruct (keepa a); [|contradiction]. destruct a; cbn [sgb aw In] in *; intuition lia.
    - apply IH in H. destruct a; cbn [aw] in *; lia.
  Qed.
  Lemma INa_bd l : forall ii x, In x (INa l ii) -> S ii <= x < AW l + ii.
  Proof.
    induction l as [|a l IH]; intros ii x H; cbn [INa AW] in *; [contradiction|]. apply in_app_or in H as [H|H].
    - destruct (keepa a); [|contradiction]. destruct a; cbn [inb aw In] in *; intuition lia.
    - apply IH in H. destruct a; cbn [aw] in *; lia.
  Qed.

  Fixpoint kp_blocks (l : list atom) (ii : nat) (K : list nat) : list tok :=
    match l with
    | [] => []
    | AF f :: l' => (if memb ii K then [TMul] else []) ++ (if memb (S ii) K then [TF f] else []) ++ kp_blocks l' (2 + ii) K
    | AP g1 g2 :: l' => (if memb ii K then [TMul] else []) ++ (if memb (S ii) K then [TDot] else []) ++
                        (if memb (S (S ii)) K then [TF g2] else []) ++ (if memb (S (S (S ii))) K then [TF g1] else []) ++
                        kp_blocks l' (4 + ii) K
    end.

  Lemma kp_splitA K t : forall l ii,
    keep_positions (rblocks l ++ t) ii K = kp_blocks l ii K ++ keep_positions t (AW l + ii) K.
  Proof.
    induction l as [|a l IH]; intros ii; [reflexivity|]. cbn [rblocks flat_map]. fold (rblocks l). rewrite <- app_assoc.
    destruct a as [f|g1 g2]; cbn [rblock app keep_positions kp_blocks AW aw Nat.add]; rewrite IH.
    - replace (AW l + S (S ii)) with (S (S (AW l + ii))) by lia.
      destruct (memb ii K), (memb (S ii) K); reflexivity.
    - replace (AW l + S (S (S (S ii)))) with (S (S (S (S (AW l + ii))))) by lia.
      destruct (memb ii K), (memb (S ii) K), (memb (S (S ii)) K), (memb (S (S (S ii))) K); reflexivity.
  Qed.

  Definition OUTKa (l : list atom) : list tok := flat_map (fun a => if keepa a then rblock a else []) l.
  Definition sgd_last (a : atom) (ii : nat) : list nat := match a with AF _ => [] | AP _ _ => [S ii] end.
  Fixpoint SGDa (l : list atom) (ii : nat) : list nat :=
    match l with
    | [] => []
    | a :: l' => if keepa a then (match SGa l' (aw a + ii) with [] => sgd_last a ii | _ => sgb a ii ++ SGDa l' (aw a + ii) end)
                 else SGDa l' (aw a + ii)
    end.
  Fixpoint OUT1a (l : list atom) (ii : nat) : list tok :=
    match l with
    | [] => []
    | a :: l' => if keepa a then (match SGa l' (aw a + ii) with [] => tl (rblock a) | _ => rblock a ++ OUT1a l' (aw a + ii) end)
                 else OUT1a l' (aw a + ii)
    end.

  Lemma SGDa_in l : forall ii x, In x (SGDa l ii) -> In x (SGa l ii).
  Proof.
    induction l as [|a l IH]; intros ii x H; cbn [SGDa SGa] in *; [contradiction|].
    destruct (keepa a); [|apply IH; exact H]. destruct (SGa l (aw a + ii)) as [|z zs] eqn:E.
    - rewrite app_nil_r. destruct a; cbn [sgd_last sgb In] in *; intuition.
    - apply in_app_or in H as [H|H]; apply in_or_app; [left; exact H| right; rewrite <- E; apply IH; exact H].
  Qed.

  Lemma SGa_nil_OUT1 l : forall ii, SGa l ii = [] -> OUT1a l ii = [] /\ SGDa l ii = [].
  Proof.
    induction l as [|a l IH]; intros ii H; [split; reflexivity|]. cbn [SGa OUT1a SGDa] in *.
    destruct (keepa a); [destruct a; discriminate| apply IH; exact H].
  Qed.

  (* a boolean that is equivalent to a proposition is decided by deciding the proposition *)
  Lemma memb_yes K x P : (memb x K = true <-> P) -> P -> memb x K = true.
  Proof. tauto. Qed.
  Lemma memb_no K x P : (memb x K = true <-> P) -> ~ P -> memb x K = false.
  Proof. intros H N. destruct (memb x K); [exfalso; tauto| reflexivity]. Qed.

  Lemma sgb_lt a ii x : In x (if keepa a then sgb a ii else []) -> x < aw a + ii.
  Proof. destruct (keepa a); [|contradiction]. destruct a; cbn [sgb aw In]; intros H; repeat destruct H as [H|H]; try lia; contradiction. Qed.
  Lemma inb_lt a ii x : In x (if keepa a then inb a ii else []) -> x < aw a + ii.
  Proof. destruct (keepa a); [|contradiction]. destruct a; cbn [inb aw In]; intros H; repeat destruct H as [H|H]; try lia; contradiction. Qed.

  Lemma kp_keepA K : forall l ii,
    (forall x, ii <= x < AW l + ii -> (memb x K = true <-> In x (SGa l ii) \/ In x (INa l ii))) ->
    kp_blocks l ii K = OUTKa l.
  Proof.
    induction l as [|a l IH]; intros ii H; [reflexivity|]. cbn [OUTKa flat_map]. fold (OUTKa l).
    assert (Hrest : forall x, aw a + ii <= x < AW l + (aw a + ii) ->
                    (memb x K = true <-> In x (SGa l (aw a + ii)) \/ In x (INa l (aw a + ii)))).
    { intros x Hx. rewrite (H x) by (cbn [AW]; lia). cbn [SGa INa]. rewrite !in_app_iff. split.
      - intros [[A|A]|[A|A]]; [apply sgb_lt in A; lia| left; exact A| apply inb_lt in A; lia| right; exact A].
      - intros [A|A]; [left; right; exact A| right; right; exact A]. }
    specialize (IH (aw a + ii) Hrest).
    assert (NS : forall p, p < aw a + ii -> ~ (In p (SGa l (aw a + ii)) \/ In p (INa l (aw a + ii)))).
    { intros p Hp [A|A]; [apply SGa_bd in A| apply INa_bd in A]; lia. }
    destruct a as [f|g1 g2]; cbn [kp_blocks aw Nat.add] in *.
    - pose proof (H ii ltac:(cbn [AW aw]; lia)) as H0. pose proof (H (S ii) ltac:(cbn [AW aw]; lia)) as H1.
      cbn [SGa INa aw Nat.add] in H0, H1. rewrite !in_app_iff in H0, H1. rewrite IH.
      destruct (keepa (AF f)); cbn [sgb inb In app] in H0, H1.
      + rewrite (memb_yes K _ _ H0) by (left; left; left; reflexivity).
        rewrite (memb_yes K _ _ H1) by (right; left; left; reflexivity). reflexivity.
      + rewrite (memb_no K _ _ H0) by (specialize (NS ii ltac:(lia)); tauto).
        rewrite (memb_no K _ _ H1) by (specialize (NS (S ii) ltac:(lia)); tauto). reflexivity.
    - pose proof (H ii ltac:(cbn [AW aw]; lia)) as H0. pose proof (H (S ii) ltac:(cbn [AW aw]; lia)) as H1.
      pose proof (H (S (S ii)) ltac:(cbn [AW aw]; lia)) as H2. pose proof (H (S (S (S ii))) ltac:(cbn [AW aw]; lia)) as H3.
      cbn [SGa INa aw Nat.add] in H0, H1, H2, H3. rewrite !in_app_iff in H0, H1, H2, H3. rewrite IH.
      destruct (keepa (AP g1 g2)); cbn [sgb inb In app] in H0, H1, H2, H3.
      + rewrite (memb_yes K _ _ H0) by (left; left; left; reflexivity).
        rewrite (memb_yes K _ _ H1) by (left; left; right; left; reflexivity).
        rewrite (memb_yes K _ _ H2) by (right; left; left; reflexivity).
        rewrite (memb_yes K _ _ H3) by (right; left; right; left; reflexivity). reflexivity.
      + rewrite (memb_no K _ _ H0) by (specialize (NS ii ltac:(lia)); tauto).
        rewrite (memb_no K _ _ H1) by (specialize (NS (S ii) ltac:(lia)); tauto).
        rewrite (memb_no K _ _ H2) by (specialize (NS (S (S ii)) ltac:(lia)); tauto).
        rewrite (memb_no K _ _ H3) by (specialize (NS (S (S (S ii))) ltac:(lia)); tauto). reflexivity.
  Qed.

  Lemma kp_dropA K : forall l ii,
    (forall x, ii <= x < AW l + ii -> (memb x K = true <-> In x (SGDa l ii) \/ In x (INa l ii))) ->
    kp_blocks l ii K = OUT1a l ii.
  Proof.
    induction l as [|a l IH]; intros ii H; [reflexivity|].
    assert (NS : forall p, p < aw a + ii -> ~ (In p (SGDa l (aw a + ii)) \/ In p (INa l (aw a + ii)))).
    { intros p Hp [A|A]; [apply SGDa_in, SGa_bd in A| apply INa_bd in A]; lia. }
    assert (Hrest : forall x, aw a + ii <= x < AW l + (aw a + ii) ->
                    (memb x K = true <-> In x (SGDa l (aw a + ii)) \/ In x (INa l (aw a + ii)))).
    { intros x Hx. rewrite (H x) by (cbn [AW]; lia). cbn [SGDa INa]. rewrite in_app_iff.
      destruct (keepa a) eqn:Ka.
      - destruct (SGa l (aw a + ii)) as [|z zs] eqn:E.
        + destruct (SGa_nil_OUT1 l _ E) as [_ D]. rewrite D. split.
          * intros [A|[A|A]]; [destruct a; cbn [sgd_last aw In] in *; intuition lia| | right; exact A].
            destruct a; cbn [inb aw In] in *; intuition lia.
          * intros [[]|A]. right. right. exact A.
        + rewrite in_app_iff. split.
          * intros [[A|A]|[A|A]]; [destruct a; cbn [sgb aw In] in *; intuition lia| left; exact A| | right; exact A].
            destruct a; cbn [inb aw In] in *; intuition lia.
          * intros [A|A]; [left; right; exact A| right; right; exact A].
      - cbn [In]. tauto. }
    specialize (IH (aw a + ii) Hrest). cbn [OUT1a].
    destruct a as [f|g1 g2]; cbn [kp_blocks aw Nat.add rblock tl] in *.
    - pose proof (H ii ltac:(cbn [AW aw]; lia)) as H0. pose proof (H (S ii) ltac:(cbn [AW aw]; lia)) as H1.
      cbn [SGDa INa aw Nat.add] in H0, H1. rewrite in_app_iff in H0, H1. rewrite IH.
      destruct (keepa (AF f)); cbn [inb In app] in H0, H1.
      + destruct (SGa l (S (S ii))) as [|z zs] eqn:E.
        * destruct (SGa_nil_OUT1 l _ E) as [D1 D2]. rewrite D1. cbn [sgd_last In] in H0, H1.
          rewrite (memb_no K _ _ H0) by (intros [[]|[[A|[]]|A]]; [lia| apply INa_bd in A; lia]).
          rewrite (memb_yes K _ _ H1) by (right; left; left; reflexivity). reflexivity.
        * rewrite in_app_iff in H0, H1. cbn [sgb In] in H0, H1.
          rewrite (memb_yes K _ _ H0) by (left; left; left; reflexivity).
          rewrite (memb_yes K _ _ H1) by (right; left; left; reflexivity). reflexivity.
      + rewrite (memb_no K _ _ H0) by (specialize (NS ii ltac:(lia)); tauto).
        rewrite (memb_no K _ _ H1) by (specialize (NS (S ii) ltac:(lia)); tauto). reflexivity.
    - pose proof (H ii ltac:(cbn [AW aw]; lia)) as H0. pose proof (H (S ii) ltac:(cbn [AW aw]; lia)) as H1.
      pose proof (H (S (S ii)) ltac:(cbn [AW aw]; lia)) as H2. pose proof (H (S (S (S ii))) ltac:(cbn [AW aw]; lia)) as H3.
      cbn [SGDa INa aw Nat.add] in H0, H1, H2, H3. rewrite in_app_iff in H0, H1, H2, H3. rewrite IH.
      destruct (keepa (AP g1 g2)); cbn [inb In app] in H0, H1, H2, H3.
      + destruct (SGa l (S (S (S (S ii))))) as [|z zs] eqn:E.
        * destruct (SGa_nil_OUT1 l _ E) as [D1 D2]. rewrite D1. cbn [sgd_last In] in H0, H1, H2, H3.
          rewrite (memb_no K _ _ H0) by (intros [[A|[]]|[[A|[A|[]]]|A]]; try lia; apply INa_bd in A; lia).
          rewrite (memb_yes K _ _ H1) by (left; left; reflexivity).
          rewrite (memb_yes K _ _ H2) by (right; left; left; reflexivity).
          rewrite (memb_yes K _ _ H3) by (right; left; right; left; reflexivity). reflexivity.
        * rewrite in_app_iff in H0, H1, H2, H3. cbn [sgb In] in H0, H1, H2, H3.
          rewrite (memb_yes K _ _ H0) by (left; left; left; reflexivity).
          rewrite (memb_yes K _ _ H1) by (left; left; right; left; reflexivity).
          rewrite (memb_yes K _ _ H2) by (right; left; left; reflexivity).
          rewrite (memb_yes K _ _ H3) by (right; left; right; left; reflexivity). reflexivity.
      + rewrite (memb_no K _ _ H0) by (specialize (NS ii ltac:(lia)); tauto).
        rewrite (memb_no K _ _ H1) by (specialize (NS (S ii) ltac:(lia)); tauto).
        rewrite (memb_no K _ _ H2) by (specialize (NS (S (S ii)) ltac:(lia)); tauto).
        rewrite (memb_no K _ _ H3) by (specialize (NS (S (S (S ii))) ltac:(lia)); tauto). reflexivity.
  Qed.

  (* what the final removed field does to the sign stack *)
  Definition popf (fls sgn : list nat) : option (list nat) :=
    match fls with [] => Some sgn | c :: _ => if Nat.leb c 1 then Some (tl sgn) else drop_nth (c - 1) sgn end.

  Lemma popf_blocks : forall l ii fl0 s0,
    popf (FLa l ++ fl0) (rev (SGa l ii) ++ s0) =
    match SGa l ii with [] => popf fl0 s0 | _ => Some (rev (SGDa l ii) ++ s0) end.
  Proof.
    induction l as [|a l IH]; intros ii fl0 s0; [reflexivity|]. cbn [FLa SGa SGDa].
    rewrite <- app_assoc, rev_app_distr, <- app_assoc. rewrite IH.
    destruct (SGa l (aw a + ii)) as [|z zs] eqn:E.
    - destruct (keepa a); [|rewrite app_nil_r; reflexivity]. destruct a; cbn [flb sgb sgd_last rev app popf Nat.leb tl Nat.sub drop_nth option_map]; reflexivity.
    - destruct (keepa a).
      + rewrite rev_app_distr, <- app_assoc. destruct a; reflexivity.
      + cbn [app rev]. reflexivity.
  Qed.

  Lemma popf_all l : popf (FLa l) (rev (SGa l 0)) = Some (rev (SGDa l 0)).
  Proof.
    pose proof (popf_blocks l 0 [] []) as H. rewrite !app_nil_r in H. rewrite H.
    destruct (SGa l 0) eqn:E; [|reflexivity]. destruct (SGa_nil_OUT1 l 0 E) as [_ D]. rewrite D. reflexivity.
  Qed.

  Lemma final_removed f N sgn inp fls : memb f rm = true ->
    remove_loop [TF f] N rm sgn inp fls = match popf fls sgn with Some s => Some (s, inp) | None => None end.
  Proof.
    intros M. cbn [remove_loop]. rewrite M. cbn [negb]. unfold popf. destruct fls as [|c fr]; [reflexivity|].
    destruct (Nat.leb c 1); [reflexivity|]. destruct (drop_nth (c - 1) sgn); reflexivity.
  Qed.

  Definition rpnA (L : list atom) : list tok :=
    match L with [] => [] | b :: bs => atoks b ++ flat_map (fun c => atoks c ++ [TMul]) bs end.

  Lemma rev_rblock b : rev (rblock b) = atoks b ++ [TMul].
  Proof. destruct b; reflexivity. Qed.
  Lemma rev_tl_rblock b : rev (tl (rblock b)) = atoks b.
  Proof. destruct b; reflexivity. Qed.

  Lemma rev_OUTKa l : rev (OUTKa l) = flat_map (fun c => atoks c ++ [TMul]) (rev (filter keepa l)).
  Proof.
    unfold OUTKa. induction l as [|b l IH]; [reflexivity|]. cbn [flat_map filter]. rewrite rev_app_distr, IH.
    destruct (keepa b); cbn [rev app]; [|rewrite app_nil_r; reflexivity]. rewrite flat_map_app. cbn [flat_map].
    rewrite app_nil_r, rev_rblock. reflexivity.
  Qed.

  Lemma SGa_nil_filter l : forall ii, SGa l ii = [] -> filter keepa l = [].
  Proof. induction l as [|b l IH]; intros ii H; [reflexivity|]. cbn [SGa filter] in *. destruct (keepa b); [destruct b; discriminate| eapply IH; exact H]. Qed.
  Lemma SGa_cons_filter l : forall ii z zs, SGa l ii = z :: zs -> filter keepa l <> [].
  Proof.
    induction l as [|b l IH]; intros ii z zs H; [discriminate|]. cbn [SGa filter] in *. destruct (keepa b); [discriminate|].
    eapply IH. exact H.
  Qed.

  Lemma rev_OUT1a l : forall ii, rev (OUT1a l ii) = rpnA (rev (filter keepa l)).
  Proof.
    induction l as [|b l IH]; intros ii; [reflexivity|]. cbn [OUT1a filter]. destruct (keepa b); [|apply IH].
    destruct (SGa l (aw b + ii)) as [|z zs] eqn:E.
    - rewrite (SGa_nil_filter l _ E). cbn [rev app rpnA flat_map]. rewrite app_nil_r. apply rev_tl_rblock.
    - pose proof (SGa_cons_filter l _ z zs E) as Hne. rewrite rev_app_distr, IH, rev_rblock. cbn [rev].
      destruct (rev (filter keepa l)) as [|g gs] eqn:R.
      + exfalso. apply Hne. rewrite <- (rev_involutive (filter keepa l)), R. reflexivity.
      + cbn [rpnA app]. rewrite flat_map_app. cbn [flat_map]. rewrite app_nil_r, <- app_assoc. reflexivity.
  Qed.

  Lemma rev_signedA rest : rev (flat_map (fun b => atoks b ++ [TMul]) rest) = rblocks (rev rest).
  Proof.
    unfold rblocks. induction rest as [|b r IH]; [reflexivity|]. cbn [flat_map rev]. rewrite rev_app_distr, IH, flat_map_app.
    cbn [flat_map]. rewrite app_nil_r. f_equal. destruct b; reflexivity.
  Qed.

  Theorem remove_atoms a0 rest : Forall closeda (a0 :: rest) ->
    remove_rpn (rpn (atoms_spl (a0 :: rest))) rm = Some (rpnA (filter keepa (a0 :: rest))).
  Proof.
    intros C. apply Forall_cons_iff in C as [C0 C]. unfold remove_rpn. rewrite rpn_atoms, rev_app_distr, rev_signedA.
    set (l := rev rest). assert (Cl : Forall closeda l) by (apply Forall_rev; exact C).
    rewrite (loop_blocks l 0 [] [] [] (rev (atoks a0)) Cl). rewrite !app_nil_r, Nat.add_0_r.
    assert (Frest : filter keepa rest = rev (filter keepa l)) by (unfold l; rewrite filter_rev, rev_involutive; reflexivity).
    assert (Drop : forall tailtoks, (forall K, (forall x, In x K -> x < AW l) -> keep_positions tailtoks (AW l + 0) K = []) ->
              rev (keep_positions (rblocks l ++ tailtoks) 0 (rev (SGDa l 0) ++ rev (INa l 0))) = rpnA (filter keepa rest)).
    { intros tt Htt. rewrite kp_splitA. rewrite (kp_dropA _ l 0).
      - rewrite Htt, app_nil_r, rev_OUT1a, Frest; [reflexivity|].
        intros x Hx. apply in_app_or in Hx as [Hx|Hx]; apply in_rev in Hx; [apply SGDa_in, SGa_bd in Hx| apply INa_bd in Hx]; lia.
      - intros x Hx. rewrite memb_In, in_app_iff, <- !in_rev. reflexivity. }
    cbn [filter]. destruct a0 as [f|g1 g2]; cbn [atoks rev app keepa closeda] in *.
    - destruct (memb f rm) eqn:M; cbn [negb].
      + rewrite (final_removed f _ _ _ _ M), popf_all. f_equal. apply Drop.
        intros K HK. cbn [keep_positions]. destruct (memb (AW l + 0) K) eqn:E; [|reflexivity].
        apply memb_In, HK in E. lia.
      + cbn [remove_loop]. rewrite M. cbn [negb]. f_equal.
        rewrite kp_splitA, (kp_keepA _ l 0).
        * cbn [keep_positions].
          assert (MN : memb (AW l + 0) (rev (SGa l 0) ++ AW l :: rev (INa l 0)) = true).
          { apply memb_In. apply in_or_app. right. left. lia. }
          rewrite MN, rev_app_distr, rev_OUTKa, Frest. reflexivity.
        * intros x Hx. rewrite memb_In, in_app_iff. cbn [In]. rewrite <- !in_rev. split; [intros [A|[A|A]]; [left; exact A| lia| right; exact A]| intros [A|A]; [left; exact A| right; right; exact A]].
    - cbn [remove_loop]. rewrite C0. destruct (memb g1 rm) eqn:M; cbn [negb Nat.leb tl].
      + pose proof (final_removed g1 (S (S (AW l))) (rev (SGa l 0)) (rev (INa l 0)) (FLa l) M) as FR.
        cbn [remove_loop] in FR. rewrite M in FR. cbn [negb] in FR. rewrite FR, popf_all. f_equal. apply Drop.
        intros K HK. cbn [keep_positions].
        assert (N0 : forall p, AW l <= p -> memb p K = false).
        { intros p Hp. destruct (memb p K) eqn:E; [|reflexivity]. apply memb_In, HK in E. lia. }
        rewrite (N0 (AW l + 0)), (N0 (S (AW l + 0))), (N0 (S (S (AW l + 0)))) by lia. reflexivity.
      + f_equal. rewrite kp_splitA, (kp_keepA _ l 0).
        * cbn [keep_positions Nat.add]. rewrite Nat.add_0_r.
          set (K := (AW l :: rev (SGa l 0)) ++ S (S (AW l)) :: S (AW l) :: rev (INa l 0)).
          assert (M0 : memb (AW l) K = true) by (apply memb_In; left; reflexivity).
          assert (M1 : memb (S (AW l)) K = true) by (apply memb_In; apply in_or_app; right; right; left; reflexivity).
          assert (M2 : memb (S (S (AW l))) K = true) by (apply memb_In; apply in_or_app; right; left; reflexivity).
          rewrite M0, M1, M2, rev_app_distr, rev_OUTKa, Frest. reflexivity.
        * intros x Hx. rewrite memb_In, in_app_iff. cbn [In]. rewrite <- !in_rev.
          split; [intros [[A|A]|[A|[A|A]]]; try lia; [left; exact A| right; exact A]| intros [A|A]; [left; right; exact A| right; right; right; exact A]].
  Qed.
End RemoveA.

(* ---------------------------------------------------------------- the axis bookkeeping on products of fields and pairs *)
Definition gsetl (ks : list nat) (v : list nat) (g : gmap) : gmap := fold_left (fun g k => gset k v g) ks g.

Lemma gget_gset x k v g : gget x (gset k v g) = if Nat.eqb x k then Some v else gget x g.
Proof.
  induction g as [|[k' v'] g IH]; cbn [gset gget]; [destruct (Nat.eqb x k); reflexivity|].
  destruct (Nat.eqb k k') eqn:E; cbn [gget].
  - apply Nat.eqb_eq in E. subst. destruct (Nat.eqb x k'); reflexivity.
  - rewrite IH. destruct (Nat.eqb x k') eqn:E2; [|reflexivity]. apply Nat.eqb_eq in E2. subst.
    rewrite Nat.eqb_sym, E. reflexivity.
Qed.

Lemma gget_gsetl x v : forall ks g, gget x (gsetl ks v g) = if memb x ks then Some v else gget x g.
Proof.
  unfold gsetl. induction ks as [|k ks IH]; intros g; cbn [fold_left memb existsb]; [reflexivity|].
  rewrite IH, gget_gset. unfold memb. destruct (Nat.eqb x k); cbn [orb]; [|reflexivity]. destruct (existsb (Nat.eqb x) ks); reflexivity.
Qed.

Lemma gget_none_keys x g : gget x g = None -> ~ In x (map fst g).
Proof.
  induction g as [|[k v] g IH]; cbn [gget map fst In]; [tauto|]. destruct (Nat.eqb x k) eqn:E; [discriminate|].
  apply Nat.eqb_neq in E. intros H [A|A]; [congruence| exact (IH H A)].
Qed.
Lemma gget_some_in x v g : gget x g = Some v -> In (x, v) g.
Proof.
  induction g as [|[k w] g IH]; cbn [gget]; [discriminate|]. destruct (Nat.eqb x k) eqn:E.
  - apply Nat.eqb_eq in E. intros H. inversion H; subst. left. reflexivity.
  - intros H. right. apply IH. exact H.
Qed.
Lemma in_gget x v g : NoDup (map fst g) -> In (x, v) g -> gget x g = Some v.
Proof.
  induction g as [|[k w] g IH]; intros N H; [contradiction|]. cbn [map fst] in N. inversion N as [|? ? Hk N']; subst.
  cbn [gget]. destruct H as [H|H].
  - inversion H; subst. rewrite Nat.eqb_refl. reflexivity.
  - destruct (Nat.eqb x k) eqn:E; [|apply IH; assumption]. apply Nat.eqb_eq in E. subst. exfalso. apply Hk.
    apply (in_map fst) in H. exact H.
Qed.

Lemma keys_gsetl v : forall ks g, NoDup ks -> (forall k, In k ks -> ~ In k (map fst g)) ->
  map fst (gsetl ks v g) = map fst g ++ ks.
Proof.
  unfold gsetl. induction ks as [|k ks IH]; intros g N F; cbn [fold_left]; [rewrite app_nil_r; reflexivity|].
  inversion N as [|? ? Hk N']; subst. rewrite IH.
  - rewrite gset_fresh by (apply F; left; reflexivity). rewrite map_app. cbn [map fst]. rewrite <- app_assoc. reflexivity.
  - exact N'.
  - intros k' Hk'. rewrite gset_fresh by (apply F; left; reflexivity). rewrite map_app, in_app_iff. cbn [map fst In].
    intros [A|[A|[]]]; [exact (F k' (or_intror Hk') A)| subst; contradiction].
Qed.

Definition INV (D : atom -> Prop) (axs : list nat) (g : gmap) (bd : nat) : Prop :=
  NoDup (map fst g) /\
  (forall x, gget x g <> None -> exists a, D a /\ In x (afields a)) /\
  (forall a, D a -> exists n, (forall x, In x (afields a) -> gget x g = Some [n]) /\ In n axs /\ n < bd) /\
  (forall a b x y, D a -> D b -> In x (afields a) -> In y (afields b) -> gget x g = gget y g -> a = b).

Lemma INV_add D axs g bd b n axs' :
  INV D axs g bd -> afields b <> [] -> NoDup (afields b) ->
  (forall x a, In x (afields b) -> D a -> ~ In x (afields a)) -> bd <= n ->
  (forall m, In m axs -> In m axs') -> In n axs' ->
  INV (fun a => D a \/ a = b) axs' (gsetl (afields b) [n] g) (S n).
Proof.
  intros (N & K2 & K3 & K4) Hne Nb Fresh Hn Sub Hin.
  assert (NoKey : forall k, In k (afields b) -> ~ In k (map fst g)).
  { intros k Hk. apply gget_none_keys. destruct (gget k g) eqn:E; [|reflexivity]. exfalso.
    destruct (K2 k) as (a & Da & Ha); [congruence|]. exact (Fresh k a Hk Da Ha). }
  assert (Old : forall a x, D a -> In x (afields a) -> memb x (afields b) = false).
  { intros a x Da Hx. destruct (memb x (afields b)) eqn:E; [|reflexivity]. apply memb_In in E. exfalso. exact (Fresh x a E Da Hx). }
  assert (New : forall x, In x (afields b) -> memb x (afields b) = true) by (intros x Hx; apply memb_In; exact Hx).
  split; [|split; [|split]].
  - rewrite keys_gsetl by assumption. apply nodup_app_intro; [exact N| exact Nb|]. intros x Hx Hb. exact (NoKey x Hb Hx).
  - intros x Hx. rewrite gget_gsetl in Hx. destruct (memb x (afields b)) eqn:E.
    + exists b. split; [right; reflexivity| apply memb_In; exact E].
    + destruct (K2 x Hx) as (a & Da & Ha). exists a. split; [left; exact Da| exact Ha].
  - intros a [Da| ->].
    + destruct (K3 a Da) as (m & Hm & Im & Lm). exists m. split; [|split; [apply Sub; exact Im| lia]].
      intros x Hx. rewrite gget_gsetl, (Old a x Da Hx). apply Hm. exact Hx.
    + exists n. split; [|split; [exact Hin| lia]]. intros x Hx. rewrite gget_gsetl, (New x Hx). reflexivity.
  - intros a c x y Da Dc Hx Hy E. rewrite !gget_gsetl in E. destruct Da as [Da| ->], Dc as [Dc| ->].
    + rewrite (Old a x Da Hx), (Old c y Dc Hy) in E. exact (K4 a c x y Da Dc Hx Hy E).
    + rewrite (Old a x Da Hx), (New y Hy) in E. destruct (K3 a Da) as (m & Hm & _ & Lm). rewrite (Hm x Hx) in E.
      inversion E. lia.
    + rewrite (New x Hx), (Old c y Dc Hy) in E. destruct (K3 c Dc) as (m & Hm & _ & Lm). rewrite (Hm y Hy) in E.
      inversion E. lia.
    + reflexivity.
Qed.

Lemma nodup_app_elim {A} (l1 l2 : list A) : NoDup (l1 ++ l2) -> NoDup l1 /\ NoDup l2 /\ forall x, In x l1 -> ~ In x l2.
Proof.
  induction l1 as [|h l1 IH]; cbn [app]; intros N; [split; [constructor| split; [exact N| intros ? []]]|].
  inversion N as [|? ? Hh N']; subst. destruct (IH N') as (N1 & N2 & D). split; [|split; [exact N2|]].
  - constructor; [intros H; apply Hh; apply in_or_app; left; exact H| exact N1].
  - intros x [<-|Hx]; [intros H; apply Hh; apply in_or_app; right; exact H| apply D; exact Hx].
Qed.

Lemma INV_ext (D D' : atom -> Prop) axs g bd : (forall a, D a <-> D' a) -> INV D axs g bd -> INV D' axs g bd.
Proof.
  intros E (N & K2 & K3 & K4). split; [exact N|]. split; [|split].
  - intros x Hx. destruct (K2 x Hx) as (a & Da & Ha). exists a. split; [apply E; exact Da| exact Ha].
  - intros a Da. apply K3. apply E. exact Da.
  - intros a b x y Da Db. apply K4; apply E; assumption.
Qed.

Lemma INV_empty : INV (fun _ => False) [] [] 0.
Proof. split; [constructor|]. split; [intros x H; exfalso; apply H; reflexivity|]. split; [intros a []| intros a b x y []]. Qed.

Lemma afields_ne b : afields b <> [].
Proof. destruct b; discriminate. Qed.

Lemma step_atom b al g c p :
  groups_run ((atoks b ++ [TMul]) ++ p) [GVal al] g (Some c) =
  groups_run p [GVal (al ++ [S c])] (gsetl (afields b) [S c] g) (Some (S c)).
Proof. destruct b; reflexivity. Qed.

Lemma tail_atoms : forall rest (D : atom -> Prop) al g c,
  INV D al g (S c) -> NoDup (flat_map afields rest) ->
  (forall x a b, In b rest -> In x (afields b) -> D a -> ~ In x (afields a)) ->
  exists al' g' c', groups_run (flat_map (fun b => atoks b ++ [TMul]) rest) [GVal al] g (Some c) = inr ([GVal al'], g') /\
                    INV (fun a => D a \/ In a rest) al' g' (S c').
Proof.
  induction rest as [|b rest IH]; intros D al g c I N Fresh.
  - exists al, g, c. split; [reflexivity|]. eapply INV_ext; [|exact I]. intros a. cbn [In]. tauto.
  - cbn [flat_map] in *. apply nodup_app_elim in N as (Nb & Nr & Dis). rewrite step_atom.
    assert (I' : INV (fun a => D a \/ a = b) (al ++ [S c]) (gsetl (afields b) [S c] g) (S (S c))).
    { apply (INV_add D al g (S c) b (S c)); try assumption; [apply afields_ne| | lia| |].
      - intros x a Hx Da. exact (Fresh x a b (or_introl eq_refl) Hx Da).
      - intros m Hm. apply in_or_app. left. exact Hm.
      - apply in_or_app. right. left. reflexivity. }
    destruct (IH (fun a => D a \/ a = b) (al ++ [S c]) (gsetl (afields b) [S c] g) (S c) I' Nr) as (al' & g' & c' & R & I'').
    + intros x a b' Hb' Hx [Da| ->].
      * exact (Fresh x a b' (or_intror Hb') Hx Da).
      * intros Hxb. apply (Dis x Hxb). apply in_flat_map. exists b'. split; assumption.
    + exists al', g', c'. split; [exact R|]. eapply INV_ext; [|exact I'']. intros a. cbn [In]. split; [intros [[A|A]|A]; auto| intros [A|[A|A]]; auto].
Qed.

Theorem groups_atoms a0 a1 rest : NoDup (flat_map afields (a0 :: a1 :: rest)) ->
  exists al g bd, groups_run (rpn (atoms_spl (a0 :: a1 :: rest))) [] [] None = inr ([GVal al], g) /\
                  INV (fun a => In a (a0 :: a1 :: rest)) al g bd.
Proof.
  intros N. rewrite rpn_atoms. cbn [flat_map afields] in N.
  apply nodup_app_elim in N as (N0 & N' & D0). pose proof N' as N1r. apply nodup_app_elim in N' as (N1 & Nr & D1).
  destruct a0 as [f1|g1 g2].
  - (* first operand a field: it stays a name until the first operator *)
    cbn [flat_map]. 
    assert (Start : exists al g, forall p, groups_run (atoks (AF f1) ++ (atoks a1 ++ [TMul]) ++ p) [] [] None =
                                           groups_run p [GVal al] g (Some 1) /\ INV (fun a => a = AF f1 \/ a = a1) al g 2).
    { destruct a1 as [f2|h1 h2].
      - exists [0; 1], (gsetl (afields (AF f2)) [1] (gsetl (afields (AF f1)) [0] [])). intros p. split; [reflexivity|].
        assert (I0 : INV (fun a => False \/ a = AF f1) [0; 1] (gsetl (afields (AF f1)) [0] []) 1).
        { apply (INV_add _ [] [] 0 (AF f1) 0); [exact INV_empty| discriminate| exact N0| intros x a _ []| lia| intros m []| cbn; tauto]. }
        eapply INV_ext; [|apply (INV_add _ [0;1] _ 1 (AF f2) 1 [0;1] I0); [discriminate| exact N1| | lia| intros m Hm; exact Hm| cbn; tauto]].
        + intros a. cbn. tauto.
        + intros x a Hx [[]| ->] Hx'. apply (D0 x Hx'). apply in_or_app. left. exact Hx.
      - exists [1; 0], (gsetl (afields (AF f1)) [1] (gsetl (afields (AP h1 h2)) [0] [])). intros p. split; [reflexivity|].
        assert (I0 : INV (fun a => False \/ a = AP h1 h2) [1; 0] (gsetl (afields (AP h1 h2)) [0] []) 1).
        { apply (INV_add _ [] [] 0 (AP h1 h2) 0); [exact INV_empty| discriminate| exact N1| intros x a _ []| lia| intros m []| cbn; tauto]. }
        eapply INV_ext; [|apply (INV_add _ [1;0] _ 1 (AF f1) 1 [1;0] I0); [discriminate| exact N0| | lia| intros m Hm; exact Hm| cbn; tauto]].
        + intros a. cbn. tauto.
        + intros x a Hx [[]| ->] Hx'. apply (D0 x Hx). apply in_or_app. left. exact Hx'. }
    destruct Start as (al & g & St).
    destruct (tail_atoms rest (fun a => a = AF f1 \/ a = a1) al g 1 (proj2 (St [])) Nr) as (al' & g' & c' & R & I).
    + intros x a b Hb Hx [->| ->] Hx'.
      * apply (D0 x Hx'). apply in_or_app. right. apply in_flat_map. exists b. split; assumption.
      * apply (D1 x Hx'). apply in_flat_map. exists b. split; assumption.
    + exists al', g', (S c'). rewrite (proj1 (St _)). split; [exact R|].
      eapply INV_ext; [|exact I]. intros a. cbn [In]. split; [intros [[A|A]|A]; auto| intros [A|[A|A]]; auto].
  - (* first operand a pair: evaluated at once *)
    assert (I0 : INV (fun a => False \/ a = AP g1 g2) [0] (gsetl (afields (AP g1 g2)) [0] []) 1).
    { apply (INV_add _ [] [] 0 (AP g1 g2) 0); [exact INV_empty| discriminate| exact N0| intros x a _ []| lia| intros m []| cbn; tauto]. }
    destruct (tail_atoms (a1 :: rest) (fun a => False \/ a = AP g1 g2) [0] _ 0 I0 N1r) as (al' & g' & c' & R & I).
    + intros x a b Hb Hx [[]| ->] Hx'. apply (D0 x Hx'). change (In x (flat_map afields (a1 :: rest))). apply in_flat_map. exists b. split; assumption.
    + exists al', g', (S c'). split; [exact R|]. eapply INV_ext; [|exact I]. intros a. cbn [In]. split; [intros [[[]|A]|A]; auto| intros [A|A]; auto].
Qed.

(* ---------------------------------------------------------------- linked fields, combiner_all, prune *)
Lemma axes_atoms L : axes (atoms_spl L) = map afields L.
Proof.
  unfold atoms_spl. cbn [axes]. induction L as [|a L IH]; [reflexivity|]. cbn [map flat_map]. rewrite IH.
  destruct a; reflexivity.
Qed.

Lemma linked_atoms L comb x : In x (linked (atoms_spl L) comb) <->
  exists a, In a L /\ In x (afields a) /\ exists c, In c (afields a) /\ In c comb.
Proof.
  unfold linked. rewrite axes_atoms, in_flat_map. split.
  - intros (ax & Hax & Hx). apply in_map_iff in Hax as (a & <- & Ha).
    destruct (existsb (fun f => memb f comb) (afields a)) eqn:E; [|contradiction].
    apply existsb_exists in E as (c & Hc & Mc). apply memb_In in Mc. exists a. eauto.
  - intros (a & Ha & Hx & c & Hc & Hcc). exists (afields a). split; [apply in_map; exact Ha|].
    assert (E : existsb (fun f => memb f comb) (afields a) = true).
    { apply existsb_exists. exists c. split; [exact Hc| apply memb_In; exact Hcc]. }
    rewrite E. exact Hx.
Qed.

Lemma atoms_share L : NoDup (flat_map afields L) -> forall a b x, In a L -> In b L -> In x (afields a) -> In x (afields b) -> a = b.
Proof.
  induction L as [|h L IH]; intros N a b x Ha Hb Hxa Hxb; [contradiction|]. cbn [flat_map] in N.
  apply nodup_app_elim in N as (Nh & NL & Dis).
  destruct Ha as [<-|Ha], Hb as [<-|Hb].
  - reflexivity.
  - exfalso. apply (Dis x Hxa). apply in_flat_map. exists b. split; assumption.
  - exfalso. apply (Dis x Hxb). apply in_flat_map. exists a. split; assumption.
  - exact (IH NL a b x Ha Hb Hxa Hxb).
Qed.

Lemma combiner_all_atoms a0 a1 rest comb : NoDup (flat_map afields (a0 :: a1 :: rest)) -> comb <> [] ->
  (forall c, In c comb -> In c (flat_map afields (a0 :: a1 :: rest))) ->
  combiner_all_of (rpn (atoms_spl (a0 :: a1 :: rest))) comb = inr (sort_set (linked (atoms_spl (a0 :: a1 :: rest)) comb)).
Proof.
  intros N Hne Hsub. set (L := a0 :: a1 :: rest) in *.
  destruct (groups_atoms a0 a1 rest N) as (al & g & bd & G & (Ng & K2 & K3 & K4)). fold L in G, K2, K3, K4.
  unfold combiner_all_of.
  assert (Shape : exists t1 t2 p, rpn (atoms_spl L) = t1 :: t2 :: p).
  { unfold L. rewrite rpn_atoms. destruct a0, a1; cbn [atoks flat_map app]; eauto. }
  destruct Shape as (t1 & t2 & p & Ep). rewrite Ep in *. rewrite G.
  destruct comb as [|c0 comb']; [congruence|]. set (comb := c0 :: comb') in *.
  assert (Atom : forall c, In c comb -> exists a n, In a L /\ In c (afields a) /\ gget c g = Some [n] /\ In n al /\
                                               forall x, In x (afields a) -> gget x g = Some [n]).
  { intros c Hc. apply Hsub, in_flat_map in Hc as (a & Ha & Hca). destruct (K3 a Ha) as (n & Hn & In_ & _).
    exists a, n. auto. }
  assert (A : forallb (fun c => match gget c g with Some _ => true | None => false end) comb = true).
  { apply forallb_forall. intros c Hc. destruct (Atom c Hc) as (a & n & _ & _ & E & _). rewrite E. reflexivity. }
  set (grs := flat_map (fun c => match gget c g with Some v => v | None => [] end) comb).
  assert (Grs : forall gr, In gr grs <-> exists c, In c comb /\ gget c g = Some [gr]).
  { intros gr. unfold grs. rewrite in_flat_map. split.
    - intros (c & Hc & Hg). destruct (Atom c Hc) as (a & n & _ & _ & E & _). rewrite E in Hg. destruct Hg as [<-|[]]. eauto.
    - intros (c & Hc & E). exists c. split; [exact Hc|]. rewrite E. left. reflexivity. }
  assert (R : ready_check grs al [] <> None).
  { apply ready_check_ok. intros gr Hg. left. apply Grs in Hg as (c & Hc & E).
    destruct (Atom c Hc) as (a & n & _ & _ & E' & In_ & _). rewrite E in E'. inversion E'; subst. exact In_. }
  assert (Goal' : inr (A := cerr) (sort_set (flat_map (fun gr => map fst (filter (fun kv : nat * list nat => memb gr (snd kv)) g)) grs)) =
                  inr (sort_set (linked (atoms_spl L) comb))).
  { f_equal. apply sort_set_ext. intros x. rewrite linked_atoms, in_flat_map. split.
    - intros (gr & Hg & Hx). apply Grs in Hg as (c & Hc & Ec).
      apply in_map_iff in Hx as ([x' w] & Ex & Hf). cbn [fst] in Ex. subst x'. apply filter_In in Hf as [Hin Hm]. cbn [snd] in Hm.
      pose proof (in_gget x w g Ng Hin) as Ex.
      destruct (K2 x ltac:(congruence)) as (ax & Dax & Hxa).
      destruct (K3 ax Dax) as (m & Hm' & _ & _). rewrite (Hm' x Hxa) in Ex. inversion Ex; subst w.
      apply memb_In in Hm. destruct Hm as [->|[]].
      destruct (Atom c Hc) as (ac & n & Dac & Hca & Ec' & _ & _).
      assert (ax = ac). { apply (K4 ax ac x c Dax Dac Hxa Hca). rewrite (Hm' x Hxa), Ec. reflexivity. }
      subst ac. exists ax. split; [exact Dax|]. split; [exact Hxa|]. exists c. split; assumption.
    - intros (a & Da & Hxa & c & Hca & Hcc). destruct (K3 a Da) as (n & Hn & _ & _).
      exists n. split.
      + apply Grs. exists c. split; [exact Hcc| apply Hn; exact Hca].
      + apply in_map_iff. exists (x, [n]). split; [reflexivity|]. apply filter_In. split; [apply gget_some_in, Hn; exact Hxa|].
        cbn [snd]. apply memb_In. left. reflexivity. }
  rewrite A. cbn [negb]. destruct (ready_check grs al []) as [r|]; [|congruence]. destruct t1; exact Goal'.
Qed.

Lemma pruned_list_atoms gone L : Forall (closeda gone) L ->
  pruned_list gone (map sa L) = map sa (filter (keepa gone) L).
Proof.
  induction L as [|a L IH]; intros C; [reflexivity|]. apply Forall_cons_iff in C as [Ca C]. cbn [map]. rewrite pruned_list_cons, (IH C).
  cbn [filter]. destruct a as [f|g1 g2]; cbn [sa keepa closeda] in *.
  - cbn [prune]. destruct (memb f gone); reflexivity.
  - rewrite prune_inner. cbn [pruned_list flat_map prune]. rewrite Ca. destruct (memb g1 gone); reflexivity.
Qed.

Lemma closed_linked L comb : NoDup (flat_map afields L) -> Forall (closeda (linked (atoms_spl L) comb)) L.
Proof.
  intros N. apply Forall_forall. intros a Ha. destruct a as [f|g1 g2]; cbn [closeda]; [exact I|].
  apply Bool.eq_true_iff_eq. rewrite !memb_In, !linked_atoms. split; intros (b & Hb & Hx & Hc).
  - assert (b = AP g1 g2) by (apply (atoms_share L N b (AP g1 g2) g2 Hb Ha Hx); cbn; auto). subst b.
    exists (AP g1 g2). split; [exact Ha|]. split; [cbn; auto| exact Hc].
  - assert (b = AP g1 g2) by (apply (atoms_share L N b (AP g1 g2) g1 Hb Ha Hx); cbn; auto). subst b.
    exists (AP g1 g2). split; [exact Ha|]. split; [cbn; auto| exact Hc].
Qed.

Theorem good_removal_atoms a0 a1 rest comb : NoDup (flat_map afields (a0 :: a1 :: rest)) -> comb <> [] ->
  (forall c, In c comb -> In c (flat_map afields (a0 :: a1 :: rest))) ->
  good_removalb (atoms_spl (a0 :: a1 :: rest)) comb = true.
Proof.
  intros N Hne Hsub. unfold good_removalb. rewrite (combiner_all_atoms a0 a1 rest comb N Hne Hsub).
  rewrite (list_eqb_refl Nat.eqb Nat.eqb_eq). cbn [andb].
  set (gone := linked (atoms_spl (a0 :: a1 :: rest)) comb).
  pose proof (closed_linked (a0 :: a1 :: rest) comb N) as Cg. fold gone in Cg.
  assert (Mem : forall x, memb x (sort_set gone) = memb x gone).
  { intros x. apply Bool.eq_true_iff_eq. rewrite !memb_In. apply sort_set_in. }
  assert (Cr : Forall (closeda (sort_set gone)) (a0 :: a1 :: rest)).
  { eapply Forall_impl; [|exact Cg]. intros [f|g1 g2]; cbn [closeda]; [auto|]. rewrite !Mem. auto. }
  rewrite (remove_atoms (sort_set gone) a0 (a1 :: rest) Cr).
  assert (Ef : filter (keepa (sort_set gone)) (a0 :: a1 :: rest) = filter (keepa gone) (a0 :: a1 :: rest)).
  { apply filter_ext. intros [f|g1 g2]; cbn [keepa]; rewrite Mem; reflexivity. }
  rewrite Ef. unfold atoms_spl at 1. rewrite prune_outer, (pruned_list_atoms gone _ Cg).
  destruct (filter (keepa gone) (a0 :: a1 :: rest)) as [|b bs] eqn:EF.
  - reflexivity.
  - cbn [map]. change (Outer (sa b :: map sa bs)) with (atoms_spl (b :: bs)). rewrite rpn_atoms.
    apply (list_eqb_refl tok_eqb tok_eqb_eq).
Qed.

Theorem atoms_groups e a0 a1 rest comb : NoDup (flat_map afields (a0 :: a1 :: rest)) -> comb <> [] ->
  (forall c, In c comb -> In c (flat_map afields (a0 :: a1 :: rest))) ->
  (forall f, In f (flat_map afields (a0 :: a1 :: rest)) -> nprod (e f) >= 1) ->
  groups_of (prepare_combined e (atoms_spl (a0 :: a1 :: rest)) comb) = spec_groups e (atoms_spl (a0 :: a1 :: rest)) comb.
Proof.
  intros N Hne Hsub Pos. set (L := a0 :: a1 :: rest) in *.
  assert (W : wfb (atoms_spl L) = true).
  { unfold atoms_spl, L. cbn [map wfb]. apply forallb_forall. intros s Hs.
    change (sa a0 :: sa a1 :: map sa rest) with (map sa (a0 :: a1 :: rest)) in Hs.
    apply in_map_iff in Hs as ([f|g1 g2] & <- & _); reflexivity. }
  assert (Fl : flat_innerb (atoms_spl L) = true).
  { unfold atoms_spl. cbn [flat_innerb]. apply forallb_forall. intros s Hs. apply in_map_iff in Hs as ([f|g1 g2] & <- & _); reflexivity. }
  assert (ND : NoDup (leaves (atoms_spl L))) by (rewrite leaves_atoms; exact N).
  assert (Pos' : forall f, In f (leaves (atoms_spl L)) -> nprod (e f) >= 1) by (rewrite leaves_atoms; exact Pos).
  rewrite (combined_pruned e (atoms_spl L) comb W ND Hne Pos' (good_removal_atoms a0 a1 rest comb N Hne Hsub)).
  apply pruned_is_distinct; try assumption. apply linked_closed; assumption.
Qed.
