(* Proofs/HashOrderDeep.v — order invariance with sets re-ordered at every nesting level simultaneously:
   the elements of a re-ordered set may themselves be re-ordered values (nested frozensets, tuples holding sets…).
   `sorted` compares the ELEMENTS THEMSELVES with Python's `<` (sets) resp. the KEYS themselves (dicts), never
   their digests; so the hypothesis at each set node is about its elements: pairwise distinct, in a class that `<`
   orders totally (keys_ok), and `<` gives the same answers on the elements as seen in the other session (compat).
   Incomparable elements (two frozensets neither of which contains the other: F07 / F08d) fail keys_ok. *)
From Coq Require Import Sorting.Permutation Sorting.Sorted.
From Pydra Require Import Base.Prelude Base.PySort Model.Hash Proofs.HashSort Proofs.HashCtx Proofs.HashOrder Proofs.HashTask Proofs.HashDom.
Local Open Scope list_scope.

(* `<` answers alike on corresponding elements of two aligned lists *)
Definition compat (l1 l1' : list pyval) : Prop :=
  Forall2 (fun a a' => Forall2 (fun b b' => vlt a b = vlt a' b') l1 l1') l1 l1'.

Inductive operm : pyval -> pyval -> Prop :=
| op_refl v : operm v v
| op_list i j l1 l2 : Forall2 operm l1 l2 -> operm (VList i l1) (VList j l2)
| op_tuple i j l1 l2 : Forall2 operm l1 l2 -> operm (VTuple i l1) (VTuple j l2)
| op_set i j l1 l1' l2 :
    Forall2 operm l1 l1' -> compat l1 l1' -> keys_ok l1' -> Permutation l1' l2 -> operm (VSet i l1) (VSet j l2)
| op_fset i j l1 l1' l2 :
    Forall2 operm l1 l1' -> compat l1 l1' -> keys_ok l1' -> Permutation l1' l2 ->
    operm (VFrozenset i l1) (VFrozenset j l2)
| op_dict i j kv1 kv' kv2 :
    keys_ok (map fst kv1) -> Permutation kv1 kv' ->
    Forall2 (fun a b : pyval * pyval => fst a = fst b /\ operm (snd a) (snd b)) kv' kv2 ->
    operm (VDict i kv1) (VDict j kv2)
| op_obj i j c a1 a' a2 :
    keys_ok (map (fun a : string * pyval => VStr (fst a)) a1) -> Permutation a1 a' ->
    Forall2 (fun a b : string * pyval => fst a = fst b /\ operm (snd a) (snd b)) a' a2 ->
    operm (VObj i c a1) (VObj j c a2).

Lemma Forall2_impl {A B} (P Q : A -> B -> Prop) : (forall a b, P a b -> Q a b) ->
    forall l l', Forall2 P l l' -> Forall2 Q l l'.
Proof. intros Himp l l' HF. induction HF; constructor; auto. Qed.

Lemma F2_combine {A B} (R : A -> B -> Prop) : forall l l', Forall2 R l l' ->
    Forall2 (fun a a' => In (a, a') (combine l l')) l l'.
Proof.
  induction 1 as [|a b l l' Hab HF IH]; cbn [combine]; constructor; [now left|].
  eapply Forall2_impl; [|exact IH]. cbn. intros x y Hin. now right.
Qed.

Lemma F2_in_combine {A B} (R : A -> B -> Prop) : forall l l' a a', Forall2 R l l' -> In (a, a') (combine l l') -> R a a'.
Proof.
  induction 1 as [|x y l l' Hxy HF IH]; cbn; intros Hin; [contradiction|].
  destruct Hin as [E|Hin]; [inversion E; subst; exact Hxy|auto].
Qed.

Lemma compat_lt : forall l1 l1' a a' b b', compat l1 l1' ->
    In (a, a') (combine l1 l1') -> In (b, b') (combine l1 l1') -> vlt a b = vlt a' b'.
Proof.
  intros l1 l1' a a' b b' Hc Ha Hb. unfold compat in Hc.
  pose proof (F2_in_combine _ _ _ _ _ Hc Ha) as Hrow. cbn in Hrow.
  exact (F2_in_combine _ _ _ _ _ Hrow Hb).
Qed.

Section Deep.
  Variable H : string -> string.

  Lemma set_case : forall f l1 l1' l2,
      (forall a a', operm a a' -> dig H f a tt = dig H f a' tt) ->
      Forall2 operm l1 l1' -> compat l1 l1' -> keys_ok l1' -> Permutation l1' l2 ->
      match sorted_res vlt l1 with Err e => Err e | Ok sl => seq_contents (dig H f) sl tt end =
      match sorted_res vlt l2 with Err e => Err e | Ok sl => seq_contents (dig H f) sl tt end.
  Proof.
    intros f l1 l1' l2 IH HF Hc Hk Hp.
    rewrite <- (sorted_set_perm l1' l2 Hk Hp).
    pose proof (py_sorted_rel vlt vlt (fun a a' => In (a, a') (combine l1 l1'))
                              (fun a b a' b' Ha Hb => compat_lt l1 l1' a a' b b' Hc Ha Hb)
                              l1 l1' (F2_combine _ _ _ HF)) as Hrel.
    destruct Hk as [Hnd (P & HP & HFP)]. destruct HP as [Pdef Ptrans Pasym Ptotal].
    destruct (py_sorted_sorted vlt P) with (l := l1') as (s' & Es' & _); auto.
    unfold orel in Hrel. rewrite Es' in Hrel. unfold sorted_res. rewrite Es'.
    destruct (py_sorted vlt l1) as [s|]; [|contradiction].
    apply seq_contents_eq. eapply Forall2_impl; [|exact Hrel]. cbn. intros a a' Hin.
    apply IH. eapply F2_in_combine; eauto.
  Qed.

  Theorem dig_operm : forall f v1 v2, operm v1 v2 -> dig H f v1 tt = dig H f v2 tt.
  Proof.
    induction f as [|f IH]; intros v1 v2 Hr; [reflexivity|].
    cbn [dig]. enough (E : repr (dig H f) v1 tt = repr (dig H f) v2 tt) by now rewrite E.
    inversion Hr as [v|i j l1 l2 HF|i j l1 l2 HF|i j l1 l1' l2 HF Hc Hk Hp|i j l1 l1' l2 HF Hc Hk Hp
                     |i j kv1 kv' kv2 Hk Hp HF|i j c a1 a' a2 Hk Hp HF]; subst; [reflexivity| | | | | |].
    - cbn. rewrite (seq_contents_eq (dig H f) l1 l2); [reflexivity|].
      eapply Forall2_impl; [|exact HF]. cbn. intros a b Hab. now apply IH.
    - cbn. rewrite (seq_contents_eq (dig H f) l1 l2); [reflexivity|].
      eapply Forall2_impl; [|exact HF]. cbn. intros a b Hab. now apply IH.
    - cbn. pose proof (set_case f l1 l1' l2 (IH) HF Hc Hk Hp) as E.
      destruct (sorted_res vlt l1), (sorted_res vlt l2); try discriminate; try (rewrite E; reflexivity); auto.
      inversion E; reflexivity.
    - cbn. pose proof (set_case f l1 l1' l2 (IH) HF Hc Hk Hp) as E.
      destruct (sorted_res vlt l1), (sorted_res vlt l2); try discriminate; try (rewrite E; reflexivity); auto.
      inversion E; reflexivity.
    - cbn [repr]. rewrite (mapping_eq (dig H f) kv1 kv' kv2 Hk Hp); [reflexivity|].
      eapply Forall2_impl; [|exact HF]. cbn. intros a b [Ek Hab]. split; auto.
    - cbn [repr].
      set (g := fun a : string * pyval => (VStr (fst a), snd a)).
      rewrite (mapping_eq (dig H f) (map g a1) (map g a') (map g a2)); [reflexivity| | |].
      + rewrite map_map. exact Hk.
      + now apply Permutation_map.
      + clear -HF IH. induction HF as [|a b l1 l2 [Ek Hab] HF IHF]; cbn; constructor; auto.
        cbn. split; [now rewrite Ek|]. now apply IH.
  Qed.
End Deep.

(* ------------------------------------------------------------------ the earlier relation is a special case *)
Lemma compat_refl : forall l, compat l l.
Proof.
  intros l. unfold compat.
  assert (Hrow : forall a, Forall2 (fun b b' => vlt a b = vlt a b') l l) by (intros a; induction l; constructor; auto).
  assert (Hgen : forall m, Forall2 (fun a a' => Forall2 (fun b b' => vlt a b = vlt a' b') l l) m m).
  { induction m; constructor; auto. }
  apply Hgen.
Qed.

Lemma F2_refl {A} (R : A -> A -> Prop) : (forall x, R x x) -> forall l, Forall2 R l l.
Proof. intros Hr l. induction l; constructor; auto. Qed.

(* a set whose elements are kept as they are, in any order *)
Lemma operm_set_flat : forall i j l1 l2, keys_ok l1 -> Permutation l1 l2 -> operm (VSet i l1) (VSet j l2).
Proof. intros. apply op_set with (l1' := l1); auto; [apply F2_refl; apply op_refl|apply compat_refl]. Qed.
Lemma operm_fset_flat : forall i j l1 l2, keys_ok l1 -> Permutation l1 l2 -> operm (VFrozenset i l1) (VFrozenset j l2).
Proof. intros. apply op_fset with (l1' := l1); auto; [apply F2_refl; apply op_refl|apply compat_refl]. Qed.

(* ------------------------------------------------------------------ task checksums *)
Definition session_variant_deep (f1 f2 : list (string * pyval)) : Prop :=
  Forall2 (fun a b : string * pyval => fst a = fst b /\ operm (snd a) (snd b)) f1 f2.

Lemma dg_operm : forall H v1 v2 d1 d2,
    operm v1 v2 -> digest H v1 = Ok d1 -> digest H v2 = Ok d2 -> Proofs.HashTask.dg H v1 = Proofs.HashTask.dg H v2.
Proof.
  intros H v1 v2 d1 d2 Hr D1 D2. unfold Proofs.HashTask.dg. rewrite D1, D2. unfold digest in D1, D2.
  destruct (dig H (S (vdepth v1)) v1 tt) as [[e1 []]|] eqn:E1; [|discriminate].
  destruct (dig H (S (vdepth v2)) v2 tt) as [[e2 []]|] eqn:E2; [|discriminate].
  inversion D1; subst. inversion D2; subst.
  rewrite (dig_operm H _ v1 v2 Hr) in E1. eapply dig_det; eauto.
Qed.

Theorem checksum_session_independent_deep : forall H env1 env2 ty f1 f2,
    session_variant_deep f1 f2 ->
    (forall kv, In kv f1 -> hashable_acyclic H env1 (snd kv)) ->
    (forall kv, In kv f2 -> hashable_acyclic H env2 (snd kv)) ->
    checksum H ty f1 = checksum H ty f2.
Proof.
  intros H env1 env2 ty f1 f2 Hv H1 H2.
  apply (Proofs.HashTask.checksum_only_sees_digests H env1 env2); auto.
  clear -Hv H1 H2. induction Hv as [|a b f1 f2 [Hn Hr] Hv IH]; constructor.
  - split; [exact Hn|]. destruct (H1 a (or_introl eq_refl)) as [_ [d1 D1]]. destruct (H2 b (or_introl eq_refl)) as [_ [d2 D2]].
    eapply dg_operm; eauto.
  - apply IH; intros kv Hkv; [apply H1|apply H2]; now right.
Qed.

(* ------------------------------------------------------------------ non-vacuity: nested frozensets, a chain under
   proper-subset order, re-ordered at both levels: {fs{1,2}, fs{1,2,3}} vs {fs{3,1,2}, fs{2,1}} *)
Definition nx_a1 : pyval := VFrozenset 2 [VInt 1; VInt 2].
Definition nx_b1 : pyval := VFrozenset 3 [VInt 1; VInt 2; VInt 3].
Definition nx_a2 : pyval := VFrozenset 5 [VInt 2; VInt 1].
Definition nx_b2 : pyval := VFrozenset 6 [VInt 3; VInt 1; VInt 2].
Definition nx_v1 : pyval := VFrozenset 1 [nx_a1; nx_b1].
Definition nx_v2 : pyval := VFrozenset 4 [nx_b2; nx_a2].

Definition nx_class (v : pyval) : Prop := v = nx_a2 \/ v = nx_b2.
Lemma nx_ordered : ordered_class nx_class.
Proof.
  constructor.
  - intros x y [->| ->] [->| ->]; eexists; vm_compute; reflexivity.
  - intros x y z [->| ->] [->| ->] [->| ->]; vm_compute; intros E1 E2; try discriminate; reflexivity.
  - intros x y [->| ->] [->| ->]; vm_compute; intros E1 E2; discriminate.
  - intros x y [->| ->] [->| ->] Hne; try (exfalso; apply Hne; reflexivity); [left|right]; vm_compute; reflexivity.
Qed.

Lemma ints_keys_ok : forall l, Proofs.HashDom.keys_okb l = true -> keys_ok l.
Proof. exact Proofs.HashDom.keys_okb_sound. Qed.

Example nested_operm : operm nx_v1 nx_v2.
Proof.
  apply op_fset with (l1' := [nx_a2; nx_b2]).
  - constructor; [|constructor; [|constructor]].
    + apply operm_fset_flat; [apply ints_keys_ok; reflexivity|apply perm_swap].
    + apply operm_fset_flat; [apply ints_keys_ok; reflexivity|].
      apply perm_trans with [VInt 1; VInt 3; VInt 2]; [apply perm_skip; apply perm_swap|apply perm_swap].
  - unfold compat. repeat constructor; vm_compute; reflexivity.
  - split.
    + constructor; [intros [E|[]]; discriminate E|constructor; [intros []|constructor]].
    + exists nx_class. split; [exact nx_ordered|]. constructor; [now left|constructor; [now right|constructor]].
  - apply perm_swap.
Qed.
