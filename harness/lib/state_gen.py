"""Splitter trees for the State properties (C01, C02, C05): enumeration, random generation, conversion to the
Python spelling pydra takes and to the Gallina term of Model/State.v, and runners for the implementation.

A tree is ("F", i) | ("O", [trees]) | ("I", [trees]);  field i is called FIELDS[i] in Python.
Shapes: shapes[i] is the list of outer-axis lengths of field i ([n] for a plain list; [n, m] means a
rectangular list of lists split with container_ndim 2)."""
import copy
import itertools
import os
import shutil
import tempfile

from . import coqio

NAME_SETS = [["a", "b", "c", "d", "e", "f", "g"],
             # names that are prefixes / substrings of one another (x in x_scale, xs; in_file in in_files; file in
             # in_file, in_files; scale in x_scale)
             ["x", "x_scale", "in_file", "in_files", "xs", "file", "scale"]]
FIELDS = list(NAME_SETS[0])


def use_names(k):
    """switch the field names (and the task tag_task() returns) to NAME_SETS[k]"""
    FIELDS[:] = NAME_SETS[k]


# ---------------------------------------------------------------- trees
def leaves(t):
    return [t[1]] if t[0] == "F" else [x for c in t[1] for x in leaves(c)]


def to_py(t):
    if t[0] == "F":
        return FIELDS[t[1]]
    kids = [to_py(c) for c in t[1]]
    return kids if t[0] == "O" else tuple(kids)


def to_coq(t):
    if t[0] == "F":
        return "(Fld %d)" % t[1]
    return "(%s [%s])" % ("Outer" if t[0] == "O" else "Inner", "; ".join(to_coq(c) for c in t[1]))


def show(t):
    return repr(to_py(t)).replace("'", "")


def from_json(j):
    return ("F", j[1]) if j[0] == "F" else (j[0], [from_json(c) for c in j[1]])


def compositions(n):
    """ordered ways of writing n as a sum of >= 2 positive parts"""
    def go(n):
        if n == 0:
            yield []
            return
        for first in range(1, n + 1):
            for rest in go(n - first):
                yield [first] + rest
    return [c for c in go(n) if len(c) >= 2]


_SHAPES = {}


def tree_shapes(k):
    """all trees with k leaves numbered 0..k-1 left to right, inner nodes with >= 2 children, both kinds"""
    if k in _SHAPES:
        return _SHAPES[k]
    if k == 1:
        res = [("F", 0)]
    else:
        res = []
        for comp in compositions(k):
            parts = [tree_shapes(n) for n in comp]
            for combo in itertools.product(*parts):
                kids, off = [], 0
                for sub, n in zip(combo, comp):
                    kids.append(relabel(sub, lambda i, off=off: i + off))
                    off += n
                for kind in "OI":
                    res.append((kind, kids))
    _SHAPES[k] = res
    return res


def relabel(t, f):
    return ("F", f(t[1])) if t[0] == "F" else (t[0], [relabel(c, f) for c in t[1]])


def random_tree(rng, k, p_inner=0.4, p_wrap=0.08):
    """random n-ary tree over fields 0..k-1 (in a random order), with occasional one-element wrappers"""
    order = list(range(k))
    rng.shuffle(order)

    def build(fs):
        if len(fs) == 1:
            t = ("F", fs[0])
        else:
            nparts = rng.choice([2, 2, 2, 3, 3, 4][: max(1, len(fs))]) if len(fs) > 2 else 2
            nparts = min(nparts, len(fs))
            cuts = sorted(rng.sample(range(1, len(fs)), nparts - 1))
            parts = [fs[i:j] for i, j in zip([0] + cuts, cuts + [len(fs)])]
            t = ("I" if rng.random() < p_inner else "O", [build(p) for p in parts])
        while rng.random() < p_wrap:
            t = (rng.choice("OI"), [t])
        return t
    return build(order)


def assign_shapes(rng, t, k, lens=(0, 1, 2, 2, 3, 3), p_consistent=0.85, allow_nd=True):
    """shapes for fields 0..k-1, chosen so that most inner products are over equal shapes"""
    shapes = [None] * k

    def go(t):
        """returns the shape of the subtree, or None when it is (going to be) rejected"""
        if t[0] == "F":
            if shapes[t[1]] is None:
                shapes[t[1]] = [rng.choice(lens)]
            return shapes[t[1]]
        kids = t[1]
        if t[0] == "O":
            out = []
            bad = False
            for c in kids:
                s = go(c)
                if s is None:
                    bad = True
                else:
                    out += s
            return None if bad else out
        comp = [go(c) for c in kids if c[0] != "F"]
        target = None
        if comp and all(s is not None and s == comp[0] for s in comp):
            target = comp[0]
        elif not comp:
            target = [rng.choice(lens)]
        ok = target is not None
        for c in kids:
            if c[0] != "F":
                continue
            if target is not None and rng.random() < p_consistent and (len(target) == 1 or (allow_nd and len(target) <= 3 and all(target))):
                shapes[c[1]] = list(target)
            else:
                shapes[c[1]] = [rng.choice(lens)]
                ok = ok and shapes[c[1]] == target
        return target if ok else None
    go(t)
    return [s if s is not None else [1] for s in shapes]


# ---------------------------------------------------------------- variants of a tree over the same fields (for sequences of
# submissions into one cache: neighbours that differ in a bracket type, re-bracketings that are / are not equivalent)
def _paths(t, pred, path=()):
    out = [path] if pred(t) else []
    if t[0] != "F":
        for i, c in enumerate(t[1]):
            out += _paths(c, pred, path + (i,))
    return out


def _rewrite(t, path, f):
    if not path:
        return f(t)
    kids = list(t[1])
    kids[path[0]] = _rewrite(kids[path[0]], path[1:], f)
    return (t[0], kids)


def flip_node(rng, t):
    """inner <-> outer at one node with >= 2 operands (nested nodes preferred); None if there is none"""
    ps = _paths(t, lambda x: x[0] != "F" and len(x[1]) >= 2)
    if not ps:
        return None
    nested = [p for p in ps if p]
    path = rng.choice(nested if nested and rng.random() < 0.8 else ps)
    return _rewrite(t, path, lambda x: ("I" if x[0] == "O" else "O", x[1]))


def merge_nested(rng, t):
    """splice the operands of a nested list/tuple into its parent, whatever the two bracket types are (equivalent only
    when they are the same type); None if no node has a nested operand"""
    ps = _paths(t, lambda x: x[0] != "F" and any(c[0] != "F" for c in x[1]))
    if not ps:
        return None

    def merge(x):
        kids = list(x[1])
        idx = rng.choice([i for i, c in enumerate(kids) if c[0] != "F"])
        return (x[0], kids[:idx] + list(kids[idx][1]) + kids[idx + 1:])
    return _rewrite(t, rng.choice(ps), merge)


def regroup(rng, t):
    """an equivalent spelling: wrap a node in a one-element list/tuple, or group a run of operands of a node into a nested
    node of the same type"""
    ps = _paths(t, lambda x: True)
    path = rng.choice(ps)

    def f(x):
        if x[0] != "F" and len(x[1]) >= 3 and rng.random() < 0.7:
            i = rng.randrange(len(x[1]) - 1)
            j = rng.randrange(i + 2, len(x[1]) + 1)
            if j - i < len(x[1]):
                return (x[0], x[1][:i] + [(x[0], x[1][i:j])] + x[1][j:])
        return (rng.choice("OI"), [x])
    return _rewrite(t, path, f)


# ---------------------------------------------------------------- reference expansion (used for statistics and
# for the end-to-end value check only; the verdicts come from Coq)
def nprod(sh):
    n = 1
    for x in sh:
        n *= x
    return n


def py_expand(t, shapes):
    """(jobs, shape) or None; a job is a dict field -> flat index"""
    if t[0] == "F":
        return [{t[1]: i} for i in range(nprod(shapes[t[1]]))], list(shapes[t[1]])
    subs = [py_expand(c, shapes) for c in t[1]]
    if any(s is None for s in subs) or not subs:
        return None
    jobs, sh = subs[0]
    for j2, s2 in subs[1:]:
        if t[0] == "O":
            jobs = [{**x, **y} for x in jobs for y in j2]
            sh = sh + s2
        else:
            if sh != s2:
                return None
            jobs = [{**x, **y} for x, y in zip(jobs, j2)]
    return jobs, sh


# ---------------------------------------------------------------- values
def tag(field, flat_index):
    return (field + 1) * 1000 + flat_index


def untag(v):
    return v // 1000 - 1, v % 1000


def make_value(field, shape):
    """nested list of the given shape whose flattened j-th element is tag(field, j)"""
    def build(sh, base):
        if len(sh) == 1:
            return [tag(field, base + j) for j in range(sh[0])]
        step = nprod(sh[1:])
        return [build(sh[1:], base + i * step) for i in range(sh[0])]
    return build(list(shape), 0)


# ---------------------------------------------------------------- Gallina
def coq_nats(xs):
    """compact list-of-nat literal (nat_scope is the default scope of the case files)"""
    assert all(isinstance(x, int) and 0 <= x < 5000 for x in xs), xs
    return "[" + ";".join(str(x) for x in xs) + "]"


def coq_shapes(shapes):
    return "[" + ";".join(coq_nats(s) for s in shapes) + "]"


def coq_rows(rows):
    return "[" + ";".join(coq_nats(r) for r in rows) + "]"


def coq_obs(obs):
    """obs = ("ok", rows) | ("err", "EShape"|"EIndex"|"EStack")"""
    if obs[0] == "ok":
        return "(Ok %s)" % coq_rows(obs[1])
    return "(Err %s)" % obs[1]


def classify_exc(e):
    msg = str(e)
    if isinstance(e, ValueError) and "do not have same shape" in msg:
        return "EShape"
    if isinstance(e, IndexError):
        return "EIndex"
    return None


# ---------------------------------------------------------------- running the implementation: State level
def run_state(t, shapes, combiner=None):
    """State(...).prepare_states on tagged inputs.
    Returns dict(obs=..., keys=..., val_ok=bool, state=State or None, exc=repr or None)."""
    from pydra.engine.state import State
    fs = sorted(leaves(t))
    ndim = {"NA." + FIELDS[f]: len(shapes[f]) for f in fs if len(shapes[f]) > 1}
    inputs = {"NA." + FIELDS[f]: make_value(f, shapes[f]) for f in fs}
    out = dict(obs=None, keys=None, val_ok=True, state=None, exc=None)
    try:
        st = State("NA", splitter=copy.deepcopy(to_py(t)),
                   combiner=[FIELDS[c] for c in combiner] if combiner else None,
                   container_ndim=dict(ndim) if ndim else None)
        st.prepare_states(inputs)
    except Exception as e:  # noqa: BLE001 - every exception is an observation
        kind = classify_exc(e)
        out["exc"] = "%s: %s" % (type(e).__name__, str(e)[:200])
        out["obs"] = ("err", kind) if kind else ("exc", out["exc"])
        return out
    out["state"] = st
    out["keys"] = [k[3:] for k in st.keys]
    rows = []
    for ind, val in zip(st.states_ind, st.states_val):
        if sorted(ind) != ["NA." + FIELDS[f] for f in fs] or len(st.states_val) != len(st.states_ind):
            out["val_ok"] = False
        rows.append([ind.get("NA." + FIELDS[f], 4999) for f in fs])
        for f in fs:
            k = "NA." + FIELDS[f]
            if k in ind and val.get(k) != tag(f, ind[k]):
                out["val_ok"] = False
    out["obs"] = ("ok", rows)
    return out


# ---------------------------------------------------------------- running the implementation: end to end
_TAGS = {}


def tag_task():
    """a python task with seven untyped fields (named FIELDS) that returns (and logs) all its inputs"""
    key = tuple(FIELDS)
    if key not in _TAGS:
        import typing as ty
        from pydra.compose import python
        if key == tuple(NAME_SETS[0]):
            @python.define
            def Tag(a: ty.Any = -1, b: ty.Any = -2, c: ty.Any = -3, d: ty.Any = -4, e: ty.Any = -5, f: ty.Any = -6,
                    g: ty.Any = -7) -> list:
                # pydra may run a pickled copy of this function, so executions are counted through a file
                import os
                vals = [a, b, c, d, e, f, g]
                path = os.environ.get("VERIF_BODY_LOG")
                if path:
                    with open(path, "a") as fh:
                        fh.write(repr(vals) + "\n")
                return vals
            _TAGS[key] = Tag
        else:
            assert key == tuple(NAME_SETS[1])

            @python.define
            def Tag2(x: ty.Any = -1, x_scale: ty.Any = -2, in_file: ty.Any = -3, in_files: ty.Any = -4, xs: ty.Any = -5,
                     file: ty.Any = -6, scale: ty.Any = -7) -> list:
                import os
                vals = [x, x_scale, in_file, in_files, xs, file, scale]
                path = os.environ.get("VERIF_BODY_LOG")
                if path:
                    with open(path, "a") as fh:
                        fh.write(repr(vals) + "\n")
                return vals
            _TAGS[key] = Tag2
    return _TAGS[key]


CONST = [-1, -2, -3, -4, -5, -6, -7]


def run_e2e(t, shapes, combiner=None, tmp_root=None, cache_root=None):
    """Task.split(...)[.combine(...)] through Submitter(worker="debug").
    Returns dict(obs=..., out=raw output or None, bodies=int, const_ok=bool, exc=..., leftover=[dir names]).
    cache_root: an existing directory to use (and keep) as the cache root, so that several submissions share it."""
    from pydra.engine.submitter import Submitter
    Tag = tag_task()
    fs = sorted(leaves(t))
    ndim = {FIELDS[f]: len(shapes[f]) for f in fs if len(shapes[f]) > 1}
    vals = {FIELDS[f]: make_value(f, shapes[f]) for f in fs}
    tmp = cache_root or tempfile.mkdtemp(prefix="verif_state_", dir=tmp_root)
    fd, body_log = tempfile.mkstemp(prefix="verif_bodies_", dir=tmp_root)
    os.close(fd)
    os.environ["VERIF_BODY_LOG"] = body_log

    def bodies():
        with open(body_log) as fh:
            return sum(1 for _ in fh)
    res = dict(obs=None, out=None, bodies=0, const_ok=True, exc=None, leftover=[])
    try:
        try:
            task = Tag().split(copy.deepcopy(to_py(t)), container_ndim=dict(ndim) if ndim else None, **vals)
            if combiner:
                task = task.combine([FIELDS[c] for c in combiner])
            with Submitter(worker="debug", cache_root=tmp) as sub:
                r = sub(task)
            out = r.outputs.out
        except Exception as e:  # noqa: BLE001
            kind = classify_exc(e)
            res["exc"] = "%s: %s" % (type(e).__name__, str(e)[:200])
            res["obs"] = ("err", kind) if kind else ("exc", res["exc"])
            res["bodies"] = bodies()
            res["leftover"] = sorted(n.split("-")[0] for n in os.listdir(tmp) if os.path.isdir(os.path.join(tmp, n)))
            return res
        res["out"] = out
        res["bodies"] = bodies()
        if not combiner:
            rows = []
            for job in out:
                row = []
                for f in range(len(FIELDS)):
                    if f in fs:
                        ff, j = untag(job[f])
                        if ff != f:
                            res["const_ok"] = False
                        row.append(j)
                    elif job[f] != CONST[f]:
                        res["const_ok"] = False
                rows.append(row)
            res["obs"] = ("ok", rows)
        return res
    finally:
        os.environ.pop("VERIF_BODY_LOG", None)
        if cache_root is None:
            shutil.rmtree(tmp, ignore_errors=True)
        try:
            os.unlink(body_log)
        except OSError:
            pass


VALUE_POOL = [None, 0, 1, "", "s", False, True, 0.0, [], [1, 2], [None], (), {"k": 1}, None, 7, 7, "s", -1]


def run_e2e_values(t, values, tmp_root=None):
    """Task.split over arbitrary element values (values[f] = the list for field f): returns dict(out=list of per-job
    input lists or None, exc=..., bodies=int)"""
    from pydra.engine.submitter import Submitter
    Tag = tag_task()
    fs = sorted(leaves(t))
    tmp = tempfile.mkdtemp(prefix="verif_state_", dir=tmp_root)
    fd, body_log = tempfile.mkstemp(prefix="verif_bodies_", dir=tmp_root)
    os.close(fd)
    os.environ["VERIF_BODY_LOG"] = body_log
    res = dict(out=None, exc=None, bodies=0)
    try:
        try:
            task = Tag().split(copy.deepcopy(to_py(t)), **{FIELDS[f]: copy.deepcopy(values[f]) for f in fs})
            with Submitter(worker="debug", cache_root=tmp) as sub:
                r = sub(task)
            res["out"] = [list(j) for j in r.outputs.out]
        except Exception as e:  # noqa: BLE001
            res["exc"] = "%s: %s" % (type(e).__name__, str(e)[:300])
        with open(body_log) as fh:
            res["bodies"] = sum(1 for _ in fh)
        return res
    finally:
        os.environ.pop("VERIF_BODY_LOG", None)
        shutil.rmtree(tmp, ignore_errors=True)
        try:
            os.unlink(body_log)
        except OSError:
            pass


def same_value(a, b):
    """equality that tells None, 0, False, 0.0, "" and containers apart"""
    if type(a) is not type(b):
        return False
    if isinstance(a, (list, tuple)):
        return len(a) == len(b) and all(same_value(x, y) for x, y in zip(a, b))
    if isinstance(a, dict):
        return sorted(a) == sorted(b) and all(same_value(a[k], b[k]) for k in a)
    return a == b
