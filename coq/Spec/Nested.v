(* Spec/Nested.v — C04 reference semantics: splitting a nested list with container dimension n
   runs one job per element found at depth n, depth first; inside an outer splitter the jobs are the
   lexicographic product of the two element lists, inside an inner splitter their positional pairing.
   Only the value type is shared with the model. *)
From Pydra Require Import Base.Prelude Model.Nested.
Local Open Scope nat_scope.

(* the elements found at depth n, depth first, left to right; an atom met above depth n
   cannot be opened and is an element itself *)
Fixpoint elements_at_depth (n : nat) (v : value) : list value :=
  match n with
  | 0 => [v]
  | S n' => match v with
            | Leaf _ => [v]
            | Node l => flat_map (elements_at_depth n') l
            end
  end.

(* an n-dimensional rectangular array: a list of (n-1)-dimensional rectangular arrays that all
   have the same dimensions *)
Fixpoint dims (n : nat) (v : value) : list nat :=
  match n with
  | 0 => []
  | S n' => match v with
            | Leaf _ => []
            | Node l => List.length l :: match l with [] => [] | c :: _ => dims n' c end
            end
  end.

Fixpoint rectangular (n : nat) (v : value) : Prop :=
  match n with
  | 0 => True
  | S n' => match v with
            | Leaf _ => False
            | Node l => Forall (rectangular n') l /\
                        forall c c', In c l -> In c' l -> dims n' c = dims n' c'
            end
  end.

Fixpoint rectangularb (n : nat) (v : value) : bool :=
  match n with
  | 0 => true
  | S n' => match v with
            | Leaf _ => false
            | Node l => forallb (rectangularb n') l &&
                        match l with
                        | [] => true
                        | c :: r => forallb (fun c' => list_eqb Nat.eqb (dims n' c) (dims n' c')) r
                        end
            end
  end.

(* every level above n holds lists of one common length: the level-by-level reading of "regular" *)
Definition node_len (k : nat) (v : value) : Prop := exists l, v = Node l /\ List.length l = k.
Definition level_uniform (vs : list value) : Prop := exists k, Forall (node_len k) vs.

(* ---- what a run may do *)

(* one field, alone: exactly the elements at depth n, in order *)
Definition single_ok (n : nat) (v : value) (o : outcome value) : Prop :=
  o = Jobs (elements_at_depth n v).

(* outer splitter [x, y]: every pair, x slowest *)
Definition outer_ok (nx : nat) (x : value) (ny : nat) (y : value) (o : outcome (value * value)) : Prop :=
  o = Jobs (list_prod (elements_at_depth nx x) (elements_at_depth ny y)).

(* inner splitter (x, y): either rejected for unequal shapes — mandatory when the two element counts
   differ, forbidden when both are rectangular with equal dimensions — or the positional pairing of
   all elements of both; never an IndexError, never a partial pairing *)
Definition inner_ok (nx : nat) (x : value) (ny : nat) (y : value) (o : outcome (value * value)) : Prop :=
  let ex := elements_at_depth nx x in
  let ey := elements_at_depth ny y in
  match o with
  | Jobs l => List.length ex = List.length ey /\ l = combine ex ey
  | ShapeError => ~ (rectangular nx x /\ rectangular ny y /\ dims nx x = dims ny y)
  | IndexErr => False
  end.

(* executable versions for the correspondence cases *)
Definition pair_eqb' (a b : value * value) : bool := value_eqb (fst a) (fst b) && value_eqb (snd a) (snd b).
Definition outcome_eqb {A} (eqb : A -> A -> bool) (a b : outcome A) : bool :=
  match a, b with
  | Jobs l, Jobs m => list_eqb eqb l m
  | ShapeError, ShapeError => true
  | IndexErr, IndexErr => true
  | _, _ => false
  end.

Definition single_okb (n : nat) (v : value) (o : outcome value) : bool :=
  outcome_eqb value_eqb o (Jobs (elements_at_depth n v)).
Definition outer_okb (nx : nat) (x : value) (ny : nat) (y : value) (o : outcome (value * value)) : bool :=
  outcome_eqb pair_eqb' o (Jobs (list_prod (elements_at_depth nx x) (elements_at_depth ny y))).
Definition inner_okb (nx : nat) (x : value) (ny : nat) (y : value) (o : outcome (value * value)) : bool :=
  let ex := elements_at_depth nx x in
  let ey := elements_at_depth ny y in
  match o with
  | Jobs l => Nat.eqb (List.length ex) (List.length ey) && list_eqb pair_eqb' l (combine ex ey)
  | ShapeError => negb (rectangularb nx x && rectangularb ny y && list_eqb Nat.eqb (dims nx x) (dims ny y))
  | IndexErr => false
  end.

(* ---- any number of fields.  An operand is (container dimension, value). *)
Definition operand := (nat * value)%type.
Definition op_elements (p : operand) : list value := elements_at_depth (fst p) (snd p).

(* lexicographic product of k lists, leftmost slowest *)
Fixpoint prod_n {A} (xs : list (list A)) : list (list A) :=
  match xs with
  | [] => [[]]
  | x :: r => flat_map (fun a => map (cons a) (prod_n r)) x
  end.

(* positional pairing of k >= 1 lists *)
Fixpoint zip_n {A} (xs : list (list A)) : list (list A) :=
  match xs with
  | [] => []
  | x :: r => match r with
              | [] => map (fun a => [a]) x
              | _ => map (fun p => fst p :: snd p) (combine x (zip_n r))
              end
  end.

Definition outer_n_ok (ops : list operand) (o : outcome (list value)) : Prop :=
  o = Jobs (prod_n (map op_elements ops)).

Definition same_dims (ops : list operand) : Prop :=
  forall p q, In p ops -> In q ops -> dims (fst p) (snd p) = dims (fst q) (snd q).

(* either all operands have the same number of elements and every position is paired, or the run is
   rejected for unequal shapes — which may not happen when all operands are rectangular with equal dims *)
Definition inner_n_ok (ops : list operand) (o : outcome (list value)) : Prop :=
  let es := map op_elements ops in
  match o with
  | Jobs l => (forall e e', In e es -> In e' es -> List.length e = List.length e') /\ l = zip_n es
  | ShapeError => ~ (Forall (fun p => rectangular (fst p) (snd p)) ops /\ same_dims ops)
  | IndexErr => False
  end.

Definition outer_n_okb (ops : list operand) (o : outcome (list value)) : bool :=
  outcome_eqb (list_eqb value_eqb) o (Jobs (prod_n (map op_elements ops))).
Definition inner_n_okb (ops : list operand) (o : outcome (list value)) : bool :=
  let es := map op_elements ops in
  match o with
  | Jobs l => match es with
              | [] => true
              | e :: r => forallb (fun e' => Nat.eqb (List.length e) (List.length e')) r
              end && list_eqb (list_eqb value_eqb) l (zip_n es)
  | ShapeError => negb (forallb (fun p => rectangularb (fst p) (snd p)) ops &&
                        match ops with
                        | [] => true
                        | p :: r => forallb (fun q => list_eqb Nat.eqb (dims (fst p) (snd p)) (dims (fst q) (snd q))) r
                        end)
  | IndexErr => false
  end.

(* ---- lists and tuples are both containers: the elements at depth n of a value that may hold tuples *)
Fixpoint telements (n : nat) (v : tvalue) : list tvalue :=
  match n with
  | 0 => [v]
  | S n' => match v with
            | TLeaf _ => [v]
            | TList l => flat_map (telements n') l
            | TTup l => flat_map (telements n') l
            end
  end.

Definition tsingle_okb (n : nat) (v : tvalue) (o : outcome tvalue) : bool :=
  outcome_eqb tvalue_eqb o (Jobs (telements n v)).
