"""C07 — identical computations map to the same cache identity in every session."""
import json
import os
import shutil
import subprocess
import tempfile

from .lib import coqio, hashgen as hg, hashmodel as hm
from .lib.runner import Outcome, Failure
from . import c08

PROP = "C07"
PROPS_FILE = "Props/C07.v"
MANIFEST = dict(
    text="Coq theorems on the model of hash_object + Task._compute_hashes/_checksum (Model/Hash.v): "
         "C07_seed_independent (the checksum of a task is the same for any iteration order of every set, any "
         "insertion order of every dict and any object identities of its inputs, whenever `<` is a strict total order "
         "on the elements of each set/dict and the inputs have no reference cycles), C07_seed_independent_deep (the same "
         "with sets re-ordered at every nesting level at once: nested frozensets forming a chain), C07_sorted_order_free (CPython's "
         "small-list sort returns one list for all input orders under a total order), C07_checksum_of_digests, and "
         "C07_refuted_frozenset_of_frozensets (a frozenset of incomparable frozensets gives two checksums). "
         "Correspondence: generated values hashed and used as task input in fresh interpreters under several "
         "PYTHONHASHSEED values, with shuffled insertion orders and after a cloudpickle round trip; the model is "
         "evaluated in Coq on each session's own iteration order with the recorded blake2b table. Partial: cache-root "
         "and worker independence is by construction of the checksum function and sampled on a few real runs.",
    note="Trusted: Coq kernel + vm_compute; hand-written model; process spawning and tree conversion in the harness.",
    technique="Coq proof (sorted-permutation uniqueness, memo invariant) + multi-seed differential execution",
    design="§8 Group B / C07",
)
TIE_NAME = "Model.Hash.checksum/digest vs Task._checksum/hash_function in fresh interpreters per PYTHONHASHSEED"
TRUSTED = c08.TRUSTED + [
    "Task._compute_hashes: which (name, value) pairs are hashed is read by the harness's mirror of its loop "
    "(harness/lib/hashtasks.py); the `function` and `Outputs` fields enter the model as the function's AST chunks and "
    "the class's byte string taken from the code",
]
ASSUMPTIONS = c08.ASSUMPTIONS + ["what a new session can change about equal inputs is set iteration order, dict "
                                 "insertion order and object identity (session_variant)"]
RULE = ("generated acyclic values (depth<=4, width<=4; incl. sets/dicts of str/int/bytes/float/tuple/frozenset/path "
        "keys, frozensets of frozensets, numpy arrays, objects) each with a twin built in shuffled insertion order, and "
        "arrays held in six memory layouts (C, Fortran, transposed, strided, strided+transposed, negative stride); "
        "file inputs whose stored 16-byte digest starts / ends with each ASCII whitespace byte and NUL, hashed first "
        "and read back from the persistent hash cache in two fresh interpreters; "
        "hash_function(value) and Ident(x=value)._checksum computed in one fresh interpreter per PYTHONHASHSEED, also "
        "after a cloudpickle round trip; distinct = distinct value tree, non-trivial = contains a set or dict with >= 2 "
        "elements")
IMPORTS = ["Base.PySort", "Model.Hash", "Spec.Hash"]
EXTRA = """
Definition res_eqb (r : res string) (o : option string) : bool :=
  match r, o with Ok d, Some x => String.eqb d x | Err ETypeError, None => true | _, _ => false end.
Definition case_t := (list (string * string) * string * list (string * pyval) * option string * pyval * option string)%type.
Definition tie_ok (c : case_t) : bool :=
  let '(tbl, ty, fields, cs, v, h) := c in
  res_eqb (checksum (table_H tbl) ty fields) cs &&
  res_eqb (match digest (table_H tbl) v with Ok d => Ok (hex d) | Err e => Err e end) h.
"""


def shuffled_twin(rng, t, ids):
    """the same value built with every set / dict / plain-object attribute dict in another insertion order"""
    t2 = hg.fresh(t, ids)
    for x in hg.nodes(t2):
        if x[0] in ("VSet", "VFrozenset", "VDict") and len(x[2]) >= 2:
            p = x[2][:]
            rng.shuffle(p)
            x[2][:] = p if p != x[2] else x[2][::-1]
        elif x[0] == "VObj" and x[3] == "plain" and len(x[4]) >= 2:
            x[4][:] = x[4][::-1]
    return t2


def canon(t):
    """order-free canonical form of a value tree (ids dropped; sets, dicts and attribute dicts sorted)"""
    k = t[0]
    if k in ("VList", "VTuple"):
        return [k, [canon(c) for c in t[2]]]
    if k in ("VSet", "VFrozenset"):
        return [k, sorted((canon(c) for c in t[2]), key=json.dumps)]
    if k == "VDict":
        return [k, sorted(([canon(a), canon(b)] for a, b in t[2]), key=json.dumps)]
    if k == "VObj":
        return [k, t[2], sorted(([n, canon(v)] for n, v in t[4]), key=json.dumps)]
    if k in ("VNd", "VFunc", "VOpaque"):
        return [k] + t[2:]
    return t


def same_value(t1, t2):
    """do the two trees build the same Python value (sets as sets)?  Elements that are == but of different type
    ({1, True}, {PosixPath('b'), PurePosixPath('b')}) collapse to whichever was inserted first."""
    try:
        return canon(hm.to_model(hm.build(t1))) == canon(hm.to_model(hm.build(t2)))
    except (hm.Unsupported, TypeError):
        return False


def nontrivial(t):
    return any(x[0] in ("VSet", "VFrozenset", "VDict") and len(x[2]) >= 2 for x in hg.nodes(t))


def gen_groups(ctx, n):
    rng = ctx.rng
    groups = []
    for c in ctx.corpus():
        groups.append({"name": "corpus:" + c.get("name", "?"), "variants": c["variants"]})
    # arrays: one logical array in every memory layout (C, Fortran, transposed, strided, strided+transposed,
    # negative stride), bare and nested; every layout must give the same identity in every session and after pickling
    for k in range(6 if ctx.tier == "quick" else 30):
        ids = hg.Ids()
        vs = hg.nd_layouts(rng, ids)
        if k % 3 == 1:
            vs = [["VList", ids.new(), [v, ["VInt", k]]] for v in vs]
        elif k % 3 == 2:
            vs = [["VDict", ids.new(), [[["VStr", hg.s_hex("a")], v]]] for v in vs]
        groups.append({"name": "layouts", "variants": vs})
    while len(groups) < n:
        ids = hg.Ids()
        r = rng.random()
        if r < 0.25:
            kind = rng.choice(["fset", "fset", "str", "int", "tuple", "float", "bytes", "path"])
            elems = hg.hashable_elems(rng, ids, rng.randrange(2, 5), 2, kind)
            if kind == "fset" and rng.random() < 0.5:
                for e in elems:            # string members: their set order depends on the hash seed
                    e[2] = [hg.atom(rng, ["str"]) for _ in range(rng.randrange(1, 3))]
            if rng.random() < 0.5:
                t = [rng.choice(["VSet", "VFrozenset"]), ids.new(), elems]
            else:
                t = ["VDict", ids.new(), [[k, hg.atom(rng)] for k in elems]]
            if rng.random() < 0.5:
                t = ["VList", ids.new(), [t, hg.atom(rng)]]
        else:
            t = hg.value(rng, ids, rng.choice([2, 3, 3, 4]), top=True)
        twin = shuffled_twin(rng, t, ids)
        groups.append({"name": "gen", "variants": [t, twin] if same_value(t, twin) else [t]})
    return groups


def run_workers(ctx, items, seeds):
    """one fresh interpreter per hash seed, all items in each; returns {seed: {key: result}}"""
    repo = os.environ.get("VERIF_REPO", "/repo")
    tmp = tempfile.mkdtemp(prefix="c07-", dir="/tmp")
    out = {}
    try:
        procs = []
        for s in seeds:
            inp, outp = os.path.join(tmp, "in%d.json" % s), os.path.join(tmp, "out%d.json" % s)
            with open(inp, "w") as f:
                json.dump({"seed": s, "items": [dict(it, model=it["model"] and s in seeds[:2]) for it in items]}, f)
            env = dict(os.environ, PYTHONHASHSEED=str(s), PYTHONPATH="%s:%s" % (coqio.VERIF, repo), NO_ET="1",
                       PYTHONDONTWRITEBYTECODE="1")
            procs.append((s, outp, subprocess.Popen(["/venv/bin/python", "-m", "harness.lib.hashworker", inp, outp],
                                                    env=env, cwd=coqio.VERIF, stdout=subprocess.PIPE,
                                                    stderr=subprocess.STDOUT, text=True)))
            if len(procs) >= 4:
                s0, o0, p0 = procs.pop(0)
                so, _ = p0.communicate(timeout=900)
                if p0.returncode != 0:
                    raise RuntimeError("worker seed %d failed: %s" % (s0, so[-2000:]))
                out[s0] = {r["key"]: r for r in json.load(open(o0))["results"]}
        for s0, o0, p0 in procs:
            so, _ = p0.communicate(timeout=900)
            if p0.returncode != 0:
                raise RuntimeError("worker seed %d failed: %s" % (s0, so[-2000:]))
            out[s0] = {r["key"]: r for r in json.load(open(o0))["results"]}
    finally:
        shutil.rmtree(tmp, ignore_errors=True)
    return out


def roots_and_workers(ctx, trees):
    """the directory a run creates is <cache_root>/<checksum>, whatever the root and the worker"""
    from .lib.hashtasks import Ident
    bad, n = [], 0
    for t in trees:
        try:
            obj = hm.build(t)
            task = Ident(x=obj)
            cs = task._checksum
        except Exception:
            continue
        d1, d2 = tempfile.mkdtemp(prefix="c07r-", dir="/tmp"), tempfile.mkdtemp(prefix="c07r-", dir="/tmp")
        try:
            Ident(x=hm.build(t))(cache_root=d1, worker="debug")
            Ident(x=hm.build(t))(cache_root=d2, worker="cf", n_procs=1)
            names = [sorted(x for x in os.listdir(d) if not x.endswith(".lock")) for d in (d1, d2)]
            n += 1
            if names != [[cs], [cs]]:
                bad.append({"tree": t, "checksum": cs, "dirs": names})
        except Exception as e:  # noqa
            bad.append({"tree": t, "error": repr(e)[:300]})
        finally:
            shutil.rmtree(d1, ignore_errors=True)
            shutil.rmtree(d2, ignore_errors=True)
    return n, bad


WS = (0x09, 0x0a, 0x0b, 0x0c, 0x0d, 0x20)


def file_sessions(ctx, out, dist):
    """File inputs: the identity computed first (content hashed) and the identity read back from the persistent
    hash cache, in the same and in a second fresh interpreter, must coincide.  Contents are searched so that the
    16-byte digest stored in the cache starts / ends with every ASCII whitespace byte (plus NUL and random ones)."""
    from fileformats.generic import File
    from pydra.utils.hash import hash_object, Cache
    rng = ctx.rng
    tmp = tempfile.mkdtemp(prefix="c07f-", dir="/tmp")
    repo = os.environ.get("VERIF_REPO", "/repo")
    try:
        os.makedirs(os.path.join(tmp, "search-cache"))
        os.makedirs(os.path.join(tmp, "hash-cache"))
        want = {("first", b) for b in WS + (0,)} | {("last", b) for b in WS + (0,)}
        chosen, edge = [], {}
        fdir = os.path.join(tmp, "files")
        os.makedirs(fdir)
        start = rng.randrange(10 ** 6)
        tries = ctx.budget(2500, 6000)
        for i in range(tries):
            content = "content %d\n" % (start + i)
            path = os.path.join(fdir, "f%d.txt" % i)
            with open(path, "w") as f:
                f.write(content)
            d = hash_object(File(path), cache=Cache(persistent=os.path.join(tmp, "search-cache")))
            hit = {("first", d[0]), ("last", d[-1])} & want
            if hit or (len(chosen) < 40 and i % 50 == 0):
                want -= hit
                chosen.append({"key": str(i), "path": path, "content": content})
                edge[str(i)] = "%02x..%02x" % (d[0], d[-1])
            else:
                os.unlink(path)
            if not want and len(chosen) >= 20:
                break
        dist["file_contents_searched"] = i + 1
        dist["file_inputs"] = len(chosen)
        dist["file_digest_edges_not_found"] = sorted("%s:%02x" % w for w in want)
        sessions = []
        for sess, seed in (("first", 0), ("second", 1)):
            inp, outp = os.path.join(tmp, "in_%s.json" % sess), os.path.join(tmp, "out_%s.json" % sess)
            with open(inp, "w") as f:
                json.dump({"items": chosen}, f)
            env = dict(os.environ, PYTHONHASHSEED=str(seed), PYTHONPATH="%s:%s" % (coqio.VERIF, repo), NO_ET="1",
                       PYTHONDONTWRITEBYTECODE="1", PYDRA_HASH_CACHE=os.path.join(tmp, "hash-cache"))
            p = subprocess.run(["/venv/bin/python", "-m", "harness.lib.hashfileworker", inp, outp], env=env,
                               cwd=coqio.VERIF, stdout=subprocess.PIPE, stderr=subprocess.STDOUT, text=True, timeout=900)
            if p.returncode != 0:
                raise RuntimeError("file worker failed: %s" % p.stdout[-2000:])
            sessions.append({r["key"]: r for r in json.load(open(outp))["results"]})
        for c in chosen:
            r1, r2 = sessions[0][c["key"]], sessions[1][c["key"]]
            out.evaluations += 10
            obs = {"digest_first..last_byte": edge[c["key"]], "session1": r1, "session2": r2}
            vals_h = set((r1.get("hash") or []) + (r2.get("hash") or []))
            vals_c = set((r1.get("checksum") or []) + (r2.get("checksum") or []))
            ok = ("error" not in r1 and "error" not in r2 and len(vals_h) == 1 and len(vals_c) == 1
                  and r1["in_list"] == r2["in_list"])
            if not ok:
                out.failures.append(Failure(
                    case={"name": "file", "file_name": os.path.basename(c["path"]), "content": c["content"]},
                    observed=obs, expected="one hash and one checksum: first computation = read-back from the "
                                           "persistent hash cache, in both sessions",
                    note="file input: identity differs between first computation and read-back / between sessions",
                    kind="spec"))
    finally:
        shutil.rmtree(tmp, ignore_errors=True)


def run(ctx):
    import time
    t0 = time.time()
    n = ctx.budget(60, 500)
    seeds = [0, 1, 2, 3] if ctx.tier == "quick" else list(range(10))
    groups = gen_groups(ctx, n)
    items = []
    for gi, g in enumerate(groups):
        for vi, t in enumerate(g["variants"]):
            items.append({"key": "%d.%d" % (gi, vi), "tree": t, "model": vi == 0})
    res = run_workers(ctx, items, seeds)
    t1 = time.time()
    dist = {"seeds": seeds, "groups": len(groups), "sessions": len(seeds) * len(items), "partial_order_groups": 0,
            "unsupported": 0, "typeerror_groups": 0, "unpicklable": 0, "iteration_order_differs_between_seeds": 0,
            "kinds": {}}
    out = Outcome(rule=RULE)
    cases, cmeta = [], []
    seen, nontriv = set(), 0
    for gi, g in enumerate(groups):
        keys = ["%d.%d" % (gi, vi) for vi in range(len(g["variants"]))]
        rs = [(s, k, res[s][k]) for s in seeds for k in keys]
        if any("unsupported" in r for _, _, r in rs):
            dist["unsupported"] += 1
            continue
        hashes = sorted({str(r.get(f)) for _, _, r in rs for f in ("hash", "hash_pickled")
                         if not str(r.get(f)).startswith("unpicklable")})
        sums = sorted({str(r.get(f)) for _, _, r in rs for f in ("checksum", "checksum_pickled") if f in r})
        dist["unpicklable"] += any(str(r.get("hash_pickled")).startswith("unpicklable") for _, _, r in rs)
        dist["typeerror_groups"] += "None" in hashes
        trees = {json.dumps(c08.strip_ids(r["session_tree"])) for _, k, r in rs if k == keys[0]}
        dist["iteration_order_differs_between_seeds"] += len(trees) > 1
        for k, v in hm.kinds(g["variants"][0]).items():
            dist["kinds"][k] = dist["kinds"].get(k, 0) + v
        key = json.dumps(c08.strip_ids(g["variants"][0]))
        if key not in seen:
            seen.add(key)
            nontriv += nontrivial(g["variants"][0])
        out.evaluations += 2 * len(rs)
        po = c08.has_partial_order(hm.build(g["variants"][0]))
        dist["partial_order_groups"] += po
        if len(hashes) > 1 or len(sums) > 1:
            out.failures.append(Failure(
                case={"name": g["name"], "variants": g["variants"], "seeds": seeds},
                observed={"hash_function": {"%d/%s" % (s, k): r.get("hash") for s, k, r in rs},
                          "checksum": {"%d/%s" % (s, k): r.get("checksum") for s, k, r in rs}},
                expected="one hash and one checksum in every session",
                note="identity differs between sessions (hash seed / insertion order / pickling)",
                finding="F07" if po else None, kind="spec"))
        for s, k, r in rs:
            if "fields" in r:
                cs = r["checksum"]
                cases.append(coqio.pair(
                    hm.table_term([(bytes.fromhex(p), bytes.fromhex(d)) for p, d in r["table"]]),
                    coqio.string(r["task_type"]),
                    coqio.lst([coqio.pair(coqio.string(nm), hm.term(t)) for nm, t in r["fields"]]),
                    coqio.option(None if cs is None else coqio.string(cs)),
                    hm.term(r["session_tree"]),
                    coqio.option(None if r["hash"] is None else coqio.string(r["hash"]))))
                cmeta.append({"name": g["name"], "variants": g["variants"], "seed": s, "key": k,
                              "checksum": cs, "hash": r["hash"], "fields": r["fields"]})
    out.distinct_nontrivial = nontriv
    out.traces_validated = len(cases)
    file_sessions(ctx, out, dist)
    nroot, badroot = roots_and_workers(ctx, [g["variants"][0] for g in groups[:ctx.budget(4, 20)]])
    dist["real_runs_two_roots_two_workers"] = nroot
    for b in badroot:
        out.failures.append(Failure(case=b, observed=b.get("dirs", b.get("error")), expected="<root>/<checksum> in both roots",
                                    note="cache directory differs from the checksum / between roots or workers", kind="spec"))
    r = coqio.run_cases(ctx.scratch, "c07", IMPORTS, "case_t", cases, {"tie": "tie_ok"}, extra=EXTRA, shard=150,
                        timeout=1500)
    dist["wall_workers_s"] = round(t1 - t0, 1)
    dist["wall_total_s"] = round(time.time() - t0, 1)
    for i in r["tie"][:10]:
        m = cmeta[i]
        out.failures.append(Failure(case={"name": m["name"], "variants": m["variants"], "seeds": [m["seed"]]},
                                    observed={"checksum": m["checksum"], "hash": m["hash"], "seed": m["seed"]},
                                    expected="model checksum/digest on this session's iteration order", note="model/impl",
                                    kind="tie"))
    out.distribution = dist
    out.samples = [{"value": g["variants"][0], "twin": g["variants"][1] if len(g["variants"]) > 1 else None,
                    "checksums_by_seed": {str(s): res[s]["%d.0" % gi].get("checksum") for s in seeds}}
                   for gi, g in enumerate(groups[:4])]
    return out


def replay_file(ctx, c):
    tmp = tempfile.mkdtemp(prefix="c07f-", dir="/tmp")
    repo = os.environ.get("VERIF_REPO", "/repo")
    try:
        path = os.path.join(tmp, c["file_name"])
        with open(path, "w") as f:
            f.write(c["content"])
        os.makedirs(os.path.join(tmp, "hash-cache"))
        for sess, seed in (("first", 0), ("second", 1)):
            inp, outp = os.path.join(tmp, "in.json"), os.path.join(tmp, "out.json")
            with open(inp, "w") as f:
                json.dump({"items": [{"key": "0", "path": path}]}, f)
            env = dict(os.environ, PYTHONHASHSEED=str(seed), PYTHONPATH="%s:%s" % (coqio.VERIF, repo), NO_ET="1",
                       PYDRA_HASH_CACHE=os.path.join(tmp, "hash-cache"))
            subprocess.run(["/venv/bin/python", "-m", "harness.lib.hashfileworker", inp, outp], env=env,
                           cwd=coqio.VERIF, check=True, timeout=600)
            print("implementation, %s session [first call, second call]:" % sess, json.load(open(outp))["results"][0])
        print("spec: one hash and one checksum in all four calls (first computation = read-back from the persistent "
              "hash cache); file hashing itself is modelled in C09, not here")
    finally:
        shutil.rmtree(tmp, ignore_errors=True)


def replay(ctx, payload):
    c = payload["case"]
    if c.get("name") == "file":
        return replay_file(ctx, c)
    seeds = c.get("seeds") or [0, 1, 2, 3]
    items = [{"key": "0.%d" % i, "tree": t, "model": False} for i, t in enumerate(c["variants"])]
    res = run_workers(ctx, items, seeds)
    for s in seeds:
        for it in items:
            r = res[s][it["key"]]
            print("implementation seed=%d variant=%s hash=%s checksum=%s hash_pickled=%s" % (
                s, it["key"], r.get("hash"), r.get("checksum"), r.get("hash_pickled")))
            print("   value as iterated in this session:", json.dumps(r.get("session_tree")))
    po = c08.has_partial_order(hm.build(c["variants"][0]))
    print("spec: one identity in every session; input has a set/dict whose elements are only partially ordered:", po)
    t0 = res[seeds[0]][items[0]["key"]].get("session_tree")
    if t0:
        vals = coqio.eval_terms(ctx.scratch, "replay", IMPORTS + ["Proofs.HashDom"],
                                ["in_domains %s" % hm.term(t0)])
        print("model: (acyclic, sortable [domain of C07_seed_independent], inj_dom) =", vals[0])
