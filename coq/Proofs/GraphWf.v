(* Proofs/GraphWf.v — well-formed removal calls succeed (C37, liveness of remove_nodes and
   remove_nodes_connections on well-formed graph objects). *)
From Pydra Require Import Base.Prelude Model.Graph Spec.Graph
  Proofs.GraphBase Proofs.GraphSort Proofs.GraphInv Proofs.GraphEdges Proofs.GraphTopo Proofs.GraphLive.
From Coq Require Import Sorting.Permutation.
Local Open Scope nat_scope.
Local Open Scope list_scope.

(* a well-formed graph object: the order invariant, consistent dictionaries, acyclic connections
   among all recorded nodes (remaining or marked for removal) *)
Definition wf_state (g : graph) : Prop :=
  inv g /\ consistent g /\ acyclic (g_wip g ++ g_nodes g) (g_edges g).

Lemma path_sub ns ns' es a b : (forall x, In x ns' -> In x ns) -> path ns' es a b -> path ns es a b.
Proof.
  intros H. induction 1 as [x y H1 H2 H3|x y z H1 H2 H3 _ IH]; [apply path_one; auto|eapply path_cons; eauto].
Qed.
Lemma acyclic_sub ns ns' es : (forall x, In x ns' -> In x ns) -> acyclic ns es -> acyclic ns' es.
Proof. intros H A a P. apply (A a). eapply path_sub; eauto. Qed.

(* ---- reflection of the spec's computable preconditions *)
Lemma mem_In x l : mem x l = true <-> In x l.
Proof.
  unfold mem. rewrite existsb_exists. split.
  - intros [y [Hy E]]. apply Nat.eqb_eq in E. now subst.
  - intros H. exists x. split; [assumption|apply Nat.eqb_refl].
Qed.
Lemma nodupb_NoDup l : nodupb l = true -> NoDup l.
Proof.
  induction l as [|x l IH]; cbn; intros H; [constructor|]. apply andb_true_iff in H. destruct H as [H1 H2].
  constructor; [|auto]. intros Hin. apply mem_In in Hin. rewrite Hin in H1. discriminate.
Qed.
Lemma subsetb_incl l m : subsetb l m = true -> forall x, In x l -> In x m.
Proof. unfold subsetb. rewrite forallb_forall. intros H x Hx. apply mem_In, H, Hx. Qed.
Lemma lookup_lk d k : lookup d k = lk d k.
Proof. reflexivity. Qed.

(* ---- remove_nodes *)
Lemma mark_removed_ok c l : forall g,
  NoDup l -> (forall x, In x l -> In x (g_nodes g)) -> (forall x, In x l -> In x (dkeys (g_preds g))) ->
  (c = true -> forall x, In x l -> lk (g_preds g) x = []) ->
  exists g1, foldM (mark_removed c) l g = Ok g1.
Proof.
  induction l as [|x l IH]; intros g Hnd Hin Hk Hp; cbn [foldM]; [eauto|].
  inversion Hnd as [|? ? Hx Hnd']; subst.
  assert (Hxn : In x (g_nodes g)) by (apply Hin; now left).
  destruct (remove_one_some Nat.eqb Nat.eqb_eq x (g_nodes g) Hxn) as [ns' Hr].
  assert (Hk' : In x (dkeys (g_preds g))) by (apply Hk; now left). apply dget_In_keys in Hk'. destruct Hk' as [p Hg].
  assert (E : mark_removed c g x = Ok (mkG ns' (g_edges g) (g_preds g) (g_succs g) (g_sorted g) (g_wip g ++ [x]))).
  { unfold mark_removed. apply memb_In in Hxn. rewrite Hxn. cbn [negb]. rewrite Hg. cbn [of_opt bind].
    assert (C : nonempty p && c = false).
    { destruct c; [|apply andb_false_r]. specialize (Hp eq_refl x (or_introl eq_refl)). unfold lk in Hp. rewrite Hg in Hp. subst p. reflexivity. }
    rewrite C, Hr. reflexivity. }
  rewrite E. cbn [bind]. apply IH; [exact Hnd'| | |]; cbn.
  - intros y Hy. apply (remove_one_other Nat.eqb Nat.eqb_eq x (g_nodes g) ns' y Hr); [intros ->; contradiction|apply Hin; now right].
  - intros y Hy. apply Hk. now right.
  - intros Hc y Hy. apply Hp; [exact Hc|now right].
Qed.

Lemma remove_all_some l : forall s, NoDup l -> (forall x, In x l -> In x s) -> exists s', remove_all l s = Ok s'.
Proof.
  unfold remove_all. induction l as [|x l IH]; intros s Hnd Hin; cbn [foldM]; [eauto|].
  inversion Hnd as [|? ? Hx Hnd']; subst.
  destruct (remove_one_some Nat.eqb Nat.eqb_eq x s (Hin x (or_introl eq_refl))) as [s1 Hr].
  rewrite Hr. cbn [of_opt bind]. apply IH; [exact Hnd'|].
  intros y Hy. apply (remove_one_other Nat.eqb Nat.eqb_eq x s s1 y Hr); [intros ->; contradiction|apply Hin; now right].
Qed.

Definition pre_remove_nodes (g : graph) (l : list node) (c : bool) : Prop :=
  NoDup l /\ (forall x, In x l -> In x (g_nodes g)) /\ (c = true -> forall x, In x l -> lk (g_preds g) x = []).

Lemma pre_remove_nodes_of_spec g l c : pre_opb g (RemoveNodes l c) = true -> pre_remove_nodes g l c.
Proof.
  cbn [pre_opb]. intros H. apply andb_true_iff in H. destruct H as [H H3]. apply andb_true_iff in H. destruct H as [H1 H2].
  split; [apply nodupb_NoDup, H1|]. split; [apply subsetb_incl, H2|].
  intros -> x Hx. cbn [negb orb] in H3. rewrite forallb_forall in H3. specialize (H3 x Hx).
  rewrite lookup_lk in H3. destruct (lk (g_preds g) x); [reflexivity|discriminate].
Qed.

Theorem remove_nodes_succeeds g l c :
  wf_state g -> pre_remove_nodes g l c -> exists g', remove_nodes g l c = Ok g' /\ wf_state g'.
Proof.
  intros [Hinv [Hc Hac]] [Hnd [Hin Hp]].
  destruct Hc as [ND [KS [KP [CP [CS [KE CL]]]]]].
  destruct (mark_removed_ok c l g Hnd Hin (fun x Hx => KP x (Hin x Hx)) Hp) as [g1 Hm].
  destruct (mark_removed_all _ _ _ _ Hm) as [Pn [Ep [Es [Ee [Eso Ew]]]]].
  assert (M : forall x, In x (g_wip g1 ++ g_nodes g1) <-> In x (g_wip g ++ g_nodes g)).
  { intros x. rewrite Ew, <- app_assoc, !in_app_iff.
    assert (In x (g_nodes g) <-> In x l \/ In x (g_nodes g1)).
    { rewrite <- in_app_iff. split; intros H; (eapply Permutation_in; [|exact H]); [|symmetry]; exact Pn. }
    tauto. }
  assert (C1 : consistent g1).
  { unfold consistent. rewrite Ep, Es, Ee. repeat split; auto.
    - rewrite Ew, <- app_assoc. eapply Permutation_NoDup; [|exact ND]. apply Permutation_app_head. exact Pn.
    - intros x Hx. apply KS, M, Hx.
    - intros x Hx. apply KP. eapply Permutation_in; [symmetry; exact Pn|apply in_or_app; auto].
    - apply (proj1 (KE a b H)).
    - apply (proj2 (KE a b H)).
    - intros a b Hab Hb. apply M. apply (CL a b Hab). eapply Permutation_in; [symmetry; exact Pn|apply in_or_app; auto]. }
  assert (A1 : acyclic (g_wip g1 ++ g_nodes g1) (g_edges g1)).
  { rewrite Ee. eapply acyclic_sub; [|exact Hac]. intros x Hx. apply M, Hx. }
  assert (R : exists g', remove_nodes g l c = Ok g').
  { unfold remove_nodes. rewrite Hm. cbn [bind]. destruct (g_sorted g1) as [s|] eqn:Hs1; [|eauto].
    unfold finish_remove. destruct (list_eqb Nat.eqb l (firstn (List.length l) s)); [eauto|].
    assert (Hps : Permutation s (g_nodes g)).
    { destruct Hinv as [_ [_ Hso]]. exact (proj1 (Hso s (eq_sym Eso))). }
    destruct (remove_all_some l s Hnd) as [s' Hr].
    { intros x Hx. eapply Permutation_in; [symmetry; exact Hps|apply Hin, Hx]. }
    rewrite Hr. cbn [bind]. apply remove_all_perm in Hr.
    apply consistent_sorting_ok.
    - exact C1.
    - right. cbn. eapply Permutation_app_inv_l. rewrite <- Hr, Hps. exact Pn.
    - cbn. eapply acyclic_sub; [|exact A1]. intros x Hx. apply in_or_app. now right. }
  destruct R as [g' Hg']. exists g'. split; [exact Hg'|].
  split; [eapply remove_nodes_inv; eauto|].
  (* the result is g1 with another recorded order *)
  assert (F : exists o, g' = set_sorted g1 o).
  { unfold remove_nodes in Hg'. rewrite Hm in Hg'. cbn [bind] in Hg'. destruct (g_sorted g1) as [s|].
    - apply finish_remove_frame in Hg'. exact Hg'.
    - inversion Hg'; subst. exists (g_sorted g'). destruct g'; reflexivity. }
  destruct F as [o ->]. split; [exact C1|exact A1].
Qed.

(* the constructor makes a well-formed object when the connections are acyclic *)
Lemma init_wf ns es g : init ns es = Ok g -> acyclic ns es -> wf_state g.
Proof.
  intros H A. split; [eapply init_inv; eauto|]. split; [eapply init_consistent; eauto|].
  unfold init in H. destruct (nonempty ns && has_dup ns); [discriminate|].
  destruct (nonempty es && negb _); [discriminate|].
  apply bind_ok in H. destruct H as [ps [_ H]]. inversion H; subst g. cbn. exact A.
Qed.

(* with the computable precondition of the executable reference reading, and the order of the result *)
Theorem wellformed_remove_nodes g l c :
  wf_state g -> inv2 g -> pre_opb g (RemoveNodes l c) = true ->
  exists g', step g (RemoveNodes l c) = Ok g' /\ wf_state g' /\ inv2 g' /\ sorted_ok g' /\ sorted_ok_preds g'.
Proof.
  intros W I2 P. destruct (remove_nodes_succeeds g l c W (pre_remove_nodes_of_spec g l c P)) as [g' [H W']].
  exists g'. split; [exact H|]. split; [exact W'|].
  destruct (inv_step g (RemoveNodes l c) g' I2 eq_refl H) as [A [B C]]. auto.
Qed.
