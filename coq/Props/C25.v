(* C25 — Command-line templates define the task they spell out. *)
From Pydra Require Import Base.Prelude Model.CmdTemplate Spec.CmdTemplate Proofs.CmdTemplate.
From Coq Require Import Sorting.Permutation.
Local Open Scope string_scope.

(* every well-formed template of the documented grammar (one modifier per field; "$" only on outputs; no default on
   outputs; defaults are literals of the written type; distinct names) is accepted *)
Theorem C25_accepts : forall ts, wf_template ts = true -> exists fs, fields_of_ast ts = POk fs.
Proof. exact wf_accepted. Qed.
Print Assumptions C25_accepts.

(* inference: the k-th token's field has the name, input/output kind, type, optionality (?), multiplicity (+, * ),
   default (=), path template ($, or name + extension of the type), flag and position (k+1) the token spells *)
Theorem C25_inference :
  forall ts fs, Forall flags_nonempty ts -> fields_of_ast ts = POk fs ->
    List.length fs = List.length ts /\
    forall k t f, nth_error ts k = Some t -> nth_error fs k = Some f -> spells k t f.
Proof. exact inference. Qed.
Print Assumptions C25_inference.

(* order: whatever order the task's attrs class iterates its fields in (any permutation), the argument vector of the
   defined task is the executable followed by what the tokens spell, in template order *)
Theorem C25_order :
  forall executable ts fs vs fvs,
    Forall flags_nonempty ts -> fields_of_ast ts = POk fs ->
    List.length vs = List.length ts ->
    forallb value_ok vs = true -> forallb flag_ok ts = true ->
    Permutation fvs (combine fs vs) ->
    command_args executable fvs [] = expected_argv executable (combine ts vs).
Proof. exact order. Qed.
Print Assumptions C25_order.

(* position_sort on its own: entries that are a permutation of a list with strictly increasing non-negative
   positions come out in exactly that order *)
Theorem C25_position_sort :
  forall (A : Type) (entries sorted : list (Z * A)),
    Sorted.StronglySorted key_lt sorted -> Forall (fun e => (0 <= fst e)%Z) sorted ->
    Permutation entries sorted -> position_sort entries = map snd sorted.
Proof. exact @position_sort_sorted. Qed.
Print Assumptions C25_position_sort.

Definition ex_template : list token :=
  [ Arg "a" (Some (TySingle (TP PInt))) SNone;
    Opt "--opt" (Arg "x" None SOptional);
    Out "o" (Some (TySingle (TF FPng))) SNone;
    Flag "-v" "verbose" None;
    Opt "-y" (Arg "d" (Some (TyTuple [TP PInt; TP PStr])) SPlus) ].
Definition ex_values : list fvalue :=
  [ VScalar (SText "3"); VScalar (SText "xx"); out_value "/out" "o.png"; VFlag true;
    VMulti [STuple ["1"; "p"]; STuple ["2"; "q"]] ].

Example C25_example :
  wf_template ex_template = true /\ forallb value_ok ex_values = true /\ forallb flag_ok ex_template = true /\
  exists fs, fields_of_ast ex_template = POk fs /\
    map f_template fs = [None; None; Some "o.png"; None; None] /\
    command_args ["cmd"] (rev (combine fs ex_values)) [] =
      ["cmd"; "3"; "--opt"; "xx"; "/out/o.png"; "-v"; "-y"; "1"; "p"; "-y"; "2"; "q"].
Proof. repeat split; try reflexivity. eexists. repeat split; reflexivity. Qed.

(* the boolean reading of "spells" that the driver evaluates on every observed field implies the Prop above *)
Theorem C25_spellsb_sound : forall i t f, spellsb i t f = true -> spells i t f.
Proof. exact spellsb_sound. Qed.
Print Assumptions C25_spellsb_sound.
