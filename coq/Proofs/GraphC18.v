(* Proofs/GraphC18.v — C18 assembled: construction, sorting, and the two loops. *)
From Pydra Require Import Base.Prelude Model.Graph Spec.Graph
  Proofs.GraphBase Proofs.GraphSort Proofs.GraphInv Proofs.GraphEdges Proofs.GraphTopo Proofs.GraphLive Proofs.GraphSched.
From Coq Require Import Sorting.Permutation.
Local Open Scope nat_scope.
Local Open Scope list_scope.

Lemma lk_plist pd n : lk pd n = plist pd n.
Proof. reflexivity. Qed.

(* construction histories never mark a node for removal *)
Lemma step_build_wip g o g' : build_ok g o = true -> step g o = Ok g' -> g_wip g' = g_wip g.
Proof.
  intros Hb H. destruct o; cbn in Hb, H; try discriminate.
  - unfold add_nodes in H. destruct (nonempty _ && has_dup _); [discriminate|].
    destruct (g_sorted g); [apply sorting_frame in H; destruct H as [l9 ->]; reflexivity|inversion H; reflexivity].
  - unfold add_edges in H. destruct (nonempty _ && negb _); [discriminate|].
    apply bind_ok in H. destruct H as [ps [_ H]].
    destruct (g_sorted g); [apply sorting_frame in H; destruct H as [l9 ->]; reflexivity|inversion H; reflexivity].
  - apply sorting_frame in H. destruct H as [l9 ->]. reflexivity.
  - apply bind_ok in H. destruct H as [[g1 s] [H1 H]]. inversion H; subst.
    apply sorted_nodes_frame in H1. destruct H1 as [o ->]. reflexivity.
  - inversion H; subst. unfold copy_graph. destruct (g_sorted g) as [[|x s]|]; reflexivity.
Qed.

Lemma run_build_wip ops : forall g g', run_build g ops = true -> run g ops = Ok g' -> g_wip g' = g_wip g.
Proof.
  unfold run. induction ops as [|o ops IH]; cbn; intros g g' Hd H.
  - inversion H; reflexivity.
  - apply bind_ok in H. destruct H as [g1 [H1 H]]. apply andb_true_iff in Hd. destruct Hd as [Hd1 Hd2].
    rewrite H1 in Hd2. rewrite (IH _ _ Hd2 H). eapply step_build_wip; eauto.
Qed.

Lemma init_wip ns es g : init ns es = Ok g -> g_wip g = [].
Proof.
  unfold init. destruct (nonempty ns && has_dup ns); [discriminate|].
  destruct (nonempty es && negb _); [discriminate|].
  intros H. apply bind_ok in H. destruct H as [ps [_ H]]. inversion H; reflexivity.
Qed.

(* a recorded order that is valid for the predecessors dictionary is what the scheduler's scan needs *)
Lemma sorted_order_valid pd ns s :
  NoDup s -> Permutation s ns ->
  (forall a b, In a ns -> In b ns -> inW pd b a -> before a b s) ->
  (forall b a, In b ns -> In a (plist pd b) -> In a ns) ->
  order_valid pd s.
Proof.
  intros Hnd Hp Hb Hcl l1 n l2 E p Hpn.
  assert (Hn : In n ns) by (eapply Permutation_in; [exact Hp|rewrite E; apply in_or_app; right; now left]).
  assert (Hpn' : In p ns) by (eapply Hcl; eauto).
  assert (Hw : inW pd n p).
  { unfold inW, plist in *. destruct (dget pd n) as [pl|]; [exists pl; auto|contradiction]. }
  pose proof (before_pos p n s Hnd (Hb p n Hpn' Hn Hw)) as Hlt.
  destruct (in_dec Nat.eq_dec p l1) as [Hi|Hi]; [exact Hi|exfalso].
  assert (Hnl1 : ~ In n l1).
  { intros Hin. rewrite E in Hnd. eapply (nodup_app_disj l1 (n :: l2) n); eauto. now left. }
  rewrite E in Hlt. pose proof (pos_app_notin p l1 (n :: l2) Hi) as E1.
  pose proof (pos_app_notin n l1 (n :: l2) Hnl1) as E2. cbn [pos] in E2. rewrite Nat.eqb_refl in E2.
  unfold node, vertex in *. lia.
Qed.

Lemma get_sorted_some g g' : step g GetSorted = Ok g' -> exists s, g' = set_sorted g (Some s).
Proof.
  cbn. unfold sorted_nodes. destruct (g_sorted g) as [s0|] eqn:E; cbn.
  - intros H. inversion H; subst g'. exists s0. destruct g; cbn in *; subst; reflexivity.
  - destruct (sorting g []) as [g1|e] eqn:Hs; cbn; [|discriminate]. intros H. inversion H; subst g'.
    apply sorting_frame in Hs. destruct Hs as [l9 ->]. eauto.
Qed.

(* The whole submission, for a workflow graph built the way Workflow._create_graph builds it:
   if its connections are acyclic, sorted_nodes returns an order, and on that order the
   synchronous loop (for every set of failing jobs) and the asynchronous loop (for every
   completion order, every failure pattern and every max_concurrent >= 1) stop within
   2|nodes|+2 iterations. *)
Theorem submission_terminates ns es ops g0 g :
  init ns es = Ok g0 -> run_build g0 ops = true -> run g0 ops = Ok g ->
  acyclic (g_nodes g) (g_edges g) ->
  exists g' s, step g GetSorted = Ok g' /\ g_sorted g' = Some s /\
    topo_valid (g_nodes g) (g_edges g) s /\
    (forall fails, run_sync (2 * List.length s + 1) (g_preds g') s fails <> OutOfFuel) /\
    (forall k oracle, 1 <= k -> run_async (2 * List.length s + 2) (g_preds g') s k oracle <> OutOfFuel).
Proof.
  intros Hi Hb Hr Hac.
  destruct (built_acyclic_sorts _ _ _ _ _ Hi Hb Hr Hac) as [_ [g' Hg']].
  assert (Hc : consistent g) by (eapply run_build_consistent; [eapply init_consistent; eauto|exact Hb|exact Hr]).
  assert (Hw : g_wip g = []) by (rewrite (run_build_wip _ _ _ Hb Hr); eapply init_wip; eauto).
  assert (Hinv : inv g) by (eapply run_inv; [eapply init_inv; eauto|exact Hr]).
  assert (Hinv' : inv g') by (eapply step_inv; eauto).
  destruct (get_sorted_some _ _ Hg') as [s Eg]. subst g'.
  exists (set_sorted g (Some s)), s. split; [exact Hg'|]. split; [reflexivity|].
  cbn [g_sorted set_sorted g_preds g_nodes] in *.
  destruct Hinv' as [Hnd [Hk Hso]]. cbn in Hnd, Hk, Hso. destruct (Hso s eq_refl) as [Hp Hbef].
  assert (Hnds : NoDup s) by (eapply Permutation_NoDup; [symmetry; exact Hp|exact Hnd]).
  destruct Hc as [ND [KS [KP [CP [CS [KE CL]]]]]].
  assert (Hcl : forall b a, In b (g_nodes g) -> In a (plist (g_preds g) b) -> In a (g_nodes g)).
  { intros b a Hb' Ha. assert (Hcnt : cnt a (lk (g_preds g) b) > 0) by (apply cnt_pos_In; exact Ha).
    rewrite (lk_cnt_counts _ _ a b CP (fun x y H => proj2 (KE x y H))) in Hcnt. apply ecnt_pos_In in Hcnt.
    pose proof (CL a b Hcnt Hb') as Hin. rewrite Hw in Hin. exact Hin. }
  split.
  - split; [exact Hnds|]. split; [exact Hp|]. intros a b Hab Ha Hb'. apply before_pos; [exact Hnds|].
    apply Hbef; auto. apply KP in Hb'. apply dget_In_keys in Hb'. destruct Hb' as [pl Hpl].
    exists pl. split; [exact Hpl|]. apply cnt_pos_In. rewrite (CP b pl Hpl a). apply ecnt_pos_In. exact Hab.
  - assert (OV : order_valid (g_preds g) s) by (eapply sorted_order_valid; eauto).
    split.
    + intros fails. apply sync_terminates; assumption.
    + intros k oracle Hk1. apply async_terminates; assumption.
Qed.
