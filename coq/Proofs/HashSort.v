(* Proofs/HashSort.v — facts about Base/PySort.v (CPython's small-list sort):
   - the output is a permutation of the input whenever the sort does not raise;
   - when `<` is a strict total order on the (pairwise distinct) elements, the sort does not raise and
     its output is strictly sorted;
   - a strictly sorted permutation is unique, hence the output does not depend on the input order. *)
From Coq Require Import Sorting.Permutation Sorting.Sorted.
From Pydra Require Import Base.Prelude Base.PySort.

Section SortFacts.
  Context {A : Type}.
  Variable lt : A -> A -> option bool.
  Definition R (x y : A) : Prop := lt x y = Some true.

  Lemma bins_S : forall f x l, l <> [] ->
      bins lt (S f) x l =
      match skipn (Nat.div2 (List.length l)) l with
      | [] => None
      | p :: b =>
        match lt x p with
        | None => None
        | Some true => option_map (fun a' => a' ++ p :: b) (bins lt f x (firstn (Nat.div2 (List.length l)) l))
        | Some false => option_map (fun b' => firstn (Nat.div2 (List.length l)) l ++ p :: b') (bins lt f x b)
        end
      end.
  Proof. intros f x [|a l] Hne; [congruence|reflexivity]. Qed.

  (* ---------- permutation, for any comparison function *)
  Lemma bins_perm : forall f x l l', bins lt f x l = Some l' -> Permutation (x :: l) l'.
  Proof.
    induction f as [|f IH]; intros x l l' E.
    - destruct l; cbn in E; [inversion E; auto|discriminate].
    - destruct l as [|a0 l0]; [cbn in E; inversion E; auto|].
      remember (a0 :: l0) as l eqn:El. rewrite bins_S in E by (subst l; discriminate).
      set (k := Nat.div2 (List.length l)) in *.
      destruct (skipn k l) as [|p b] eqn:Es; [discriminate|].
      assert (Hl : l = firstn k l ++ p :: b) by (rewrite <- Es; symmetry; apply firstn_skipn).
      destruct (lt x p) as [[|]|]; [| |discriminate].
      + destruct (bins lt f x (firstn k l)) as [a'|] eqn:Eb; [|discriminate]. cbn in E. inversion E; subst l'.
        apply IH in Eb. rewrite Hl at 1. rewrite app_comm_cons. now apply Permutation_app_tail.
      + destruct (bins lt f x b) as [b'|] eqn:Eb; [|discriminate]. cbn in E. inversion E; subst l'.
        apply IH in Eb. rewrite Hl at 1.
        transitivity (firstn k l ++ p :: x :: b).
        * change (x :: firstn k l ++ p :: b) with ((x :: firstn k l) ++ p :: b).
          rewrite <- Permutation_middle. cbn.
          transitivity (x :: p :: firstn k l ++ b); [constructor; symmetry; apply Permutation_middle|].
          transitivity (p :: x :: firstn k l ++ b); [constructor|].
          transitivity (p :: firstn k l ++ x :: b); [constructor; apply Permutation_middle|].
          apply Permutation_middle.
        * apply Permutation_app_head. constructor. exact Eb.
  Qed.

  Lemma run_desc_perm : forall l prev acc run rest,
      run_desc lt prev acc l = Some (run, rest) -> Permutation (acc ++ l) (run ++ rest).
  Proof.
    induction l as [|c r IH]; intros prev acc run rest E; cbn in E.
    - inversion E; subst. reflexivity.
    - destruct (lt c prev) as [[|]|]; [| |discriminate].
      + apply IH in E. rewrite <- E. cbn. symmetry. apply Permutation_middle.
      + inversion E; subst. reflexivity.
  Qed.

  Lemma run_asc_perm : forall l prev acc run rest,
      run_asc lt prev acc l = Some (run, rest) -> Permutation (rev acc ++ l) (run ++ rest).
  Proof.
    induction l as [|c r IH]; intros prev acc run rest E; cbn in E.
    - inversion E; subst. reflexivity.
    - destruct (lt c prev) as [[|]|]; [| |discriminate].
      + inversion E; subst. reflexivity.
      + apply IH in E. rewrite <- E. cbn. rewrite <- app_assoc. reflexivity.
  Qed.

  Lemma fold_ins_perm : forall rest run l',
      fold_left (ins_step lt) rest (Some run) = Some l' -> Permutation (run ++ rest) l'.
  Proof.
    induction rest as [|e rest IH]; intros run l' E; cbn in E.
    - inversion E; subst. now rewrite app_nil_r.
    - destruct (bins lt (List.length run) e run) as [run'|] eqn:Eb.
      + apply IH in E. rewrite <- E. apply bins_perm in Eb.
        rewrite <- Eb. cbn. symmetry. apply Permutation_middle.
      + exfalso. clear -E. induction rest; cbn in E; [discriminate|auto].
  Qed.

  Theorem py_sorted_perm : forall l l', py_sorted lt l = Some l' -> Permutation l l'.
  Proof.
    intros l l' E. destruct l as [|x [|y r]]; cbn in E; try (inversion E; subst; reflexivity).
    destruct (lt y x) as [d|]; [|discriminate].
    destruct d.
    - destruct (run_desc lt y [y; x] r) as [[run rest]|] eqn:Er; [|discriminate].
      apply run_desc_perm in Er. apply fold_ins_perm in E. rewrite <- E, <- Er. cbn. constructor.
    - destruct (run_asc lt y [y; x] r) as [[run rest]|] eqn:Er; [|discriminate].
      apply run_asc_perm in Er. apply fold_ins_perm in E. rewrite <- E, <- Er. cbn. reflexivity.
  Qed.

  (* ---------- sortedness, when [lt] is a strict total order on the elements satisfying [P] *)
  Variable P : A -> Prop.
  Hypothesis lt_def : forall x y, P x -> P y -> exists b, lt x y = Some b.
  Hypothesis lt_trans : forall x y z, P x -> P y -> P z -> R x y -> R y z -> R x z.
  Hypothesis lt_asym : forall x y, P x -> P y -> R x y -> R y x -> False.
  Hypothesis lt_total : forall x y, P x -> P y -> x <> y -> R x y \/ R y x.

  Lemma SS_app : forall u v, StronglySorted R (u ++ v) <->
      StronglySorted R u /\ StronglySorted R v /\ (forall a b, In a u -> In b v -> R a b).
  Proof.
    induction u as [|x u IH]; intros v; cbn.
    - split; [intros Hs; repeat split; auto; [constructor|intros ? ? []]|tauto].
    - split.
      + intros Hs. inversion Hs as [|? ? Hs' Hf]; subst. apply IH in Hs'. destruct Hs' as (Hu & Hv & Huv).
        rewrite Forall_app in Hf. destruct Hf as [Hfu Hfv].
        repeat split; auto; [constructor; auto|].
        intros a b [->|Ha] Hb; [rewrite Forall_forall in Hfv; auto|auto].
      + intros (Hu & Hv & Huv). inversion Hu as [|? ? Hu' Hf]; subst. constructor.
        * apply IH. repeat split; auto.
        * rewrite Forall_app. split; auto. rewrite Forall_forall. intros b Hb. apply Huv; auto.
  Qed.

  Lemma not_lt_ge : forall x y, P x -> P y -> x <> y -> lt x y = Some false -> R y x.
  Proof.
    intros x y Hx Hy Hne E. destruct (lt_total x y Hx Hy Hne) as [H|H]; [|exact H].
    unfold R in H. congruence.
  Qed.

  Lemma bins_sorted : forall f x l,
      P x -> Forall P l -> ~ In x l -> StronglySorted R l -> List.length l <= f ->
      exists l', bins lt f x l = Some l' /\ StronglySorted R l'.
  Proof.
    induction f as [|f IH]; intros x l Hx Hl Hnin Hs Hlen.
    - destruct l; [|cbn in Hlen; lia]. cbn. eexists; split; [reflexivity|repeat constructor].
    - destruct l as [|a0 l0]; [cbn; eexists; split; [reflexivity|repeat constructor]|].
      remember (a0 :: l0) as l eqn:El. rewrite bins_S by (subst l; discriminate).
      set (k := Nat.div2 (List.length l)).
      assert (Hk : k < List.length l).
      { subst k. rewrite El. cbn [List.length]. apply Nat.lt_div2. lia. }
      destruct (skipn k l) as [|p b] eqn:Es.
      { exfalso. assert (List.length (skipn k l) = 0) by now rewrite Es. rewrite skipn_length in H. lia. }
      assert (Hsplit : l = firstn k l ++ p :: b) by (rewrite <- Es; symmetry; apply firstn_skipn).
      set (a := firstn k l) in *.
      assert (Hla : List.length a = k) by (subst a; rewrite firstn_length; lia).
      assert (Hlb : List.length b = List.length l - k - 1).
      { assert (List.length (skipn k l) = S (List.length b)) by now rewrite Es. rewrite skipn_length in H. lia. }
      rewrite Hsplit in Hs, Hl, Hnin. apply SS_app in Hs. destruct Hs as (Hsa & Hspb & Hab).
      inversion Hspb as [|? ? Hsb Hpb]; subst.
      rewrite Forall_app in Hl. destruct Hl as [HPa HPpb]. inversion HPpb as [|? ? HPp HPb]; subst.
      assert (Hxp : x <> p) by (intros ->; apply Hnin; apply in_or_app; right; left; reflexivity).
      destruct (lt_def x p Hx HPp) as [[|] Elt]; rewrite Elt.
      + (* x < p : continue on the left part *)
        destruct (IH x a Hx HPa) as (a' & Ea & Hsa'); auto.
        { intros Hin. apply Hnin. apply in_or_app. now left. }
        { lia. }
        rewrite Ea. cbn. eexists; split; [reflexivity|].
        apply bins_perm in Ea.
        assert (HPa' : forall e, In e a' -> P e).
        { intros e He. apply (Permutation_in _ (Permutation_sym Ea)) in He. destruct He as [->|He]; auto.
          rewrite Forall_forall in HPa; auto. }
        apply SS_app. repeat split; auto.
        intros e e' He He'. apply (Permutation_in _ (Permutation_sym Ea)) in He.
        assert (Hep : R e p).
        { destruct He as [->|He]; [exact Elt|]. apply Hab; [exact He|now left]. }
        destruct He' as [<-|He']; [exact Hep|].
        assert (P e) by (destruct He as [->|He]; auto; rewrite Forall_forall in HPa; auto).
        rewrite Forall_forall in Hpb, HPb. apply (lt_trans e p e'); auto.
      + (* not x < p : continue on the right part *)
        assert (Hpx : R p x) by (apply not_lt_ge; auto).
        destruct (IH x b Hx HPb) as (b' & Eb & Hsb'); auto.
        { intros Hin. apply Hnin. apply in_or_app. right. now right. }
        { lia. }
        rewrite Eb. cbn. eexists; split; [reflexivity|].
        apply bins_perm in Eb.
        assert (Hin' : forall e, In e b' -> e = x \/ In e b).
        { intros e He. apply (Permutation_in _ (Permutation_sym Eb)) in He. destruct He as [->|He]; auto. }
        apply SS_app. repeat split; auto.
        * constructor; auto. rewrite Forall_forall. intros e He. destruct (Hin' e He) as [->|Hb]; auto.
          rewrite Forall_forall in Hpb; auto.
        * intros e e' He He'. rewrite Forall_forall in HPa, HPb, Hpb.
          assert (Hep : R e p) by (apply Hab; [exact He|now left]).
          destruct He' as [<-|He']; [exact Hep|].
          destruct (Hin' e' He') as [->|Hb].
          -- apply (lt_trans e p x); auto.
          -- apply Hab; [exact He|now right].
  Qed.

  Lemma fold_ins_sorted : forall rest run,
      Forall P run -> Forall P rest -> NoDup (run ++ rest) -> StronglySorted R run ->
      exists l', fold_left (ins_step lt) rest (Some run) = Some l' /\ StronglySorted R l'.
  Proof.
    induction rest as [|e rest IH]; intros run HPr HPrest Hnd Hs; cbn.
    - eexists; split; [reflexivity|exact Hs].
    - inversion HPrest as [|? ? HPe HPrest']; subst.
      assert (Hnin : ~ In e run).
      { intros Hin. apply NoDup_remove_2 in Hnd. apply Hnd. apply in_or_app. now left. }
      destruct (bins_sorted (List.length run) e run HPe HPr Hnin Hs (le_n _)) as (run' & Eb & Hs').
      rewrite Eb. apply IH; auto.
      + apply bins_perm in Eb. rewrite Forall_forall. intros y Hy.
        apply (Permutation_in _ (Permutation_sym Eb)) in Hy. destruct Hy as [->|Hy]; auto.
        rewrite Forall_forall in HPr; auto.
      + apply bins_perm in Eb. eapply Permutation_NoDup; [|exact Hnd].
        transitivity ((e :: run) ++ rest); [symmetry; cbn; apply Permutation_middle|].
        now apply Permutation_app_tail.
  Qed.

  Lemma run_desc_sorted : forall l prev acc',
      P prev -> Forall P acc' -> Forall P l -> NoDup ((prev :: acc') ++ l) ->
      StronglySorted R (prev :: acc') ->
      exists run rest, run_desc lt prev (prev :: acc') l = Some (run, rest) /\ StronglySorted R run.
  Proof.
    induction l as [|c r IH]; intros prev acc' HPp HPa HPl Hnd Hs; cbn [run_desc].
    - do 2 eexists; split; [reflexivity|exact Hs].
    - inversion HPl as [|? ? HPc HPr]; subst.
      destruct (lt_def c prev HPc HPp) as [[|] E]; rewrite E.
      + apply (IH c (prev :: acc')); auto.
        * eapply Permutation_NoDup; [|exact Hnd]. cbn. symmetry.
          change (c :: prev :: acc' ++ r) with (c :: (prev :: acc') ++ r). apply Permutation_middle.
        * constructor; [exact Hs|]. constructor; [exact E|].
          inversion Hs as [|? ? _ Hf]; subst. rewrite Forall_forall in Hf |- *. intros e He.
          rewrite Forall_forall in HPa. apply (lt_trans c prev e); auto.
      + do 2 eexists; split; [reflexivity|exact Hs].
  Qed.

  Lemma run_asc_sorted : forall l prev acc',
      P prev -> Forall P acc' -> Forall P l -> NoDup (rev (prev :: acc') ++ l) ->
      StronglySorted R (rev (prev :: acc')) ->
      exists run rest, run_asc lt prev (prev :: acc') l = Some (run, rest) /\ StronglySorted R run.
  Proof.
    induction l as [|c r IH]; intros prev acc' HPp HPa HPl Hnd Hs; cbn [run_asc].
    - do 2 eexists; split; [reflexivity|exact Hs].
    - inversion HPl as [|? ? HPc HPr]; subst.
      destruct (lt_def c prev HPc HPp) as [[|] E]; rewrite E.
      + do 2 eexists; split; [reflexivity|exact Hs].
      + assert (Hne : c <> prev).
        { intros ->. apply NoDup_remove_2 in Hnd. apply Hnd. apply in_or_app. left.
          apply in_rev. rewrite rev_involutive. now left. }
        assert (Hpc : R prev c) by (apply not_lt_ge; auto).
        apply IH; auto.
        * change (rev (c :: prev :: acc')) with (rev (prev :: acc') ++ [c]). rewrite <- app_assoc. exact Hnd.
        * change (rev (c :: prev :: acc')) with (rev (prev :: acc') ++ [c]).
          apply SS_app. repeat split; auto; [repeat constructor|].
          intros a b Ha [<-|[]]. cbn in Ha. apply in_app_or in Ha. destruct Ha as [Ha|[<-|[]]]; [|exact Hpc].
          cbn in Hs. apply SS_app in Hs. destruct Hs as (_ & _ & Hs).
          assert (R a prev) by (apply Hs; [exact Ha|now left]).
          apply in_rev in Ha. rewrite Forall_forall in HPa. apply (lt_trans a prev c); auto.
  Qed.

  Theorem py_sorted_sorted : forall l, Forall P l -> NoDup l ->
      exists l', py_sorted lt l = Some l' /\ StronglySorted R l'.
  Proof.
    intros l HP Hnd. destruct l as [|x [|y r]].
    - eexists; split; [reflexivity|constructor].
    - eexists; split; [reflexivity|repeat constructor].
    - cbn [py_sorted]. inversion HP as [|? ? HPx HP']; subst. inversion HP' as [|? ? HPy HPr]; subst.
      assert (Hne : y <> x).
      { intros ->. inversion Hnd; subst. apply H1. now left. }
      destruct (lt_def y x HPy HPx) as [[|] E]; rewrite E.
      + destruct (run_desc_sorted r y [x] HPy (Forall_cons _ HPx (Forall_nil _)) HPr) as (run & rest & Er & Hs).
        * eapply Permutation_NoDup; [|exact Hnd]. cbn. constructor.
        * repeat constructor. exact E.
        * rewrite Er.
          pose proof (run_desc_perm _ _ _ _ _ Er) as Hp.
          apply fold_ins_sorted; auto.
          -- rewrite Forall_forall. intros e He.
             assert (In e ([y; x] ++ r)) by (apply (Permutation_in _ (Permutation_sym Hp)); apply in_or_app; now left).
             rewrite Forall_forall in HP. apply HP. cbn in H. cbn. tauto.
          -- rewrite Forall_forall. intros e He.
             assert (In e ([y; x] ++ r)) by (apply (Permutation_in _ (Permutation_sym Hp)); apply in_or_app; now right).
             rewrite Forall_forall in HP. apply HP. cbn in H. cbn. tauto.
          -- eapply Permutation_NoDup; [exact Hp|]. eapply Permutation_NoDup; [|exact Hnd]. cbn. constructor.
      + destruct (run_asc_sorted r y [x] HPy (Forall_cons _ HPx (Forall_nil _)) HPr) as (run & rest & Er & Hs).
        * cbn. exact Hnd.
        * cbn. repeat constructor. apply not_lt_ge; auto.
        * rewrite Er.
          pose proof (run_asc_perm _ _ _ _ _ Er) as Hp. cbn in Hp.
          apply fold_ins_sorted; auto.
          -- rewrite Forall_forall. intros e He.
             assert (In e (x :: y :: r)) by (apply (Permutation_in _ (Permutation_sym Hp)); apply in_or_app; now left).
             rewrite Forall_forall in HP. now apply HP.
          -- rewrite Forall_forall. intros e He.
             assert (In e (x :: y :: r)) by (apply (Permutation_in _ (Permutation_sym Hp)); apply in_or_app; now right).
             rewrite Forall_forall in HP. now apply HP.
          -- eapply Permutation_NoDup; [exact Hp|exact Hnd].
  Qed.

  (* ---------- a strictly sorted permutation is unique *)
  Lemma SS_perm_unique : forall l1 l2,
      Forall P l1 -> StronglySorted R l1 -> StronglySorted R l2 -> Permutation l1 l2 -> l1 = l2.
  Proof.
    induction l1 as [|x l1 IH]; intros l2 HP H1 H2 Hp.
    - apply Permutation_nil in Hp. now subst.
    - destruct l2 as [|y l2]; [symmetry in Hp; apply Permutation_nil in Hp; discriminate|].
      inversion HP as [|? ? HPx HP1]; subst.
      inversion H1 as [|? ? H1' Hf1]; subst. inversion H2 as [|? ? H2' Hf2]; subst.
      assert (Hxy : x = y).
      { assert (Hx : In x (y :: l2)) by (apply (Permutation_in _ Hp); now left).
        assert (Hy : In y (x :: l1)) by (apply (Permutation_in _ (Permutation_sym Hp)); now left).
        destruct Hx as [->|Hx]; [reflexivity|]. destruct Hy as [->|Hy]; [reflexivity|].
        exfalso. rewrite Forall_forall in Hf1, Hf2, HP1.
        apply (lt_asym x y); auto. }
      subst y. f_equal. apply IH; auto. now apply Permutation_cons_inv in Hp.
  Qed.

  Theorem py_sorted_perm_invariant : forall l1 l2,
      Forall P l1 -> NoDup l1 -> Permutation l1 l2 ->
      exists s, py_sorted lt l1 = Some s /\ py_sorted lt l2 = Some s /\ StronglySorted R s.
  Proof.
    intros l1 l2 HP Hnd Hp.
    assert (HP2 : Forall P l2).
    { rewrite Forall_forall in HP |- *. intros e He. apply HP. now apply (Permutation_in _ (Permutation_sym Hp)). }
    assert (Hnd2 : NoDup l2) by (eapply Permutation_NoDup; eauto).
    destruct (py_sorted_sorted l1 HP Hnd) as (s1 & E1 & S1).
    destruct (py_sorted_sorted l2 HP2 Hnd2) as (s2 & E2 & S2).
    assert (s1 = s2).
    { apply SS_perm_unique; auto.
      - apply py_sorted_perm in E1. rewrite Forall_forall in HP |- *. intros e He. apply HP.
        now apply (Permutation_in _ (Permutation_sym E1)).
      - apply py_sorted_perm in E1. apply py_sorted_perm in E2.
        now rewrite <- E1, Hp. }
    subst s2. exists s1. auto.
  Qed.
End SortFacts.

(* ---------- the sort is parametric: related inputs (same comparisons) give related outputs *)
Section SortRel.
  Context {A B : Type}.
  Variable lta : A -> A -> option bool.
  Variable ltb : B -> B -> option bool.
  Variable Q : A -> B -> Prop.
  Hypothesis Hlt : forall a a' b b', Q a b -> Q a' b' -> lta a a' = ltb b b'.

  Definition orel (x : option (list A)) (y : option (list B)) : Prop :=
    match x, y with Some l, Some l' => Forall2 Q l l' | None, None => True | _, _ => False end.

  Lemma F2_firstn : forall n l l', Forall2 Q l l' -> Forall2 Q (firstn n l) (firstn n l').
  Proof. induction n; intros l l' HF; cbn; [constructor|]. destruct HF; constructor; auto. Qed.
  Lemma F2_skipn : forall n l l', Forall2 Q l l' -> Forall2 Q (skipn n l) (skipn n l').
  Proof. induction n; intros l l' HF; cbn; [exact HF|]. destruct HF; [constructor|auto]. Qed.
  Lemma F2_len : forall l l', Forall2 Q l l' -> List.length l = List.length l'.
  Proof. induction 1; cbn; auto. Qed.
  Lemma F2_rev : forall l l', Forall2 Q l l' -> Forall2 Q (rev l) (rev l').
  Proof. induction 1; cbn; [constructor|]. apply Forall2_app; auto. Qed.

  Lemma bins_rel : forall f x y l l', Q x y -> Forall2 Q l l' -> orel (bins lta f x l) (bins ltb f y l').
  Proof.
    induction f as [|f IH]; intros x y l l' Hxy HF.
    - destruct HF; cbn; [repeat constructor; auto|exact Logic.I].
    - destruct HF as [|a b l l' Hab HF]; [cbn; repeat constructor; auto|].
      assert (HF' : Forall2 Q (a :: l) (b :: l')) by (constructor; auto).
      rewrite !bins_S by discriminate.
      rewrite <- (F2_len _ _ HF').
      set (k := Nat.div2 (List.length (a :: l))).
      pose proof (F2_skipn k _ _ HF') as Hs. pose proof (F2_firstn k _ _ HF') as Hf.
      destruct Hs as [|p q sb sb' Hpq Hsb]; [exact Logic.I|].
      rewrite (Hlt x p y q Hxy Hpq). destruct (ltb y q) as [[|]|]; [| |exact Logic.I].
      + specialize (IH x y _ _ Hxy Hf). unfold orel in *.
        destruct (bins lta f x (firstn k (a :: l))), (bins ltb f y (firstn k (b :: l'))); cbn; try contradiction; auto.
        apply Forall2_app; auto.
      + specialize (IH x y _ _ Hxy Hsb). unfold orel in *.
        destruct (bins lta f x sb), (bins ltb f y sb'); cbn; try contradiction; auto.
        apply Forall2_app; auto.
  Qed.

  Definition prel (x : option (list A * list A)) (y : option (list B * list B)) : Prop :=
    match x, y with
    | Some (r, s), Some (r', s') => Forall2 Q r r' /\ Forall2 Q s s'
    | None, None => True
    | _, _ => False
    end.

  Lemma run_desc_rel : forall l l' p q acc acc', Forall2 Q l l' -> Q p q -> Forall2 Q acc acc' ->
      prel (run_desc lta p acc l) (run_desc ltb q acc' l').
  Proof.
    intros l l' p q acc acc' HF. revert p q acc acc'.
    induction HF as [|c c' l l' Hc HF IH]; intros p q acc acc' Hpq Hacc; cbn.
    - split; [auto|constructor].
    - rewrite (Hlt c p c' q Hc Hpq). destruct (ltb c' q) as [[|]|]; [| |exact Logic.I].
      + apply IH; auto.
      + split; auto.
  Qed.

  Lemma run_asc_rel : forall l l' p q acc acc', Forall2 Q l l' -> Q p q -> Forall2 Q acc acc' ->
      prel (run_asc lta p acc l) (run_asc ltb q acc' l').
  Proof.
    intros l l' p q acc acc' HF. revert p q acc acc'.
    induction HF as [|c c' l l' Hc HF IH]; intros p q acc acc' Hpq Hacc; cbn.
    - split; [apply F2_rev; auto|constructor].
    - rewrite (Hlt c p c' q Hc Hpq). destruct (ltb c' q) as [[|]|]; [| |exact Logic.I].
      + split; [apply F2_rev; auto|constructor; auto].
      + apply IH; auto.
  Qed.

  Lemma fold_ins_rel : forall rest rest', Forall2 Q rest rest' -> forall r r', orel r r' ->
      orel (fold_left (ins_step lta) rest r) (fold_left (ins_step ltb) rest' r').
  Proof.
    induction 1 as [|e e' rest rest' He HF IH]; intros r r' Hr; cbn; [exact Hr|].
    apply IH. destruct r as [a|], r' as [a'|]; cbn in *; try contradiction; auto.
    rewrite <- (F2_len _ _ Hr). apply bins_rel; auto.
  Qed.

  Theorem py_sorted_rel : forall l l', Forall2 Q l l' -> orel (py_sorted lta l) (py_sorted ltb l').
  Proof.
    intros l l' HF. destruct HF as [|x x' l l' Hx HF]; [cbn; constructor|].
    destruct HF as [|y y' l l' Hy HF]; [cbn; repeat constructor; auto|].
    cbn [py_sorted]. rewrite (Hlt y x y' x' Hy Hx). destruct (ltb y' x') as [[|]|]; [| |exact Logic.I].
    - pose proof (run_desc_rel l l' y y' [y; x] [y'; x'] HF Hy) as Hr.
      destruct (run_desc lta y [y; x] l) as [[r s]|], (run_desc ltb y' [y'; x'] l') as [[r' s']|];
        cbn in Hr; try (exfalso; apply Hr; repeat constructor; auto; fail).
      + destruct Hr as [Hr Hs]; [repeat constructor; auto|]. apply fold_ins_rel; auto.
      + exact Logic.I.
    - pose proof (run_asc_rel l l' y y' [y; x] [y'; x'] HF Hy) as Hr.
      destruct (run_asc lta y [y; x] l) as [[r s]|], (run_asc ltb y' [y'; x'] l') as [[r' s']|];
        cbn in Hr; try (exfalso; apply Hr; repeat constructor; auto; fail).
      + destruct Hr as [Hr Hs]; [repeat constructor; auto|]. apply fold_ins_rel; auto.
      + exact Logic.I.
  Qed.
End SortRel.
