"""C32 — task definitions survive dictionary round trips (pydra/utils/general.py unstructure / structure)."""
import os
import shutil
import tempfile

from .lib import coqio, rulegen as rg
from .lib.runner import Outcome, Failure

PROP = "C32"
PROPS_FILE = "Props/C32.v"
MANIFEST = dict(
    text="Partial. Coq theorems (closed under the global context): C32_roundtrip — for EVERY attribute schema (names, "
         "defaults, converters), every type-shape table and every class define() could have built, outside two "
         "computable classes, structure(unstructure(c)) succeeds and is the same definition as c (every attribute of "
         "every input/output field equal in Python's ==, outargs recognised again, positions unchanged, xor equal as a "
         "set of sets); key lemma C32_restore_defaults_drop_defaults; C32_refuted — the statement without the side "
         "conditions fails: an outarg without path_template is rebuilt as shell.out and rejected (F32b), a tuple/set "
         "value under a type that does not coerce it back returns as a list (F32c). Two defects found by the proof "
         "obligations were repaired in /repo (requires did not survive at all; dict defaults / Enum types mangled). "
         "The model is tied to the code on every run: live schemas are read from the field classes, real python/shell "
         "classes from the C31/C32 generator are unstructured and re-created, the dictionary and the re-created class "
         "are compared with the model's, and cmdline / outputs of original and re-created class are compared on "
         "sampled inputs.",
    note="Trusted: Coq kernel + vm_compute; hand-written model of attrs.asdict+filter_out_defaults, of the field "
         "converters and of the part of define() used by structure(); TypeParser coercion modelled only by container "
         "kind; equality of opaque objects (types, functions) by identity; iteration order of frozensets not modelled; "
         "'same command line and outputs' is established by correspondence only.",
    technique="Coq proof (drop-defaults / restore-defaults inverse up to ==, generic in the schema) + refutation by witness "
              "+ model/impl correspondence via generated cases",
    design="§8 Group H / C32",
)
TIE_NAME = "Model.DictRT.unstructure/structure vs pydra.utils.general.unstructure/structure"
TRUSTED = [
    "Model/DictRT.v: hand-written model of unstructure (attrs.asdict with filter_out_defaults and full_val_serializer, "
    "exclusion of outarg/BASE_ATTRS/executor) and of structure (ensure_field_objects: keyword construction, missing "
    "attributes take defaults, outarg iff 'path_template' key; converters; outargs merged into inputs; position pass)",
    "attribute schemas, converter kinds and type shapes are read from the live classes by harness/c32.py on every run "
    "(fail closed on an unknown converter); the theorems hold for every schema",
    "Section variables: fresh_position (positions given to fields lacking one; no hypothesis — wf_clsb says no field "
    "lacks one after define()), type_shape (container kind of a type object; no hypothesis)",
    "not modelled: value_serializer/filter arguments other than the defaults, workflow definitions, class attributes "
    "other than xor, docstring help fallback, GlobCallable conversion of str defaults of file outputs",
]
ASSUMPTIONS = [
    "attribute values are scalars, flat collections of scalars, or requirement lists (the generator's grammar); other "
    "objects (types, functions, enum members, Factory) are opaque and compared by identity",
]
RULE = ("distinct generated definitions (python and shell; requirement sets with/without allowed values, xor groups, help, "
        "explicit defaults, allowed_values, argstr forms, explicit/negative positions, sep, outarg with path template, "
        "out with callable, typed python outputs, outputs named like an input, class-form definitions with inherited "
        "fields) round-tripped on the real code; non-trivial = the dictionary drops at "
        "least one defaulted attribute and keeps at least one non-default attribute besides type, for some field")

IMPORTS = ["Model.DictRT", "Spec.DictRT"]


# ------------------------------------------------------------------------------------------------ encoding
class Unencodable(Exception):
    pass


def _scalar(v):
    import attrs
    from pydra.compose.base.field import NO_DEFAULT
    if v is None:
        return "SNone"
    if v is NO_DEFAULT:
        return "SNoDefault"
    if isinstance(v, bool):
        return "(SBool %s)" % coqio.boolean(v)
    if isinstance(v, int):
        return "(SInt %s)" % coqio.z(v)
    if isinstance(v, str):
        return "(SStr %s)" % coqio.string(v)
    if isinstance(v, (list, tuple, set, frozenset, dict)):
        raise Unencodable("nested collection %r" % (v,))
    return "(SObj %s)" % coqio.string(obj_id(v))


_TYPES_SEEN = {}


def obj_id(v):
    """Identity of an opaque object, stable across original and re-created class within this process."""
    import types
    import typing
    if isinstance(v, type) or typing.get_origin(v) is not None or isinstance(v, types.UnionType) or v is typing.Any:
        key = "type:" + repr(v)
        _TYPES_SEEN[key] = v
        return key
    code = getattr(v, "__code__", None)
    if code is not None:
        # pydra compares the executor field by content hash (hash_eq=True), not by identity: two function objects
        # with the same code are the same executor
        import hashlib
        h = hashlib.sha1(code.co_code + repr(code.co_consts).encode() + repr(code.co_names).encode()).hexdigest()[:12]
        return "fn:%s:%s" % (getattr(v, "__qualname__", "?"), h)
    if callable(v):
        return "callable:%s@%x" % (type(v).__name__, id(v))
    return "%s:%r" % (type(v).__name__, v)


def shape_of(tp):
    import typing
    from pydra.utils.typing import optional_type
    if tp is typing.Any:
        return "ShAny"
    tp = optional_type(tp)
    origin = typing.get_origin(tp) or tp
    if origin is typing.Union or isinstance(tp, __import__("types").UnionType):
        return "ShAny"
    if origin is list:
        return "ShList"
    if origin is tuple:
        return "ShTuple"
    if origin in (set, frozenset):
        return "ShSet"
    if origin is dict:
        return "ShDict"
    return "ShScalar"


def _is_reqs(v):
    from pydra.compose.base.field import RequirementSet
    return isinstance(v, list) and v and all(isinstance(x, RequirementSet) for x in v)


def _req(name, allowed):
    return coqio.pair(coqio.string(name), coqio.option(None if allowed is None else coqio.lst([_scalar(x) for x in allowed])))


def aval(v, attr_name=None):
    if _is_reqs(v) or (attr_name == "requires" and v == []):
        return "(AReqs %s)" % coqio.lst([coqio.lst([_req(r.name, r.allowed_values) for r in rs.requirements]) for rs in v])
    if isinstance(v, list):
        return "(AList %s)" % coqio.lst([_scalar(x) for x in v])
    if isinstance(v, tuple):
        return "(ATuple %s)" % coqio.lst([_scalar(x) for x in v])
    if isinstance(v, (set, frozenset)):
        return "(ASet %s)" % coqio.lst([_scalar(x) for x in v])
    if isinstance(v, dict):
        return "(ADict %s)" % coqio.lst([coqio.pair(coqio.string(k), _scalar(x)) for k, x in v.items()])
    return "(AS %s)" % _scalar(v)


def uval(v, key=None):
    if key == "requires" and isinstance(v, list) and all(isinstance(x, dict) and set(x) <= {"requirements"} for x in v):
        out = []
        for rs in v:
            reqs = []
            for r in rs.get("requirements", []):
                if not isinstance(r, dict) or not set(r) <= {"name", "allowed_values"}:
                    raise Unencodable("requirement dict %r" % (r,))
                reqs.append(_req(r["name"], r.get("allowed_values")))
            out.append(coqio.lst(reqs))
        return "(UReqs %s)" % coqio.lst(out)
    if isinstance(v, list):
        return "(UList %s)" % coqio.lst([_scalar(x) for x in v])
    if isinstance(v, dict):
        return "(UDict %s)" % coqio.lst([coqio.pair(coqio.string(k), _scalar(x)) for k, x in v.items()])
    if isinstance(v, (tuple, set, frozenset)):
        raise Unencodable("non-list collection in the dictionary form: %r" % (v,))
    return "(US %s)" % _scalar(v)


def conv_kind(a):
    """Converter kind of an attrs attribute of a field class (fail closed)."""
    import attrs
    from pydra.compose.base import field as bf
    c = a.converter
    if c is None:
        return "CvId"
    if c is frozenset:
        return "CvFrozenset"
    if c is bf.requires_converter:
        return "CvRequires"
    if isinstance(c, attrs.Converter) and getattr(c, "converter", None) is bf.convert_default_value:
        return "CvDefault"
    if a.name == "type":           # default_if_none(ty.Any): identity on every value that is not None
        return "CvId"
    raise Unencodable("unknown converter %r on attribute %s" % (c, a.name))


def schema_lit(field_cls):
    import attrs
    out = []
    for a in attrs.fields(field_cls):
        if a.name == "name":
            continue
        d = a.default
        if isinstance(d, attrs.Factory):
            d = d.factory()
        out.append("{| aname := %s; adefault := %s; aconv := %s |}" % (coqio.string(a.name), aval(d, a.name), conv_kind(a)))
    return coqio.lst(out)


def schemas_coq():
    from pydra.compose import python, shell
    return ("Definition sch_python (k : fclass) : schema := match k with CArg => %s | COut => %s | COutarg => %s end.\n"
            "Definition sch_shell (k : fclass) : schema := match k with CArg => %s | COut => %s | COutarg => %s end.\n"
            % (schema_lit(python.arg), schema_lit(python.out), schema_lit(shell.outarg),
               schema_lit(shell.arg), schema_lit(shell.out), schema_lit(shell.outarg)))


def frec_lit(f):
    import attrs
    from pydra.compose import shell
    from pydra.compose.base import Arg
    if isinstance(f, shell.outarg):
        k = "COutarg"
    elif isinstance(f, Arg):
        k = "CArg"
    else:
        k = "COut"
    vals = [coqio.pair(coqio.string(a.name), aval(getattr(f, a.name), a.name)) for a in attrs.fields(type(f)) if a.name != "name"]
    return "{| fcls := %s; fname := %s; fvals := %s |}" % (k, coqio.string(f.name), coqio.lst(vals))


def cls_lit(cls):
    from pydra.utils.general import get_fields
    skip = set(cls.BASE_ATTRS) | {cls._executor_name}
    ins = [f for f in get_fields(cls) if f.name not in skip]
    outs = [f for f in get_fields(cls.Outputs) if f.name not in cls.Outputs.BASE_ATTRS]
    execf = {f.name: f for f in get_fields(cls)}[cls._executor_name]
    xor = coqio.lst([coqio.lst([coqio.option(None if n is None else coqio.string(n)) for n in x]) for x in cls._xor])
    return "{| tkind := %s; tname := %s; texec := %s; cinputs := %s; coutputs := %s; cxor := %s |}" % (
        coqio.string(cls._task_type()), coqio.string(cls.__name__), _scalar(execf.default),
        coqio.lst([frec_lit(f) for f in ins]), coqio.lst([frec_lit(f) for f in outs]), xor)


def dict_lit(d):
    execname = {"python": "function", "shell": "executable"}[d["type"]]

    def fields(m):
        return coqio.lst([coqio.pair(coqio.string(n), coqio.lst([coqio.pair(coqio.string(k), uval(v, k)) for k, v in fd.items()]))
                          for n, fd in m.items()])
    xor = coqio.lst([coqio.lst([coqio.option(None if n is None else coqio.string(n)) for n in x]) for x in d["xor"]])
    return "{| dkind := %s; dname := %s; dexec := %s; dinputs := %s; doutputs := %s; dxor := %s |}" % (
        coqio.string(d["type"]), coqio.string(d["name"]), _scalar(d[execname]), fields(d["inputs"]), fields(d["outputs"]), xor)


EXTRA_DEFS = """
Local Open Scope string_scope.
Definition fresh0 : list frec -> frec -> aval := fun _ _ => AS (SInt 999).
Definition case_t := (bool * taskcls * taskdict * option taskcls)%type.   (* shell?, original, observed dict, observed re-created class *)
Definition sch_of (sh : bool) := if sh then sch_shell else sch_python.
Definition uval_eqb (a b : uval) : bool :=
  match a, b with
  | US x, US y => scalar_eqb x y
  | UList x, UList y => list_eqb scalar_eqb x y
  | UDict x, UDict y => list_eqb kv_eqb x y
  | UReqs x, UReqs y => list_eqb (list_eqb req_eqb) x y
  | _, _ => false
  end.
Definition fdict_eqb (a b : string * list (string * uval)) : bool :=
  String.eqb (fst a) (fst b) && list_eqb (fun p q => String.eqb (fst p) (fst q) && uval_eqb (snd p) (snd q)) (snd a) (snd b).
Definition dict_eqb (a b : taskdict) : bool :=
  String.eqb (dkind a) (dkind b) && String.eqb (dname a) (dname b) && scalar_eqb (dexec a) (dexec b)
  && list_eqb fdict_eqb (dinputs a) (dinputs b) && list_eqb fdict_eqb (doutputs a) (doutputs b)
  && list_eqb (list_eqb (option_eqb String.eqb)) (dxor a) (dxor b).
(* the model's dictionary is the observed dictionary; the model's re-created class is the observed one
   (None = structure() raised) *)
Definition tie_ok (c : case_t) : bool :=
  let '(sh, orig, d, back) := c in
  dict_eqb (unstructure (sch_of sh) orig) d &&
  match structure (sch_of sh) type_shape fresh0 d, back with
  | Some m, Some b => same_definitionb m b
  | None, None => true
  | _, _ => false
  end.
(* the property: the re-created class exists and is the same definition *)
Definition spec_ok (c : case_t) : bool :=
  let '(sh, orig, d, back) := c in match back with Some b => same_definitionb b orig | None => false end.
Definition wf_ok (c : case_t) : bool := let '(sh, orig, _, _) := c in schema_okb (sch_of sh) && wf_clsb (sch_of sh) orig.
Definition templ_ok (c : case_t) : bool := let '(sh, orig, _, _) := c in forallb (templatedb (sch_of sh)) (coutputs orig).
Definition reconv_ok (c : case_t) : bool :=
  let '(sh, orig, _, _) := c in
  forallb (reconvertibleb (sch_of sh) type_shape) (cinputs orig) && forallb (reconvertibleb (sch_of sh) type_shape) (coutputs orig).
"""


def type_shape_coq():
    lines = ["Definition type_shape (id : string) : shape :="]
    for key, tp in sorted(_TYPES_SEEN.items()):
        lines.append("  if String.eqb id %s then %s else" % (coqio.string(key), shape_of(tp)))
    lines.append("  ShAny.")
    return "\n".join(lines) + "\n"


# ------------------------------------------------------------------------------------------------ special definitions
def special_defs():
    """Hand-written definitions: repaired defects (must round-trip now) and the two known-finding classes."""
    import enum
    import typing as ty
    from pydra.compose import python, shell
    from fileformats.generic import File

    class Colour(enum.Enum):
        RED = 1
        GREEN = 2

    def mkpy(name, **inputs):
        src = "def %s(%s):\n    return repr((%s))\n" % (name, ", ".join(inputs), "".join(n + ", " for n in inputs))
        ns = {}
        exec(src, ns)
        return python.define(ns[name], inputs=inputs, outputs=["out"])

    out = []
    out.append(("requires-survive (fixed bd8720d1)", None, lambda: mkpy(
        "Req", a=python.arg(type=str | None, default=None, requires=[["b", ("c", ["u", "v"])], ["b"]]),
        b=python.arg(type=bool, default=False), c=python.arg(type=str, default=""))))
    out.append(("dict-default (fixed 4721430a)", None, lambda: mkpy("DictD", a=python.arg(type=dict[str, int], default={"k": 1}))))
    out.append(("enum-type (fixed 4721430a)", None, lambda: mkpy("EnumT", a=python.arg(type=Colour, default=Colour.RED))))
    out.append(("tuple-default-under-tuple-type", None, lambda: mkpy("TupD", a=python.arg(type=tuple[int, int], default=(1, 2)))))
    out.append(("set-default-under-set-type", None, lambda: mkpy("SetD", a=python.arg(type=set[str], default={"k"}))))
    out.append(("outarg-without-path_template", "F32b", lambda: shell.define(
        "cmd", name="NoTpl", outputs={"o": shell.outarg(type=File | None, default=None, argstr="-o")})))
    out.append(("any-typed-tuple-default", "F32c", lambda: mkpy("AnyTup", a=python.arg(type=ty.Any, default=(1, 2)))))
    out.append(("any-typed-set-default", "F32c", lambda: mkpy("AnySet", a=python.arg(type=ty.Any, default=frozenset(["k"])))))
    # field selection by predicate in unstructure(): inputs vs outputs vs outargs vs inherited fields
    def scale(x, factor=2):
        return x * factor
    out.append(("python: input and output share a name", None, lambda: python.define(
        scale, inputs={"x": python.arg(type=float, allowed_values=[1, 2, 3], help="the value to scale"),
                       "factor": python.arg(type=int, default=3)},
        outputs={"x": python.out(type=float, help="the scaled value")}, name="Scale")))
    out.append(("shell: input and plain output share a name, next to an outarg", None, lambda: shell.define(
        "echo", name="SameName",
        inputs={"a": shell.arg(type=str | None, default=None, argstr="-a", requires=["b"]),
                "b": shell.arg(type=bool, default=False, argstr="-b")},
        outputs={"a": shell.out(type=int, callable=rg.count_chars, help="chars"),
                 "o": shell.outarg(type=File, path_template="o.txt", argstr="-o")})))

    def class_forms():
        @shell.define
        class Base(shell.Task["Base.Outputs"]):
            executable = "echo"
            x: str = shell.arg(argstr="-x", default="q", help="base x")

            class Outputs(shell.Outputs):
                n: int = shell.out(callable=rg.count_chars)

        @shell.define(xor=["x", "y"])
        class Child(Base):
            y: int | None = shell.arg(argstr="-y", default=None, requires=["x"])

            class Outputs(Base.Outputs):
                o: File = shell.outarg(path_template="{x}.out", argstr="-o")
                x: str = shell.out(callable=rg.first_word)
        return Base, Child
    out.append(("class form, base", None, lambda: class_forms()[0]))
    out.append(("class form, inherited inputs/outputs, outarg, output named like an inherited input", None,
                lambda: class_forms()[1]))

    def py_class():
        @python.define
        class PyCls(python.Task["PyCls.Outputs"]):
            a: int = python.arg(default=1, help="a", allowed_values=[1, 2])
            b: str | None = None

            class Outputs(python.Outputs):
                a: int

            @staticmethod
            def function(a, b):
                return a
        return PyCls
    out.append(("python class form, output named like an input", None, py_class))
    out.append(("template-string shell definition", None, lambda: shell.define(
        "my-cmd <in_file:str> <out|out_file> --an-arg <an_arg:int=2> --a-flag<a_flag> --opt <opt:str?>")))
    return out


# ------------------------------------------------------------------------------------------------ behaviour
def behaviour(spec, cls, back, rng, root, run_python):
    """Same inputs -> same cmdline (shell) / same outputs (python, debug worker). Returns (n compared, mismatch or None)."""
    n = 0
    for a in rg.sample_assignments(rng, spec, 4):
        res = []
        for k, c in enumerate((cls, back)):
            try:
                t = rg.make_task(c, spec, a)
                if spec["kind"] == "shell":
                    res.append(("ok", t.cmdline))
                elif run_python:
                    o = t(cache_root=os.path.join(root, "c%d_%d" % (k, rng.randrange(10 ** 9))), worker="debug")
                    res.append(("ok", repr([getattr(o, f.name) for f in __import__("pydra").utils.general.get_fields(type(o))])))
                else:
                    t._check_rules()
                    res.append(("ok", t._checksum.split("-")[0]))
            except Exception as e:
                msg = str(e).splitlines()
                res.append(("exc", type(e).__name__, sorted(m for m in msg[1:6] if "crash report" not in m)))   # xor groups iterate in set order
        n += 1
        if res[0] != res[1]:
            return n, {"assignment": a, "original": res[0], "recreated": res[1]}
    return n, None


def run(ctx):
    from pydra.utils.general import unstructure, structure, get_fields
    rng = ctx.rng
    os.makedirs(ctx.scratch.dir, exist_ok=True)
    out = Outcome(rule=RULE)
    dist = out.distribution
    root = tempfile.mkdtemp(prefix="c32-")
    cases, meta = [], []
    seen = set()
    try:
        items = []
        for c in ctx.corpus():
            if "spec" in c:
                items.append((c.get("why", "corpus"), None, c["spec"], None))
        for label, finding, mk in special_defs():
            items.append((label, finding, None, mk))
        n = ctx.budget(220, 1800)
        for i in range(n):
            if i % 3 == 0:
                spec = rg.sample_def(rng, rng.choice([1, 2, 3, 4, 5]))          # the C31 generator as is
            else:
                spec = rg.sample_def32(rng)
            items.append(("generated", None, spec, None))
        run_budget = ctx.budget(25, 180)
        for label, finding, spec, mk in items:
            try:
                cls = mk() if mk else rg.build(spec)
            except Exception:
                dist["rejected_by_define"] = dist.get("rejected_by_define", 0) + 1
                continue
            try:
                orig = cls_lit(cls)
                d = unstructure(cls)
                dl = dict_lit(d)
            except Unencodable as e:
                dist["unencodable"] = dist.get("unencodable", 0) + 1
                out.failures.append(Failure(case={"label": label, "spec": spec}, observed=str(e), kind="tie",
                                            note="value outside the modelled grammar"))
                continue
            dropped = sum(1 for f in get_fields(cls) if f.name in d["inputs"] and "help" not in d["inputs"][f.name])
            kept = sum(1 for fd in d["inputs"].values() if set(fd) - {"type"})
            drepr = repr(d)[:1500]
            back, err, beh = None, None, None
            try:
                back = structure(d)      # NB: structure() replaces the field dictionaries inside d by field objects
            except Exception as e:
                err = "%s: %s" % (type(e).__name__, str(e)[:300])
            py_same = None
            if back is not None:
                py_same = (get_fields(cls) == get_fields(back) and cls._xor == back._xor
                           and get_fields(cls.Outputs) == get_fields(back.Outputs)
                           and cls.__name__ == back.__name__)
                if spec is not None:
                    nb, beh = behaviour(spec, cls, back, rng, root, run_budget > 0 and spec["kind"] == "python")
                    if spec["kind"] == "python":
                        run_budget -= 1
                    dist["behaviour_comparisons"] = dist.get("behaviour_comparisons", 0) + nb
            try:
                bl = "None" if back is None else "(Some %s)" % cls_lit(back)
            except Unencodable as e:
                out.failures.append(Failure(case={"label": label, "spec": spec}, observed=str(e), kind="tie",
                                            note="re-created class holds a value outside the modelled grammar"))
                continue
            cases.append(coqio.pair(coqio.boolean(d["type"] == "shell"), orig, dl, bl))
            key = repr(spec) if spec else label
            nontriv = key not in seen and dropped > 0 and kept > 0
            seen.add(key)
            meta.append(dict(label=label, finding=finding, spec=spec, dict=drepr, error=err, py_same=py_same,
                             behaviour=beh, nontrivial=nontriv, kind=d["type"]))
            dist["kind_" + d["type"]] = dist.get("kind_" + d["type"], 0) + 1
            if spec:
                dist["fields_%d" % len(spec["fields"])] = dist.get("fields_%d" % len(spec["fields"]), 0) + 1
                if any(f.get("requires") for f in spec["fields"]):
                    dist["with_requires"] = dist.get("with_requires", 0) + 1
                if spec.get("xor"):
                    dist["with_xor"] = dist.get("with_xor", 0) + 1
                if {o["name"] for o in spec.get("outputs", []) if o.get("cls") != "outarg"} & {f["name"] for f in spec["fields"]}:
                    dist["input_and_plain_output_share_a_name"] = dist.get("input_and_plain_output_share_a_name", 0) + 1
                if any(o.get("cls") == "outarg" for o in spec.get("outputs", [])):
                    dist["with_outarg"] = dist.get("with_outarg", 0) + 1
    finally:
        shutil.rmtree(root, ignore_errors=True)

    extra = schemas_coq() + type_shape_coq() + EXTRA_DEFS
    res = coqio.run_cases(ctx.scratch, "c32", IMPORTS, "case_t", cases,
                          {"tie": "tie_ok", "spec": "spec_ok", "wf": "wf_ok", "templ": "templ_ok", "reconv": "reconv_ok"},
                          extra=extra, shard=120)
    bad = {k: set(v) for k, v in res.items()}
    out.evaluations = len(meta)
    out.traces_validated = len(meta)
    out.distinct_nontrivial = sum(1 for m in meta if m["nontrivial"])
    out.samples = [{"label": m["label"], "spec": m["spec"], "dictionary": m["dict"]} for m in meta[len(meta) // 2: len(meta) // 2 + 3]]
    dist["outside_theorem_domain"] = len(bad["templ"] | bad["reconv"])
    dist["structure_raised"] = sum(1 for m in meta if m["error"])
    ntie = 0
    for i, m in enumerate(meta):
        case = {"label": m["label"], "spec": m["spec"]}
        if i in bad["wf"]:
            out.failures.append(Failure(case=case, observed="class built by define()", expected="wf_clsb = true", kind="tie",
                                        note="a class built by define() violates the model's well-formedness (field order / positions / completeness)"))
        if i in bad["tie"]:
            ntie += 1
            out.failures.append(Failure(case=case, observed={"dictionary": m["dict"], "structure_error": m["error"]},
                                        expected=_model_says(ctx, cases[i], extra) if ntie <= 3 else "(see the first cases)", kind="tie",
                                        note="model's dictionary / re-created class differs from unstructure()/structure()"))
        # Python's own comparison must agree with the Coq comparison of the encoded classes (checks the encoding)
        if m["py_same"] is not None and m["py_same"] != (i not in bad["spec"]):
            out.failures.append(Failure(case=case, observed={"python_fields_equal": m["py_same"]},
                                        expected={"same_definitionb": i not in bad["spec"]}, kind="tie",
                                        note="encoding of field attributes disagrees with Python's == on the real fields"))
        finding = None
        if i in bad["spec"] or m["behaviour"]:
            if i not in bad["tie"]:
                if i in bad["templ"]:
                    finding = "F32b"
                elif i in bad["reconv"]:
                    finding = "F32c"
            out.failures.append(Failure(case=case, observed={"structure_error": m["error"], "python_fields_equal": m["py_same"],
                                                             "behaviour_mismatch": m["behaviour"], "dictionary": m["dict"]},
                                        expected="re-created class is the same definition; same cmdline/outputs for equal inputs",
                                        kind="spec", finding=finding,
                                        note="structure(unstructure(cls)) is not the same definition as cls"
                                        if i in bad["spec"] else "same definition but different cmdline/outputs"))
        elif m["finding"] and m["finding"] not in ("F32b", "F32c"):
            pass
    return out


def _model_says(ctx, case_lit, extra):
    try:
        v = coqio.eval_terms(ctx.scratch, "m%d" % (abs(hash(case_lit)) % 10 ** 8), IMPORTS,
                             ["let '(sh, orig, d, back) := %s in (unstructure (sch_of sh) orig, structure (sch_of sh) type_shape fresh0 d)" % case_lit],
                             extra=extra)
        return v[0][:4000]
    except Exception as e:      # pragma: no cover
        return repr(e)[:500]


def replay(ctx, payload):
    from pydra.utils.general import unstructure, structure, get_fields
    c = payload["case"]
    cls = None
    if c.get("spec"):
        cls = rg.build(c["spec"])
    else:
        for label, _, mk in special_defs():
            if label == c.get("label"):
                cls = mk()
    if cls is None:
        print("cannot rebuild", c)
        return 1
    d = unstructure(cls)
    print("implementation dictionary:", d)
    dl = dict_lit(d)
    try:
        back = structure(d)
        print("re-created; fields equal:", get_fields(cls) == get_fields(back), " outputs equal:",
              get_fields(cls.Outputs) == get_fields(back.Outputs), " xor equal:", cls._xor == back._xor)
        bl = "(Some %s)" % cls_lit(back)
    except Exception as e:
        print("structure() raised", type(e).__name__, str(e)[:300])
        bl = "None"
    lit = coqio.pair(coqio.boolean(d["type"] == "shell"), cls_lit(cls), dl, bl)
    extra = schemas_coq() + type_shape_coq() + EXTRA_DEFS
    v = coqio.eval_terms(ctx.scratch, "replay", IMPORTS,
                         ["let '(sh, orig, d, back) := %s in (unstructure (sch_of sh) orig, structure (sch_of sh) type_shape fresh0 d)" % lit,
                          "spec_ok %s" % lit, "(templ_ok %s, reconv_ok %s)" % (lit, lit)], extra=extra)
    print("model (dictionary, re-created class):", v[0][:3000])
    print("spec : same definition =", v[1], " inside theorem domain (templated, reconvertible) =", v[2])
