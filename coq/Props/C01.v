(* C01 — Split expands to exactly the outer/inner product of the split inputs. *)
From Pydra Require Import Base.Prelude Model.State Spec.State Proofs.State.

(* For every well-formed splitter (any number of fields, any nesting, any n-ary lists/tuples and one-element
   wrappers) and every assignment of shapes to the fields, the model of State.prepare_states returns exactly
   the jobs of the reference expansion, in its order, or the shape error exactly when the reference rejects. *)
Definition C01_full_statement : Prop :=
  forall (e : env) (s : spl), wf s -> prepare_states e s = spec_result e s.

Theorem C01_full : C01_full_statement.
Proof. intros e s [W _]. exact (prepare_states_spec e s W). Qed.
Print Assumptions C01_full.

(* State.splits on the RPN of the splitter: index tuples of the reference expansion, keys = leaf sequence *)
Theorem C01_values : forall (e : env) (s : spl), wfb s = true ->
  splits e (rpn s) = match expand e s with Some (a, _) => Ok (map (map snd) a, leaves s) | None => Err EShape end.
Proof. exact splits_rpn. Qed.
Print Assumptions C01_values.

(* inner products over operands of different shape are rejected, and nothing else is *)
Theorem C01_reject : forall (e : env) (s : spl), wf s ->
  (jobs e s = None <-> prepare_states e s = Err EShape).
Proof.
  intros e s [W _]. rewrite (prepare_states_spec e s W). unfold spec_result.
  destruct (jobs e s); split; intros H; try discriminate; reflexivity.
Qed.
Print Assumptions C01_reject.

(* every job assigns exactly the split fields, in splitter order, each with an index inside its field *)
Theorem C01_job_inputs : forall (e : env) (s : spl) (a : list assignment) (sh : shape),
  expand e s = Some (a, sh) ->
  Forall (fun x => map fst x = leaves s /\ in_range e x = true) a.
Proof. exact expand_good. Qed.
Print Assumptions C01_job_inputs.

(* the number of jobs is the product of the shape; a split field of zero length gives no job at all *)
Theorem C01_count : forall (e : env) (s : spl) a sh, expand e s = Some (a, sh) -> List.length a = nprod sh.
Proof. exact expand_count. Qed.
Print Assumptions C01_count.

Theorem C01_empty : forall (e : env) (s : spl) (f : nat), In f (leaves s) -> nprod (e f) = 0 ->
  forall a sh, expand e s = Some (a, sh) -> a = [].
Proof. exact expand_empty. Qed.
Print Assumptions C01_empty.

(* the reference products say what the statement says: left-most slowest; positional pairing *)
Theorem C01_outer_order : forall (a b : list assignment) i j, i < List.length a -> j < List.length b ->
  nth (i * List.length b + j) (cart a b) [] = nth i a [] ++ nth j b [].
Proof. exact cart_nth. Qed.
Print Assumptions C01_outer_order.

Theorem C01_inner_order : forall (a b : list assignment) i, i < List.length a -> i < List.length b ->
  nth i (pairup a b) [] = nth i a [] ++ nth i b [].
Proof. exact pairup_nth. Qed.
Print Assumptions C01_inner_order.

(* non-vacuity: the five-field splitter [[0,1],[2,[3,4]]] (finding F01 before the repair) and a mixed one *)
Example C01_example_F01 :
  let s := Outer [Outer [Fld 0; Fld 1]; Outer [Fld 2; Outer [Fld 3; Fld 4]]] in
  let e := fun f => [nth f [1; 2; 3; 1; 2] 0] in
  wf s /\ prepare_states e s = spec_result e s /\
  nth 5 (match prepare_states e s with Ok a => a | Err _ => [] end) [] = [(0,0); (1,0); (2,2); (3,0); (4,1)].
Proof.
  cbv zeta. split; [split; [reflexivity| repeat constructor; cbn; intuition discriminate]|]. split; vm_compute; reflexivity.
Qed.

Example C01_example_reject :
  prepare_states (fun f => [f + 1]) (Outer [Fld 2; Inner [Fld 0; Fld 1]]) = Err EShape /\
  prepare_states (fun f => match f with 0 => [2; 2] | _ => [2] end) (Inner [Fld 0; Outer [Fld 1; Fld 2]]) =
    Ok [[(0,0);(1,0);(2,0)]; [(0,1);(1,0);(2,1)]; [(0,2);(1,1);(2,0)]; [(0,3);(1,1);(2,1)]].
Proof. split; vm_compute; reflexivity. Qed.
