(* Proofs/HashRefuted.v — concrete witnesses: what the serializers of pydra/utils/hash.py get wrong.
   Each witness is evaluated on the model with vm_compute; the correspondence run replays it on the code. *)
From Pydra Require Import Base.Prelude Base.PySort Model.Hash Spec.Hash.
Local Open Scope list_scope.
Local Open Scope string_scope.

(* a stand-in hash function used only to show that two digests CAN differ (the statements refuted below are
   quantified over every H; real blake2b is observed to behave the same way by the correspondence run) *)
Definition toy_step (acc : Z) (c : ascii) : Z := ((acc * 131 + Z.of_nat (nat_of_ascii c) + 1) mod 340282366920938463463374607431768211456)%Z.
Fixpoint toy_fold (s : string) (acc : Z) : Z :=
  match s with EmptyString => acc | String c r => toy_fold r (toy_step acc c) end.
Definition toyH (s : string) : string := le_bytes 16 (toy_fold s 7).

(* ---------------------------------------------------------------- cycles: a = [1, b]; b = [2, a] *)
Definition cyc_a : pyval := VList 1 [VInt 1; VList 2 [VInt 2; VRef 1]].
Definition cyc_b : pyval := VList 2 [VInt 2; VList 1 [VInt 1; VRef 2]].

Lemma cycle_context_dependent :
  hash_in toyH [cyc_b] cyc_a <> hash_in toyH [] cyc_a.
Proof. vm_compute. intros E. discriminate E. Qed.

(* ---------------------------------------------------------------- os.PathLike keys are not self-delimiting:
   {P("a"): v, P("b"): w}  and  {P("a=" + digest(v) + ",pathlib.PurePosixPath:b"): w}  have the same bytes *)
Definition pp : string := "pathlib.PurePosixPath".
Definition pk_d1 (v w : pyval) : pyval := VDict 1 [(VPath pp "a", v); (VPath pp "b", w)].
Definition pk_d2 (H : string -> string) (v w : pyval) : pyval :=
  VDict 1 [(VPath pp ("a=" ++ match digest H v with Ok d => d | Err _ => "" end ++ "," ++ pp ++ ":b"), w)].

Lemma pathkey_same_bytes_example :
  preimage toyH (pk_d1 (VInt 10115) (VStr "x")) = preimage toyH (pk_d2 toyH (VInt 10115) (VStr "x")).
Proof. vm_compute. reflexivity. Qed.

(* ---------------------------------------------------------------- `<` on frozensets is only a partial order:
   a dict with two incomparable frozenset keys, in its two insertion orders *)
Definition fs12 : pyval := VFrozenset 2 [VInt 1; VInt 2].
Definition fs34 : pyval := VFrozenset 3 [VInt 3; VInt 4].
Definition po_d1 : pyval := VDict 1 [(fs12, VStr "a"); (fs34, VStr "b")].
Definition po_d2 : pyval := VDict 1 [(fs34, VStr "b"); (fs12, VStr "a")].

Lemma partial_order_insertion_dependent :
  veq po_d1 po_d2 /\ digest toyH po_d1 <> digest toyH po_d2.
Proof. split; [vm_compute; reflexivity|vm_compute; intros E; discriminate E]. Qed.

(* the same through a set: the two iteration orders of {frozenset({1,2}), frozenset({3,4})} *)
Definition po_s1 : pyval := VFrozenset 1 [fs12; fs34].
Definition po_s2 : pyval := VFrozenset 1 [fs34; fs12].
Lemma partial_order_iteration_dependent :
  veq po_s1 po_s2 /\ digest toyH po_s1 <> digest toyH po_s2.
Proof. split; [vm_compute; reflexivity|vm_compute; intros E; discriminate E]. Qed.
