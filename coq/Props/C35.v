(* C35 — Job lifecycle leaves the process and the cache directory consistent. *)
From Pydra Require Import Base.Prelude.
From Pydra Require Import Model.CacheProto Spec.CacheProto Proofs.CacheProto Proofs.CacheProtoC35 Proofs.CacheProtoC10
  Proofs.CacheProtoC12 Proofs.CacheProtoSpec.

(* The property at full strength: after any submission by a process that is the only one using the cache root,
   however it ended (returned, raised, exception at any stage), the process is back in its directory, none of
   its info files is left, and the job directory holds the job record and a result. *)
Definition C35_full_statement : Prop :=
  forall pickle unpickle bv pre tr s p,
    run pickle unpickle bv (init bv pre) tr = Some s ->
    (forall r, r <> p -> pc (procs s r) = Idle) ->
    alive s p -> pc (procs s p) = Done ->
    cwd (procs s p) = Home /\ infos (procs s p) = 0 /\ fcode (resf (gl s)) = 2.

(* F35: an exception raised by hooks.pre_run_task (equally: at any label between job.lock_acquired and
   job.audit_started, by hooks.post_run_task or at any label of the finally block) leaves the process inside the
   job directory, the info file behind and no result *)
Theorem C35_refuted_pre_try : ~ C35_full_statement.
Proof.
  intros H. destruct pre_hook_witness as (s & R & E1 & E2 & E3 & E4 & E5).
  destruct (H toy_pickle toy_unpickle 7 false _ s 0 R) as (C & _); [|exact E5|exact E1|congruence].
  intros r Ne. rewrite (others_untouched _ _ _ 0 _ _ _ R); [reflexivity| |exact Ne].
  intros e Hin. unfold pre_hook_raises_trace in Hin. apply in_map_iff in Hin. now destruct Hin as (a & <- & _).
Qed.
Print Assumptions C35_refuted_pre_try.

(* C35_partial: as long as every exception of process p was raised inside the try block or its handler (task
   body, output collection, record_error -- at any label there; dirty = false is the computable class the
   harness mirrors), for every interleaving with any number of other processes:
   outside the with block p's cwd is restored and no info file of p is left; at the end of the with block
   (job.cwd_restored, lock still held) the directory holds the complete job record and the complete result p
   built, marked errored exactly when the finally block ran because of an exception. *)
Theorem C35_finally_region :
  forall pickle unpickle bv pre tr s p,
    run pickle unpickle bv (init bv pre) tr = Some s ->
    let q := procs s p in
    dirty q = false ->
    (holds (pc q) = false -> cwd q = Home /\ infos q = 0) /\
    (alive s p -> pc q = Fin5 ->
       cwd q = Home /\ infos q = 0 /\
       dir (gl s) = true /\ jobf (gl s) = Complete tt /\ resf (gl s) = Complete (mkRes (raised q) (r_out q))).
Proof. exact finally_region. Qed.
Print Assumptions C35_finally_region.

(* once outside the with block a process leaves the directory alone (so in a single-submitter history what
   C35_finally_region shows at job.cwd_restored is what is found afterwards) *)
Theorem C35_outside_leaves_directory :
  forall pickle unpickle bv p q g a q' g',
    lstep pickle unpickle bv p q g a = Some (q', g') -> holds (pc q) = false ->
    dir g' = dir g /\ jobf g' = jobf g /\ resf g' = resf g /\ errf g' = errf g.
Proof.
  intros pickle unpickle bv p q g a q' g' L Hh.
  destruct (lstep_outside pickle unpickle bv _ _ _ _ _ _ L Hh) as [->|(_ & _ & ->)]; auto.
Qed.
Print Assumptions C35_outside_leaves_directory.

(* pre_run_task and post_run_task: exactly once per entry into the task execution ... *)
Theorem C35_hooks_once :
  forall pickle unpickle bv pre tr s p,
    run pickle unpickle bv (init bv pre) tr = Some s ->
    let q := procs s p in
    dirty q = false -> holds (pc q) = false ->
    pre_calls q = execs q /\ post_calls q = execs q.
Proof. exact hooks_once. Qed.
Print Assumptions C35_hooks_once.

(* ... and never on the path of a cache hit *)
Theorem C35_hit_calls_no_hook :
  forall pickle unpickle bv p q g a q' g',
    lstep pickle unpickle bv p q g a = Some (q', g') ->
    hit_path (pc q) = true \/ (pc q = Locked /\ a = AChecked) ->
    pre_calls q' = pre_calls q /\ post_calls q' = post_calls q /\ execs q' = execs q /\
    (hit_path (pc q') = true \/ pc q' = Locked \/ pc q' = Miss \/ pc q' = Done \/ pc q' = ExcHold \/ pc q' = RelExc).
Proof. exact hit_calls_no_hook. Qed.
Print Assumptions C35_hit_calls_no_hook.

(* the same defect through hooks.post_run_task: the body ran, nothing was saved *)
Theorem C35_refuted_post_hook :
  exists s, run toy_pickle toy_unpickle 7 (init 7 false) post_hook_raises_trace = Some s /\
            pc (procs s 0) = Done /\ cwd (procs s 0) = InDir /\ infos (procs s 0) = 1 /\ resf (gl s) = Absent /\
            runs (gl s) = 1.
Proof. exact post_hook_witness. Qed.
Print Assumptions C35_refuted_post_hook.
