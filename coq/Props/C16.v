(* C16 — with max_concurrent = k at no instant more than k jobs are launched and unfinished. *)
From Pydra Require Import Base.Prelude Base.SchedBase Model.Sched Spec.Sched Proofs.SchedG.

Definition C16_full_statement : Prop :=
  forall (V : Type) (body : nat -> nat -> list (list (option V)) -> V) (fails : job -> bool)
         (g : graph) (k : nat),
    wf_graph g ->
    forall orc fuel, concurrency_bounded k (event_log (run_async V body fails repaired g (Some k) orc fuel)).

Theorem C16_full : C16_full_statement.
Proof. intros V body fails g k WF orc fuel. apply async_concurrency; auto. Qed.
Print Assumptions C16_full.
