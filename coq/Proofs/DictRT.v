(* Proofs/DictRT.v — C32: structure (unstructure c) is the same definition as c. *)
From Pydra Require Import Base.Prelude Model.DictRT Spec.DictRT.
Local Open Scope string_scope.

(* ---------------------------------------------------------------- Python == on the modelled values *)
Lemma seq_refl a : seq a a = true.
Proof.
  destruct a; cbn; auto using Bool.eqb_reflx, Z.eqb_refl, String.eqb_refl.
Qed.

Lemma seq_sym a b : seq a b = seq b a.
Proof.
  destruct a, b; cbn; auto using Z.eqb_sym, String.eqb_sym.
  destruct b, b0; reflexivity.
Qed.

Lemma list_eqb_refl {A} (e : A -> A -> bool) (R : forall x, e x x = true) l : list_eqb e l l = true.
Proof. induction l; cbn; [reflexivity|now rewrite R, IHl]. Qed.

Lemma list_eqb_sym {A} (e : A -> A -> bool) (S : forall x y, e x y = e y x) a :
  forall b, list_eqb e a b = list_eqb e b a.
Proof. induction a as [|x a IH]; destruct b; cbn; auto. now rewrite S, IH. Qed.

Lemma sub_s_refl l : sub_s l l = true.
Proof.
  unfold sub_s. apply forallb_forall. intros x Hx. apply existsb_exists. exists x. split; [exact Hx|apply seq_refl].
Qed.

Lemma kv_eq_refl p : kv_eq p p = true.
Proof. unfold kv_eq. now rewrite String.eqb_refl, seq_refl. Qed.

Lemma sub_kv_refl l : sub_kv l l = true.
Proof.
  unfold sub_kv. apply forallb_forall. intros x Hx. apply existsb_exists. exists x. split; [exact Hx|apply kv_eq_refl].
Qed.

Lemma option_eqb_refl {A} (e : A -> A -> bool) (R : forall x, e x x = true) o : option_eqb e o o = true.
Proof. destruct o; cbn; auto. Qed.
Lemma option_eqb_sym {A} (e : A -> A -> bool) (S : forall x y, e x y = e y x) a b :
  option_eqb e a b = option_eqb e b a.
Proof. destruct a, b; cbn; auto. Qed.

Lemma req_eq_refl r : req_eq r r = true.
Proof.
  unfold req_eq. rewrite String.eqb_refl. cbn. apply option_eqb_refl. intros l. apply list_eqb_refl, seq_refl.
Qed.
Lemma req_eq_sym a b : req_eq a b = req_eq b a.
Proof.
  unfold req_eq. rewrite String.eqb_sym. f_equal. apply option_eqb_sym. intros x y. apply list_eqb_sym, seq_sym.
Qed.

Lemma aeq_refl v : aeq v v = true.
Proof.
  destruct v; cbn.
  - apply seq_refl.
  - apply list_eqb_refl, seq_refl.
  - apply list_eqb_refl, seq_refl.
  - now rewrite sub_s_refl.
  - now rewrite sub_kv_refl.
  - apply list_eqb_refl. intros l'. apply list_eqb_refl, req_eq_refl.
Qed.

Lemma aeq_sym a b : aeq a b = aeq b a.
Proof.
  destruct a, b; cbn; auto.
  - apply seq_sym.
  - apply list_eqb_sym, seq_sym.
  - apply list_eqb_sym, seq_sym.
  - apply andb_comm.
  - apply andb_comm.
  - apply list_eqb_sym. intros x y. apply list_eqb_sym, req_eq_sym.
Qed.

(* ---------------------------------------------------------------- lookups through the filter *)
Lemma lookup_cons {A} k (p : string * A) l :
  lookup k (p :: l) = if String.eqb (fst p) k then Some (snd p) else lookup k l.
Proof. unfold lookup. cbn. destruct (fst p =? k); reflexivity. Qed.

Lemma lookup_none_notin {A} k (l : list (string * A)) : ~ In k (map fst l) -> lookup k l = None.
Proof.
  induction l as [|p l IH]; [reflexivity|]. intros H. rewrite lookup_cons.
  destruct (fst p =? k) eqn:E.
  - apply String.eqb_eq in E. exfalso. apply H. now left.
  - apply IH. intros I. apply H. now right.
Qed.

Section Filter.
  Context {A B : Type} (drop : string -> A -> bool) (g : A -> B).
  Definition kept (l : list (string * A)) : list (string * B) :=
    flat_map (fun p => if drop (fst p) (snd p) then [] else [(fst p, g (snd p))]) l.

  Lemma kept_keys l k : In k (map fst (kept l)) -> In k (map fst l).
  Proof.
    induction l as [|p l IH]; cbn; [auto|]. destruct (drop (fst p) (snd p)); cbn.
    - intros H. right. now apply IH.
    - intros [H|H]; [now left|right; now apply IH].
  Qed.

  Lemma lookup_kept l k : NoDup (map fst l) ->
    lookup k (kept l) = match lookup k l with
                        | Some v => if drop k v then None else Some (g v)
                        | None => None
                        end.
  Proof.
    induction l as [|p l IH]; [reflexivity|]. intros ND. inversion ND as [|? ? Hp ND']; subst.
    rewrite lookup_cons. unfold kept in *. cbn [flat_map].
    destruct (fst p =? k) eqn:E.
    - apply String.eqb_eq in E. subst k. destruct (drop (fst p) (snd p)) eqn:D; cbn [app].
      + apply lookup_none_notin. intros I. apply Hp. now apply kept_keys.
      + rewrite lookup_cons. cbn [fst snd]. now rewrite String.eqb_refl.
    - destruct (drop (fst p) (snd p)); cbn [app]; [now apply IH|].
      rewrite lookup_cons. cbn [fst]. rewrite E. now apply IH.
  Qed.
End Filter.

Lemma all_some_map {A B} (f : A -> option B) (g : A -> B) l :
  (forall x, In x l -> f x = Some (g x)) -> all_some (map f l) = Some (map g l).
Proof.
  induction l as [|x l IH]; [reflexivity|]. intros H. cbn.
  rewrite (H x (or_introl eq_refl)), IH; [reflexivity|]. intros y Hy. apply H. now right.
Qed.

(* ---------------------------------------------------------------- strict equality reflects = *)
Lemma scalar_eqb_eq a b : scalar_eqb a b = true <-> a = b.
Proof.
  destruct a, b; cbn; try (split; congruence).
  - rewrite Bool.eqb_true_iff. split; congruence.
  - rewrite Z.eqb_eq. split; congruence.
  - rewrite String.eqb_eq. split; congruence.
  - rewrite String.eqb_eq. split; congruence.
Qed.

Lemma kv_eqb_eq a b : kv_eqb a b = true <-> a = b.
Proof.
  destruct a, b. unfold kv_eqb. cbn. rewrite andb_true_iff, String.eqb_eq, scalar_eqb_eq. split; [intros [-> ->]; reflexivity|intros E; inversion E; auto].
Qed.

Lemma option_eqb_eq {A} (e : A -> A -> bool) (H : forall x y, e x y = true <-> x = y) a b :
  option_eqb e a b = true <-> a = b.
Proof. destruct a, b; cbn; try (split; congruence). rewrite H. split; congruence. Qed.

Lemma req_eqb_eq a b : req_eqb a b = true <-> a = b.
Proof.
  destruct a, b. unfold req_eqb. cbn.
  rewrite andb_true_iff, String.eqb_eq, (option_eqb_eq _ (list_eqb_spec _ scalar_eqb_eq)).
  split; [intros [-> ->]; reflexivity|intros E; inversion E; auto].
Qed.

Lemma aval_eqb_eq a b : aval_eqb a b = true <-> a = b.
Proof.
  destruct a, b; cbn; try (split; congruence).
  - rewrite scalar_eqb_eq. split; congruence.
  - rewrite (list_eqb_spec _ scalar_eqb_eq). split; congruence.
  - rewrite (list_eqb_spec _ scalar_eqb_eq). split; congruence.
  - rewrite (list_eqb_spec _ scalar_eqb_eq). split; congruence.
  - rewrite (list_eqb_spec _ kv_eqb_eq). split; congruence.
  - rewrite (list_eqb_spec _ (list_eqb_spec _ req_eqb_eq)). split; congruence.
Qed.

Lemma frec_eqb_eq a b : frec_eqb a b = true <-> a = b.
Proof.
  destruct a as [ca na va], b as [cb nb vb]. unfold frec_eqb. cbn.
  assert (P : forall p q : string * aval, (fst p =? fst q) && aval_eqb (snd p) (snd q) = true <-> p = q).
  { intros [a1 a2] [b1 b2]. cbn. rewrite andb_true_iff, String.eqb_eq, aval_eqb_eq.
    split; [intros [-> ->]; reflexivity|intros E; inversion E; auto]. }
  rewrite !andb_true_iff, String.eqb_eq, (list_eqb_spec _ P). split.
  - intros [[C ->] ->]. destruct ca, cb; try discriminate; reflexivity.
  - intros E. inversion E; subst. repeat split. destruct cb; reflexivity.
Qed.

Lemma nodupb_NoDup l : nodupb l = true -> NoDup l.
Proof.
  induction l as [|x l IH]; cbn; [constructor|].
  rewrite andb_true_iff, negb_true_iff. intros [H1 H2]. constructor; [|auto].
  intros Hx. assert (existsb (String.eqb x) l = true); [|congruence].
  apply existsb_exists. exists x. split; [exact Hx|apply String.eqb_refl].
Qed.

(* ---------------------------------------------------------------- one field *)
Section Field.
  Variable sch : fclass -> schema.
  Variable type_shape : string -> shape.

  Lemma find_attr c x : NoDup (map aname (sch c)) -> In x (sch c) ->
    find (fun y => String.eqb (aname y) (aname x)) (sch c) = Some x.
  Proof.
    induction (sch c) as [|y l IH]; [intros _ []|]. cbn. intros ND [->|Hx].
    - now rewrite String.eqb_refl.
    - inversion ND as [|? ? Hy ND']; subst. destruct (aname y =? aname x) eqn:E.
      + apply String.eqb_eq in E. exfalso. apply Hy. rewrite E. now apply in_map.
      + now apply IH.
  Qed.

  Lemma lookup_in {A} k (v : A) l : NoDup (map fst l) -> In (k, v) l -> lookup k l = Some v.
  Proof.
    induction l as [|p l IH]; [intros _ []|]. intros ND [->|H]; rewrite lookup_cons.
    - cbn. now rewrite String.eqb_refl.
    - inversion ND as [|? ? Hp ND']; subst. destruct (fst p =? k) eqn:E.
      + apply String.eqb_eq in E. exfalso. apply Hp. rewrite E. change k with (fst (k, v)). now apply in_map.
      + now apply IH.
  Qed.

  Lemma Forall2_by_keys {P : string * aval -> string * aval -> Prop} (F : attr -> string * aval) s :
    forall l, map fst l = map aname s ->
      (forall x v, In x s -> In (aname x, v) l -> P (F x) (aname x, v)) ->
      Forall2 P (map F s) l.
  Proof.
    induction s as [|x s IH]; intros [|[k v] l] E H; try discriminate; cbn; [constructor|].
    cbn in E. inversion E as [[E1 E2]]. subst k. constructor.
    - apply H; now left.
    - apply IH; [exact E2|]. intros y w Hy Hw. apply H; now right.
  Qed.

  Lemma shape_of_type_aeq v d : aeq v d = true ->
    shape_of_type type_shape (Some d) = shape_of_type type_shape (Some v).
  Proof.
    destruct v as [s| | | | |], d as [s'| | | | |]; cbn; try discriminate; try reflexivity.
    destruct s, s'; cbn; try discriminate; try reflexivity.
    intros E. apply String.eqb_eq in E. now subst.
  Qed.

  Lemma default_of_notin c a : ~ In a (map aname (sch c)) -> default_of sch c a = None.
  Proof.
    unfold default_of. intros H. destruct (find (fun x => aname x =? a) (sch c)) as [x|] eqn:F; [|reflexivity].
    apply find_some in F as [Hx E]. apply String.eqb_eq in E. exfalso. apply H. rewrite <- E. now apply in_map.
  Qed.

  Definition complete (r : frec) : Prop := map fst (fvals r) = map aname (sch (fcls r)).

  Lemma completeb_complete r : completeb sch r = true -> complete r.
  Proof. unfold completeb, complete. apply list_eqb_spec. intros x y. apply String.eqb_eq. Qed.

  Lemma unstructure_field_kept r :
    unstructure_field sch r = kept (is_default sch (fcls r)) ser (fvals r).
  Proof. reflexivity. Qed.

  Lemma dict_shape_unstructure r : NoDup (map aname (sch (fcls r))) -> complete r ->
    dict_shape sch type_shape (fcls r) (unstructure_field sch r) = field_shape type_shape r.
  Proof.
    intros ND C. unfold dict_shape, field_shape. rewrite unstructure_field_kept, lookup_kept by (rewrite C; exact ND).
    destruct (lookup "type" (fvals r)) as [v|] eqn:L.
    - destruct (is_default sch (fcls r) "type" v) eqn:D.
      + unfold is_default in D. destruct (default_of sch (fcls r) "type") as [d|]; [|discriminate].
        now apply shape_of_type_aeq.
      + destruct v; reflexivity.
    - rewrite default_of_notin; [reflexivity|]. rewrite <- C. intros I.
      apply in_map_iff in I as [[k v] [E I]]. cbn in E. subst k.
      rewrite (lookup_in "type" v (fvals r)) in L; [discriminate| rewrite C; exact ND | exact I].
  Qed.

  Theorem restore_unstructure_field r :
    NoDup (map aname (sch (fcls r))) -> complete r -> reconvertibleb sch type_shape r = true ->
    exists r', restore sch type_shape (fcls r) (fname r) (unstructure_field sch r) = Some r' /\
               field_equiv r' r /\ fcls r' = fcls r /\ fname r' = fname r.
  Proof.
    intros ND C RC. unfold restore.
    assert (K : forallb (fun p => existsb (fun x => aname x =? fst p) (sch (fcls r))) (unstructure_field sch r) = true).
    { apply forallb_forall. intros p Hp. rewrite unstructure_field_kept in Hp.
      assert (I : In (fst p) (map fst (fvals r))) by (eapply kept_keys, in_map, Hp).
      rewrite C in I. apply in_map_iff in I as [x [E Hx]]. apply existsb_exists. exists x.
      split; [exact Hx|]. now apply String.eqb_eq. }
    rewrite K. eexists. split; [reflexivity|]. split; [|split; reflexivity].
    split; [reflexivity|]. split; [reflexivity|]. cbn [fvals].
    apply Forall2_by_keys; [exact C|]. intros x v Hx Hv. split; [reflexivity|]. cbn [fst snd].
    rewrite (dict_shape_unstructure r ND C), unstructure_field_kept, lookup_kept by (rewrite C; exact ND).
    rewrite (lookup_in (aname x) v (fvals r)) by (rewrite ?C; auto).
    assert (DF : default_of sch (fcls r) (aname x) = Some (adefault x)).
    { unfold default_of. now rewrite (find_attr (fcls r) x ND Hx). }
    destruct (is_default sch (fcls r) (aname x) v) eqn:D.
    - unfold is_default in D. rewrite DF in D. now rewrite aeq_sym.
    - unfold reconvertibleb in RC. rewrite forallb_forall in RC. specialize (RC (aname x, v) Hv). cbn [fst snd] in RC.
      rewrite D in RC. cbn [orb] in RC. unfold conv_of in RC. now rewrite (find_attr (fcls r) x ND Hx) in RC.
  Qed.
End Field.

(* ---------------------------------------------------------------- the whole class *)
Local Open Scope list_scope.
Lemma all_some_exists {A B} (f : A -> option B) (P : B -> A -> Prop) l :
  (forall x, In x l -> exists y, f x = Some y /\ P y x) ->
  exists l', all_some (map f l) = Some l' /\ Forall2 P l' l.
Proof.
  induction l as [|x l IH]; intros H; [exists []; split; [reflexivity|constructor]|].
  destruct (H x (or_introl eq_refl)) as [y [E Py]].
  destruct IH as [l' [E' F]]; [intros z Hz; apply H; now right|].
  exists (y :: l'). cbn. rewrite E, E'. split; [reflexivity|now constructor].
Qed.

Lemma Forall2_filter {A B} (P : A -> B -> Prop) (p : A -> bool) (q : B -> bool) l l' :
  Forall2 (fun a b => P a b /\ p a = q b) l l' -> Forall2 P (filter p l) (filter q l').
Proof.
  induction 1 as [|a b l l' [Pab E] F IH]; cbn; [constructor|].
  rewrite E. destruct (q b); [constructor; auto|auto].
Qed.

Lemma Forall2_In_left {A B} (P : A -> B -> Prop) l l' a :
  Forall2 P l l' -> In a l -> exists b, In b l' /\ P a b.
Proof.
  induction 1 as [|x y l l' Pxy F IH]; [intros []|]. intros [<-|H].
  - exists y. split; [now left|exact Pxy].
  - destruct (IH H) as [b [Hb Pb]]. exists b. split; [now right|exact Pb].
Qed.

Lemma Forall2_weaken {A B} (P Q : A -> B -> Prop) l l' :
  (forall a b, P a b -> Q a b) -> Forall2 P l l' -> Forall2 Q l l'.
Proof. intros H. induction 1; constructor; auto. Qed.

Lemma lookup_has_key {A} k (l : list (string * A)) : has_key k l = true <-> lookup k l <> None.
Proof.
  induction l as [|p l IH]; cbn; [split; [discriminate|congruence]|].
  rewrite lookup_cons. destruct (fst p =? k); cbn; [split; [discriminate|reflexivity]|exact IH].
Qed.

Lemma lookup_equiv k a b : Forall2 attr_equiv a b ->
  match lookup k a, lookup k b with
  | Some v, Some w => aeq v w = true
  | None, None => True
  | _, _ => False
  end.
Proof.
  induction 1 as [|p q a b [E V] F IH]; cbn; [exact I|].
  rewrite !lookup_cons, <- E. destruct (fst p =? k); [exact V|exact IH].
Qed.

Lemma position_is_none_equiv r' r : field_equiv r' r -> position_is_none r' = position_is_none r.
Proof.
  intros [_ [_ F]]. unfold position_is_none. pose proof (lookup_equiv "position" _ _ F) as L.
  destruct (lookup "position" (fvals r')) as [v|], (lookup "position" (fvals r)) as [w|]; try contradiction; [|reflexivity].
  destruct v as [s| | | | |], w as [s'| | | | |]; cbn in L; try discriminate; try reflexivity.
  destruct s, s'; cbn in L; try discriminate; reflexivity.
Qed.

Lemma find_self (p : frec -> bool) l r : NoDup (map fname l) -> In r l -> p r = true ->
  find (fun q => String.eqb (fname q) (fname r)) (filter p l) = Some r.
Proof.
  induction l as [|x l IH]; [intros _ []|]. cbn. intros ND [->|H] Pr.
  - rewrite Pr. cbn. now rewrite String.eqb_refl.
  - inversion ND as [|? ? Hx ND']; subst. destruct (p x); [|now apply IH]. cbn.
    destruct (fname x =? fname r) eqn:E; [|now apply IH].
    apply String.eqb_eq in E. exfalso. apply Hx. rewrite E. now apply in_map.
Qed.

Lemma xor_equiv_refl x : xor_equiv x x.
Proof. split; intros g Hg; exists g; split; auto; intros n; tauto. Qed.

Section Class.
  Variable sch : fclass -> schema.
  Variable type_shape : string -> shape.
  Variable fresh_position : list frec -> frec -> aval.

  Definition plain (c : taskcls) := filter (fun r => negb (is_outarg r)) (cinputs c).

  Theorem structure_unstructure c :
    schema_okb sch = true -> wf_clsb sch c = true -> restorableb sch type_shape c = true ->
    exists c', structure sch type_shape fresh_position (unstructure sch c) = Some c' /\ same_definition c' c.
  Proof.
    intros SO WF RS.
    unfold schema_okb in SO. rewrite !andb_true_iff in SO. destruct SO as [[[N1 N2] N3] NT].
    apply nodupb_NoDup in N1, N2, N3. rewrite negb_true_iff in NT.
    assert (ND : forall k, NoDup (map aname (sch k))) by (intros []; assumption).
    unfold wf_clsb in WF. rewrite !andb_true_iff in WF. fold (plain c) in WF.
    destruct WF as [[[[[[W1 W2] W3] W4] W5] W6] W7].
    apply (list_eqb_spec _ frec_eqb_eq) in W1. apply nodupb_NoDup in W4.
    rewrite forallb_forall in W2, W3, W5, W6, W7.
    unfold restorableb in RS. rewrite !andb_true_iff in RS. destruct RS as [[R1 R2] R3].
    rewrite forallb_forall in R1, R2, R3.
    assert (PI : forall r, In r (plain c) -> In r (cinputs c)) by (intros r H; apply filter_In in H; tauto).
    set (Q := fun r' r : frec => field_equiv r' r /\ fcls r' = fcls r /\ fname r' = fname r).
    (* inputs *)
    destruct (all_some_exists
                (fun r => restore sch type_shape CArg (fname r) (unstructure_field sch r)) Q (plain c))
      as [ins [EI FI]].
    { intros r Hr.
      assert (C : fcls r = CArg) by (specialize (W2 r Hr); destruct (fcls r); try discriminate; reflexivity).
      destruct (restore_unstructure_field sch type_shape r) as [r' [E H]].
      - apply ND.
      - apply completeb_complete, W5, PI, Hr.
      - apply R1, PI, Hr.
      - rewrite C in E. exists r'. split; [exact E|exact H]. }
    (* outputs *)
    destruct (all_some_exists
                (fun r => restore sch type_shape (out_class (unstructure_field sch r)) (fname r) (unstructure_field sch r))
                Q (coutputs c)) as [outs [EO FO]].
    { intros r Hr.
      assert (CMP : complete sch r) by (apply completeb_complete, W6, Hr).
      assert (OC : out_class (unstructure_field sch r) = fcls r).
      { unfold out_class. specialize (W3 r Hr). specialize (R3 r Hr). unfold templatedb in R3.
        destruct (fcls r) eqn:C; [discriminate| |].
        - destruct (has_key "path_template" (unstructure_field sch r)) eqn:HK; [|reflexivity]. exfalso.
          apply lookup_has_key in HK. apply HK. apply lookup_none_notin. intros I.
          rewrite unstructure_field_kept in I. apply kept_keys in I. rewrite CMP, C in I.
          apply in_map_iff in I as [x [E Hx]].
          assert (existsb (fun x => aname x =? "path_template") (sch COut) = true); [|congruence].
          apply existsb_exists. exists x. split; [exact Hx|now apply String.eqb_eq].
        - destruct (lookup "path_template" (fvals r)) as [v|] eqn:L; [|discriminate].
          rewrite negb_true_iff in R3.
          assert (HK : has_key "path_template" (unstructure_field sch r) = true).
          { apply lookup_has_key. rewrite unstructure_field_kept, lookup_kept by (rewrite CMP; apply ND).
            rewrite L, C, R3. discriminate. }
          now rewrite HK. }
      rewrite OC. destruct (restore_unstructure_field sch type_shape r) as [r' [E H]]; auto.
      exists r'. split; [exact E|exact H]. }
    unfold structure, unstructure. cbn [dinputs doutputs dkind dname dexec dxor]. fold (plain c).
    rewrite !map_map. cbn [fst snd]. rewrite EI, EO.
    (* the restored outarg fields *)
    assert (FA : Forall2 Q (filter is_outarg outs) (filter is_outarg (coutputs c))).
    { apply Forall2_filter. eapply Forall2_weaken; [|exact FO]. intros a b [H1 [H2 H3]].
      split; [split; auto|]. unfold is_outarg. now rewrite H2. }
    assert (FALL : Forall2 Q (ins ++ filter is_outarg outs) (cinputs c)).
    { rewrite W1. now apply Forall2_app. }
    (* no position is missing: the position pass changes nothing *)
    assert (AP : assign_positions fresh_position (ins ++ filter is_outarg outs) = ins ++ filter is_outarg outs).
    { unfold assign_positions. transitivity (map (fun x : frec => x) (ins ++ filter is_outarg outs)); [|apply map_id].
      apply map_ext_in. intros r' Hr'.
      assert (PN : position_is_none r' = false); [|now rewrite PN].
      destruct (Forall2_In_left _ _ _ _ FALL Hr') as [b [Hb [Hab _]]].
      rewrite (position_is_none_equiv _ _ Hab). specialize (W7 b Hb). now rewrite negb_true_iff in W7. }
    rewrite AP.
    (* the outputs keep their (shared) outarg objects *)
    assert (NI : filter is_outarg ins = []).
    { destruct (filter is_outarg ins) as [|a t] eqn:E; [reflexivity|]. exfalso.
      assert (Ha : In a (filter is_outarg ins)) by (rewrite E; now left).
      apply filter_In in Ha as [Ha IO]. destruct (Forall2_In_left _ _ _ _ FI Ha) as [b [Hb [_ [Hc _]]]].
      specialize (W2 b Hb). unfold is_outarg in IO. rewrite Hc in IO. destruct (fcls b); discriminate. }
    assert (NO : map fname outs = map fname (coutputs c)).
    { clear - FO. induction FO as [|a b l l' [_ [_ Hn]] F IH]; [reflexivity|]. cbn. now rewrite Hn, IH. }
    assert (OUTS : map (fun r => if is_outarg r
                     then match find (fun q => fname q =? fname r) (filter is_outarg (ins ++ filter is_outarg outs)) with
                          | Some q => q | None => r end
                     else r) outs = outs).
    { transitivity (map (fun x : frec => x) outs); [|apply map_id]. apply map_ext_in. intros r Hr. destruct (is_outarg r) eqn:IO; [|reflexivity].
      rewrite filter_app, NI. cbn [app].
      assert (FF : filter is_outarg (filter is_outarg outs) = filter is_outarg outs).
      { clear. induction outs as [|x l IH]; [reflexivity|]. cbn. destruct (is_outarg x) eqn:E; cbn; [rewrite E; now f_equal|exact IH]. }
      rewrite FF, (find_self is_outarg outs r); auto. now rewrite NO. }
    rewrite OUTS. eexists. split; [reflexivity|].
    unfold same_definition. cbn [tkind tname texec cinputs coutputs cxor].
    repeat split; auto using xor_equiv_refl.
    - eapply Forall2_weaken; [|exact FALL]. intros a b H. apply H.
    - eapply Forall2_weaken; [|exact FO]. intros a b H. apply H.
    - intros g Hg. exists g. split; [exact Hg|intros n; tauto].
    - intros g Hg. exists g. split; [exact Hg|intros n; tauto].
  Qed.
End Class.

(* ---------------------------------------------------------------- the statement without side conditions fails *)
Definition full_statement : Prop :=
  forall sch type_shape fresh_position c,
    schema_okb sch = true -> wf_clsb sch c = true ->
    exists c', structure sch type_shape fresh_position (unstructure sch c) = Some c' /\ same_definition c' c.

(* a cut-down copy of the live schemas, enough for the witnesses *)
Definition ex_sch (k : fclass) : schema :=
  let common := [ {| aname := "type"; adefault := AS (SObj "typing.Any"); aconv := CvId |};
                  {| aname := "default"; adefault := AS SNoDefault; aconv := CvDefault |};
                  {| aname := "help"; adefault := AS (SStr ""); aconv := CvId |};
                  {| aname := "requires"; adefault := AReqs []; aconv := CvRequires |} ] in
  let cmd := [ {| aname := "argstr"; adefault := AS (SStr ""); aconv := CvId |};
               {| aname := "position"; adefault := AS SNone; aconv := CvId |} ] in
  match k with
  | CArg => common ++ [ {| aname := "allowed_values"; adefault := ASet []; aconv := CvFrozenset |} ] ++ cmd
  | COut => common ++ [ {| aname := "callable"; adefault := AS SNone; aconv := CvId |} ]
  | COutarg => common ++ cmd ++ [ {| aname := "path_template"; adefault := AS SNone; aconv := CvId |};
                                  {| aname := "keep_extension"; adefault := AS (SBool true); aconv := CvId |} ]
  end.
Definition ex_shape (id : string) : shape :=
  if String.eqb id "tuple[int, int]" then ShTuple else if String.eqb id "typing.Any" then ShAny else ShScalar.

(* shell.outarg(type=File | None, default=None, argstr="-o") without a path_template *)
Definition wit_templateless : taskcls :=
  let o := {| fcls := COutarg; fname := "o";
              fvals := [("type", AS (SObj "File | None")); ("default", AS SNone); ("help", AS (SStr ""));
                        ("requires", AReqs []); ("argstr", AS (SStr "-o")); ("position", AS (SInt 1));
                        ("path_template", AS SNone); ("keep_extension", AS (SBool true))] |} in
  {| tkind := "shell"; tname := "cmd"; texec := SStr "cmd"; cinputs := [o]; coutputs := [o]; cxor := [] |}.

(* python.arg(type=ty.Any, default=(1, 2)) *)
Definition wit_any_tuple : taskcls :=
  let a := {| fcls := CArg; fname := "a";
              fvals := [("type", AS (SObj "typing.Any")); ("default", ATuple [SInt 1; SInt 2]); ("help", AS (SStr ""));
                        ("requires", AReqs []); ("allowed_values", ASet []); ("argstr", AS (SStr ""));
                        ("position", AS (SInt 1))] |} in
  {| tkind := "python"; tname := "F"; texec := SObj "F"; cinputs := [a]; coutputs := []; cxor := [] |}.

Lemma templateless_outarg_not_restored :
  structure ex_sch ex_shape (fun _ _ => AS SNone) (unstructure ex_sch wit_templateless) = None.
Proof. vm_compute. reflexivity. Qed.

Lemma any_tuple_not_restored :
  exists c', structure ex_sch ex_shape (fun _ _ => AS SNone) (unstructure ex_sch wit_any_tuple) = Some c' /\
             same_definitionb c' wit_any_tuple = false.
Proof. eexists. split; vm_compute; reflexivity. Qed.

Theorem full_statement_refuted : ~ full_statement.
Proof.
  intros H. destruct (H ex_sch ex_shape (fun _ _ => AS SNone) wit_templateless eq_refl eq_refl) as [c' [E _]].
  rewrite templateless_outarg_not_restored in E. discriminate.
Qed.

(* the executable comparison used on the cases implies the relation *)
Lemma same_membersb_spec g h : same_membersb g h = true -> same_members g h.
Proof.
  unfold same_membersb, subset_o. rewrite andb_true_iff, !forallb_forall. intros [A B] n.
  assert (E : forall (l : list (option string)) x, existsb (ostr_eqb x) l = true -> In x l).
  { intros l x Hx. apply existsb_exists in Hx as [y [Hy Exy]]. unfold ostr_eqb in Exy.
    apply (option_eqb_eq _ String.eqb_eq) in Exy. now subst. }
  split; intros I; [apply E, A, I|apply E, B, I].
Qed.

Lemma fclass_eqb_eq a b : fclass_eqb a b = true -> a = b.
Proof. destruct a, b; cbn; congruence. Qed.

Lemma list_eqb_Forall2 {A} (e : A -> A -> bool) (P : A -> A -> Prop) (H : forall x y, e x y = true -> P x y) a :
  forall b, list_eqb e a b = true -> Forall2 P a b.
Proof.
  induction a as [|x a IH]; destruct b as [|y b]; cbn; try discriminate; [constructor|].
  rewrite andb_true_iff. intros [E L]. constructor; auto.
Qed.

Theorem same_definitionb_sound c c' : same_definitionb c c' = true -> same_definition c c'.
Proof.
  unfold same_definitionb, same_definition. rewrite !andb_true_iff.
  intros [[[[[K N] X] I] O] XR].
  apply String.eqb_eq in K, N. apply scalar_eqb_eq in X.
  assert (FE : forall a b, field_equivb a b = true -> field_equiv a b).
  { intros a b. unfold field_equivb, field_equiv. rewrite !andb_true_iff. intros [[C Nm] V].
    apply fclass_eqb_eq in C. apply String.eqb_eq in Nm. repeat split; auto.
    apply (list_eqb_Forall2 attr_equivb); [|exact V]. intros p q. unfold attr_equivb, attr_equiv.
    rewrite andb_true_iff, String.eqb_eq. tauto. }
  repeat split; auto.
  - now apply (list_eqb_Forall2 field_equivb).
  - now apply (list_eqb_Forall2 field_equivb).
  - unfold xor_equivb in XR. apply andb_true_iff in XR as [A _]. rewrite forallb_forall in A.
    intros g Hg. specialize (A g Hg). apply existsb_exists in A as [h [Hh S]]. exists h. split; [exact Hh|].
    now apply same_membersb_spec.
  - unfold xor_equivb in XR. apply andb_true_iff in XR as [_ B]. rewrite forallb_forall in B.
    intros h Hh. specialize (B h Hh). apply existsb_exists in B as [g [Hg S]]. exists g. split; [exact Hg|].
    now apply same_membersb_spec.
Qed.
