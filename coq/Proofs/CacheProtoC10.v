(* Proofs/CacheProtoC10.v — deterministic succeeding body, no rerun, no injected exceptions (crashes allowed
   unless stated): every readable result is the body's value, a readable result is never destroyed, and
   (without crashes) the body runs at most once. Arbitrary traces, arbitrary number of processes. *)
From Pydra Require Import Base.Prelude.
From Pydra Require Import Model.CacheProto Proofs.CacheProto Proofs.CacheProtoC35.
Local Open Scope nat_scope.

(* no exception anywhere, the body returns, nobody asks for a rerun *)
Definition det (a : action) : bool :=
  match a with
  | AExc | APreHookRaise | APostHookRaise | ABodyRaise => false
  | APreRun rr _ => negb rr
  | _ => true
  end.
Definition nocrash (a : action) : bool := match a with ACrash => false | _ => true end.
Definition det_trace (tr : list event) : bool := forallb (fun e => det (snd e)) tr.
Definition nocrash_trace (tr : list event) : bool := forallb (fun e => nocrash (snd e)) tr.

Definition pc_det (c : pcT) : bool :=
  match c with
  | Err0 | Err1 | Err2 | Err3 | Err4 | ErrRec | Fin0 | ExcHold | RelExc => false
  | Sv false (SRB | SRO | SRD | SRA) => false      (* save(job=...) from _populate_filesystem writes no result *)
  | _ => true
  end.
Definition miss2 (c : pcT) : bool := match c with Miss | Pop1 => true | _ => false end.
Definition cleared (c : pcT) : bool :=
  match c with
  | Pop2 | Pop3 | Sv false _ | Pop4 | Pop5 | CwdCh | PreHk | AudSt | BodyIn | BodyOut | OutsOk | Fin1 | Fin2
  | Sv true SAcq | Sv true SRB => true
  | _ => false
  end.
Definition writing (c : pcT) : bool := match c with Sv true SRO | Sv true SRD => true | _ => false end.
Definition okseen (c : pcT) : bool :=
  match c with
  | Hit0 | Hit1 | RelHit | Sv true (SRA | SJB | SJO | SJD | SJA | SRel) | Fin3 | Fin4 | Fin5 | RelOk | Post1 | Post2
  | Done => true
  | _ => false
  end.
Definition has_out (c : pcT) : bool :=
  match c with OutsOk | Fin1 | Fin2 | Sv true _ | Fin3 | Fin4 | Fin5 => true | _ => false end.
Definition pre_body (c : pcT) : bool :=
  match c with Miss | Pop1 | Pop2 | Pop3 | Sv false _ | Pop4 | Pop5 | CwdCh | PreHk | AudSt | BodyIn => true | _ => false end.
Definition post_body (c : pcT) : bool :=
  match c with BodyOut | OutsOk | Fin1 | Fin2 | Sv true _ | Fin3 | Fin4 | Fin5 => true | _ => false end.

Local Arguments CacheProto.load_result : simpl never.

Section C10.
  Variable pickle : res -> list nat.
  Variable unpickle : list nat -> option res.
  Variable bv : val.
  Hypothesis unpickle_pickle : forall r, unpickle (pickle r) = Some r.
  Hypothesis prefix_rejected : forall r n, n < List.length (pickle r) -> unpickle (firstn n (pickle r)) = None.
  Hypothesis pickle_nonempty : forall r, pickle r <> [].

  Notation lstep := (lstep pickle unpickle bv).
  Notation step := (step pickle unpickle bv).
  Notation run := (run pickle unpickle bv).
  Notation init := (init bv).
  Notation load_result := (load_result pickle unpickle).
  Notation retry_load := (retry_load unpickle).
  Definition ok : res := mkRes false (Some bv).

  Lemma retry_load_S k b : retry_load (S k) b = unpickle b.
  Proof. induction k; cbn in *; destruct (unpickle b); auto. Qed.

  Lemma load_complete g r : dir g = true -> resf g = Complete r -> load_result g = Some r.
  Proof.
    intros D R. unfold load_result, CacheProto.load_result. rewrite D, R. cbn [content].
    destruct (pickle r) eqn:E; [now apply pickle_nonempty in E|]. rewrite <- E, retry_load_S. apply unpickle_pickle.
  Qed.

  Lemma load_writing g r n : resf g = Writing r n -> load_result g = None \/ load_result g = Some r.
  Proof.
    intros R. unfold load_result, CacheProto.load_result. rewrite R. destruct (dir g); [|now left]. cbn [content].
    destruct (firstn n (pickle r)) eqn:E; [now left|]. rewrite <- E, retry_load_S.
    destruct (Nat.lt_ge_cases n (List.length (pickle r))) as [L|L].
    - left. now apply prefix_rejected.
    - right. rewrite firstn_all2 by assumption. apply unpickle_pickle.
  Qed.

  (* C12_truncation: a strict prefix of the pickle is never read back as a result *)
  Lemma load_strict_prefix g r n : resf g = Writing r n -> n < List.length (pickle r) -> load_result g = None.
  Proof.
    intros R L. unfold load_result, CacheProto.load_result. rewrite R. destruct (dir g); [|reflexivity]. cbn [content].
    destruct (firstn n (pickle r)) eqn:E; [reflexivity|]. rewrite <- E, retry_load_S. now apply prefix_rejected.
  Qed.

  Lemma load_writing_grows g r m n g' :
    resf g = Writing r m -> load_result g = Some r -> m <= n -> dir g' = dir g -> resf g' = Writing r n ->
    load_result g' = Some r.
  Proof.
    intros R L Le D R'. unfold load_result, CacheProto.load_result in *. rewrite R in L. rewrite R', D.
    destruct (dir g); [|discriminate]. cbn [content] in *.
    destruct (Nat.lt_ge_cases m (List.length (pickle r))) as [Lt|Ge].
    - destruct (firstn m (pickle r)) eqn:E; [discriminate|]. rewrite <- E, retry_load_S, prefix_rejected in L by assumption. discriminate.
    - rewrite firstn_all2 by lia. destruct (pickle r) eqn:E; [now apply pickle_nonempty in E|]. rewrite <- E, retry_load_S. apply unpickle_pickle.
  Qed.

  Lemma load_absent g : resf g = Absent -> load_result g = None.
  Proof. intros R. unfold load_result, CacheProto.load_result. rewrite R. now destruct (dir g). Qed.
  Lemma load_nodir g : dir g = false -> load_result g = None.
  Proof. intros R. unfold load_result, CacheProto.load_result. now rewrite R. Qed.
  Lemma load_frame g g' : dir g' = dir g -> resf g' = resf g -> load_result g' = load_result g.
  Proof. intros D R. unfold load_result, CacheProto.load_result. now rewrite D, R. Qed.

  (* everything in the result file is (a prefix of) the pickle of the body's value *)
  Definition valid_res (g : glob) : Prop :=
    (forall r n, resf g = Writing r n -> r = ok) /\ (forall r, resf g = Complete r -> r = ok) /\
    (dir g = false -> resf g = Absent).

  Lemma load_valid g r : valid_res g -> load_result g = Some r -> r = ok.
  Proof.
    intros (V1 & V2 & _) L. destruct (resf g) as [|r' n|r'] eqn:R.
    - rewrite load_absent in L by assumption. discriminate.
    - destruct (load_writing _ _ _ R) as [E|E]; rewrite E in L; [discriminate|]. inversion L; subst. eauto.
    - destruct (dir g) eqn:D; [|rewrite load_nodir in L by assumption; discriminate].
      rewrite (load_complete _ _ D R) in L. inversion L; subst. eauto.
  Qed.

  Definition proc_valid (q : proc) : Prop :=
    pc_det (pc q) = true /\ r_err q = false /\ raised q = false /\ self_err q = false /\ rerun q = false /\
    (has_out (pc q) = true -> r_out q = Some bv) /\
    (forall o, ret q = Some o -> o = Returned ok) /\
    dirty q = false.

  Definition is_writing_ok (f : fstate res) : Prop := match f with Writing r _ => r = ok | _ => False end.

  (* what a live process knows about the result file at its pc *)
  Definition pk (q : proc) (g : glob) : Prop :=
    (miss2 (pc q) = true -> load_result g = None) /\
    (cleared (pc q) = true -> resf g = Absent) /\
    (writing (pc q) = true -> is_writing_ok (resf g)) /\
    (okseen (pc q) = true -> load_result g = Some ok) /\
    (pc q = Pop2 -> dir g = false).

  Ltac spec_all :=
    repeat match goal with
           | H : true = true -> _ |- _ => specialize (H eq_refl)
           | H : false = true -> _ |- _ => clear H
           | H : _ /\ _ |- _ => destruct H
           end.

  Lemma own_step p q g a q' g' :
    lstep p q g a = Some (q', g') -> det a = true ->
    valid_res g -> proc_valid q -> pk q g -> fs_inv q g ->
    valid_res g' /\ proc_valid q' /\ pk q' g'.
  Proof.
    intros H Da V PV PK FS.
    pose proof (fun r => load_valid g r V) as LV.
    inv_lstep H; try discriminate Da. all: fin H.
    all: unfold proc_valid, pk, fs_inv, valid_res, the_result, job_result in *; usepc; spec_all.
    all: try match goal with H : rerun _ = true, H' : rerun _ = false |- _ => congruence end.
    all: try match goal with H : self_err ?q = false |- _ => rewrite H in * end.
    all: try match goal with H : usable ?o = _ |- _ => destruct o eqn:?; cbn in H; try discriminate H end.
    all: try match goal with H : negb _ = true |- _ => apply negb_true_iff in H end.
    all: try match goal with H : negb _ = false |- _ => apply negb_false_iff in H end.
    all: try match goal with H : load_result ?g = Some ?r |- _ => pose proof (LV _ H); subst r end.
    all: repeat split; intros; try discriminate; try congruence; eauto.
    all: try match goal with H : r_err ?q = false, H' : r_out ?q = Some bv |- _ => rewrite H, H' in * end.
    all: fold ok in *.
    all: try (match goal with H : Writing _ _ = Writing _ _ |- _ => inversion H end; subst; reflexivity).
    all: try (match goal with H : Complete _ = Complete _ |- _ => inversion H end; reflexivity).
    all: try reflexivity.
    all: try (apply load_complete; cbn; auto; fail).
    all: try (usepc; auto; try discriminate; congruence).
    all: match goal with LV : forall r0, Some ?r = Some r0 -> _ |- _ => pose proof (LV r eq_refl) as Er; rewrite Er in *; discriminate end.
  Qed.

  Ltac setup H Da :=
    inv_lstep H; try discriminate Da; fin H;
    unfold proc_valid, pk, fs_inv, valid_res, the_result, job_result in *; usepc; spec_all;
    try match goal with H : rerun _ = true, H' : rerun _ = false |- _ => congruence end;
    try match goal with H : self_err ?q = false |- _ => rewrite H in * end;
    try match goal with H : usable ?o = _ |- _ => destruct o eqn:?; cbn in H; try discriminate H end.

  (* once the body's value can be read back, no step of anybody makes it unreadable *)
  Lemma load_stable p q g a q' g' :
    lstep p q g a = Some (q', g') -> det a = true ->
    proc_valid q -> pk q g -> fs_inv q g ->
    load_result g = Some ok -> load_result g' = Some ok.
  Proof.
    intros H Da PV PK FS L. setup H Da.
    all: try (erewrite load_frame; [eassumption|reflexivity|reflexivity]).
    all: try congruence.
    all: try (rewrite load_absent in L by assumption; discriminate).
    all: try (apply load_complete; cbn; auto;
              match goal with H : r_err ?q = false, H' : r_out ?q = Some bv |- _ => rewrite H, H'; reflexivity end).
    all: try (destruct (resf g) as [|r0 m|r0] eqn:R; cbn in *; try contradiction; try discriminate; subst r0;
              match goal with H : r_err ?q = false, H' : r_out ?q = Some bv |- _ => rewrite H, H' end;
              eapply load_writing_grows; [exact R|exact L| |reflexivity|reflexivity];
              match goal with H : (_ <=? _) = true |- _ => now apply Nat.leb_le in H end).
  Qed.

  Lemma pk_frame q g g' : dir g' = dir g -> resf g' = resf g -> pk q g -> pk q g'.
  Proof.
    intros D R (P1 & P2 & P3 & P4 & P5). unfold pk. rewrite (load_frame _ _ D R), R, D. auto.
  Qed.

  Lemma pk_outside q g g' :
    holds (pc q) = false -> (load_result g = Some ok -> load_result g' = Some ok) -> pk q g -> pk q g'.
  Proof.
    intros Hh St (P1 & P2 & P3 & P4 & P5). unfold pk.
    destruct (pc q) as [| | | | | | | | |f i| | | | | | | | | | | | | | | | | | | | | | | | | | | ];
      cbn in *; try discriminate; repeat split; intros; try discriminate; auto.
  Qed.

  Definition k_inv (s : state) : Prop :=
    valid_res (gl s) /\ (forall p, proc_valid (procs s p)) /\ (forall p, alive s p -> pk (procs s p) (gl s)).

  Lemma k_inv_init pre : k_inv (init pre).
  Proof.
    unfold k_inv, init, glob0. destruct pre; cbn.
    - split; [|split].
      + unfold valid_res; cbn. repeat split; intros; try discriminate. inversion H; reflexivity.
      + intros _. unfold proc_valid; cbn. repeat split; intros; discriminate.
      + intros p _. unfold pk; cbn. repeat split; intros; discriminate.
    - split; [|split].
      + unfold valid_res; cbn. repeat split; intros; discriminate.
      + intros _. unfold proc_valid; cbn. repeat split; intros; discriminate.
      + intros p _. unfold pk; cbn. repeat split; intros; discriminate.
  Qed.

  Lemma k_inv_step s e s' :
    lock_inv s -> c35_inv s -> k_inv s -> step s e = Some s' -> det (snd e) = true -> k_inv s'.
  Proof.
    intros LI [_ HF] (V & PV & PK) H Da. destruct e as [p a]. cbn in Da.
    apply step_inv in H. destruct H as [Dp [[-> ->]|(q' & g' & L & ->)]].
    - unfold k_inv; cbn. split; [exact V|]. split; [exact PV|]. intros r Ar.
      apply pk_frame with (g := gl s); auto. apply PK. unfold alive in *; cbn in *.
      destruct (Nat.eqb r p); [discriminate|assumption].
    - pose proof (own_step _ _ _ _ _ _ L Da V (PV p) (PK p Dp) (HF p Dp)) as (V' & PV' & PK').
      pose proof (lstep_lock _ _ _ _ _ _ _ _ _ L) as [Dd _].
      unfold k_inv; cbn [procs gl]. split; [exact V'|]. split.
      + intros r. destruct (Nat.eq_dec r p) as [->|Ne]; [now rewrite upd_same|now rewrite upd_other by assumption].
      + intros r Ar. assert (Ar' : alive s r) by (unfold alive in *; cbn in *; congruence).
        destruct (Nat.eq_dec r p) as [->|Ne]; [now rewrite upd_same|rewrite upd_other by assumption].
        destruct (holds (pc (procs s r))) eqn:Hr.
        * destruct LI as (I1 & _).
          assert (Hp : holds (pc (procs s p)) = false).
          { destruct (holds (pc (procs s p))) eqn:Hp; [|reflexivity].
            pose proof (I1 p Dp Hp). pose proof (I1 r Ar' Hr). congruence. }
          destruct (lstep_outside _ _ _ _ _ _ _ _ _ L Hp) as [->|(_ & _ & ->)]; [now apply PK|].
          apply pk_frame with (g := gl s); auto.
        * apply pk_outside with (g := gl s); auto.
          eapply load_stable; eauto.
  Qed.

  Definition all_inv (s : state) : Prop := lock_inv s /\ c35_inv s /\ k_inv s.

  Lemma run_inv_det (I : state -> Prop) :
    (forall s e s', I s -> step s e = Some s' -> det (snd e) = true -> I s') ->
    forall tr s s', I s -> det_trace tr = true -> run s tr = Some s' -> I s'.
  Proof.
    intros Hstep. induction tr as [|e tr IH]; cbn; intros s s' Hs D H.
    - inversion H; subst; assumption.
    - apply andb_true_iff in D. destruct D as [D1 D2].
      destruct (step s e) as [s1|] eqn:E; [|discriminate]. eapply IH; [|exact D2|exact H]. eapply Hstep; eauto.
  Qed.

  Lemma all_inv_reachable pre tr s : det_trace tr = true -> run (init pre) tr = Some s -> all_inv s.
  Proof.
    intros D R. eapply (run_inv_det all_inv); [|split; [apply lock_inv_init|split; [apply c35_inv_init|apply k_inv_init]]|exact D|exact R].
    intros s0 e s1 (A & B & C) H De. split; [eapply lock_inv_step; eauto|split; [eapply c35_inv_step; eauto|eapply k_inv_step; eauto]].
  Qed.

  (* ---- consequences for every det trace (crashes allowed) *)

  (* whatever anybody reads back from the result file, at any time, is the body's value *)
  Theorem read_sound pre tr s r :
    det_trace tr = true -> run (init pre) tr = Some s -> load_result (gl s) = Some r -> r = ok.
  Proof. intros D R L. destruct (all_inv_reachable _ _ _ D R) as (_ & _ & V & _). eapply load_valid; eauto. Qed.

  (* every submitter that got an answer got the same one: the body's value, not errored *)
  Theorem same_outputs pre tr s p o :
    det_trace tr = true -> run (init pre) tr = Some s -> ret (procs s p) = Some o -> o = Returned ok.
  Proof.
    intros D R E. destruct (all_inv_reachable _ _ _ D R) as (_ & _ & _ & PV & _).
    destruct (PV p) as (_ & _ & _ & _ & _ & _ & Hr & _). auto.
  Qed.

  (* ---- counting body executions: no crash *)
  Definition is_writing (f : fstate res) : bool := match f with Writing _ _ => true | _ => false end.

  Definition r_inv (s : state) : Prop :=
    (forall p, dead (gl s) p = false) /\
    (forall p, pre_body (pc (procs s p)) = true -> runs (gl s) = 0) /\
    (forall p, post_body (pc (procs s p)) = true -> runs (gl s) = 1) /\
    (load_result (gl s) = Some ok -> runs (gl s) = 1) /\
    (runs (gl s) = 0 \/ load_result (gl s) = Some ok \/
     exists h, lock (gl s) = Some h /\ post_body (pc (procs s h)) = true) /\
    (is_writing (resf (gl s)) = true -> exists h, lock (gl s) = Some h /\ writing (pc (procs s h)) = true).

  Lemma r_own_step p q g a q' g' :
    lstep p q g a = Some (q', g') -> det a = true ->
    valid_res g -> proc_valid q -> pk q g -> fs_inv q g ->
    (pre_body (pc q) = true -> runs g = 0) ->
    (post_body (pc q) = true -> runs g = 1) ->
    (load_result g = Some ok -> runs g = 1) ->
    (holds (pc q) = true -> runs g = 0 \/ load_result g = Some ok \/ post_body (pc q) = true) ->
    (pre_body (pc q') = true -> runs g' = 0) /\
    (post_body (pc q') = true -> runs g' = 1) /\
    (load_result g' = Some ok -> runs g' = 1) /\
    (runs g' = runs g \/ post_body (pc q') = true) /\
    (post_body (pc q) = true -> post_body (pc q') = true \/ load_result g' = Some ok) /\
    (is_writing (resf g') = true -> is_writing (resf g) = true \/ writing (pc q') = true) /\
    (writing (pc q) = true -> writing (pc q') = true \/ is_writing (resf g') = false).
  Proof.
    intros H Da V PV PK FS A1 A2 A3 A4.
    pose proof (fun r => load_valid g r V) as LV. clear V. setup H Da.
    all: repeat match goal with
                | H : true = true -> _ |- _ => specialize (H eq_refl)
                | H : false = true -> _ |- _ => clear H
                end.
    all: try match goal with H : resf ?g = Absent |- _ => pose proof (load_absent _ H) end.
    all: repeat split; intros; try discriminate; try congruence; auto.
    all: try (erewrite load_frame in * by (try reflexivity); auto; fail).
    all: try match goal with H : negb _ = false |- _ => apply negb_false_iff in H end.
    all: try match goal with H : load_result ?g = Some ?r |- _ => pose proof (LV _ H); subst r; discriminate end.
    all: try (destruct A4 as [A4|[A4|A4]]; congruence).
    all: try (rewrite load_absent in * by assumption; discriminate).
    all: try (match goal with LV : forall r0, Some ?r = Some r0 -> _ |- _ => pose proof (LV r eq_refl) as Er; rewrite Er in *; discriminate end).
  Qed.

  Ltac by_pc c := destruct c as [| | | | | | | | |[] []| | | | | | | | | | | | | | | | | | | | | | | | | | | ]; cbn; intros; try discriminate; auto.
  Lemma pre_body_holds c : pre_body c = true -> holds c = true. Proof. by_pc c. Qed.
  Lemma post_body_holds c : post_body c = true -> holds c = true. Proof. by_pc c. Qed.
  Lemma writing_holds c : writing c = true -> holds c = true. Proof. by_pc c. Qed.

  Lemma r_inv_init pre : r_inv (init pre).
  Proof.
    unfold r_inv, init, glob0. destruct pre; cbn [gl procs dead runs lock resf pc proc0 pre_body post_body is_writing].
    - repeat split; intros; try discriminate; auto.
      right; left. apply load_complete; reflexivity.
    - repeat split; intros; try discriminate; auto.
  Qed.

  Lemma r_inv_step s e s' :
    all_inv s -> all_inv s' -> r_inv s -> step s e = Some s' -> det (snd e) = true -> nocrash (snd e) = true ->
    r_inv s'.
  Proof.
    intros (LI & [_ HF] & (V & PV & PK)) (LI' & _) (R0 & R1 & R2 & R3 & R5 & R6) H Da Nc.
    destruct e as [p a]. cbn in Da, Nc.
    apply step_inv in H. destruct H as [Dp [[-> ->]|(q' & g' & L & ->)]]; [discriminate|].
    pose proof (lstep_lock _ _ _ _ _ _ _ _ _ L) as [Dd _].
    destruct LI as (I1 & _). destruct LI' as (I1' & _).
    unfold alive in *. cbn [procs gl] in *.
    assert (A4 : holds (pc (procs s p)) = true ->
                 runs (gl s) = 0 \/ load_result (gl s) = Some ok \/ post_body (pc (procs s p)) = true).
    { intros Hp. destruct R5 as [E|[E|(h & Lh & Ph)]]; auto.
      pose proof (I1 p Dp Hp). assert (h = p) by congruence. subst h. auto. }
    pose proof (r_own_step _ _ _ _ _ _ L Da V (PV p) (PK p Dp) (HF p Dp) (R1 p) (R2 p) R3 A4)
      as (B1 & B2 & B3 & B4 & B5 & B6 & B7).
    assert (OUT : forall r, r <> p -> holds (pc (procs s r)) = true -> g' = gl s \/ g' = set_lock (Some p) (gl s)).
    { intros r Ne Hr.
      assert (Hp : holds (pc (procs s p)) = false).
      { destruct (holds (pc (procs s p))) eqn:Hp; [|reflexivity].
        pose proof (I1 p Dp Hp). pose proof (I1 r (R0 r) Hr). congruence. }
      destruct (lstep_outside _ _ _ _ _ _ _ _ _ L Hp) as [->|(_ & _ & ->)]; auto. }
    assert (LK : forall r, holds (pc (upd (procs s) p q' r)) = true -> lock g' = Some r).
    { intros r Hr. apply I1'; [rewrite Dd; apply R0|exact Hr]. }
    unfold r_inv. cbn [procs gl]. rewrite Dd. split; [exact R0|]. split; [|split; [|split; [|split]]].
    - intros r Hr. destruct (Nat.eq_dec r p) as [->|Ne]; [rewrite upd_same in Hr; auto|].
      rewrite upd_other in Hr by assumption.
      destruct (OUT r Ne (pre_body_holds _ Hr)) as [->| ->]; cbn; eauto.
    - intros r Hr. destruct (Nat.eq_dec r p) as [->|Ne]; [rewrite upd_same in Hr; auto|].
      rewrite upd_other in Hr by assumption.
      destruct (OUT r Ne (post_body_holds _ Hr)) as [->| ->]; cbn; eauto.
    - exact B3.
    - destruct R5 as [E|[E|(h & Lh & Ph)]].
      + destruct B4 as [E'|E']; [left; congruence|].
        right; right. exists p. rewrite upd_same. split; [|exact E'].
        apply LK. rewrite upd_same. now apply post_body_holds.
      + right; left. eapply load_stable; eauto.
      + destruct (Nat.eq_dec h p) as [->|Ne].
        * destruct (B5 Ph) as [E'|E']; [|now right; left].
          right; right. exists p. rewrite upd_same. split; [|exact E'].
          apply LK. rewrite upd_same. now apply post_body_holds.
        * right; right. exists h. rewrite upd_other by assumption. split; [|exact Ph].
          apply LK. rewrite upd_other by assumption. now apply post_body_holds.
    - intros W. destruct (B6 W) as [W0|W0].
      + destruct (R6 W0) as (h & Lh & Ph). destruct (Nat.eq_dec h p) as [->|Ne].
        * destruct (B7 Ph) as [E'|E']; [|congruence].
          exists p. rewrite upd_same. split; [|exact E']. apply LK. rewrite upd_same. now apply writing_holds.
        * exists h. rewrite upd_other by assumption. split; [|exact Ph].
          apply LK. rewrite upd_other by assumption. now apply writing_holds.
      + exists p. rewrite upd_same. split; [|exact W0]. apply LK. rewrite upd_same. now apply writing_holds.
  Qed.

  Definition clean_trace (tr : list event) : bool := det_trace tr && nocrash_trace tr.

  Lemma clean_run tr : forall s0 s,
    all_inv s0 /\ r_inv s0 -> det_trace tr = true -> nocrash_trace tr = true -> run s0 tr = Some s ->
    all_inv s /\ r_inv s.
  Proof.
    induction tr as [|e tr IH]; cbn; intros s0 s [A R0] D N H.
    - inversion H; subst. split; assumption.
    - apply andb_true_iff in D, N. destruct D as [D1 D2], N as [N1 N2].
      destruct (step s0 e) as [s1|] eqn:E; [|discriminate].
      assert (A1 : all_inv s1).
      { destruct A as (A & B & C). split; [eapply lock_inv_step; eauto|split; [eapply c35_inv_step; eauto|eapply k_inv_step; eauto]]. }
      apply (IH s1); auto. split; [exact A1|]. apply (r_inv_step s0 e s1); auto.
  Qed.

  Lemma clean_reachable pre tr s : clean_trace tr = true -> run (init pre) tr = Some s -> all_inv s /\ r_inv s.
  Proof.
    unfold clean_trace. intros C R. apply andb_true_iff in C. destruct C as [D N].
    apply (clean_run tr (init pre)); auto.
    split; [|apply r_inv_init]. split; [apply lock_inv_init|split; [apply c35_inv_init|apply k_inv_init]].
  Qed.

  (* C10_once: no crash, no exception, nobody asks for a rerun, the body returns: over every interleaving of
     any number of processes (and any number of submissions per process) the body has run at most once,
     and as soon as one submitter has its answer it has run exactly once (the execution that produced a
     result found at the start counts as that one) *)
  Theorem once pre tr s :
    clean_trace tr = true -> run (init pre) tr = Some s ->
    runs (gl s) <= 1 /\
    (forall p o, ret (procs s p) = Some o -> pc (procs s p) = Done -> o = Returned ok) /\
    (forall p, okseen (pc (procs s p)) = true -> runs (gl s) = 1).
  Proof.
    intros C R. destruct (clean_reachable _ _ _ C R) as [(LI & _ & (V & PV & PK)) (R0 & R1 & R2 & R3 & R5 & _)].
    split; [|split].
    - destruct R5 as [E|[E|(h & _ & Ph)]]; [lia|rewrite (R3 E); lia|rewrite (R2 h Ph); lia].
    - intros p o E _. destruct (PV p) as (_ & _ & _ & _ & _ & _ & Hr & _). auto.
    - intros p Hp. apply R3. destruct (PK p (R0 p)) as (_ & _ & _ & P4 & _). auto.
  Qed.

  (* C10_no_partial_read: without crashes the check under the lock and the caller's final read never even
     see a file that is being written: a partially written result exists only while its writer holds the lock *)
  Theorem no_partial_read pre tr s p :
    clean_trace tr = true -> run (init pre) tr = Some s ->
    (pc (procs s p) = Locked -> is_writing (resf (gl s)) = false) /\
    (pc (procs s p) = RelHit \/ pc (procs s p) = Post2 -> load_result (gl s) = Some ok /\ is_writing (resf (gl s)) = false \/
                                                          exists h, h <> p /\ lock (gl s) = Some h /\ writing (pc (procs s h)) = true).
  Proof.
    intros C R. destruct (clean_reachable _ _ _ C R) as [(LI & _ & (V & PV & PK)) (R0 & R1 & R2 & R3 & R5 & R6)].
    destruct LI as (I1 & _). split.
    - intros E. destruct (is_writing (resf (gl s))) eqn:W; [|reflexivity].
      destruct (R6 eq_refl) as (h & Lh & Wh).
      assert (Hp : holds (pc (procs s p)) = true) by (rewrite E; reflexivity).
      pose proof (I1 p (R0 p) Hp). assert (h = p) by congruence. subst h. rewrite E in Wh. discriminate.
    - intros E. destruct (is_writing (resf (gl s))) eqn:W.
      + right. destruct (R6 eq_refl) as (h & Lh & Wh). exists h. split; [|auto].
        intros ->. destruct E as [E|E]; rewrite E in Wh; discriminate.
      + left. split; [|reflexivity]. destruct (PK p (R0 p)) as (_ & _ & _ & P4 & _). apply P4.
        destruct E as [E|E]; rewrite E; reflexivity.
  Qed.
End C10.
