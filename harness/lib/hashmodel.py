"""Shared by the C06/C07/C08 drivers: Python values <-> the value trees of coq/Model/Hash.v,
and a recorder for the (byte string -> digest) pairs pydra feeds to blake2b.

A value tree is JSON: ["VInt", 5], ["VStr", "<hex of utf-8>"], ["VList", id, [children]],
["VDict", id, [[k, v], ...]], ["VObj", id, "module.Class", kind, [[name, v], ...]], ["VRef", id], ...
`build(tree)` makes the Python object (same id -> same object, VRef -> the enclosing object: a cycle);
`to_model(obj)` reads a live Python object back into a tree exactly as pydra's hashing will see it
(set iteration order, dict insertion order, the attribute dict bytes_repr builds, id()-aliasing);
`term(tree)` prints the Gallina literal.
"""
import ast
import hashlib
import inspect
import os
import re
import struct
import types
from pathlib import PurePath, PurePosixPath, PosixPath

import attrs

from . import coqio

try:
    import numpy as np
except ImportError:  # pragma: no cover
    np = None


# ------------------------------------------------------------------ blake2b recorder
class Recorder:
    """with Recorder() as rec: ...   rec.table == [(preimage, digest), ...] in completion order."""

    def __init__(self):
        self.table = []
        self.params = set()

    def __enter__(self):
        import pydra.utils.hash as ph
        self._ph = ph
        self._orig = ph.blake2b
        rec = self

        class RecB2:
            def __init__(self, data=b"", **kw):
                self._h = hashlib.blake2b(data, **kw)
                self._buf = bytearray(data)
                rec.params.add(tuple(sorted((k, bytes(v) if isinstance(v, (bytes, bytearray)) else v)
                                            for k, v in kw.items())))

            def update(self, b):
                self._h.update(b)
                self._buf += b

            def digest(self):
                d = self._h.digest()
                rec.table.append((bytes(self._buf), d))
                return d

            def hexdigest(self):
                return self.digest().hex()

        ph.blake2b = RecB2
        return self

    def __exit__(self, *a):
        self._ph.blake2b = self._orig

    def dedup(self):
        seen, out = set(), []
        for p, d in self.table:
            if p not in seen:
                seen.add(p)
                out.append((p, d))
        return out


def real_blake2b(pre):
    return hashlib.blake2b(pre, digest_size=16, person=b"pydra-hash").digest()


# ------------------------------------------------------------------ classes used for generated objects
_CLASSES = {}


def plain_class(name):
    key = ("plain", name)
    if key not in _CLASSES:
        _CLASSES[key] = type(name, (), {"__module__": "vmod", "meth": lambda self: 1})
    return _CLASSES[key]


def slots_class(name, names):
    key = ("slots", name, tuple(names))
    if key not in _CLASSES:
        _CLASSES[key] = type(name, (), {"__module__": "vmod", "__slots__": tuple(names)})
    return _CLASSES[key]


def attrs_class(name, names):
    """attrs class; attributes whose name starts with 'ne_' are eq=False (dropped by bytes_repr)."""
    key = ("attrs", name, tuple(names))
    if key not in _CLASSES:
        cls = attrs.make_class(name, {n: attrs.field(default=None, eq=not n.startswith("ne_")) for n in names},
                               eq=False)
        cls.__module__ = "vmod"
        _CLASSES[key] = cls
    return _CLASSES[key]


# ------------------------------------------------------------------ tree -> Python object
def build(tree, env=None):
    """Python object for a value tree. env: id -> object (shared between calls to alias across values)."""
    env = {} if env is None else env
    t = tree[0]
    if t == "VNone":
        return None
    if t == "VBool":
        return bool(tree[1])
    if t == "VInt":
        return int(tree[1])
    if t == "VFloat":
        return struct.unpack("<d", bytes.fromhex(tree[1]))[0]
    if t == "VStr":
        return bytes.fromhex(tree[1]).decode("utf-8")
    if t == "VBytes":
        return bytes.fromhex(tree[1])
    if t == "VPath":
        cls = {"pathlib.PurePosixPath": PurePosixPath, "pathlib.PosixPath": PosixPath}[tree[1]]
        return cls(bytes.fromhex(tree[2]).decode("utf-8"))
    i = tree[1]
    if t == "VRef":
        return env[i]
    if i in env:
        return env[i]
    if t == "VList":
        o = env[i] = []
        o.extend(build(c, env) for c in tree[2])
        return o
    if t == "VTuple":
        o = tuple(build(c, env) for c in tree[2])
    elif t == "VSet":
        o = set(build(c, env) for c in tree[2])
    elif t == "VFrozenset":
        o = frozenset(build(c, env) for c in tree[2])
    elif t == "VDict":
        o = env[i] = {}
        for k, v in tree[2]:
            o[build(k, env)] = build(v, env)
        return o
    elif t == "VObj":
        name = tree[2].split(".")[-1]
        kind = tree[3]
        names = [n for n, _ in tree[4]]
        if kind == "plain":
            o = env[i] = plain_class(name)()
            for n, v in tree[4]:
                setattr(o, n, build(v, env))
            return o
        if kind == "slots":
            o = env[i] = slots_class(name, names)()
            for n, v in tree[4]:
                setattr(o, n, build(v, env))
            return o
        hidden = tree[5] if len(tree) > 5 else []
        cls = attrs_class(name, names + [n for n, _ in hidden])
        o = env[i] = cls()
        for n, v in list(tree[4]) + list(hidden):
            setattr(o, n, build(v, env))
        return o
    elif t == "VNd":
        data = bytes.fromhex(tree[5])
        arr = np.frombuffer(data, dtype=np.dtype(tree[3])).copy()
        if tree[2] == "numpyndarray":
            o = with_layout(arr.reshape(tuple(tree[4])), tree[6] if len(tree) > 6 else "C")
        else:
            o = arr[0]
    else:
        raise ValueError("cannot build %r" % (t,))
    env[i] = o
    return o


def with_layout(a, layout):
    """the same logical array (values, shape, dtype) held in another memory layout:
    C, F (Fortran order), T (transpose of a C array), S (strided view of a wider buffer), ST (strided and
    transposed: neither C- nor F-contiguous, comes back C-contiguous from a pickle), N (negative stride)"""
    if layout == "C" or a.ndim == 0 or a.size == 0:
        return a
    if layout == "F":
        return np.asfortranarray(a)
    if layout == "T":
        return np.ascontiguousarray(a.T).T
    if layout == "S":
        big = np.zeros(a.shape[:-1] + (a.shape[-1] * 2,), dtype=a.dtype)
        big[..., ::2] = a
        return big[..., ::2]
    if layout == "ST":
        b = a.T
        big = np.zeros(b.shape[:-1] + (b.shape[-1] * 2,), dtype=a.dtype)
        big[..., ::2] = b
        return big[..., ::2].T
    if layout == "N":
        return np.ascontiguousarray(a[::-1])[::-1]
    raise ValueError(layout)


LAYOUTS = ["C", "F", "T", "S", "ST", "N"]


# ------------------------------------------------------------------ Python object -> tree
class Unsupported(Exception):
    pass


def qualname(cls):
    return "%s.%s" % (cls.__module__, cls.__name__)


def obj_dict(obj):
    """The attribute dict pydra's default bytes_repr builds (mirror of the three branches)."""
    if attrs.has(type(obj)):
        return "attrs", attrs.asdict(obj, recurse=False, filter=lambda a, _: bool(a.eq))
    if hasattr(obj, "__slots__") and obj.__slots__ is not None:
        return "slots", {a: getattr(obj, a) for a in obj.__slots__}

    def special(n):
        return (n.startswith("__") and n.endswith("__")) or inspect.ismethod(getattr(obj, n))
    return "plain", {n: v for n, v in obj.__dict__.items() if not special(n)}


def func_chunks(obj):
    """The chunks bytes_repr_function yields between b'function:(' and b')' (source available)."""
    from pydra.utils.general import in_stdlib
    if in_stdlib(obj):
        return [("%s.%s" % (obj.__module__, obj.__name__)).encode()]
    src = inspect.getsource(obj)
    indent = re.match(r"(\s*)", src).group(1)
    if indent:
        src = re.sub("^" + indent, "", src, flags=re.MULTILINE)
    node = ast.parse(src).body[0]
    if hasattr(node, "args"):
        for a in node.args.args + node.args.kwonlyargs:
            a.annotation = None
        if node.args.vararg:
            node.args.vararg.annotation = None
        if node.args.kwarg:
            node.args.kwarg.annotation = None

    def dump(n):
        return ast.dump(n, annotate_fields=False, include_attributes=False).encode()
    out = []
    if hasattr(node, "args"):
        out.append(dump(node.args))
    if hasattr(node, "body"):
        out += [dump(s) for s in node.body]
    return out


def func_hidden(obj):
    """closure cells and referenced module globals with plain values (what the function also depends on)."""
    out = []
    if obj.__closure__:
        for n, c in zip(obj.__code__.co_freevars, obj.__closure__):
            try:
                out.append(("closure:" + n, c.cell_contents))
            except ValueError:
                pass
    for n in obj.__code__.co_names:
        if n in obj.__globals__ and isinstance(obj.__globals__[n], (int, float, str, bytes, bool, tuple)):
            out.append(("global:" + n, obj.__globals__[n]))
    try:                      # decorators: part of the source, not of the hashed args / body
        src = inspect.getsource(obj)
        indent = re.match(r"(\s*)", src).group(1)
        if indent:
            src = re.sub("^" + indent, "", src, flags=re.MULTILINE)
        node = ast.parse(src).body[0]
        for i, d in enumerate(getattr(node, "decorator_list", [])):
            out.append(("decorator:%d" % i, ast.dump(d, annotate_fields=False, include_attributes=False)))
    except (OSError, SyntaxError, IndexError):
        pass
    return out


class Conv:
    """to_model with one id numbering shared by all values converted through the same instance."""

    def __init__(self, opaque_pre=None):
        self.ids = {}
        self.keep = []          # keep every object alive so id() stays unique
        self.opaque_pre = opaque_pre   # callable obj -> preimage bytes (for types)

    def nid(self, obj):
        k = id(obj)
        if k not in self.ids:
            self.ids[k] = len(self.ids) + 1
            self.keep.append(obj)
        return self.ids[k]

    def to_model(self, obj, stack=()):
        if obj is None:
            return ["VNone"]
        if isinstance(obj, bool):
            return ["VBool", obj]
        if type(obj) is int:
            return ["VInt", obj]
        if type(obj) is float:
            return ["VFloat", struct.pack("<d", obj).hex()]
        if type(obj) is str:
            return ["VStr", obj.encode("utf-8").hex()]
        if type(obj) is bytes:
            return ["VBytes", obj.hex()]
        if isinstance(obj, PurePath):
            return ["VPath", qualname(type(obj)), os.fspath(obj).encode("utf-8").hex()]
        if isinstance(obj, (int, float, str, bytes)) and not (np is not None and isinstance(obj, np.generic)):
            raise Unsupported("subclass of a builtin scalar")
        if id(obj) in stack:
            return ["VRef", self.nid(obj)]
        i = self.nid(obj)
        st = stack + (id(obj),)
        rec = lambda x: self.to_model(x, st)  # noqa: E731
        if type(obj) is list:
            return ["VList", i, [rec(x) for x in obj]]
        if type(obj) is tuple:
            return ["VTuple", i, [rec(x) for x in obj]]
        if type(obj) is set:
            return ["VSet", i, [rec(x) for x in obj]]
        if type(obj) is frozenset:
            return ["VFrozenset", i, [rec(x) for x in obj]]
        if type(obj) is dict:
            return ["VDict", i, [[rec(k), rec(v)] for k, v in obj.items()]]
        if isinstance(obj, (list, tuple, set, frozenset, dict)):
            raise Unsupported("subclass of a builtin container")
        if np is not None and isinstance(obj, (np.ndarray, np.generic)):
            if obj.dtype == "object":
                raise Unsupported("object array")
            cls = obj.__class__.__module__ + obj.__class__.__name__
            return ["VNd", i, cls, str(obj.dtype), list(obj.shape), obj.tobytes(order="C").hex()]
        if isinstance(obj, types.FunctionType):
            try:
                chunks = func_chunks(obj)
            except (OSError, SyntaxError):
                raise Unsupported("function without source")
            return ["VFunc", i, [c.hex() for c in chunks], [[n, rec(v)] for n, v in func_hidden(obj)]]
        if isinstance(obj, type) or type(obj).__module__ == "typing":
            if self.opaque_pre is None:
                raise Unsupported("type")
            return ["VOpaque", i, self.opaque_pre(obj).hex()]
        if hasattr(obj, "__bytes_repr__") or isinstance(obj, (types.ModuleType, types.CodeType, slice, range, complex)):
            raise Unsupported(type(obj).__name__)
        kind, dct = obj_dict(obj)
        for n in dct:
            if not isinstance(n, str):
                raise Unsupported("non-str attribute name")
        return ["VObj", i, qualname(type(obj)), kind, [[n, rec(v)] for n, v in dct.items()]]


def to_model(obj, conv=None):
    return (conv or Conv()).to_model(obj)


# ------------------------------------------------------------------ tree -> Gallina
def bstr(b):
    """Coq string for bytes: a plain literal when printable, (hx "<hex>") otherwise (cheap to type-check)"""
    b = bytes(b)
    if len(b) > 512:
        r = _rle(b)
        if r is not None:
            return r
    if all(32 <= c <= 126 for c in b):
        return coqio.string(b)
    return '(hx "%s")' % b.hex()


def _rle(b, w=8):
    """run-length form of a long, mostly constant byte string: (hx ".." ++ rpN 9999 (hx "..") ++ ...)%string"""
    runs = []
    for i in range(0, len(b), w):
        x = b[i:i + w]
        if runs and runs[-1][0] == x and len(x) == w:
            runs[-1][1] += 1
        else:
            runs.append([x, 1])
    if len(runs) > 200:
        return None
    parts, lit = [], b""
    for x, n in runs:
        if n < 4:
            lit += x * n
        else:
            if lit:
                parts.append('hx "%s"' % lit.hex())
                lit = b""
            parts.append('rpN %d%%N (hx "%s")' % (n, x.hex()))
    if lit:
        parts.append('hx "%s"' % lit.hex())
    return "(" + " ++ ".join(parts) + ")%string"


def _hs(h):
    return bstr(bytes.fromhex(h))


def term(t):
    k = t[0]
    if k == "VNone":
        return "VNone"
    if k == "VBool":
        return "(VBool %s)" % coqio.boolean(t[1])
    if k == "VInt":
        return "(VInt %s)" % coqio.z(t[1])
    if k in ("VFloat", "VStr", "VBytes"):
        return "(%s %s)" % (k, _hs(t[1]))
    if k == "VPath":
        return "(VPath %s %s)" % (coqio.string(t[1]), _hs(t[2]))
    if k in ("VList", "VTuple", "VSet", "VFrozenset"):
        return "(%s %d %s)" % (k, t[1], coqio.lst([term(c) for c in t[2]]))
    if k == "VDict":
        return "(VDict %d %s)" % (t[1], coqio.lst([coqio.pair(term(a), term(b)) for a, b in t[2]]))
    if k == "VObj":
        return "(VObj %d %s %s)" % (t[1], coqio.string(t[2]),
                                    coqio.lst([coqio.pair(coqio.string(n), term(v)) for n, v in t[4]]))
    if k == "VNd":
        return "(VNd %d %s %s %s %s)" % (t[1], coqio.string(t[2]), coqio.string(t[3]),
                                         coqio.lst(["%d" % n for n in t[4]]), _hs(t[5]))
    if k == "VFunc":
        return "(VFunc %d %s %s)" % (t[1], coqio.lst([_hs(c) for c in t[2]]),
                                     coqio.lst([coqio.pair(coqio.string(n), term(v)) for n, v in t[3]]))
    if k == "VOpaque":
        return "(VOpaque %d %s)" % (t[1], _hs(t[2]))
    if k == "VRef":
        return "(VRef %d)" % t[1]
    raise ValueError(k)


def table_term(table):
    return coqio.lst([coqio.pair(bstr(p), bstr(d)) for p, d in table])


def opt_digest(d):
    """observed digest (bytes) or None (TypeError raised) -> option string"""
    return coqio.option(None if d is None else bstr(d))


def size(t):
    k = t[0]
    if k in ("VList", "VTuple", "VSet", "VFrozenset"):
        return 1 + sum(size(c) for c in t[2])
    if k == "VDict":
        return 1 + sum(size(a) + size(b) for a, b in t[2])
    if k == "VObj":
        return 1 + sum(size(v) for _, v in t[4])
    return 1


def depth(t):
    k = t[0]
    if k in ("VList", "VTuple", "VSet", "VFrozenset"):
        return 1 + max([depth(c) for c in t[2]] or [0])
    if k == "VDict":
        return 1 + max([max(depth(a), depth(b)) for a, b in t[2]] or [0])
    if k == "VObj":
        return 1 + max([depth(v) for _, v in t[4]] or [0])
    return 1


def kinds(t, acc=None):
    acc = {} if acc is None else acc
    acc[t[0]] = acc.get(t[0], 0) + 1
    k = t[0]
    if k in ("VList", "VTuple", "VSet", "VFrozenset"):
        for c in t[2]:
            kinds(c, acc)
    elif k == "VDict":
        for a, b in t[2]:
            kinds(a, acc)
            kinds(b, acc)
    elif k == "VObj":
        for _, v in t[4]:
            kinds(v, acc)
    return acc
