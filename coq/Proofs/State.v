(* Proofs/State.v — the RPN stack machine of State.splits computes the reference expansion (C01). *)
From Pydra Require Import Base.Prelude Model.State Spec.State.

(* ---------------------------------------------------------------- induction principle for nested lists *)
Section SplInd.
  Variable P : spl -> Prop.
  Hypothesis HF : forall f, P (Fld f).
  Hypothesis HO : forall l, Forall P l -> P (Outer l).
  Hypothesis HI : forall l, Forall P l -> P (Inner l).
  Fixpoint spl_ind' (s : spl) : P s :=
    match s with
    | Fld f => HF f
    | Outer l => HO l ((fix go (l : list spl) : Forall P l :=
                          match l with [] => Forall_nil _ | x :: r => Forall_cons _ (spl_ind' x) (go r) end) l)
    | Inner l => HI l ((fix go (l : list spl) : Forall P l :=
                          match l with [] => Forall_nil _ | x :: r => Forall_cons _ (spl_ind' x) (go r) end) l)
    end.
End SplInd.

(* ---------------------------------------------------------------- index tuples of a list of assignments *)
Definition ixs (a : list assignment) : list idx := map (map snd) a.

Lemma ixs_cart a b : ixs (cart a b) = pyprod (ixs a) (ixs b).
Proof.
  unfold ixs, cart, pyprod. induction a as [|x a IH]; cbn [flat_map map]; [reflexivity|].
  rewrite map_app, IH. f_equal. rewrite !map_map. apply map_ext. intros y. apply map_app.
Qed.

Lemma ixs_pairup a b : ixs (pairup a b) = pyzip (ixs a) (ixs b).
Proof.
  unfold ixs. revert b; induction a as [|x a IH]; intros [|y b]; cbn [pairup pyzip map]; try reflexivity.
  rewrite map_app, IH. reflexivity.
Qed.

Lemma shape_eqb_eq a b : shape_eqb a b = true <-> a = b.
Proof. apply list_eqb_spec. intros x y. apply Nat.eqb_eq. Qed.
Lemma shape_eqb_refl a : shape_eqb a a = true.
Proof. apply shape_eqb_eq. reflexivity. Qed.

(* ---------------------------------------------------------------- n-ary products as left folds *)
Definition ostep (d d' : option denot) : option denot :=
  match d, d' with
  | Some (a, sa), Some (b, sb) => Some (cart a b, sa ++ sb)
  | _, _ => None
  end.
Definition istep (d d' : option denot) : option denot :=
  match d, d' with
  | Some (a, sa), Some (b, sb) => if shape_eqb sa sb then Some (pairup a b, sa) else None
  | _, _ => None
  end.

Lemma outer_all_cons2 d d' r : outer_all (d :: d' :: r) = ostep d (outer_all (d' :: r)).
Proof. reflexivity. Qed.
Lemma inner_all_cons2 d d' r : inner_all (d :: d' :: r) = istep d (inner_all (d' :: r)).
Proof. reflexivity. Qed.

Lemma cart_assoc (a b c : list assignment) : cart (cart a b) c = cart a (cart b c).
Proof.
  unfold cart. induction a as [|x a IH]; cbn [flat_map]; [reflexivity|].
  rewrite flat_map_app, IH. f_equal.
  clear IH. induction b as [|y b IHb]; cbn [flat_map map]; [reflexivity|].
  rewrite map_app, <- IHb. f_equal. rewrite !map_map. apply map_ext. intros z. symmetry. apply app_assoc.
Qed.

Lemma pairup_assoc (a b c : list assignment) : pairup (pairup a b) c = pairup a (pairup b c).
Proof.
  revert b c; induction a as [|x a IH]; intros [|y b] [|z c]; cbn [pairup]; try reflexivity.
  rewrite IH, app_assoc. reflexivity.
Qed.

Lemma ostep_assoc d1 d2 d3 : ostep (ostep d1 d2) d3 = ostep d1 (ostep d2 d3).
Proof.
  destruct d1 as [[a sa]|], d2 as [[b sb]|], d3 as [[c sc]|]; cbn [ostep]; try reflexivity.
  rewrite cart_assoc, app_assoc. reflexivity.
Qed.

Lemma istep_assoc d1 d2 d3 : istep (istep d1 d2) d3 = istep d1 (istep d2 d3).
Proof.
  destruct d1 as [[a sa]|], d2 as [[b sb]|], d3 as [[c sc]|]; cbn [istep]; try reflexivity.
  - destruct (shape_eqb sa sb) eqn:E1, (shape_eqb sb sc) eqn:E2; cbn [istep].
    + apply shape_eqb_eq in E1, E2. subst. rewrite shape_eqb_refl, pairup_assoc. reflexivity.
    + apply shape_eqb_eq in E1. subst. rewrite E2. reflexivity.
    + rewrite E1. reflexivity.
    + reflexivity.
  - destruct (shape_eqb sa sb); reflexivity.
Qed.

Lemma fold_outer r : forall d, fold_left ostep r d = outer_all (d :: r).
Proof.
  assert (A : forall r d d', outer_all (ostep d d' :: r) = ostep d (outer_all (d' :: r))).
  { induction r0 as [|d'' r0 IH]; intros d d'; [reflexivity|].
    rewrite !outer_all_cons2. apply ostep_assoc. }
  induction r as [|d' r IH]; intros d; cbn [fold_left]; [reflexivity|].
  rewrite IH, A. reflexivity.
Qed.

Lemma fold_inner r : forall d, fold_left istep r d = inner_all (d :: r).
Proof.
  assert (A : forall r d d', inner_all (istep d d' :: r) = istep d (inner_all (d' :: r))).
  { induction r0 as [|d'' r0 IH]; intros d d'; [reflexivity|].
    rewrite !inner_all_cons2. apply istep_assoc. }
  induction r as [|d' r IH]; intros d; cbn [fold_left]; [reflexivity|].
  rewrite IH, A. reflexivity.
Qed.

Lemma fold_ostep_none r : fold_left ostep r None = None.
Proof. induction r; cbn; auto. Qed.
Lemma fold_istep_none r : fold_left istep r None = None.
Proof. induction r; cbn; auto. Qed.

(* ---------------------------------------------------------------- compile correctness *)
(* H and the goal are both a match on (convertible spellings of) the same option: destruct it in both *)
Ltac sync H :=
  match type of H with
  | match ?X with _ => _ end =>
      match goal with
      | |- match ?Y with _ => _ end => change Y with X; revert H; destruct X as [[? ?]|]; intros H
      end
  end.

Section Compile.
  Variable e : env.

  (* x is a stack entry standing for the denotation (a, sh) of a sub-splitter with leaf sequence lv *)
  Definition stands (x : sel) (a : list assignment) (sh : shape) (lv : list nat) : Prop :=
    force e x = (ixs a, sh, lv).

  (* after running the code of a sub-splitter: either an evaluated triple was pushed and `keys` holds its
     keys, or (single field, possibly wrapped in one-element lists) its bare name was pushed *)
  Definition pushed (p : list tok) (x : sel) (lv keys keys' : list nat) : Prop :=
    (exists v sh, x = SVal v sh lv /\ keys' = lv) \/ (exists f, x = SName f /\ p = [TF f] /\ keys' = keys).

  Definition runs_to (s : spl) (p : list tok) : Prop :=
    forall st keys,
      match expand e s with
      | Some (a, sh) => exists x keys', stands x a sh (leaves s) /\ pushed p x (leaves s) keys keys' /\
                          forall k, run e (p ++ k) st keys = run e k (x :: st) keys'
      | None => forall k, run e (p ++ k) st keys = Err EShape
      end.

  Lemma rpn_nonempty s : wfb s = true -> rpn s <> [].
  Proof.
    induction s as [f|l IH|l IH] using spl_ind'; cbn [wfb rpn]; intros W.
    - discriminate.
    - destruct l as [|x r]; [discriminate|]. cbn [forallb] in W. apply andb_true_iff in W as [Wx _].
      inversion IH as [|? ? Hx _]; subst. intros E. apply app_eq_nil in E as [E _]. exact (Hx Wx E).
    - destruct l as [|x r]; [discriminate|]. cbn [forallb] in W. apply andb_true_iff in W as [Wx _].
      inversion IH as [|? ? Hx _]; subst. intros E. apply app_eq_nil in E as [E _]. exact (Hx Wx E).
  Qed.

  (* the tail of an n-ary list: the accumulated left operand x0 (denotation d0) is combined with every
     further element by the sign *)
  Lemma tail_runs (sign : tok) (dot : bool) (step : option denot -> option denot -> option denot)
        (Hsign : tok_eqb sign TDot = dot) (Hnf : forall f, sign <> TF f)
        (Hstep : step = if dot then istep else ostep) :
    forall r, Forall (fun y => wfb y = true -> runs_to y (rpn y)) r -> forallb wfb r = true ->
    forall x0 a0 sh0 lv0 st keys,
      stands x0 a0 sh0 lv0 ->
      match fold_left step (map (expand e) r) (Some (a0, sh0)) with
      | Some (a, sh) =>
          exists x keys', stands x a sh (lv0 ++ flat_map leaves r) /\
            ((r = [] /\ x = x0 /\ keys' = keys) \/
             (r <> [] /\ exists v sh', x = SVal v sh' (lv0 ++ flat_map leaves r) /\ keys' = lv0 ++ flat_map leaves r)) /\
            forall k, run e (flat_map (fun y => rpn y ++ [sign]) r ++ k) (x0 :: st) keys = run e k (x :: st) keys'
      | None => forall k, run e (flat_map (fun y => rpn y ++ [sign]) r ++ k) (x0 :: st) keys = Err EShape
      end.
  Proof.
    induction r as [|y r IH]; intros HF W x0 a0 sh0 lv0 st keys Hx0.
    - cbn [map fold_left flat_map]. exists x0, keys. rewrite app_nil_r. split; [exact Hx0|]. split; [left; auto|].
      reflexivity.
    - cbn [forallb] in W. apply andb_true_iff in W as [Wy Wr].
      apply Forall_cons_iff in HF as [Hy HF']. specialize (Hy Wy (x0 :: st) keys).
      cbn [map fold_left flat_map].
      destruct (expand e y) as [[b sb]|] eqn:Ey.
      + destruct Hy as (xy & keysy & Hxy & _ & Hrun).
        (* the operator applied to x0 and xy *)
        assert (Hbin : binop e dot x0 xy =
                       if dot then (if shape_eqb sh0 sb then Ok (pyzip (ixs a0) (ixs b), sb, lv0 ++ leaves y) else Err EShape)
                       else Ok (pyprod (ixs a0) (ixs b), sh0 ++ sb, lv0 ++ leaves y)).
        { unfold binop. unfold stands in Hx0, Hxy. rewrite Hx0, Hxy. reflexivity. }
        assert (Hop : forall k, run e ((rpn y ++ [sign]) ++ k) (x0 :: st) keys =
                                match binop e dot x0 xy with
                                | Ok (v, sh, ks) => run e k (SVal v sh ks :: st) ks
                                | Err x => Err x
                                end).
        { intros k. rewrite <- app_assoc. rewrite Hrun. cbn [app run].
          destruct sign as [f| |]; [exfalso; eapply Hnf; reflexivity| |]; rewrite Hsign; reflexivity. }
        destruct dot; simpl in Hstep; subst step.
        * cbn [istep]. rewrite Hbin in Hop.
          destruct (shape_eqb sh0 sb) eqn:Esh.
          -- apply shape_eqb_eq in Esh. subst sb.
             specialize (IH HF' Wr (SVal (pyzip (ixs a0) (ixs b)) sh0 (lv0 ++ leaves y)) (pairup a0 b) sh0
                            (lv0 ++ leaves y) st (lv0 ++ leaves y)).
             assert (Hst : stands (SVal (pyzip (ixs a0) (ixs b)) sh0 (lv0 ++ leaves y)) (pairup a0 b) sh0 (lv0 ++ leaves y)).
             { unfold stands. cbn [force]. rewrite ixs_pairup. reflexivity. }
             specialize (IH Hst). sync IH.
             ++ destruct IH as (x & keys' & Hx & Hp & Hr). exists x, keys'.
                rewrite <- app_assoc in Hx. split; [exact Hx|]. split.
                ** right. split; [discriminate|]. rewrite <- !app_assoc in Hp.
                   destruct Hp as [(-> & -> & ->)|(_ & Hp)].
                   --- cbn [flat_map]. rewrite app_nil_r. eauto.
                   --- exact Hp.
                ** intros k. rewrite <- app_assoc, Hop. apply Hr.
             ++ intros k. rewrite <- app_assoc, Hop. apply IH.
          -- rewrite fold_istep_none. intros k. rewrite <- app_assoc, Hop. reflexivity.
        * cbn [ostep]. rewrite Hbin in Hop.
          specialize (IH HF' Wr (SVal (pyprod (ixs a0) (ixs b)) (sh0 ++ sb) (lv0 ++ leaves y)) (cart a0 b) (sh0 ++ sb)
                         (lv0 ++ leaves y) st (lv0 ++ leaves y)).
          assert (Hst : stands (SVal (pyprod (ixs a0) (ixs b)) (sh0 ++ sb) (lv0 ++ leaves y)) (cart a0 b) (sh0 ++ sb) (lv0 ++ leaves y)).
          { unfold stands. cbn [force]. rewrite ixs_cart. reflexivity. }
          specialize (IH Hst). sync IH.
          ++ destruct IH as (x & keys' & Hx & Hp & Hr). exists x, keys'.
             rewrite <- app_assoc in Hx. split; [exact Hx|]. split.
             ** right. split; [discriminate|]. rewrite <- !app_assoc in Hp.
                destruct Hp as [(-> & -> & ->)|(_ & Hp)].
                --- cbn [flat_map]. rewrite app_nil_r. eauto.
                --- exact Hp.
             ** intros k. rewrite <- app_assoc, Hop. apply Hr.
          ++ intros k. rewrite <- app_assoc, Hop. apply IH.
      + assert (Hn : fold_left step (map (expand e) r) (step (Some (a0, sh0)) None) = None).
        { destruct dot; simpl in Hstep; subst step; cbn [istep ostep]; [apply fold_istep_none|apply fold_ostep_none]. }
        rewrite Hn. intros k. rewrite <- !app_assoc. apply Hy.
  Qed.

  Lemma list_runs (sign : tok) (dot : bool) (all : list (option denot) -> option denot)
        (step : option denot -> option denot -> option denot)
        (Hsign : tok_eqb sign TDot = dot) (Hnf : forall f, sign <> TF f)
        (Hstep : step = if dot then istep else ostep)
        (Hall : forall d r, fold_left step r d = all (d :: r)) :
    forall x r, Forall (fun y => wfb y = true -> runs_to y (rpn y)) (x :: r) -> forallb wfb (x :: r) = true ->
    forall st keys,
      match all (map (expand e) (x :: r)) with
      | Some (a, sh) => exists x' keys', stands x' a sh (flat_map leaves (x :: r)) /\
                          pushed (rpn x ++ flat_map (fun y => rpn y ++ [sign]) r) x' (flat_map leaves (x :: r)) keys keys' /\
                          forall k, run e ((rpn x ++ flat_map (fun y => rpn y ++ [sign]) r) ++ k) st keys = run e k (x' :: st) keys'
      | None => forall k, run e ((rpn x ++ flat_map (fun y => rpn y ++ [sign]) r) ++ k) st keys = Err EShape
      end.
  Proof.
    intros x r HF W st keys. cbn [forallb] in W. apply andb_true_iff in W as [Wx Wr].
    apply Forall_cons_iff in HF as [Hx HF']. specialize (Hx Wx st keys).
    cbn [map flat_map]. rewrite <- Hall.
    destruct (expand e x) as [[a0 sh0]|] eqn:Ex.
    - destruct Hx as (x0 & keys0 & Hx0 & Hp0 & Hrun0).
      pose proof (tail_runs sign dot step Hsign Hnf Hstep r HF' Wr x0 a0 sh0 (leaves x) st keys0 Hx0) as T.
      sync T.
      + destruct T as (x' & keys' & Hx' & Hp' & Hr'). exists x', keys'. split; [exact Hx'|]. split.
        * destruct Hp' as [(-> & -> & ->)|(_ & v & sh' & -> & ->)].
          -- cbn [flat_map]. rewrite !app_nil_r. exact Hp0.
          -- left. eauto.
        * intros k. rewrite <- app_assoc, Hrun0. apply Hr'.
      + intros k. rewrite <- app_assoc, Hrun0. apply T.
    - assert (Hn : fold_left step (map (expand e) r) None = None).
      { destruct dot; simpl in Hstep; subst step; [apply fold_istep_none|apply fold_ostep_none]. }
      rewrite Hn. intros k. rewrite <- app_assoc. apply Hx.
  Qed.

  Lemma run_rpn s : wfb s = true -> runs_to s (rpn s).
  Proof.
    induction s as [f|l IH|l IH] using spl_ind'; intros W.
    - intros st keys. cbn [expand rpn]. exists (SName f), keys. split; [|split].
      + unfold stands, leafd, ixs, irange. cbn [force fst snd leaves]. rewrite map_map. reflexivity.
      + right. exists f. auto.
      + reflexivity.
    - cbn [wfb] in W. destruct l as [|x r]; [discriminate|].
      intros st keys. cbn [expand rpn leaves].
      apply (list_runs TMul false outer_all ostep eq_refl ltac:(discriminate) eq_refl (fun d r => fold_outer r d) x r IH W st keys).
    - cbn [wfb] in W. destruct l as [|x r]; [discriminate|].
      intros st keys. cbn [expand rpn leaves].
      apply (list_runs TDot true inner_all istep eq_refl ltac:(discriminate) eq_refl (fun d r => fold_inner r d) x r IH W st keys).
  Qed.
End Compile.

(* ---------------------------------------------------------------- what every job of the reference expansion looks like *)
Section Good.
  Variable e : env.

  Definition good (lv : list nat) (x : assignment) : Prop := map fst x = lv /\ in_range e x = true.

  Lemma in_range_app x y : in_range e (x ++ y) = in_range e x && in_range e y.
  Proof. unfold in_range. apply forallb_app. Qed.

  Lemma good_cart la lb a b : Forall (good la) a -> Forall (good lb) b -> Forall (good (la ++ lb)) (cart a b).
  Proof.
    intros Ha Hb. apply Forall_forall. intros z Hz. unfold cart in Hz.
    apply in_flat_map in Hz as (x & Hx & Hz). apply in_map_iff in Hz as (y & <- & Hy).
    rewrite Forall_forall in Ha, Hb. destruct (Ha x Hx) as [A1 A2], (Hb y Hy) as [B1 B2].
    split; [rewrite map_app, A1, B1; reflexivity| rewrite in_range_app, A2, B2; reflexivity].
  Qed.

  Lemma good_pairup la lb a : forall b, Forall (good la) a -> Forall (good lb) b -> Forall (good (la ++ lb)) (pairup a b).
  Proof.
    induction a as [|x a IH]; intros [|y b] Ha Hb; cbn [pairup]; try constructor.
    - inversion Ha as [|? ? [A1 A2] Ha']; inversion Hb as [|? ? [B1 B2] Hb']; subst.
      split; [rewrite map_app; reflexivity| rewrite in_range_app, A2, B2; reflexivity].
    - inversion Ha; inversion Hb; subst. apply IH; assumption.
  Qed.

  Lemma good_all (all : list (option denot) -> option denot) (step : option denot -> option denot -> option denot)
        (Hall2 : forall d d' r, all (d :: d' :: r) = step d (all (d' :: r))) (Hall1 : forall d, all [d] = d)
        (Hstep : forall la lb a sa b sb c sc, step (Some (a, sa)) (Some (b, sb)) = Some (c, sc) ->
                   Forall (good la) a -> Forall (good lb) b -> Forall (good (la ++ lb)) c)
        (Hnone : forall d d' c, step d d' = Some c -> exists a b, d = Some a /\ d' = Some b) :
    forall l, Forall (fun s => forall a sh, expand e s = Some (a, sh) -> Forall (good (leaves s)) a) l ->
    forall a sh, all (map (expand e) l) = Some (a, sh) -> l <> [] -> Forall (good (flat_map leaves l)) a.
  Proof.
    induction l as [|x [|y r] IH]; intros HF a sh E Hne; [congruence| |].
    - cbn [map] in E. rewrite Hall1 in E. cbn [flat_map]. rewrite app_nil_r.
      inversion HF as [|? ? Hx _]; subst. eapply Hx; eauto.
    - cbn [map] in E. rewrite Hall2 in E. destruct (Hnone _ _ _ E) as ([a1 s1] & [a2 s2] & E1 & E2).
      rewrite E1, E2 in E. cbn [flat_map]. inversion HF as [|? ? Hx HF']; subst.
      eapply Hstep; [exact E| eapply Hx; eauto |].
      change (leaves y ++ flat_map leaves r) with (flat_map leaves (y :: r)).
      eapply IH; [exact HF'| exact E2 | discriminate].
  Qed.

  Lemma expand_good s : forall a sh, expand e s = Some (a, sh) -> Forall (good (leaves s)) a.
  Proof.
    induction s as [f|l IH|l IH] using spl_ind'; intros a sh E; cbn [expand leaves] in *.
    - unfold leafd in E. inversion E; subst. apply Forall_forall. intros x Hx.
      apply in_map_iff in Hx as (i & <- & Hi). apply in_seq in Hi. split; [reflexivity|].
      unfold in_range. cbn [forallb fst snd]. rewrite andb_true_r. apply Nat.ltb_lt. lia.
    - destruct l as [|x r]; [discriminate|].
      eapply (good_all outer_all ostep); try eassumption; try discriminate; try reflexivity.
      + intros la lb a1 s1 b1 s2 c sc H Ha Hb. cbn [ostep] in H. inversion H; subst. apply good_cart; assumption.
      + intros [[? ?]|] [[? ?]|] c H; cbn [ostep] in H; try discriminate. eauto.
    - destruct l as [|x r]; [discriminate|].
      eapply (good_all inner_all istep); try eassumption; try discriminate; try reflexivity.
      + intros la lb a1 s1 b1 s2 c sc H Ha Hb. cbn [istep] in H. destruct (shape_eqb s1 s2); [|discriminate].
        inversion H; subst. apply good_pairup; assumption.
      + intros [[? ?]|] [[? ?]|] c H; cbn [istep] in H; try discriminate. eauto.
  Qed.

  Lemma combine_ixs lv a : Forall (fun x => map fst x = lv) a -> map (combine lv) (ixs a) = a.
  Proof.
    unfold ixs. intros H. rewrite map_map. rewrite <- (map_id a) at 2. apply map_ext_in. intros x Hx.
    rewrite Forall_forall in H. rewrite <- (H x Hx). clear. induction x as [|[k v] x IH]; cbn; [reflexivity| now rewrite IH].
  Qed.

  Lemma splits_general p : (forall f, p <> [TF f]) ->
    splits e p = match run e p [] [] with
                 | Ok (SVal v _ _ :: _, keys) => Ok (v, keys)
                 | Ok (_, _) => Err EStack
                 | Err x => Err x
                 end.
  Proof.
    intros H. unfold splits. destruct p as [|[f| |] [|t p]]; try reflexivity. exfalso. eapply H. reflexivity.
  Qed.

  (* State.splits on the RPN of a well-formed splitter returns the index tuples of the reference expansion and
     the leaf sequence as keys, or the shape error exactly when the reference semantics rejects *)
  Lemma splits_rpn s : wfb s = true ->
    splits e (rpn s) = match expand e s with
                       | Some (a, _) => Ok (ixs a, leaves s)
                       | None => Err EShape
                       end.
  Proof.
    intros W. pose proof (run_rpn e s W [] []) as H.
    destruct (expand e s) as [[a sh]|].
    - destruct H as (x & keys' & Hx & Hp & Hr). specialize (Hr []). rewrite app_nil_r in Hr. cbn [run] in Hr.
      destruct Hp as [(v & sh' & -> & ->)|(f & -> & Ep & ->)].
      + rewrite splits_general.
        * rewrite Hr. unfold stands in Hx. cbn [force] in Hx. inversion Hx; subst. reflexivity.
        * intros f Ef. rewrite Ef in Hr. cbn [run] in Hr. discriminate.
      + rewrite Ep. unfold splits. unfold stands in Hx. cbn [force] in Hx. inversion Hx; subst. reflexivity.
    - specialize (H []). rewrite app_nil_r in H. rewrite splits_general.
      + rewrite H. reflexivity.
      + intros f Ef. rewrite Ef in H. cbn [run] in H. discriminate.
  Qed.

  Theorem prepare_states_spec s : wfb s = true -> prepare_states e s = spec_result e s.
  Proof.
    intros W. unfold prepare_states, spec_result, jobs. rewrite (splits_rpn s W).
    destruct (expand e s) as [[a sh]|] eqn:E; [|reflexivity].
    pose proof (expand_good s a sh E) as G. unfold states_ind.
    rewrite combine_ixs by (eapply Forall_impl; [|exact G]; intros x [Hx _]; exact Hx).
    assert (R : forallb (in_range e) a = true).
    { apply forallb_forall. intros x Hx. rewrite Forall_forall in G. apply (G x Hx). }
    rewrite R. reflexivity.
  Qed.
End Good.

(* ---------------------------------------------------------------- consequences stated by the property *)
Lemma nprod_app a b : nprod (a ++ b) = nprod a * nprod b.
Proof. unfold nprod. induction a as [|x a IH]; cbn [app fold_right]; [lia| rewrite IH; lia]. Qed.

Lemma lprod_length {A} (a b : list (list A)) :
  List.length (flat_map (fun x => map (fun y => x ++ y) b) a) = List.length a * List.length b.
Proof.
  induction a as [|x a IH]; cbn [flat_map List.length]; [reflexivity|].
  rewrite app_length, map_length, IH. reflexivity.
Qed.
Lemma cart_length (a b : list assignment) : List.length (cart a b) = List.length a * List.length b.
Proof. exact (lprod_length a b). Qed.
Lemma pairup_length (a : list assignment) : forall b, List.length (pairup a b) = Nat.min (List.length a) (List.length b).
Proof. induction a as [|x a IH]; intros [|y b]; cbn [pairup List.length Nat.min]; auto. Qed.

(* the number of jobs is the product of the shape *)
Lemma expand_count e s : forall a sh, expand e s = Some (a, sh) -> List.length a = nprod sh.
Proof.
  induction s as [f|l IH|l IH] using spl_ind'; intros a sh E; cbn [expand] in E.
  - unfold leafd in E. inversion E; subst. rewrite map_length, seq_length. reflexivity.
  - revert a sh E. induction l as [|x [|y r] IHl]; intros a sh E; [discriminate| |].
    + cbn in E. inversion IH; subst; eauto.
    + cbn [map] in E. rewrite outer_all_cons2 in E. change (expand e y :: map (expand e) r) with (map (expand e) (y :: r)) in E. inversion IH as [|? ? Hx IH']; subst.
      destruct (expand e x) as [[a1 s1]|]; [|discriminate].
      destruct (outer_all (map (expand e) (y :: r))) as [[a2 s2]|] eqn:E2; cbn [ostep] in E; [|discriminate].
      inversion E; subst. rewrite cart_length, nprod_app, (Hx _ _ eq_refl), (IHl IH' _ _ eq_refl). reflexivity.
  - revert a sh E. induction l as [|x [|y r] IHl]; intros a sh E; [discriminate| |].
    + cbn in E. inversion IH; subst; eauto.
    + cbn [map] in E. rewrite inner_all_cons2 in E. change (expand e y :: map (expand e) r) with (map (expand e) (y :: r)) in E. inversion IH as [|? ? Hx IH']; subst.
      destruct (expand e x) as [[a1 s1]|]; [|discriminate].
      destruct (inner_all (map (expand e) (y :: r))) as [[a2 s2]|] eqn:E2; cbn [istep] in E; [|discriminate].
      destruct (shape_eqb s1 s2) eqn:Es; [|discriminate]. apply shape_eqb_eq in Es. subst s2.
      inversion E; subst. rewrite pairup_length, (Hx _ _ eq_refl), (IHl IH' _ _ eq_refl). apply Nat.min_id.
  Qed.

(* members and order of the two products, in words: every pair occurs, the left operand varies slowest;
   the inner product pairs by position *)
Lemma lprod_nth {A} (a b : list (list A)) i j :
  i < List.length a -> j < List.length b ->
  nth (i * List.length b + j) (flat_map (fun x => map (fun y => x ++ y) b) a) [] = nth i a [] ++ nth j b [].
Proof.
  revert i. induction a as [|x a IH]; intros i Hi Hj; cbn [List.length] in Hi; [lia|].
  cbn [flat_map]. destruct i as [|i].
  - cbn [Nat.mul Nat.add nth]. rewrite app_nth1 by (rewrite map_length; exact Hj).
    rewrite (nth_indep _ [] (x ++ [])) by (rewrite map_length; exact Hj).
    apply (map_nth (fun y => x ++ y)).
  - rewrite app_nth2 by (rewrite map_length; cbn [Nat.mul]; lia).
    rewrite map_length. replace (S i * List.length b + j - List.length b) with (i * List.length b + j) by (cbn [Nat.mul]; lia).
    cbn [nth]. apply IH; lia.
Qed.
Lemma cart_nth (a b : list assignment) i j :
  i < List.length a -> j < List.length b -> nth (i * List.length b + j) (cart a b) [] = nth i a [] ++ nth j b [].
Proof. exact (lprod_nth a b i j). Qed.

Lemma pairup_nth (a : list assignment) : forall b i,
  i < List.length a -> i < List.length b -> nth i (pairup a b) [] = nth i a [] ++ nth i b [].
Proof.
  induction a as [|x a IH]; intros [|y b] i Ha Hb; cbn [List.length] in *; try lia.
  destruct i as [|i]; cbn [pairup nth]; [reflexivity| apply IH; lia].
Qed.

(* any operand of zero List.length makes the whole expansion empty *)
Lemma expand_empty e s f : In f (leaves s) -> nprod (e f) = 0 -> forall a sh, expand e s = Some (a, sh) -> a = [].
Proof.
  intros Hin Hz a sh E. pose proof (expand_count e s a sh E) as C.
  assert (Z : nprod sh = 0); [|destruct a; [reflexivity| cbn [List.length] in C; lia]].
  clear C. revert a sh E Hin.
  induction s as [g|l IH|l IH] using spl_ind'; intros a sh E Hin; cbn [expand leaves] in *.
  - destruct Hin as [->|[]]. unfold leafd in E. inversion E; subst. exact Hz.
  - revert a sh E Hin. induction l as [|x [|y r] IHl]; intros a sh E Hin; [discriminate| |].
    + cbn in E, Hin. rewrite app_nil_r in Hin. inversion IH; subst; eauto.
    + cbn [map] in E. rewrite outer_all_cons2 in E. change (expand e y :: map (expand e) r) with (map (expand e) (y :: r)) in E. inversion IH as [|? ? Hx IH']; subst.
      destruct (expand e x) as [[a1 s1]|] eqn:E1; [|discriminate].
      destruct (outer_all (map (expand e) (y :: r))) as [[a2 s2]|] eqn:E2; cbn [ostep] in E; [|discriminate].
      inversion E; subst. rewrite nprod_app.
      cbn [flat_map] in Hin. apply in_app_or in Hin as [Hin|Hin].
      * rewrite (Hx _ _ eq_refl Hin). reflexivity.
      * rewrite (IHl IH' _ _ eq_refl Hin). lia.
  - revert a sh E Hin. induction l as [|x [|y r] IHl]; intros a sh E Hin; [discriminate| |].
    + cbn in E, Hin. rewrite app_nil_r in Hin. inversion IH; subst; eauto.
    + cbn [map] in E. rewrite inner_all_cons2 in E. change (expand e y :: map (expand e) r) with (map (expand e) (y :: r)) in E. inversion IH as [|? ? Hx IH']; subst.
      destruct (expand e x) as [[a1 s1]|] eqn:E1; [|discriminate].
      destruct (inner_all (map (expand e) (y :: r))) as [[a2 s2]|] eqn:E2; cbn [istep] in E; [|discriminate].
      destruct (shape_eqb s1 s2) eqn:Es; [|discriminate]. apply shape_eqb_eq in Es. subst s2.
      inversion E; subst.
      cbn [flat_map] in Hin. apply in_app_or in Hin as [Hin|Hin].
      * apply (Hx _ _ eq_refl Hin).
      * apply (IHl IH' _ _ eq_refl Hin).
Qed.
