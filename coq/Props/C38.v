(* C38 — Mount lookup compares whole path components. *)
From Pydra Require Import Base.Prelude Base.PyPath Model.Mount Spec.Mount Proofs.Mount.

Definition C38_full_statement : Prop :=
  forall (matches : table) (path : string),
    is_mount_of (parse_table matches) path (find (matches_entry path) (parse_table matches)).

Theorem C38_full : C38_full_statement.
Proof. exact get_mount_longest_component_prefix. Qed.
Print Assumptions C38_full.

Theorem C38_sibling_never_confused :
  forall (t : table) (path : string) (e : entry),
    find (matches_entry path) t = Some e -> comp_prefix (fst e) path.
Proof. exact sibling_never_confused. Qed.
Print Assumptions C38_sibling_never_confused.

Theorem C38_table_longest_first : forall matches, len_desc (parse_table matches).
Proof. exact parse_table_sorted. Qed.
Print Assumptions C38_table_longest_first.
