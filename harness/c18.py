"""C18 — every submission terminates (graph.py sorting, node.py late lazy connections, workflow.py
graph construction, submitter.py loops).

Generated workflows (2-5 nodes, typed and untyped, forward connections plus late
`node.inputs.<field> = other.out` assignments that may close a cycle or a self loop, optionally one
failing job) are each submitted through a real Submitter (debug = synchronous loop, cf = asynchronous
loop) in a fresh interpreter under a CPU-time watchdog (a hang in these loops is a busy loop) with a
wall-clock backstop.  Coq evaluates the model on the same graphs:
  * tie  : Model.Graph (construction ops, sorted_nodes, run_sync) predicts the kind of ending
           (outputs / cycle exception / failing job) and, for the synchronous loop, the exact order
           in which the jobs ran;
  * spec : the submission ended (no hang); a cyclic graph did not produce outputs; an acyclic graph
           that pydra accepted produced the reference value.
"""
import concurrent.futures
import json
import os
import shutil
import subprocess
import sys
import tempfile
import time

from .lib import coqio
from .lib.runner import Outcome, Failure

PROP = "C18"
PROPS_FILE = "Props/C18.v"
MANIFEST = dict(
    text="Theorems (Coq, closed under the global context) about the repaired code (F18: a sorting pass that sorts "
         "nothing raises): C18_cycle_is_error — DiGraph.sorting, from any object state, stops within |notsorted| passes "
         "with a valid order or an exception; C18_sort_terminates_acyclic / C18_built_acyclic_sorts — the exception is "
         "raised for cycles only (a consistent graph with acyclic edges, in particular any graph built like "
         "Workflow._create_graph builds it, is sorted); C18_async_loop_terminates — expand_workflow_async stops within "
         "2|nodes|+2 iterations for every completion order, failure pattern, max_concurrent>=1 and ANY graph (a stuck "
         "state ends in the stall detector's error); C18_sync_loop_terminates — expand_workflow stops because the "
         "scanned list is a valid topological order (C37); C18_full combines them. On builder D2's FULL scheduler model "
         "(Model/Sched.v: several jobs per node, failing jobs, max_concurrent, futured, jobs seen running, stall "
         "detector) C18_async_loop_terminates_full / C18_sync_loop_terminates_full: for every graph in topological order, "
         "every set of failing jobs, every max_concurrent>=1 and EVERY oracle the asynchronous loop ends Finished or "
         "Stalled within |jobs|+2 iterations and the sequential loop ends Finished or Raised within |jobs|+1. Partial: "
         "both models assume that a completed future's result (or error) is visible to the next poll; a launched job "
         "whose future ends with neither (worker process died) is outside the models and covered by the correspondence "
         "run only (finding F18b). Correspondence: "
         "generated workflows incl. back-edges through Node.Inputs.__setattr__, typed and untyped, run on the real "
         "Submitter in fresh interpreters under a watchdog and compared with the model's prediction.",
    note="Trusted: Coq kernel + vm_compute; hand-written model of sorting and of the two submitter loops (node level, "
         "honest completion); correspondence is differential testing.",
    technique="Coq proof (fuel bound by a decreasing measure; pigeonhole for progress on acyclic graphs) + watchdog runs "
              "of generated cyclic/acyclic workflows against the model's prediction",
    design="§8 Group D / C18",
)
TIE_NAME = "Model.Graph construction ops + sorted_nodes + run_sync vs Workflow._create_graph / DiGraph.sorting / Submitter.expand_workflow"
TRUSTED = [
    "Model/Graph.v (DiGraph part): as for C37",
    "Model/Graph.v (GraphSched part): hand-written node-level model of Submitter.get_runnable_tasks, "
    "NodeExecution.get_runnable_tasks, expand_workflow, expand_workflow_async incl. the 10-poll stall detector and "
    "max_concurrent; modelled, not verified: one job per node (no splitting), running and queued jobs merged, "
    "FIRST_COMPLETED wakes up with exactly one completed future, a completed future's result is visible to the next poll",
    "the typed-connection check of Node.Inputs.__setattr__ (_check_if_outputs_have_been_used) is predicted by the "
    "harness, not modelled in Coq",
]
ASSUMPTIONS = ["an honest worker: every launched job ends and its result (or error) is visible to the submitter",
               "max_concurrent >= 1 (enforced by Submitter.__init__)"]
RULE = ("generated workflow programs: 2-5 python-task nodes, typed (int) or untyped, each input a constant, the workflow "
        "input or an earlier node's output, 0-2 late `node.inputs.f = other.out` assignments to any node (self, earlier, "
        "later), optionally one failing node; plus wide programs: a node split over 3-6 elements and combined, with max_concurrent below / at / above the width or unlimited, on both workers; on cf optionally one node whose worker process dies (os._exit), worker debug or cf; distinct = distinct program JSON; non-trivial = the "
        "program has a late assignment or >= 2 connections")

IMPORTS = ["Model.Graph", "Spec.Graph"]

CHILD = r'''
import json, os, sys, tempfile, shutil, resource
spec = json.load(open(sys.argv[1]))
resource.setrlimit(resource.RLIMIT_CPU, (spec["cpu_limit"], spec["cpu_limit"] + 2))
from pydra.compose import python, workflow
from pydra.engine.submitter import Submitter
LOG = spec["log"]
if spec.get("typed"):
    @python.define
    def Add(a: int, b: int, tag: str, boom: bool, die: bool) -> int:
        with open(LOG, "a") as f:
            f.write(tag + "\n")
        if die:
            os._exit(1)
        if boom:
            raise ValueError("boom in " + tag)
        return a + b
else:
    @python.define
    def Add(a, b, tag, boom, die):
        with open(LOG, "a") as f:
            f.write(tag + "\n")
        if die:
            os._exit(1)
        if boom:
            raise ValueError("boom in " + tag)
        return a + b

@workflow.define
def Wf(x):
    outs = {}
    def val(src):
        if src[0] == "const":
            return src[1]
        if src[0] == "input":
            return x
        return outs[src[1]].out
    for nd in spec.get("nodes", []):
        outs[nd["name"]] = workflow.add(
            Add(a=val(nd["a"]), b=val(nd["b"]), tag=nd["name"], boom=nd.get("boom", False),
                die=nd.get("die", False)), name=nd["name"])
    for la in spec.get("late", []):
        setattr(outs[la["node"]].inputs, la["field"], outs[la["src"]].out)
    return outs[spec["out"]].out

@python.define
def Inc(a: int, b: int = 1) -> int:
    with open(LOG, "a") as f:
        f.write("inc\n")
    return a + b

@python.define
def Sum(xs: list[int]) -> int:
    with open(LOG, "a") as f:
        f.write("sum\n")
    return sum(xs)

@workflow.define
def Wide(xs: list[int]) -> int:
    inc = workflow.add(Inc().split(a=xs).combine("a"), name="inc")
    total = workflow.add(Sum(xs=inc.out), name="total")
    return total.out

def main():
    d = tempfile.mkdtemp(prefix="c18_", dir=spec["tmp"])
    try:
        kw = {"n_procs": 2} if spec["worker"] == "cf" else {}
        if spec.get("kind") == "wide":
            if spec["k"] is not None:
                kw["max_concurrent"] = spec["k"]
            with Submitter(worker=spec["worker"], cache_root=d, **kw) as sub:
                r = sub(Wide(xs=spec["xs"]), raise_errors=True)
        else:
            with Submitter(worker=spec["worker"], cache_root=d, **kw) as sub:
                r = sub(Wf(x=1), raise_errors=True)
        res = {"outcome": "ok", "out": r.outputs.out}
    except BaseException as e:
        res = {"outcome": "error", "etype": type(e).__name__, "msg": str(e)[:400].replace("\n", " ")}
    finally:
        shutil.rmtree(d, ignore_errors=True)
    try:
        res["ran"] = [l.strip() for l in open(LOG)]
    except OSError:
        res["ran"] = []
    print("C18RESULT " + json.dumps(res))

if __name__ == "__main__":
    main()
'''


# ------------------------------------------------------------------ programs
def gen_program(rng):
    n = rng.choice([2, 2, 3, 3, 4, 5])
    names = ["n%d" % i for i in range(n)]
    nodes = []
    for i in range(n):
        def src():
            r = rng.random()
            if i > 0 and r < 0.6:
                return ["node", names[rng.randrange(i)]]
            if r < 0.8:
                return ["input"]
            return ["const", rng.randrange(1, 6)]
        nodes.append({"name": names[i], "a": src(), "b": src(), "boom": False})
    late = []
    for _ in range(rng.choice([0, 1, 1, 1, 2])):
        tgt = rng.randrange(n)
        # half of the late assignments take an earlier node's output (no cycle), the others any node
        src = rng.randrange(tgt) if (tgt > 0 and rng.random() < 0.5) else rng.randrange(n)
        late.append({"node": names[tgt], "field": rng.choice(["a", "b"]), "src": names[src]})
    if rng.random() < 0.25:
        rng.choice(nodes)["boom"] = True
    worker = rng.choice(["debug", "debug", "cf"])
    if worker == "cf" and rng.random() < 0.25:
        # the worker process running this job dies (segfault / OOM kill); only on the process pool:
        # on the debug worker the body runs in the submitting interpreter itself
        rng.choice(nodes)["die"] = True
    return {"typed": rng.random() < 0.4, "worker": worker, "nodes": nodes, "late": late, "out": names[-1]}


def gen_wide(rng, quick):
    """A node split over n elements (all n jobs ready at once) + a consumer, with max_concurrent below, at and
    above n (None = the default float('inf')), on both workers.  In the quick tier the six combinations are
    deterministic apart from n, so every seed covers `k < n` on the debug and on the cf worker."""
    out = []
    for worker in ("debug", "cf"):
        n = rng.choice([3, 4, 5, 6])
        ks = [rng.choice([1, 2]), n, rng.choice([n + 1, None])]
        if not quick:
            ks += [k for k in range(1, n) if k not in ks]
        for k in ks:
            out.append({"kind": "wide", "worker": worker, "xs": list(range(1, n + 1)), "k": k})
    return out


EXTRA_WIDE = """
(* case: width n of the split node, max_concurrent, synchronous loop?, observed class
   (0 outputs, 1 stall-detector error, 2 other error, 3 hang), number of job bodies that ran *)
Definition wcase := (nat * option nat * bool * nat * nat)%type.
Definition wgraph (n : nat) : graph := [mkNode 0 [] n; mkNode 1 [0] 1].
Definition model_finishes (n : nat) (k : option nat) (sync : bool) : bool :=
  let g := wgraph n in
  let fuel := List.length (all_jobs g) + 2 in
  if sync
  then let r := run_sync unit (fun _ _ _ => tt) (fun _ => false) repaired g k fuel in
       (status_code (o_status r) =? 0) && (List.length (launches r) =? n + 1)
  else let r := run_async unit (fun _ _ _ => tt) (fun _ => false) repaired g k [] fuel in
       (status_code (o_status r) =? 0) && (List.length (launches r) =? n + 1).
(* the full scheduler model says the loop finishes having run every job once; so did the implementation *)
Definition wtie_ok (c : wcase) : bool :=
  let '(n, k, sync, obs, bodies) := c in
  model_finishes n k sync && (obs =? 0) && (bodies =? n + 1).
(* a healthy workflow ends with its outputs: neither a hang nor the stall detector's error *)
Definition wspec_ok (c : wcase) : bool := let '(n, k, sync, obs, bodies) := c in obs =? 0.
"""


def wide_class(res):
    if res is None:
        return 3
    if res["outcome"] == "ok":
        return 0
    return 1 if "Something has gone wrong" in res.get("msg", "") or "Not able to get any more tasks" in res.get("msg", "") else 2


def analyse(p):
    """Reference reading of a program: final connections, pydra's typed-connection rejection, reference value."""
    idx = {nd["name"]: i for i, nd in enumerate(p["nodes"])}
    fields = {nd["name"]: {"a": nd["a"], "b": nd["b"]} for nd in p["nodes"]}
    used = set()                                   # outputs already connected to a typed input
    if p["typed"]:
        for nd in p["nodes"]:
            for f in ("a", "b"):
                if nd[f][0] == "node":
                    used.add(nd[f][1])
    construct_error = False
    for la in p["late"]:
        fields[la["node"]][la["field"]] = ["node", la["src"]]
        if p["typed"]:
            used.add(la["src"])                     # the assignment itself type-checks the source's output
            if la["node"] in used:                  # _check_if_outputs_have_been_used(target)
                construct_error = True
                break
    edges = []                                      # Workflow._create_graph: node order, field order a, b; no duplicates
    for nd in p["nodes"]:
        for f in ("a", "b"):
            s = fields[nd["name"]][f]
            if s[0] == "node":
                e = [idx[s[1]], idx[nd["name"]]]
                if e not in edges:
                    edges.append(e)
    fails = [idx[nd["name"]] for nd in p["nodes"] if nd.get("boom") or nd.get("die")]
    # reference value by memoised evaluation (None when cyclic or failing)
    memo, stack = {}, set()

    def ev(name):
        if name in memo:
            return memo[name]
        if name in stack:
            raise RecursionError
        stack.add(name)
        vals = []
        for f in ("a", "b"):
            s = fields[name][f]
            vals.append(1 if s[0] == "input" else s[1] if s[0] == "const" else ev(s[1]))
        stack.discard(name)
        memo[name] = vals[0] + vals[1]
        return memo[name]
    try:
        value = ev(p["out"])
    except RecursionError:
        value = None
    return {"n": len(p["nodes"]), "edges": edges, "fails": fails, "construct_error": construct_error, "value": value}


def kind_of(res):
    if res is None:
        return "KHang"
    if res["outcome"] == "ok":
        return "KOk"
    msg = res.get("msg", "")
    if "cannot be sorted" in msg:
        return "KCycle"
    if "have already been accessed and therefore cannot set" in msg:
        return "KConstruct"
    if "boom in" in msg or "failed with errors" in msg or "process pool" in msg:
        return "KJob"
    return "KOther"


def run_child(script, p, tmp, i, cpu_limit, wall):
    spec = dict(p)
    spec.update({"tmp": tmp, "log": os.path.join(tmp, "log%d.txt" % i), "cpu_limit": cpu_limit})
    sp = os.path.join(tmp, "spec%d.json" % i)
    with open(sp, "w") as f:
        json.dump(spec, f)
    env = dict(os.environ)
    env.update({"PYTHONPATH": os.environ.get("VERIF_REPO", "/repo"), "PYTHONHASHSEED": "0", "NO_ET": "1",
                "PYTHONDONTWRITEBYTECODE": "1"})
    t0 = time.time()
    try:
        pr = subprocess.run(["/venv/bin/python", script, sp], stdout=subprocess.PIPE, stderr=subprocess.STDOUT,
                            text=True, env=env, timeout=wall, cwd=tmp)
        out = pr.stdout
        rc = pr.returncode
    except subprocess.TimeoutExpired as e:
        out, rc = (e.stdout or b"").decode("utf-8", "replace") if isinstance(e.stdout, bytes) else (e.stdout or ""), -9
    dt = time.time() - t0
    for line in out.splitlines():
        if line.startswith("C18RESULT "):
            return json.loads(line[len("C18RESULT "):]), dt, rc
    return None, dt, rc           # killed by the CPU limit / wall clock, or died without a verdict


EXTRA = """
Inductive okind := KOk | KCycle | KConstruct | KJob | KOther | KHang.
Definition okind_eqb (a b : okind) : bool :=
  match a, b with KOk, KOk | KCycle, KCycle | KConstruct, KConstruct | KJob, KJob | KOther, KOther | KHang, KHang => true | _, _ => false end.
Definition build_ops (n : nat) (es : list edge) : list op :=
  map (fun i => AddNodes [i]) (seq 0 n) ++ map (fun e => AddEdges [e]) es.
(* what the model says happens: kind of ending, jobs in the order the synchronous loop runs them,
   and whether the asynchronous loop (one arbitrary oracle) agrees on the kind *)
Definition predict (n : nat) (es : list edge) (fails : list node) : okind * list node * bool :=
  match run_build_from_empty (build_ops n es) with
  | None => (KOther, [], false)
  | Some g =>
      match step g GetSorted with
      | Err ECycle => (KCycle, [], true)
      | Err _ => (KOther, [], false)
      | Ok g' =>
          let s := match g_sorted g' with Some s => s | None => [] end in
          let a := run_async (2 * List.length s + 2) (g_preds g') s 2 (fun i => (i, false)) in
          match run_sync (2 * List.length s + 1) (g_preds g') s (fun x => memb x fails) with
          | Finished ran _ => (KOk, ran, match a with Finished ran' _ => Nat.eqb (List.length ran') (List.length s) | _ => false end)
          | JobError ran => (KJob, ran, true)
          | _ => (KOther, [], false)
          end
      end
  end.
(* case: n, edges, failing nodes, pydra rejected the late typed connection?, synchronous?, observed kind, observed run order *)
Definition case_t := (nat * list edge * list node * bool * bool * okind * list node)%type.
Definition same_members (l m : list node) : bool := forallb (fun x => memb x m) l && forallb (fun x => memb x l) m.
Definition tie_ok (c : case_t) : bool :=
  let '(n, es, fails, construct, sync, obs, ran) := c in
  if construct then okind_eqb obs KConstruct else
  let '(k, mran, async_ok) := predict n es fails in
  okind_eqb k obs && async_ok &&
  match k with
  | KOk => if sync then list_eqb Nat.eqb mran ran else same_members mran ran
  | KJob => if sync then list_eqb Nat.eqb mran ran else true
  | _ => match ran with [] => true | _ => false end
  end.
Definition spec_ok (c : case_t) : bool :=
  let '(n, es, fails, construct, sync, obs, ran) := c in
  let cyclic := negb (acyclicb (seq 0 n) es) in
  negb (okind_eqb obs KHang) &&
  (if cyclic then negb (okind_eqb obs KOk) else true) &&
  (if negb cyclic && negb construct && match fails with [] => true | _ => false end then okind_eqb obs KOk else true) &&
  (if negb cyclic && negb construct && negb (match fails with [] => true | _ => false end) then okind_eqb obs KJob else true).
"""


def enc_case(a, p, kind, ran_idx):
    return coqio.pair(coqio.nat(a["n"]),
                      coqio.lst([coqio.pair(coqio.nat(x), coqio.nat(y)) for x, y in a["edges"]]),
                      coqio.lst([coqio.nat(x) for x in a["fails"]]),
                      coqio.boolean(a["construct_error"]), coqio.boolean(p["worker"] == "debug"),
                      kind, coqio.lst([coqio.nat(x) for x in ran_idx]))


def corpus_programs(ctx):
    return [c["program"] for c in ctx.corpus() if "program" in c]


def execute(ctx, programs):
    tmp = tempfile.mkdtemp(prefix="c18_", dir="/tmp")
    script = os.path.join(tmp, "c18_child.py")
    with open(script, "w") as f:
        f.write(CHILD)
    cpu_limit, wall = 60, 420
    try:
        with concurrent.futures.ThreadPoolExecutor(max_workers=4) as ex:
            futs = [ex.submit(run_child, script, p, tmp, i, cpu_limit, wall) for i, p in enumerate(programs)]
            results = [f.result() for f in futs]
    finally:
        shutil.rmtree(tmp, ignore_errors=True)
    return results


def run(ctx):
    rng = ctx.rng
    programs = corpus_programs(ctx)
    n = ctx.budget(16, 100)
    while len(programs) < n:
        programs.append(gen_program(rng))
    t0 = time.time()
    results = execute(ctx, programs)
    t_run = time.time() - t0
    cases, meta = [], []
    dist = {"typed": 0, "untyped": 0, "debug": 0, "cf": 0, "cyclic": 0, "with_late_assignment": 0, "with_failing_job": 0}
    seen, nontriv = set(), 0
    value_bad = []
    for i, (p, (res, dt, rc)) in enumerate(zip(programs, results)):
        a = analyse(p)
        kind = kind_of(res)
        idx = {nd["name"]: j for j, nd in enumerate(p["nodes"])}
        ran = [idx[t] for t in (res or {}).get("ran", []) if t in idx]
        cases.append(enc_case(a, p, kind, ran))
        meta.append({"program": p, "analysis": a, "result": res, "kind": kind, "seconds": round(dt, 1), "rc": rc})
        dist["typed" if p["typed"] else "untyped"] += 1
        dist[p["worker"]] += 1
        dist["cyclic"] += a["value"] is None
        dist["with_late_assignment"] += bool(p["late"])
        dist["with_failing_job"] += bool(a["fails"])
        dist["with_dying_worker_process"] = dist.get("with_dying_worker_process", 0) + any(nd.get("die") for nd in p["nodes"])
        dist["end_" + kind] = dist.get("end_" + kind, 0) + 1
        key = json.dumps(p, sort_keys=True)
        if key not in seen:
            seen.add(key)
            nontriv += bool(p["late"]) or len(a["edges"]) >= 2
        if kind == "KOk" and a["value"] is not None and res["out"] != a["value"]:
            value_bad.append(i)
    res = coqio.run_cases(ctx.scratch, "c18", IMPORTS, "case_t", cases, {"tie": "tie_ok", "spec": "spec_ok"}, extra=EXTRA)
    # ---- second family: wide split nodes under max_concurrent (full scheduler model, Model/Sched.v)
    wide = [c["wide"] for c in ctx.corpus() if "wide" in c] + gen_wide(rng, ctx.tier == "quick")
    t0 = time.time()
    wres = execute(ctx, wide)
    t_wide = time.time() - t0
    wcases, wmeta = [], []
    for p, (r, dt, rc) in zip(wide, wres):
        n = len(p["xs"])
        cls = wide_class(r)
        bodies = len((r or {}).get("ran", []))
        value_ok = cls != 0 or r["out"] == sum(p["xs"]) + n
        wcases.append(coqio.pair(coqio.nat(n), coqio.option(None if p["k"] is None else coqio.nat(p["k"])),
                                 coqio.boolean(p["worker"] == "debug"), coqio.nat(cls), coqio.nat(bodies)))
        wmeta.append({"program": p, "result": r, "class": ["outputs", "stall-detector error", "other error", "hang"][cls],
                      "bodies": bodies, "seconds": round(dt, 1), "rc": rc, "value_ok": value_ok})
        key = "wide_k_%s_n" % ("unlimited" if p["k"] is None else "below" if p["k"] < n else "at" if p["k"] == n else "above")
        dist[key + "_" + p["worker"]] = dist.get(key + "_" + p["worker"], 0) + 1
    wr = coqio.run_cases(ctx.scratch, "c18w", ["Base.SchedBase", "Model.Sched", "Spec.Sched"], "wcase", wcases,
                         {"tie": "wtie_ok", "spec": "wspec_ok"}, extra=EXTRA_WIDE)
    nontriv += sum(1 for p in wide if p["k"] is not None and p["k"] < len(p["xs"]))
    out = Outcome(evaluations=len(programs) + len(wide), distinct_nontrivial=nontriv, rule=RULE,
                  samples=[{"program": m["program"], "ending": m["kind"], "ran": (m["result"] or {}).get("ran")} for m in meta[:3]],
                  distribution=dist, traces_validated=len(programs) + len(wide),
                  extra={"seconds_running_workflows": round(t_run, 1), "seconds_running_wide_workflows": round(t_wide, 1),
                         "slowest_run_s": max([m["seconds"] for m in meta] or [0]),
                         "watchdog": "RLIMIT_CPU 60 s per interpreter + 420 s wall clock"})
    for i in sorted(set(res["spec"]) | set(value_bad)):
        m = meta[i]
        out.failures.append(Failure(case={"program": m["program"]}, observed={"ending": m["kind"], "result": m["result"], "rc": m["rc"], "seconds": m["seconds"]},
                                    expected={"reference": m["analysis"]}, kind="spec",
                                    finding=("F18b" if m["kind"] == "KHang" and any(nd.get("die") for nd in m["program"]["nodes"]) else None),
                                    note="hang" if m["kind"] == "KHang" else
                                         ("wrong output value" if i in value_bad else "ending does not fit the graph")))
    for i in sorted(set(wr["spec"]) | {j for j, m in enumerate(wmeta) if not m["value_ok"]}):
        m = wmeta[i]
        out.failures.append(Failure(case={"wide": m["program"]}, observed={k: m[k] for k in ("class", "bodies", "result", "rc", "seconds")},
                                    expected={"outputs": sum(m["program"]["xs"]) + len(m["program"]["xs"]), "bodies": len(m["program"]["xs"]) + 1},
                                    kind="spec", note="hang" if m["class"] == "hang" else
                                    "healthy workflow under max_concurrent did not end with its outputs"))
    for i in wr["tie"]:
        if i in wr["spec"]:
            continue
        m = wmeta[i]
        out.failures.append(Failure(case={"wide": m["program"]}, observed={k: m[k] for k in ("class", "bodies")},
                                    expected="Model.Sched: Finished with every job launched once", kind="tie",
                                    note="model/implementation (full scheduler model)"))
    for i in res["tie"]:
        m = meta[i]
        try:
            exp = coqio.eval_terms(ctx.scratch, "p%d" % i, IMPORTS, ["predict %s %s %s" % (
                coqio.nat(m["analysis"]["n"]),
                coqio.lst([coqio.pair(coqio.nat(x), coqio.nat(y)) for x, y in m["analysis"]["edges"]]),
                coqio.lst([coqio.nat(x) for x in m["analysis"]["fails"]]))], extra=EXTRA)[0]
        except Exception as e:  # noqa: BLE001
            exp = "unavailable: %s" % e
        out.failures.append(Failure(case={"program": m["program"]}, observed={"ending": m["kind"], "result": m["result"]},
                                    expected={"model (kind, sync run order, async agrees)": exp, "analysis": m["analysis"]},
                                    kind="tie", note="model/implementation"))
    return out


def replay(ctx, payload):
    if "wide" in payload["case"]:
        p = payload["case"]["wide"]
        (res, dt, rc), = execute(ctx, [p])
        print("program :", json.dumps(p))
        print("implementation: %s (rc=%s, %.1fs, %d bodies) %s" % (
            ["outputs", "stall-detector error", "other error", "hang"][wide_class(res)], rc, dt,
            len((res or {}).get("ran", [])), json.dumps(res)[:300]))
        print("expected: outputs %d, %d bodies (Model.Sched: Finished)" % (sum(p["xs"]) + len(p["xs"]), len(p["xs"]) + 1))
        return 0 if wide_class(res) == 0 else 1
    p = payload["case"]["program"]
    (res, dt, rc), = execute(ctx, [p])
    a = analyse(p)
    print("program :", json.dumps(p))
    print("analysis:", json.dumps(a))
    print("implementation: %s (rc=%s, %.1fs) %s" % (kind_of(res), rc, dt, json.dumps(res)))
    idx = {nd["name"]: j for j, nd in enumerate(p["nodes"])}
    ran = [idx[t] for t in (res or {}).get("ran", []) if t in idx]
    r = coqio.run_cases(ctx.scratch, "c18r", IMPORTS, "case_t", [enc_case(a, p, kind_of(res), ran)],
                        {"tie": "tie_ok", "spec": "spec_ok"}, extra=EXTRA)
    print("model prediction:", coqio.eval_terms(ctx.scratch, "pr", IMPORTS, ["predict %s %s %s" % (
        coqio.nat(a["n"]), coqio.lst([coqio.pair(coqio.nat(x), coqio.nat(y)) for x, y in a["edges"]]),
        coqio.lst([coqio.nat(x) for x in a["fails"]]))], extra=EXTRA)[0])
    print("tie :", not r["tie"])
    print("spec:", not r["spec"])
    return 0 if not r["spec"] else 1
