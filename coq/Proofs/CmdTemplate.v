(* Proofs/CmdTemplate.v — lemmas for C25. *)
From Pydra Require Import Base.Prelude Model.CmdTemplate Spec.CmdTemplate.
From Coq Require Import Sorting.Sorted Sorting.Permutation.
Local Open Scope string_scope.
Local Open Scope list_scope.

(* ================================================================== inference: every token spells its field *)
Lemma parse_field_spells is_out name ty suf flag pos f :
  parse_field is_out name ty suf flag pos = POk f ->
  f_name f = name /\ f_is_out f = is_out /\
  t_base (f_type f) = written_base ((match flag with Some _ => true | None => false end) && negb is_out) ty /\
  t_optional (f_type f) = (match suf with SOptional => true | _ => false end) /\
  t_multi (f_type f) = (match suf with SPlus | SStar => true | _ => false end) /\
  f_default f = (match suf with SOptional => DNone | SStar => DEmptyList | SDefault d => DLit d | _ => DNoDefault end) /\
  f_template f = (if is_out then Some (match suf with
                                       | STemplate p => p
                                       | _ => (name ++ base_ext (written_base ((match flag with Some _ => true | None => false end) && negb is_out) ty))%string
                                       end) else None) /\
  f_argstr f = (match flag with Some o => o | None => "" end) /\
  f_position f = pos.
Proof.
  unfold parse_field.
  assert (Hb : forall fl, match ty with
                          | Some te => base_of te
                          | None => match fl with
                                    | None => BFmt FFsObject
                                    | Some _ => if is_out then BFmt FFsObject else BPrim PStr
                                    end
                          end = written_base ((match fl : option string with Some _ => true | None => false end) && negb is_out) ty).
  { intros fl. destruct ty as [[[p|f0]|ts|t]|]; try reflexivity. destruct fl, is_out; reflexivity. }
  assert (Hx : forall b n, match b with
                           | BFmt f0 => match fmt_ext f0 with Some e => (n ++ e)%string | None => n end
                           | _ => n
                           end = (n ++ base_ext b)%string).
  { intros b n. assert (n ++ "" = n)%string as E0 by (induction n as [|c n IH]; cbn; [reflexivity|now rewrite IH]).
    destruct b as [p|f0|l|t]; cbn; try (now rewrite E0). destruct (fmt_ext f0); cbn; [reflexivity|now rewrite E0]. }
  intros H. rewrite (Hb flag) in H. rewrite Hx in H.
  destruct suf as [| | | |d|p], is_out; cbn in H; try discriminate;
    try (inversion H; subst f; cbn; repeat split; reflexivity).
  all: destruct (lit_ok _ d); try discriminate; inversion H; subst f; cbn; repeat split; reflexivity.
Qed.

Lemma string_eqb_empty_flag fl : word fl = true -> negb (String.eqb fl "") = true.
Proof. unfold word. intros H. apply andb_true_iff in H. tauto. Qed.

(* the flags the grammar allows ("--?[A-Za-z0-9_-]+") are never empty *)
Definition flags_nonempty (t : token) : Prop :=
  match t with Opt fl _ | Flag fl _ _ => fl <> "" | _ => True end.

Lemma neq_empty_eqb fl : fl <> "" -> String.eqb fl "" = false.
Proof. intros H. destruct (String.eqb fl "") eqn:E; [apply String.eqb_eq in E; contradiction|reflexivity]. Qed.

Lemma parse_token_spells i t f :
  flags_nonempty t -> parse_token t (Z.of_nat (S i)) = POk f -> spells i t f.
Proof.
  intros Hfl H. unfold spells, says_output, says_flag, says_optional, says_repeated, says_base, says_default, says_template.
  destruct t as [n ty suf|n ty suf|fl inner|fl n d]; cbn [parse_token] in H.
  - apply parse_field_spells in H. cbn. cbn in H. tauto.
  - apply parse_field_spells in H. cbn. cbn in H. tauto.
  - cbn in Hfl. destruct inner as [n ty suf|n ty suf|fl2 inner2|fl2 n2 d2]; try discriminate;
      apply parse_field_spells in H; cbn; rewrite ?(neq_empty_eqb fl Hfl); cbn; cbn in H; tauto.
  - inversion H; subst f. cbn. repeat split; reflexivity.
Qed.

Lemma parse_tokens_spells ts : forall i fs,
  Forall flags_nonempty ts ->
  parse_tokens ts (Z.of_nat (S i)) = POk fs ->
  List.length fs = List.length ts /\
  forall k t f, nth_error ts k = Some t -> nth_error fs k = Some f -> spells (i + k) t f.
Proof.
  induction ts as [|t ts IH]; intros i fs Hfl H; cbn [parse_tokens] in H.
  - inversion H; subst. split; [reflexivity|]. intros [|k] t f; discriminate.
  - inversion Hfl as [|? ? Ht Hts]; subst.
    destruct (parse_token t (Z.of_nat (S i))) as [f0|e] eqn:E0; [|discriminate].
    replace (Z.of_nat (S i) + 1)%Z with (Z.of_nat (S (S i))) in H by lia.
    destruct (parse_tokens ts (Z.of_nat (S (S i)))) as [fs'|e] eqn:E1; [|discriminate].
    inversion H; subst fs. destruct (IH (S i) fs' Hts E1) as [Hlen Hk]. split; [cbn; now rewrite Hlen|].
    intros [|k] t' f' Ht' Hf'; cbn in Ht', Hf'.
    + inversion Ht'; inversion Hf'; subst. rewrite Nat.add_0_r. now apply parse_token_spells.
    + replace (i + S k) with (S i + k) by lia. now apply Hk.
Qed.

Theorem inference ts fs :
  Forall flags_nonempty ts -> fields_of_ast ts = POk fs ->
  List.length fs = List.length ts /\
  forall k t f, nth_error ts k = Some t -> nth_error fs k = Some f -> spells k t f.
Proof.
  unfold fields_of_ast. destruct (nodupb (map token_name ts)); [|discriminate].
  intros Hfl H. exact (parse_tokens_spells ts 0 fs Hfl H).
Qed.

(* a well-formed template is never rejected *)
Lemma wf_parse_field is_out ty suf flag name pos :
  wf_field is_out (match flag with Some _ => true | None => false end) ty suf = true ->
  exists f, parse_field is_out name ty suf flag pos = POk f.
Proof.
  intros H. unfold parse_field.
  assert (Hb : match ty with
               | Some te => base_of te
               | None => match flag with
                         | None => BFmt FFsObject
                         | Some _ => if is_out then BFmt FFsObject else BPrim PStr
                         end
               end = written_base ((match flag with Some _ => true | None => false end) && negb is_out) ty).
  { destruct ty as [[[p|f0]|ts|t]|]; try reflexivity. destruct flag, is_out; reflexivity. }
  rewrite Hb. destruct suf as [| | | |d|p], is_out; cbn in H; try discriminate; cbn; try (eexists; reflexivity).
  rewrite H. eexists; reflexivity.
Qed.

Lemma wf_parse_token t pos : wf_token t = true -> exists f, parse_token t pos = POk f.
Proof.
  destruct t as [n ty suf|n ty suf|fl inner|fl n d]; cbn [wf_token parse_token]; intros H.
  - now apply (wf_parse_field false ty suf None).
  - now apply (wf_parse_field true ty suf None).
  - destruct inner as [n ty suf|n ty suf| |]; try discriminate.
    + now apply (wf_parse_field false ty suf (Some fl)).
    + now apply (wf_parse_field true ty suf (Some fl)).
  - eexists; reflexivity.
Qed.

Theorem wf_accepted ts : wf_template ts = true -> exists fs, fields_of_ast ts = POk fs.
Proof.
  unfold wf_template, fields_of_ast. intros H. apply andb_true_iff in H. destruct H as [Hw Hn]. rewrite Hn.
  clear Hn. generalize 1%Z. induction ts as [|t ts IH]; intros pos; cbn [parse_tokens].
  - now exists [].
  - cbn in Hw. apply andb_true_iff in Hw. destruct Hw as [Ht Hts].
    destruct (wf_parse_token t pos Ht) as [f ->]. destruct (IH Hts (pos + 1)%Z) as [fs ->]. now exists (f :: fs).
Qed.

(* ================================================================== position_sort on distinct non-negative positions *)
Section Sort.
Context {A : Type}.
Definition key_lt (a b : Z * A) : Prop := (fst a < fst b)%Z.

Lemma insort_perm (e : Z * A) l : Permutation (insort e l) (e :: l).
Proof.
  induction l as [|x l IH]; cbn; [reflexivity|].
  destruct (Z.ltb (fst e) (fst x)); [reflexivity|].
  rewrite IH. apply perm_swap.
Qed.

Lemma insort_sorted (e : Z * A) l :
  StronglySorted key_lt l -> ~ In (fst e) (map fst l) -> StronglySorted key_lt (insort e l).
Proof.
  induction 1 as [|x l Hs IH Hall]; intros Hn; cbn.
  - constructor; constructor.
  - destruct (Z.ltb_spec (fst e) (fst x)) as [Hlt|Hge].
    + constructor; [constructor; assumption|]. constructor; [exact Hlt|].
      rewrite Forall_forall in *. intros y Hy. specialize (Hall y Hy). unfold key_lt in *. lia.
    + constructor.
      * apply IH. intros Hin. apply Hn. cbn. now right.
      * rewrite Forall_forall in *. intros y Hy.
        apply (Permutation_in _ (insort_perm e l)) in Hy. destruct Hy as [<-|Hy]; [|now apply Hall].
        unfold key_lt. assert (fst e <> fst x) by (intros E; apply Hn; cbn; now left). lia.
Qed.

Lemma fold_insort (es : list (Z * A)) : forall acc,
  StronglySorted key_lt acc -> NoDup (map fst (acc ++ es)) ->
  let r := fold_left (fun a e => insort e a) es acc in
  StronglySorted key_lt r /\ Permutation r (acc ++ es).
Proof.
  induction es as [|e es IH]; intros acc Hs Hn; cbn.
  - rewrite app_nil_r. split; [assumption|reflexivity].
  - assert (Hne : ~ In (fst e) (map fst acc)).
    { rewrite map_app in Hn. cbn in Hn. apply NoDup_remove_2 in Hn. intros H. apply Hn. apply in_or_app. now left. }
    assert (Hp : Permutation (insort e acc ++ es) (acc ++ e :: es)).
    { rewrite insort_perm. cbn. apply Permutation_middle. }
    destruct (IH (insort e acc) (insort_sorted e acc Hs Hne)) as [H1 H2].
    + apply (Permutation_NoDup (l := map fst (acc ++ e :: es))); [|assumption].
      apply Permutation_map. now symmetry.
    + split; [exact H1|]. now rewrite H2.
Qed.

Lemma sorted_perm_unique (l1 : list (Z * A)) : forall l2,
  StronglySorted key_lt l1 -> StronglySorted key_lt l2 -> Permutation l1 l2 -> l1 = l2.
Proof.
  induction l1 as [|a l1 IH]; intros l2 H1 H2 Hp.
  - apply Permutation_nil in Hp. now subst.
  - destruct l2 as [|b l2]; [apply Permutation_sym, Permutation_nil in Hp; discriminate|].
    inversion H1 as [|? ? Hs1 Ha]; subst. inversion H2 as [|? ? Hs2 Hb]; subst.
    assert (a = b) as ->.
    { assert (Hin : In a (b :: l2)) by (apply (Permutation_in _ Hp); now left).
      destruct Hin as [->|Hin]; [reflexivity|].
      assert (Hin2 : In b (a :: l1)) by (apply (Permutation_in _ (Permutation_sym Hp)); now left).
      destruct Hin2 as [->|Hin2]; [reflexivity|].
      rewrite Forall_forall in Ha, Hb. specialize (Ha b Hin2). specialize (Hb a Hin). unfold key_lt in *. lia. }
    f_equal. apply IH; try assumption. now apply Permutation_cons_inv in Hp.
Qed.

Lemma fold_nonneg (es : list (Z * A)) : Forall (fun e => (0 <= fst e)%Z) es -> forall acc,
  fold_left (fun a e => if Z.ltb (fst e) 0 then a else insort e a) es acc = fold_left (fun a e => insort e a) es acc
  /\ fold_left (fun a e => if Z.ltb (fst e) 0 then insort e a else a) es acc = acc.
Proof.
  induction 1 as [|e es He _ IH]; intros acc; cbn; [split; reflexivity|].
  destruct (Z.ltb_spec (fst e) 0); [lia|]. split; [apply (IH (insort e acc))|apply (IH acc)].
Qed.

(* entries that are a permutation of a list with strictly increasing non-negative positions come out in that order *)
Lemma position_sort_sorted (entries sorted : list (Z * A)) :
  StronglySorted key_lt sorted -> Forall (fun e => (0 <= fst e)%Z) sorted ->
  Permutation entries sorted -> position_sort entries = map snd sorted.
Proof.
  intros Hs Hnn Hp. unfold position_sort.
  assert (Hnn' : Forall (fun e => (0 <= fst e)%Z) entries).
  { rewrite Forall_forall in *. intros e He. apply Hnn. now apply (Permutation_in _ Hp). }
  destruct (fold_nonneg entries Hnn' []) as [-> ->]. cbn. rewrite app_nil_r.
  assert (Hnd : NoDup (map fst ([] ++ entries))).
  { cbn. apply (Permutation_NoDup (l := map fst sorted)); [apply Permutation_map; now symmetry|].
    clear Hp Hnn Hnn'. induction Hs as [|x l Hs IH Hall]; cbn; constructor; [|exact IH].
    intros Hin. apply in_map_iff in Hin. destruct Hin as (y & Ey & Hy).
    rewrite Forall_forall in Hall. specialize (Hall y Hy). unfold key_lt in Hall. lia. }
  destruct (fold_insort entries [] (SSorted_nil _) Hnd) as [H1 H2]. cbn in H1, H2.
  f_equal. apply sorted_perm_unique; [assumption|assumption|]. now rewrite H2.
Qed.
End Sort.

(* ================================================================== words *)
Lemma append_empty_r s : (s ++ "")%string = s.
Proof. induction s as [|c s IH]; cbn; [reflexivity|now rewrite IH]. Qed.
Lemma append_assoc a b c : ((a ++ b) ++ c)%string = (a ++ (b ++ c))%string.
Proof. induction a as [|x a IH]; cbn; [reflexivity|now rewrite IH]. Qed.

Lemma split_sp_word w : no_space w = true -> forall rest cur,
  split_sp (w ++ rest)%string cur = split_sp rest (cur ++ w)%string.
Proof.
  induction w as [|c w IH]; intros Hn rest cur; cbn.
  - now rewrite append_empty_r.
  - cbn in Hn. apply andb_true_iff in Hn. destruct Hn as [Hc Hw].
    destruct (Ascii.eqb c " "); [discriminate|]. rewrite (IH Hw). now rewrite append_assoc.
Qed.

Lemma word_nonempty w : word w = true -> w <> "" /\ no_space w = true.
Proof.
  unfold word. intros H. apply andb_true_iff in H. destruct H as [H1 H2]. split; [|assumption].
  intros ->. discriminate.
Qed.

Lemma split_sp_words l : forallb word l = true ->
  split_sp (join_sp l) "" = l.
Proof.
  induction l as [|w l IH]; intros H; [reflexivity|].
  cbn in H. apply andb_true_iff in H. destruct H as [Hw Hl]. destruct (word_nonempty w Hw) as [Hne Hns].
  destruct l as [|w2 l].
  - cbn [join_sp]. rewrite <- (append_empty_r w) at 1. rewrite (split_sp_word w Hns "" ""). cbn.
    destruct w; [congruence|reflexivity].
  - change (join_sp (w :: w2 :: l)) with (w ++ " " ++ join_sp (w2 :: l))%string.
    rewrite (split_sp_word w Hns). cbn [append split_sp]. cbn [Ascii.eqb Bool.eqb].
    destruct w; [congruence|]. cbn [append]. now rewrite (IH Hl).
Qed.

Lemma join_sp_nonempty l : l <> [] -> forallb word l = true -> join_sp l <> "".
Proof.
  destruct l as [|w l]; [congruence|]. intros _ H. cbn in H. apply andb_true_iff in H. destruct H as [Hw _].
  destruct (word_nonempty w Hw) as [Hne _]. destruct l; cbn; destruct w; cbn; congruence.
Qed.

Lemma format_arg_words argstr v :
  sval_ok v = true -> (argstr = "" \/ word argstr = true) ->
  format_arg argstr v = with_flag argstr (sval_words v).
Proof.
  intros Hv Ha. unfold format_arg.
  set (ws := sval_words v).
  assert (Hws : forallb word ws = true /\ ws <> []).
  { subst ws. destruct v as [s|l]; cbn in *.
    - rewrite Hv. split; [reflexivity|discriminate].
    - apply andb_true_iff in Hv. destruct Hv as [Hl Hf]. split; [assumption|]. intros ->. discriminate. }
  destruct Hws as [Hws Hne].
  assert (Hval : match v with SText s => s | STuple l => join_sp l end = join_sp ws).
  { subst ws. destruct v; reflexivity. }
  rewrite Hval. pose proof (join_sp_nonempty ws Hne Hws) as Hj.
  destruct (join_sp ws) as [|c r] eqn:Ej; [congruence|]. rewrite <- Ej. unfold split_cmd.
  destruct Ha as [->|Ha].
  - cbn [append with_flag split_sp]. cbn [Ascii.eqb Bool.eqb]. now apply split_sp_words.
  - destruct (word_nonempty argstr Ha) as [Hane Hans].
    rewrite (split_sp_word argstr Hans). cbn [append split_sp]. cbn [Ascii.eqb Bool.eqb].
    destruct argstr as [|c0 a0]; [congruence|]. cbn [append with_flag]. now rewrite split_sp_words.
Qed.

Lemma flat_format argstr l :
  forallb sval_ok l = true -> (argstr = "" \/ word argstr = true) ->
  flat_map (format_arg argstr) l = flat_map (fun s => with_flag argstr (sval_words s)) l.
Proof.
  intros Hl Ha. induction l as [|x l IH]; [reflexivity|].
  cbn [forallb] in Hl. apply andb_true_iff in Hl. destruct Hl as [Hx Hl]. cbn [flat_map].
  rewrite (format_arg_words _ x Hx Ha). now rewrite (IH Hl).
Qed.

(* ================================================================== the argument vector *)
Lemma pos_args_spec i t f v :
  spells i t f -> value_ok v = true -> flag_ok t = true ->
  match pos_args f v with
  | Some (p, args) => p = Z.of_nat (S i) /\ args = token_args t v
  | None => token_args t v = []
  end.
Proof.
  intros Hs Hv Hf. destruct Hs as (_ & _ & _ & _ & _ & _ & _ & Harg & Hpos).
  assert (Ha : f_argstr f = "" \/ word (f_argstr f) = true).
  { rewrite Harg. unfold flag_ok in Hf. destruct (says_flag t); [now left|now right]. }
  destruct v as [|s|l|b]; cbn [pos_args token_args].
  - reflexivity.
  - split; [assumption|]. rewrite <- Harg. now apply format_arg_words.
  - destruct l as [|s l]; [reflexivity|]. split; [assumption|]. rewrite <- Harg.
    cbn [value_ok] in Hv. now apply flat_format.
  - split; [assumption|]. rewrite Harg. reflexivity.
Qed.

Lemma filter_map_perm {X Y} (g : X -> option Y) l1 l2 :
  Permutation l1 l2 -> Permutation (filter_map g l1) (filter_map g l2).
Proof.
  induction 1; cbn.
  - reflexivity.
  - destruct (g x); [now constructor|assumption].
  - destruct (g x), (g y); try reflexivity. apply perm_swap.
  - etransitivity; eassumption.
Qed.

(* entries of the fields in template order: strictly increasing positions i+1, i+2, ...; their concatenation is
   the concatenation of what the tokens spell *)
Lemma entries_in_order ts : forall fs vs i,
  (forall k t f, nth_error ts k = Some t -> nth_error fs k = Some f -> spells (i + k) t f) ->
  List.length fs = List.length ts -> List.length vs = List.length ts ->
  forallb value_ok vs = true -> forallb flag_ok ts = true ->
  let es := filter_map (fun fv => pos_args (fst fv) (snd fv)) (combine fs vs) in
  StronglySorted key_lt es /\ Forall (fun e => (Z.of_nat i < fst e)%Z) es /\
  List.concat (map snd es) = flat_map (fun tv => token_args (fst tv) (snd tv)) (combine ts vs).
Proof.
  induction ts as [|t ts IH]; intros fs vs i Hsp Hlf Hlv Hvs Hfl.
  - destruct fs; [|discriminate]. cbn. repeat split; constructor.
  - destruct fs as [|f fs]; [discriminate|]. destruct vs as [|v vs]; [discriminate|].
    cbn in Hvs, Hfl. apply andb_true_iff in Hvs. destruct Hvs as [Hv Hvs].
    apply andb_true_iff in Hfl. destruct Hfl as [Hft Hfl].
    assert (Hs0 : spells i t f) by (rewrite <- (Nat.add_0_r i); now apply (Hsp 0)).
    destruct (IH fs vs (S i)) as (Hs & Hall & Hc); try (cbn in *; lia); try assumption.
    { intros k t' f' Ht' Hf'. replace (S i + k) with (i + S k) by lia. now apply (Hsp (S k)). }
    pose proof (pos_args_spec i t f v Hs0 Hv Hft) as Hp.
    cbn [combine filter_map flat_map fst snd]. destruct (pos_args f v) as [[p args]|].
    + destruct Hp as [-> ->]. repeat split.
      * constructor; [assumption|]. rewrite Forall_forall in *. intros e He. specialize (Hall e He).
        unfold key_lt; cbn. lia.
      * constructor; [cbn; lia|]. rewrite Forall_forall in *. intros e He. specialize (Hall e He). lia.
      * cbn. now rewrite Hc.
    + rewrite Hp. cbn. repeat split; [assumption| |assumption].
      rewrite Forall_forall in *. intros e He. specialize (Hall e He). lia.
Qed.

Theorem order executable ts fs vs fvs :
  Forall flags_nonempty ts -> fields_of_ast ts = POk fs ->
  List.length vs = List.length ts ->
  forallb value_ok vs = true -> forallb flag_ok ts = true ->
  Permutation fvs (combine fs vs) ->
  command_args executable fvs [] = expected_argv executable (combine ts vs).
Proof.
  intros Hfl Hf Hlv Hvs Hfo Hp. destruct (inference ts fs Hfl Hf) as [Hlen Hsp].
  destruct (entries_in_order ts fs vs 0 Hsp Hlen Hlv Hvs Hfo) as (Hs & Hall & Hc).
  unfold command_args, expected_argv. rewrite app_nil_r.
  set (g := fun fv : field * fvalue => pos_args (fst fv) (snd fv)) in *.
  rewrite (position_sort_sorted _ ((0%Z, executable) :: filter_map g (combine fs vs))).
  - cbn. now rewrite Hc.
  - constructor; [assumption|]. rewrite Forall_forall in *. intros e He. specialize (Hall e He).
    unfold key_lt; cbn in *. lia.
  - constructor; [cbn; lia|]. rewrite Forall_forall in *. intros e He. specialize (Hall e He). cbn in *. lia.
  - constructor. now apply filter_map_perm.
Qed.

(* ================================================================== the executable reading agrees with the Prop *)
Lemma prim_eqb_sound a b : prim_eqb a b = true -> a = b.
Proof. destruct a, b; cbn; congruence. Qed.
Lemma fmt_eqb_sound a b : fmt_eqb a b = true -> a = b.
Proof. destruct a, b; cbn; congruence. Qed.
Lemma tname_eqb_sound a b : tname_eqb a b = true -> a = b.
Proof.
  destruct a, b; cbn; try discriminate; intros H; f_equal; [now apply prim_eqb_sound|now apply fmt_eqb_sound].
Qed.
Lemma tnames_eqb_sound l : forall m, list_eqb tname_eqb l m = true -> l = m.
Proof.
  induction l as [|x l IH]; intros [|y m] H; cbn in H; try discriminate; [reflexivity|].
  apply andb_true_iff in H. destruct H as [H1 H2]. f_equal; [now apply tname_eqb_sound|now apply IH].
Qed.
Lemma tbase_eqb_sound a b : tbase_eqb a b = true -> a = b.
Proof.
  destruct a, b; cbn; try discriminate; intros H; f_equal;
    [now apply prim_eqb_sound|now apply fmt_eqb_sound|now apply tnames_eqb_sound|now apply tname_eqb_sound].
Qed.

Fixpoint lit_eqb_sound (a : lit) {struct a} : forall b, lit_eqb a b = true -> a = b.
Proof.
  destruct a as [x|x|x|x|l]; intros [y|y|y|y|m] H; cbn in H; try discriminate.
  - apply Z.eqb_eq in H. now subst.
  - apply String.eqb_eq in H. now subst.
  - apply String.eqb_eq in H. now subst.
  - apply Bool.eqb_prop in H. now subst.
  - f_equal. revert m H.
    refine ((fix go (l : list lit) : forall m,
               (fix go' (l m : list lit) : bool :=
                  match l, m with
                  | [], [] => true
                  | x :: l', y :: m' => lit_eqb x y && go' l' m'
                  | _, _ => false
                  end) l m = true -> l = m :=
               match l with
               | [] => fun m => match m with [] => fun _ => eq_refl | _ :: _ => fun H => _ end
               | x :: l' => fun m => match m with [] => fun H => _ | y :: m' => fun H => _ end
               end) l).
    + discriminate H.
    + discriminate H.
    + apply andb_true_iff in H. destruct H as [H1 H2].
      rewrite (lit_eqb_sound x y H1), (go l' m' H2). reflexivity.
Qed.

Lemma dflt_eqb_sound a b : dflt_eqb a b = true -> a = b.
Proof.
  destruct a, b; cbn; try discriminate; try reflexivity. intros H. f_equal. now apply lit_eqb_sound.
Qed.
Lemma ostring_eqb_sound a b : ostring_eqb a b = true -> a = b.
Proof.
  destruct a, b; cbn; try discriminate; try reflexivity. intros H. apply String.eqb_eq in H. now subst.
Qed.

Theorem spellsb_sound i t f : spellsb i t f = true -> spells i t f.
Proof.
  unfold spellsb, spells. rewrite !andb_true_iff.
  intros [[[[[[[[H1 H2] H3] H4] H5] H6] H7] H8] H9].
  repeat split.
  - now apply String.eqb_eq.
  - now apply Bool.eqb_prop.
  - now apply tbase_eqb_sound.
  - now apply Bool.eqb_prop.
  - now apply Bool.eqb_prop.
  - now apply dflt_eqb_sound.
  - now apply ostring_eqb_sound.
  - now apply String.eqb_eq.
  - now apply Z.eqb_eq.
Qed.
