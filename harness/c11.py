"""C11 — at-most-once execution per identity; rerun / propagate_rerun; read-only caches.

The driver runs random histories of submissions (python tasks and workflows from a small pool,
random rerun / propagate_rerun flags, random cache roots and read-only cache lists, planted
leftover incomplete job directories, bodies that fail at chosen steps) against the *current*
implementation in fresh interpreters, records for every step the contents of every cache
location before and after, the jobs entered/executed (through the public TaskHooks) and what the
submission handed back, and lets Coq evaluate the model (Model/CacheSeq.v: submit) and the
executable reference semantics (Spec/CacheSeq.v: step_spec_core_b, reuse_b) on exactly those
steps.  The same machinery is used by the C13 driver with a pool of failing tasks.
"""
import hashlib
import json
import os
import shutil
import subprocess
import sys
import tempfile

PROP = "C11"
PROPS_FILE = "Props/C11.v"
MANIFEST = dict(
    text="Coq theorems (closed under the global context) about Model/CacheSeq.v, a model of load_result / Job.run / "
         "Job._populate_filesystem / Submitter.__call__ / expand_workflow(rerun and propagate_rerun) for the sequential "
         "(debug) worker: for every world (body outcomes), configuration, well-formed task tree and store, one "
         "submission meets the reference semantics step_spec_core (C11_step: executions while the root holds a "
         "success happen only on a requested rerun; rerun executes the task and, with propagation, every job entered; "
         "locations other than the cache root are never modified; the root holds exactly the outcome of the last "
         "execution of each executed identity), and for every history of submissions and planted leftovers "
         "C11_once_per_identity: between a successful execution of an identity under a root and its next execution "
         "under that root lies a requested rerun. C11_reuse (partial): a successful complete result in any listed "
         "cache is reused unless an errored result is listed in front of it (C11_refuted_errored_shadow, known "
         "finding F11b). The leftover-directory shadowing (F11) was repaired in /repo and is covered by C11_reuse. "
         "The model is tied to the code on every run by differential execution of generated histories.",
    note="partial: concurrent submitters are C10's; the model is the sequential expansion — a quarter of the generated "
         "submissions run under the cf worker (expand_workflow_async, nested workflows in process), without failing "
         "bodies, and are compared with the model up to the order of independent nodes; workflow node identities are a fixed list per workflow identity "
         "(lazy inputs resolve deterministically); trusted: Coq kernel + vm_compute, the hand-written model, "
         "TaskHooks as the observation of executions, the harness's classification of a job directory.",
    technique="Coq proof (invariant of Job.run by induction over task trees and histories) + model/impl "
              "correspondence via generated cases.v",
    design="§8 Group C / C11",
)
TIE_NAME = "Model.CacheSeq.submit/plant vs Submitter.__call__ (debug worker) over cache_root + readonly_caches"
TRUSTED = [
    "Model/CacheSeq.v: hand-written model of result.load_result, Job.run/_populate_filesystem/result, "
    "Submitter.__call__/expand_workflow (debug worker)",
    "modelled, not verified: workflow node identities fixed per workflow identity; filelock, pickling and audit are "
    "not in the sequential model (C10/C12/C35); a job directory is classified absent/partial/complete by the harness "
    "(cloudpickle load of _result.pklz)",
    "TaskHooks (pre_run / pre_run_task / post_run_task) report job entry / execution / outcome truthfully",
]
ASSUMPTIONS = [
    "one submitter at a time (sequential histories)",
    "task trees are well formed: no node has the identity of a workflow enclosing it (wf_taskb)",
    "distinct pool tasks have distinct checksums (checked at run time by the driver)",
]
RULE = ("random histories of 3-8 steps over a pool of 4 python tasks + 3 workflows (one with a nested workflow) sharing "
        "node identities, run under the debug worker and (25%) the cf worker, 3 cache locations used as root or "
        "read-only cache, rerun / propagate_rerun flags, bodies failing "
        "at chosen steps, planted empty / job-only / zero-size-result directories; a step counts as non-trivial when "
        "the store before it is non-empty and it is a submission; distinct = distinct (pre-store, submission, "
        "failing set)")

# ------------------------------------------------------------------------------------------------
# The pool.  A descriptor is a JSON list [kind, arg...].  Expected values are the harness's own
# reference for the pool bodies, used to give the model its `world`.
# ------------------------------------------------------------------------------------------------
TOP_POOL = [["Add", 1, 1], ["Add", 2, 2], ["Inc", 1], ["Pair", 1], ["W0", 1], ["W0", 2], ["W1", 1]]


def children(d):
    k = d[0]
    if k == "W0":
        a = d[1]
        return [["Add", a, 1], ["Add", a + 1, 2]]
    if k == "W1":
        a = d[1]
        return [["Inc", a], ["Add", a, 1], ["W0", a + 1]]
    return []


def expected_outputs(d):
    """repr of the outputs object's fields a successful run stores"""
    k = d[0]
    if k == "Add":
        return {"out": d[1] + d[2]}
    if k == "Inc":
        return {"out": d[1] + 1}
    if k == "Pair":
        return {"x": d[1], "y": 2 * d[1]}
    if k == "W0":
        return {"out": d[1] + 3}
    if k == "W1":
        return {"out": d[1] + 4}
    raise ValueError(d)


class Pool:
    """a pool of submittable tasks: top-level descriptors, node lists, expected outputs, and the name of
    the module whose `--run` entry point defines the tasks against the pydra under test"""

    def __init__(self, top, children, expected, module, collect_fail=(), cf_fail_ok=None):
        self.top, self.children, self.expected, self.module = top, children, expected, module
        # workflow identities whose *output collection* can be made to fail (after all nodes succeeded)
        self.collect_fail = list(collect_fail)
        # identities that may fail in a pool-worker submission of `top` without leaving the sequential model
        # (a failure there stops nothing that the async expansion would still run)
        self._cf_fail_ok = cf_fail_ok

    def cf_fail_ok(self, top):
        if self._cf_fail_ok is not None:
            return self._cf_fail_ok(top)
        return [top] if self.is_leaf(top) else []

    def universe(self):
        out = []

        def walk(d):
            if d not in out:
                out.append(d)
            for c in self.children(d):
                walk(c)

        for d in self.top:
            walk(d)
        return out

    def is_leaf(self, d):
        return not self.children(d)


POOL = Pool(TOP_POOL, children, expected_outputs, "harness.c11")


# ------------------------------------------------------------------------------------------------
# The runner: executed in a fresh interpreter  (python -m harness.c11 --run in.json out.json)
# ------------------------------------------------------------------------------------------------
def _runner_pool(logf, flagdir):
    """Define the pool against the pydra in PYTHONPATH. Returns build(desc) -> task and the hooks."""
    from pydra.compose import python, workflow
    from pydra.engine.hooks import TaskHooks

    # NB: nothing here may live in a closure cell or module global of this module: cloudpickle re-creates
    # by-value functions with *copies* of those when a stored result is loaded, and patches them into the
    # live class.  The log and flag locations are therefore read from the environment at call time.
    def log(line):
        import os
        with open(os.environ["C11_LOG"], "a") as f:
            f.write(line + "\n")

    def enter(desc):
        import os, json
        log("BODY " + json.dumps(desc))
        if os.path.exists(os.path.join(os.environ["C11_FLAGS"], "_".join(str(x) for x in desc))):
            raise ValueError("planned failure of %r" % (desc,))

    def h_pre_run(job, *a):
        log("ENTER " + job.checksum)

    def h_pre_run_task(job, *a):
        log("START " + job.checksum)

    def h_post_run_task(job, result, *a):
        outs = None
        if not result.errored and result.outputs is not None:
            import attrs
            outs = {a_.name: _canon(getattr(result.outputs, a_.name)) for a_ in attrs.fields(type(result.outputs))
                    if not a_.name.startswith("_")}
        import json
        log("END %s %d %s" % (job.checksum, 1 if result.errored else 0, json.dumps(outs, sort_keys=True)))

    hooks = TaskHooks(pre_run=h_pre_run, pre_run_task=h_pre_run_task, post_run_task=h_post_run_task)

    @python.define
    def Add(a: int, b: int) -> int:
        enter(["Add", a, b])
        return a + b

    @python.define
    def Inc(a: int) -> int:
        enter(["Inc", a])
        return a + 1

    @python.define(outputs=["x", "y"])
    def Pair(a: int) -> tuple[int, int]:
        enter(["Pair", a])
        return a, 2 * a

    @workflow.define
    def W0(a: int) -> int:
        n1 = workflow.add(Add(a=a, b=1), name="n1", hooks=hooks)
        n2 = workflow.add(Add(a=n1.out, b=2), name="n2", hooks=hooks)
        return n2.out

    @workflow.define
    def W1(a: int) -> int:
        n1 = workflow.add(Inc(a=a), name="n1", hooks=hooks)
        n2 = workflow.add(Add(a=a, b=1), name="n2", hooks=hooks)
        n3 = workflow.add(W0(a=n2.out), name="n3", hooks=hooks)
        return n3.out

    classes = {"Add": Add, "Inc": Inc, "Pair": Pair, "W0": W0, "W1": W1}

    def build(d):
        k = d[0]
        if k == "Add":
            return Add(a=d[1], b=d[2])
        return classes[k](a=d[1])

    return build, hooks


def _digest_dir(p):
    h = hashlib.sha256()
    for root, dirs, files in sorted(os.walk(p)):
        dirs.sort()
        for fn in sorted(files):
            fp = os.path.join(root, fn)
            h.update(os.path.relpath(fp, p).encode())
            try:
                st = os.stat(fp)
                with open(fp, "rb") as f:
                    h.update(hashlib.sha256(f.read()).digest())
                h.update(b"%d %d" % (st.st_mtime_ns, st.st_ino))
            except OSError as e:  # pragma: no cover
                h.update(repr(e).encode())
    return h.hexdigest()[:16]


def _classify(dirpath):
    """absent | partial | ["ok", outputs-dict] | ["err"]  — independent of pydra's load_result"""
    import cloudpickle as cp
    import attrs
    if not os.path.isdir(dirpath):
        return "absent"
    rf = os.path.join(dirpath, "_result.pklz")
    if not os.path.isfile(rf) or os.path.getsize(rf) == 0:
        return "partial"
    try:
        with open(rf, "rb") as f:
            res = cp.load(f)
    except Exception:
        return "partial"
    if res.errored:
        return ["err"]
    outs = res.outputs
    if outs is None:
        return ["ok", None]
    return ["ok", {a.name: _canon(getattr(outs, a.name)) for a in attrs.fields(type(outs)) if not a.name.startswith("_")}]


def _canon(v):
    import attrs
    if v is attrs.NOTHING:
        return "NOTHING"
    if isinstance(v, (int, str, bool, type(None))):
        return v
    if isinstance(v, (list, tuple)):
        return [_canon(x) for x in v]
    if isinstance(v, dict):
        return {str(k): _canon(x) for k, x in sorted(v.items(), key=lambda kv: str(kv[0]))}
    fsp = getattr(v, "fspaths", None)
    if fsp is not None:      # a fileformats FileSet: temp-dir names are not compared
        return "fileset:" + ",".join(sorted(os.path.basename(str(p_)) for p_ in fsp))
    return type(v).__name__


def _snapshot(locs):
    snap = []
    for lp in locs:
        ents, stray, raw = {}, [], {}
        for name in sorted(os.listdir(lp)) if os.path.isdir(lp) else []:
            p = os.path.join(lp, name)
            if os.path.isdir(p):
                ents[name] = _classify(p)
                raw[name] = _digest_dir(p)
            else:
                stray.append(name)
        snap.append({"dirs": ents, "stray": stray, "raw": raw})
    return snap


def _run_history(h, build, hooks, logf, flagdir, base):
    """h = {"universe": [desc...], "steps": [...]} -> observations"""
    import attrs
    from pydra.engine.submitter import Submitter
    locs = [os.path.join(base, "L%d" % i) for i in range(h["nlocs"])]
    for lp in locs:
        os.makedirs(lp)
    flagdir[0] = os.environ["C11_FLAGS"] = os.path.join(base, "flags")
    os.makedirs(flagdir[0])
    logf[0] = os.environ["C11_LOG"] = os.path.join(base, "log.txt")
    checksums = {}
    for d in h["universe"]:
        checksums[json.dumps(d)] = build(d)._checksum
    out = {"checksums": checksums, "steps": [], "initial": _snapshot(locs)}
    cwd0 = os.getcwd()
    for k, step in enumerate(h["steps"]):
        open(logf[0], "w").close()
        ob = {}
        if step["op"] == "plant":
            p = os.path.join(locs[step["loc"]], checksums[json.dumps(step["desc"])])
            if not os.path.exists(p):
                os.mkdir(p)
                kind = step["kind"]
                if kind == "jobonly":
                    with open(os.path.join(p, "_job.pklz"), "wb") as f:
                        f.write(b"leftover")
                elif kind == "zero":
                    open(os.path.join(p, "_result.pklz"), "wb").close()
                elif kind == "truncated":
                    # a writer died inside cp.dump: non-empty, unloadable (EOFError / UnpicklingError)
                    import cloudpickle as cp
                    data = cp.dumps({"some": list(range(50))})
                    with open(os.path.join(p, "_result.pklz"), "wb") as f:
                        f.write(data[: len(data) // 2])
                    with open(os.path.join(p, "_job.pklz"), "wb") as f:
                        f.write(b"leftover")
                elif kind == "garbage":
                    # one byte of a pickle stream: the shortest non-empty unloadable result file
                    with open(os.path.join(p, "_result.pklz"), "wb") as f:
                        f.write(b"\x80")
                ob["planted"] = True
            else:
                ob["planted"] = False
        else:
            for fn in os.listdir(flagdir[0]):
                os.unlink(os.path.join(flagdir[0], fn))
            for d in step["fail"]:
                open(os.path.join(flagdir[0], "_".join(str(x) for x in d)), "w").close()
            task = build(step["desc"])
            root = locs[step["root"]]
            ro = [locs[i] for i in step["ro"]]
            how = step["how"]
            try:
                if how == "call":
                    outs = task(cache_root=root, readonly_caches=ro or None, rerun=step["rerun"], hooks=hooks)
                    errored = False
                else:
                    wk = {"worker": "cf", "n_procs": 2} if step.get("worker") == "cf" else {"worker": "debug"}
                    with Submitter(cache_root=root, readonly_caches=ro or None,
                                   propagate_rerun=step["prop"], **wk) as sub:
                        res = sub(task, rerun=step["rerun"], hooks=hooks,
                                  raise_errors=(False if how == "noraise" else None))
                    errored = bool(res.errored)
                    outs = res.outputs
                if not errored and outs is None:
                    ob["reported"] = ["ok", None]          # a "success" without outputs
                elif errored:
                    # C13: the failure comes with the recorded error (_error.pklz readable through Result.errors)
                    ob["reported"] = ["err", "result.errored", bool(res.errors)]
                    try:
                        ob["error_text"] = "".join(res.errors["error message"])[-600:] if res.errors else None
                    except Exception:
                        ob["error_text"] = None
                else:
                    ob["reported"] = ["ok", {a.name: _canon(getattr(outs, a.name)) for a in attrs.fields(type(outs))
                                             if not a.name.startswith("_")}]
            except Exception as e:
                ob["reported"] = ["err", type(e).__name__ + ": " + str(e).splitlines()[0][:120]]
            os.chdir(cwd0)
        with open(logf[0]) as f:
            ob["log"] = f.read().splitlines()
        ob["after"] = _snapshot(locs)
        out["steps"].append(ob)
    return out


def runner_main(inp, outp, runner_pool=None):
    with open(inp) as f:
        batch = json.load(f)
    logf, flagdir = [None], [None]
    build, hooks = (runner_pool or _runner_pool)(logf, flagdir)
    results = []
    for h in batch:
        base = tempfile.mkdtemp(prefix="c11h-", dir=h.get("tmp", "/tmp"))
        try:
            results.append(_run_history(h, build, hooks, logf, flagdir, base))
        except Exception as e:  # the history could not even be driven: report, never hide
            import traceback
            results.append({"driver_error": traceback.format_exc()[-2000:]})
        finally:
            shutil.rmtree(base, ignore_errors=True)
    with open(outp, "w") as f:
        json.dump(results, f)


if __name__ == "__main__":
    if len(sys.argv) == 4 and sys.argv[1] == "--run":
        runner_main(sys.argv[2], sys.argv[3])
        sys.exit(0)
    sys.exit(2)

# ------------------------------------------------------------------------------------------------
# The check side
# ------------------------------------------------------------------------------------------------
from .lib import coqio  # noqa: E402
from .lib.runner import Outcome, Failure  # noqa: E402

IMPORTS = ["Model.CacheSeq", "Spec.CacheSeq"]


def run_batches(histories, module="harness.c11", par=6, timeout=1500):
    """Run histories in fresh interpreters (several per interpreter, `par` interpreters at a time)."""
    repo = os.environ.get("VERIF_REPO", "/repo")
    verif = coqio.VERIF
    tmp = tempfile.mkdtemp(prefix="c11-", dir="/tmp")
    try:
        nb = max(1, min(par * 2, (len(histories) + 7) // 8))
        batches = [histories[i::nb] for i in range(nb)]
        procs, running, results = [], [], [None] * nb
        env = dict(os.environ, PYTHONPATH=verif + ":" + repo, PYTHONHASHSEED="0", NO_ET="1",
                   PYTHONDONTWRITEBYTECODE="1")
        pending = list(range(nb))
        while pending or running:
            while pending and len(running) < par:
                i = pending.pop(0)
                inp, outp = os.path.join(tmp, "in%d.json" % i), os.path.join(tmp, "out%d.json" % i)
                for h in batches[i]:
                    h["tmp"] = tmp
                with open(inp, "w") as f:
                    json.dump(batches[i], f)
                pr = subprocess.Popen(["timeout", str(timeout), "/venv/bin/python", "-m", module, "--run", inp, outp],
                                      env=env, cwd=tmp, stdout=subprocess.PIPE, stderr=subprocess.STDOUT, text=True)
                running.append((i, pr, outp))
            i, pr, outp = running.pop(0)
            so, _ = pr.communicate()
            if pr.returncode != 0 or not os.path.exists(outp):
                raise RuntimeError("runner failed rc=%s: %s" % (pr.returncode, so[-1500:]))
            with open(outp) as f:
                results[i] = json.load(f)
        out = [None] * len(histories)
        for i in range(nb):
            for j, r in enumerate(results[i]):
                out[i + j * nb] = r
        return out
    finally:
        shutil.rmtree(tmp, ignore_errors=True)


# ---- generation ---------------------------------------------------------------------------------
def gen_history(rng, pool=POOL, nlocs=3, flaky_p=0.35,
                kinds=("empty", "jobonly", "zero", "empty", "jobonly", "zero", "truncated", "garbage"),
                nflaky=(0, 1, 1, 2),
                p_plant=0.18, p_rerun=0.3, p_cf=0.25):
    univ = pool.universe()
    leaves = [d for d in univ if pool.is_leaf(d)]
    n = rng.choice([3, 4, 5, 6, 7, 8, 8])
    # a history concentrates on few tasks so that identities recur
    focus = rng.sample(pool.top, rng.choice([1, 2, 2, 3]))
    cand = leaves + pool.collect_fail
    flaky = rng.sample(cand, min(len(cand), rng.choice(list(nflaky))))
    main_root = rng.randrange(nlocs)
    steps = []
    for _ in range(n):
        r = rng.random()
        if r < p_plant:
            steps.append({"op": "plant", "loc": rng.randrange(nlocs), "desc": rng.choice(univ if rng.random() < 0.5 else focus),
                          "kind": rng.choice(kinds)})
            continue
        root = main_root if rng.random() < 0.6 else rng.randrange(nlocs)
        others = [i for i in range(nlocs) if i != root]
        rng.shuffle(others)
        ro = others[: rng.choice([0, 1, 1, 2, 2])]
        rerun = rng.random() < p_rerun
        prop = rng.random() < 0.6
        how = "call" if (prop and rng.random() < 0.4) else rng.choice(["submit", "submit", "noraise"])
        fail = [d for d in flaky if rng.random() < flaky_p]
        worker = "debug"
        if rng.random() < p_cf:
            # the pool worker: nodes run concurrently in other processes, nested workflows in this one
            # (expand_workflow_async).  With a failing node the async expansion goes on with the independent
            # nodes, which the sequential model does not describe: failures are restricted to pool.cf_fail_ok.
            worker, how = "cf", "submit"
        desc = rng.choice(focus)
        if worker == "cf":
            fail = [d for d in fail if d in pool.cf_fail_ok(desc)]
        steps.append({"op": "submit", "desc": desc, "root": root, "ro": ro, "rerun": rerun,
                      "prop": prop, "how": how, "fail": fail, "worker": worker})
    return {"universe": univ, "nlocs": nlocs, "steps": steps}


# ---- translation to Gallina -------------------------------------------------------------------
class Interner:
    def __init__(self):
        self.tab = {}

    def __call__(self, obj):
        k = json.dumps(obj, sort_keys=True)
        if k not in self.tab:
            self.tab[k] = len(self.tab) + 1
        return self.tab[k]


def task_term(d, idx, pool=POOL):
    ch = pool.children(d)
    if not ch:
        return "(Leaf %d)" % idx(d)
    return "(Wf %d %s)" % (idx(d), coqio.lst([task_term(c, idx, pool) for c in ch]))


def dir_term(st, intern):
    if st == "partial":
        return "Partial"
    if st == ["err"]:
        return "(Complete Err)"
    if isinstance(st, list) and st[0] == "ok":
        return "(Complete (Ok %d))" % intern(st[1])
    raise ValueError(st)


def res_term(rep, intern):
    return "(Ok %d)" % intern(rep[1]) if rep[0] == "ok" else "Err"


def parse_log(lines, cs2id, concurrent=False):
    """hook log -> events ("hit", id) | ("run", id, errored, outputs), plus the body executions.
    Sequential worker: jobs nest, events are in completion order (a hit counts at its entry).
    Pool worker: lines of concurrently running jobs interleave; they are matched per checksum, executions are
    emitted at their END line, hits at their ENTER line."""
    if concurrent:
        return parse_log_concurrent(lines, cs2id)
    events, bodies, stack = [], [], []

    def flush_hit():
        if stack and not stack[-1][1]:
            events.append(("hit", stack.pop()[0]))

    for ln in lines:
        tag, _, rest = ln.partition(" ")
        if tag == "BODY":
            bodies.append(json.loads(rest))
            continue
        if tag == "START":
            assert stack and stack[-1][0] == cs2id.get(rest, -1) and not stack[-1][1], ("START without ENTER", lines)
            stack[-1][1] = True
            continue
        flush_hit()
        if tag == "ENTER":
            stack.append([cs2id.get(rest, -1), False])
        elif tag == "END":
            cs, err, outs = rest.split(" ", 2)
            assert stack and stack[-1][0] == cs2id.get(cs, -1) and stack[-1][1], ("END without START", lines)
            stack.pop()
            events.append(("run", cs2id.get(cs, -1), err == "1", json.loads(outs)))
    flush_hit()
    assert not stack, ("unfinished job in log", lines)
    return events, bodies


def parse_log_concurrent(lines, cs2id):
    bodies, slots, open_ = [], [], {}      # slots: position -> event or None; open_: cs -> [slot index, started]
    for ln in lines:
        tag, _, rest = ln.partition(" ")
        if tag == "BODY":
            bodies.append(json.loads(rest))
        elif tag == "ENTER":
            slots.append(None)
            open_.setdefault(rest, []).append([len(slots) - 1, False])
        elif tag == "START":
            cand = [e for e in open_.get(rest, []) if not e[1]]
            assert cand, ("START without ENTER", lines)
            cand[0][1] = True
        elif tag == "END":
            cs, err, outs = rest.split(" ", 2)
            cand = [e for e in open_.get(cs, []) if e[1]]
            assert cand, ("END without START", lines)
            open_[cs].remove(cand[0])
            slots.append(("run", cs2id.get(cs, -1), err == "1", json.loads(outs)))
    for cs, ents in open_.items():
        for pos, started in ents:
            assert not started, ("unfinished job in log", lines)
            slots[pos] = ("hit", cs2id.get(cs, -1))
    return [e for e in slots if e is not None], bodies


def store_table(snap, cs2id):
    """[(loc, id, state)] for the known identities; unknown directory names are returned separately"""
    tab, unknown = [], []
    for l, loc in enumerate(snap):
        for name, st in sorted(loc["dirs"].items()):
            if name in cs2id:
                tab.append((l, cs2id[name], st))
            else:
                unknown.append((l, name))
        for name in loc["stray"]:
            unknown.append((l, name))
    return tab, unknown


def table_term(tab, intern):
    return coqio.lst(["(%d, %d, %s)" % (l, c, dir_term(st, intern)) for l, c, st in tab])


EXTRA = r"""
Definition lookup_dir (t : list (nat * nat * dir)) : store :=
  fun l c => match find (fun e => Nat.eqb (fst (fst e)) l && Nat.eqb (snd (fst e)) c) t with
             | Some e => snd e | None => Absent end.
Definition lookup_val (t : list (nat * nat)) (c : nat) : nat :=
  match find (fun e => Nat.eqb (fst e) c) t with Some e => snd e | None => 0 end.
Definition mkworld (fails : list nat) (vals : list (nat * nat)) : world :=
  {| body := fun c _ _ => if existsb (Nat.eqb c) fails then Err else Ok (lookup_val vals c);
     wfout := fun c _ _ => if existsb (Nat.eqb c) fails then Err else Ok (lookup_val vals c) |}.
Definition erase (e : event) : nat * nat :=
  match e with EvHit c _ => (c, 0) | EvRun c _ (Ok _) => (c, 1) | EvRun c _ Err => (c, 2) end.
Definition ev_list_eqb (a b : list event) : bool :=
  list_eqb (fun x y => Nat.eqb (fst x) (fst y) && Nat.eqb (snd x) (snd y)) (map erase a) (map erase b).
Definition store_eqb (u : univ) (a b : store) : bool :=
  forallb (fun l => forallb (fun c => dir_eqb (a l c) (b l c)) (snd u)) (fst u).
(* one observed step: universe, failing identities, value table, store before, the step, and
   what was observed: events, reported, store after, raw digests of non-root locations unchanged *)
Definition case_t := (univ * list nat * list (nat * nat) * list (nat * nat * dir) * step *
                      list event * res * list (nat * nat * dir) * bool * bool)%type.
(* pool worker: independent nodes complete in any order, the events are compared as multisets *)
Definition ev_bag_eqb (a b : list event) : bool :=
  let ea := map erase a in let eb := map erase b in
  let eqp := fun x y : nat * nat => Nat.eqb (fst x) (fst y) && Nat.eqb (snd x) (snd y) in
  Nat.eqb (List.length ea) (List.length eb) &&
  forallb (fun x => Nat.eqb (List.length (filter (eqp x) ea)) (List.length (filter (eqp x) eb))) ea.
Definition mkstate (pre : list (nat * nat * dir)) : state := {| st := lookup_dir pre; execs := fun _ => 0; clock := 0 |}.
Definition tie_ok (c : case_t) : bool :=
  let '(u, fails, vals, pre, x, evs, rep, post, raw, ordered) := c in
  match x with
  | Submit sub =>
      let '(s1, mevs, mrep) := submit (mkworld fails vals) (s_cfg sub) (s_rerun sub) (s_task sub) (mkstate pre) in
      (if ordered then ev_list_eqb mevs evs else ev_bag_eqb mevs evs) && res_eqb mrep rep && store_eqb u (st s1) (lookup_dir post)
  | Plant l c => store_eqb u (st (plant (mkstate pre) l c)) (lookup_dir post)
  end.
Definition mkobs (c : case_t) (sub : submission) : observed :=
  let '(u, fails, vals, pre, x, evs, rep, post, raw, ordered) := c in
  {| o_pre := lookup_dir pre; o_sub := sub; o_events := evs; o_reported := rep; o_post := lookup_dir post |}.
Definition spec_ok (c : case_t) : bool :=
  let '(u, fails, vals, pre, x, evs, rep, post, raw, ordered) := c in
  match x with
  | Submit sub => step_spec_core_b u (mkobs c sub) && raw && wf_taskb (s_task sub) &&
                  (* an identity made to fail at this step never shows up as a successful execution *)
                  forallb (fun e => match e with EvRun c0 _ (Ok _) => negb (existsb (Nat.eqb c0) fails) | _ => true end) evs &&
                  (* and when nothing is made to fail, nothing fails: every execution succeeds, success is reported *)
                  (match fails with
                   | [] => forallb (fun e => match e with EvRun _ _ Err => false | _ => true end) evs && is_ok rep
                   | _ => true end)
  | Plant l c0 => true
  end.
Definition reuse_ok (c : case_t) : bool :=
  let '(u, fails, vals, pre, x, evs, rep, post, raw, ordered) := c in
  match x with Submit sub => reuse_b (mkobs c sub) | Plant _ _ => true end.
(* classifiers of the reuse failures *)
Definition not_errored_shadow (c : case_t) : bool :=
  let '(u, fails, vals, pre, x, evs, rep, post, raw, ordered) := c in
  match x with Submit sub => negb (errored_shadow (lookup_dir pre) (tid (s_task sub)) (all_caches (s_cfg sub))) | _ => true end.
Definition not_leftover_shadow (c : case_t) : bool :=
  let '(u, fails, vals, pre, x, evs, rep, post, raw, ordered) := c in
  match x with Submit sub => negb (leftover_shadow (lookup_dir pre) (tid (s_task sub)) (all_caches (s_cfg sub))) | _ => true end.
"""


def build_cases(histories, observations, pool=POOL):
    """-> (gallina cases, meta per case, problems found while translating (tie failures))"""
    cases, meta, problems = [], [], []
    for hi, (h, ob) in enumerate(zip(histories, observations)):
        if "driver_error" in ob:
            problems.append(({"history": h}, ob["driver_error"], "the history could not be driven"))
            continue
        univ = h["universe"]
        keys = [json.dumps(d) for d in univ]
        css = [ob["checksums"][k] for k in keys]
        if len(set(css)) != len(css):
            problems.append(({"history": h}, css, "two pool tasks share a checksum"))
            continue
        cs2id = {cs: i for i, cs in enumerate(css)}
        idx = lambda d: keys.index(json.dumps(d))  # noqa: E731
        intern = Interner()
        vals = [(i, intern(pool.expected(d))) for i, d in enumerate(univ)]
        u = "(%s, %s)" % (coqio.lst([str(i) for i in range(h["nlocs"])]), coqio.lst([str(i) for i in range(len(univ))]))
        before = ob["initial"]
        for k, (step, so) in enumerate(zip(h["steps"], ob["steps"])):
            pre_tab, unk0 = store_table(before, cs2id)
            post_tab, unk = store_table(so["after"], cs2id)
            info = {"history": hi, "step": k, "op": step, "pre": pre_tab, "post": post_tab, "log": so["log"],
                    "reported": so.get("reported"), "error_text": so.get("error_text"), "steps_so_far": h["steps"][: k + 1]}
            if unk:
                problems.append((info, unk, "unexpected entry in a cache location after the step"))
            try:
                events, bodies = parse_log(so["log"], cs2id, concurrent=step.get("worker") == "cf")
            except AssertionError as e:
                problems.append((info, repr(e), "hook log is not well nested"))
                before = so["after"]
                continue
            info["events"] = events
            info["bodies"] = bodies
            if step["op"] == "plant":
                st = "Plant %d %d" % (step["loc"], idx(step["desc"]))
                evs, rep, raw_same = "[]", "Err", True
            else:
                st = ("Submit {| s_task := %s; s_cfg := {| root := %d; ro := %s; prop := %s |}; s_rerun := %s |}" % (
                    task_term(step["desc"], idx, pool), step["root"], coqio.lst([str(i) for i in step["ro"]]),
                    coqio.boolean(step["prop"] if step["how"] != "call" else True), coqio.boolean(step["rerun"])))
                rep = res_term(so["reported"], intern)
                if so["reported"][0] == "err" and len(so["reported"]) > 2 and not so["reported"][2]:
                    problems.append((info, so["reported"], "a failure is reported without the recorded error "
                                     "(Result.errors is empty)", "spec"))
                # the value a hit hands over is not visible in the hook log: take the reported one for the
                # submitted task, otherwise the stored success the harness finds (none => sentinel 0)
                pre_lookup = {(l, c): s for l, c, s in pre_tab}
                ev_terms, last = [], {}
                for e in events:
                    if e[0] == "run":
                        outv = intern(e[3])
                        ev_terms.append("EvRun %d false %s" % (max(e[1], 0), "Err" if e[2] else "(Ok %d)" % outv))
                        last[e[1]] = ("err",) if e[2] else ("ok", outv)
                    else:
                        c = e[1]
                        v = 0
                        if c == idx(step["desc"]) and so["reported"][0] == "ok":
                            v = intern(so["reported"][1])
                        elif c in last:
                            v = last[c][1] if last[c][0] == "ok" else 0
                        else:
                            for l in [step["root"]] + step["ro"]:
                                s = pre_lookup.get((l, c))
                                if isinstance(s, list) and s[0] == "ok":
                                    v = intern(s[1])
                                    break
                        ev_terms.append("EvHit %d %d" % (max(c, 0), v))
                evs = coqio.lst(ev_terms)
                raw_same = all(before[l]["raw"] == so["after"][l]["raw"] and before[l]["stray"] == so["after"][l]["stray"]
                               for l in range(h["nlocs"]) if l != step["root"])
                info["raw_same"] = raw_same
                # the side-file counter of body executions must agree with the executions the hooks reported
                leaf_runs = [univ[e[1]] for e in events if e[0] == "run" and 0 <= e[1] < len(univ) and pool.is_leaf(univ[e[1]])]
                if sorted(map(json.dumps, leaf_runs)) != sorted(map(json.dumps, bodies)):
                    problems.append((info, {"bodies": bodies, "hook_runs": leaf_runs},
                                     "body execution counter disagrees with the executions reported by the hooks"))
            fails = coqio.lst([str(idx(d)) for d in step.get("fail", [])])
            cases.append("(%s, %s, %s, %s, %s, %s, %s, %s, %s, %s)" % (
                u, fails, coqio.lst(["(%d, %d)" % p for p in vals]), table_term(pre_tab, intern), st, evs, rep,
                table_term(post_tab, intern), coqio.boolean(raw_same), coqio.boolean(step.get("worker") != "cf")))
            meta.append(info)
            before = so["after"]
    return cases, meta, problems


def in_race_class(m, pool):
    """Known finding F11c: under an async worker a node job launched with rerun still has its *old* result in the
    cache root until the worker process clears it; NodeExecution.update_status / Job.done read that stale result
    and report the node finished, so a dependent node resolves its lazy input while the directory is being
    recreated ("Could not find results") — or consumes the stale value; a stale *errored* result makes Job.done
    raise and the node is moved to 'errored' while it is being re-executed.  Input class: pool worker, a workflow,
    and one of its nodes is going to be executed although a complete result for it is listed (rerun with
    propagation over its previous result in the root, or a stored failure first in the listed order).  The
    sequential model does not describe this interleaving: such steps are compared with the spec only."""
    op = m["op"]
    if op.get("op") != "submit" or op.get("worker") != "cf":
        return False
    nodes = []

    def walk(d):
        for c in pool.children(d):
            nodes.append(c)
            walk(c)

    walk(op["desc"])
    if not nodes:
        return False
    univ = [json.dumps(d) for d in pool.universe()]
    ids = {univ.index(json.dumps(d)) for d in nodes}
    pre = {(l, c): st for l, c, st in m["pre"]}
    for c in ids:
        first = None                       # the first complete result in the listed order, if any
        for l in [op["root"]] + op["ro"]:
            st = pre.get((l, c), "partial")
            if st != "partial":
                first = st
                break
        will_execute = (op["rerun"] and op["prop"]) or first is None or first == ["err"]
        # the node is executed while the scheduler process can still see something stale for it: a complete
        # result (previous run in the root, or a failure anywhere listed), or a leftover directory in the root whose
        # unloadable _result.pklz load_result is still retrying when the worker process removes the directory
        # (FileNotFoundError is not among the exceptions load_result retries on)
        if will_execute and ((op["root"], c) in pre or first == ["err"]):
            return True
    return False


def classify_reuse_failure(i, res):
    """finding id for a failing reuse check, from the Coq classifiers"""
    if i in res["cls_errored"]:       # not_errored_shadow false => in class F11b
        return "F11b"
    if i in res["cls_leftover"]:
        return "F11"
    return None


def check(ctx, histories, observations, prop, pool=POOL):
    cases, meta, problems = build_cases(histories, observations, pool)
    res = coqio.run_cases(ctx.scratch, prop.lower(), IMPORTS, "case_t", cases,
                          {"tie": "tie_ok", "spec": "spec_ok", "reuse": "reuse_ok",
                           "cls_errored": "not_errored_shadow", "cls_leftover": "not_leftover_shadow"},
                          extra=EXTRA, shard=400)
    return cases, meta, problems, res


def describe(m):
    return {"steps": m["steps_so_far"], "step_index": m["step"]}


def run(ctx, prop="C11", pool=POOL, gen=gen_history, rule=None, budget=(35, 300)):
    rng = ctx.rng
    os.makedirs(ctx.scratch.dir, exist_ok=True)   # the runner's widened context shares (and removes) this directory
    n = ctx.budget(*budget)
    histories = []
    for c in ctx.corpus():
        if "steps" in c:
            histories.append({"universe": pool.universe(), "nlocs": c.get("nlocs", 3), "steps": c["steps"]})
    while len(histories) < n:
        histories.append(gen(rng, pool))
    import time
    t0 = time.time()
    observations = run_batches(histories, module=pool.module)
    t1 = time.time()
    cases, meta, problems, res = check(ctx, histories, observations, prop, pool)
    t2 = time.time()
    out = Outcome(rule=rule or RULE)
    out.evaluations = len(cases)
    out.traces_validated = len(histories)
    seen = set()
    dist = {"histories": len(histories), "steps": len(cases), "submit": 0, "plant": 0, "rerun": 0, "no_propagate": 0,
            "with_readonly": 0, "failing_body_planned": 0, "hits_top": 0, "executions": 0, "errors_reported": 0,
            "workflow_submissions": 0, "pre_store_nonempty": 0, "how_call": 0, "how_noraise": 0, "worker_cf": 0,
            "worker_cf_nested_workflow_rerun": 0}
    for m in meta:
        op = m["op"]
        if op["op"] == "plant":
            dist["plant"] += 1
            continue
        dist["submit"] += 1
        dist["rerun"] += bool(op["rerun"])
        dist["no_propagate"] += not op["prop"]
        dist["with_readonly"] += bool(op["ro"])
        dist["failing_body_planned"] += bool(op["fail"])
        dist["workflow_submissions"] += not pool.is_leaf(op["desc"])
        dist["executions"] += sum(1 for e in m.get("events", []) if e[0] == "run")
        dist["hits_top"] += bool(m.get("events")) and m["events"][-1][0] == "hit" and len(m["events"]) == 1
        dist["errors_reported"] += m["reported"][0] == "err"
        dist["how_call"] += op["how"] == "call"
        dist["how_noraise"] += op["how"] == "noraise"
        dist["worker_cf"] += op.get("worker") == "cf"
        dist["worker_cf_nested_workflow_rerun"] += (op.get("worker") == "cf" and op["rerun"] and
                                                    any(pool.children(c) for c in pool.children(op["desc"])))
        if m["pre"]:
            dist["pre_store_nonempty"] += 1
            key = json.dumps([m["pre"], op], sort_keys=True)
            if key not in seen:
                seen.add(key)
    out.distinct_nontrivial = len(seen)
    out.distribution = dist
    out.samples = [{"step": m["op"], "store_before": m["pre"], "events": m.get("events"), "reported": m["reported"],
                    "store_after": m["post"]} for m in meta if m["op"]["op"] == "submit" and m["pre"]][:4]
    for pr in problems[:10]:
        info, observed, note = pr[:3]
        out.failures.append(Failure(case=describe(info) if "steps_so_far" in info else info, observed=observed,
                                    expected=None, note=note, kind=pr[3] if len(pr) > 3 else "tie"))
    race = {i for i, m in enumerate(meta) if in_race_class(m, pool)}
    res["tie"] = [i for i in res["tie"] if i not in race]       # outside the sequential model's domain: spec only
    dist["cf_rerun_over_stale_results"] = len(race)
    for i in res["spec"][:10]:
        m = meta[i]
        if i in race and prop != "C11":
            continue            # the race of rerun against stale results is C11's known finding F11c
        if i in race:
            out.failures.append(Failure(case=describe(m), observed={"events": m.get("events"), "reported": m["reported"],
                                                                     "error_text": m.get("error_text")},
                                        expected="nothing was made to fail: every job of the workflow executes and succeeds",
                                        kind="spec", finding="F11c",
                                        note="rerun under an async worker races with the stale results of the previous run"))
            continue
        out.failures.append(Failure(case=describe(m), observed={"events": m.get("events"), "reported": m["reported"],
                                                                 "store_before": m["pre"], "store_after": m["post"],
                                                                 "raw_unchanged_outside_root": m.get("raw_same")},
                                    expected=explain(ctx, cases[i], "spec"), kind="spec",
                                    note="step violates the reference semantics of %s (Spec.CacheSeq.step_spec_core_b)" % prop))
    for i in (res["reuse"][:30] if prop == "C11" else []):
        m = meta[i]
        fid = classify_reuse_failure(i, res)
        out.failures.append(Failure(case=describe(m), observed={"events": m.get("events"), "reported": m["reported"],
                                                                 "store_before": m["pre"]},
                                    expected="a complete successful result is listed: no execution, that result handed back",
                                    kind="spec", finding=fid,
                                    note="a listed complete result is not reused" + (" (%s)" % fid if fid else "")))
    for i in res["tie"][:10]:
        m = meta[i]
        out.failures.append(Failure(case=describe(m), observed={"events": m.get("events"), "reported": m["reported"],
                                                                 "store_after": m["post"], "error_text": m.get("error_text")},
                                    expected=explain(ctx, cases[i], "tie"), kind="tie", note="model/impl"))
    out.extra = {"wall_impl_s": round(t1 - t0, 1), "wall_coq_cases_s": round(t2 - t1, 1),
                 "reuse_failures_by_class": {"F11b": sum(1 for i in res["reuse"] if classify_reuse_failure(i, res) == "F11b"),
                                             "F11": sum(1 for i in res["reuse"] if classify_reuse_failure(i, res) == "F11"),
                                             "other": sum(1 for i in res["reuse"] if classify_reuse_failure(i, res) is None)}}
    return out


def explain(ctx, case, kind):
    """model / spec values for one case, for the replay file"""
    try:
        terms = ["""let '(u, fails, vals, pre, x, evs, rep, post, raw, ordered) := %s in
                 match x with
                 | Submit sub => let '(s1, mevs, mrep) := submit (mkworld fails vals) (s_cfg sub) (s_rerun sub) (s_task sub) (mkstate pre) in
                                 (map erase mevs, mrep, map (fun l => map (fun c => (l, c, st s1 l c)) (snd u)) (fst u))
                 | Plant l c => ([], Err, map (fun l' => map (fun c' => (l', c', st (plant (mkstate pre) l c) l' c')) (snd u)) (fst u))
                 end""" % case]
        if kind == "spec":
            terms.append("""let c := %s in let '(u, fails, vals, pre, x, evs, rep, post, raw, ordered) := c in
                 match x with Submit sub => let o := mkobs c sub in
                   [("once"%%string, once_b o); ("rerun"%%string, rerun_b o); ("readonly"%%string, readonly_b u o && raw); ("written"%%string, written_b u o);
                    ("not_served"%%string, not_served_b o); ("reported"%%string, reported_b o); ("reuse"%%string, reuse_b o)]
                 | _ => [] end""" % case)
        vals = coqio.eval_terms(ctx.scratch, "explain%d" % abs(hash(case)), IMPORTS, terms, extra=EXTRA)
        return {"model (events as (id, 0 hit|1 ok|2 err), reported, store)": vals[0],
                **({"spec conjuncts": vals[1]} if kind == "spec" else {})}
    except Exception as e:  # pragma: no cover
        return "could not evaluate: %r" % e


def replay(ctx, payload, pool=POOL, prop="C11"):
    c = payload["case"]
    h = {"universe": pool.universe(), "nlocs": 3, "steps": c["steps"]}
    obs = run_batches([h], module=pool.module)
    cases, meta, problems, res = check(ctx, [h], obs, prop, pool)
    for m in meta:
        print("step %d: %s" % (m["step"], json.dumps(m["op"])))
        print("  implementation: events=%s reported=%s" % (m.get("events"), m["reported"]))
        print("  store after   : %s" % m["post"])
    i = len(cases) - 1
    print("model :", explain(ctx, cases[i], "spec"))
    print("failing checks at the last step: ", {k: (i in v) for k, v in res.items()})
    for p in problems:
        print("problem:", p[2], p[1])
