(* Proofs/Nested.v — lemmas for C04 (nested containers). *)
From Pydra Require Import Base.Prelude Model.Nested Spec.Nested.
Local Open Scope nat_scope.

(* ------------------------------------------------------------------ generic list facts *)

Lemma sequence_map_Some {A} (l : list A) : sequence (map Some l) = Some l.
Proof. induction l as [|x l IH]; cbn; [reflexivity| now rewrite IH]. Qed.

Lemma sequence_length {A} (l : list (option A)) r : sequence l = Some r -> List.length r = List.length l.
Proof.
  revert r. induction l as [|[x|] l IH]; cbn; intros r H.
  - inversion H; reflexivity.
  - destruct (sequence l) as [r'|]; [|discriminate]. inversion H; subst. cbn. now rewrite (IH r').
  - discriminate.
Qed.

Lemma map_nth_error_seq {A} (xs : list A) :
  map (nth_error xs) (seq 0 (List.length xs)) = map Some xs.
Proof.
  induction xs as [|a xs IH]; [reflexivity|].
  cbn [List.length seq map nth_error]. f_equal.
  rewrite <- seq_shift, map_map. exact IH.
Qed.

Lemma length_flat_map_const {A B} (g : A -> list B) k l :
  Forall (fun v => List.length (g v) = k) l -> List.length (flat_map g l) = List.length l * k.
Proof.
  induction 1 as [|v l Hv _ IH]; [reflexivity|].
  cbn [flat_map List.length]. rewrite app_length, Hv, IH. lia.
Qed.

Lemma nat_list_eqb_eq a b : list_eqb Nat.eqb a b = true <-> a = b.
Proof. apply list_eqb_spec. intros; apply Nat.eqb_eq. Qed.

(* pairing two index lists that enumerate X and Y enumerates the product / the zip of X and Y *)
Definition pairup {A B} (f : nat -> option A) (g : nat -> option B) (p : nat * nat) : option (A * B) :=
  match f (fst p), g (snd p) with Some a, Some b => Some (a, b) | _, _ => None end.

Lemma pairup_row {A B} (f : nat -> option A) (g : nat -> option B) i a iy Y :
  f i = Some a -> map g iy = map Some Y ->
  map (pairup f g) (map (fun y => (i, y)) iy) = map Some (map (fun y => (a, y)) Y).
Proof.
  intros Hi. revert Y. induction iy as [|j iy IH]; intros [|b Y] H; try discriminate; [reflexivity|].
  cbn in H. inversion H as [[Hj Hr]]. cbn [map]. rewrite (IH Y Hr).
  unfold pairup at 1; cbn [fst snd]. now rewrite Hi, Hj.
Qed.

Lemma pairup_prod {A B} (f : nat -> option A) (g : nat -> option B) ix X iy Y :
  map f ix = map Some X -> map g iy = map Some Y ->
  map (pairup f g) (list_prod ix iy) = map Some (list_prod X Y).
Proof.
  intros HX HY. revert X HX. induction ix as [|i ix IH]; intros [|a X] HX; try discriminate; [reflexivity|].
  cbn in HX. inversion HX as [[Hi Hr]].
  cbn [list_prod]. rewrite !map_app, (IH X Hr). f_equal. now apply pairup_row.
Qed.

Lemma pairup_combine {A B} (f : nat -> option A) (g : nat -> option B) ix X iy Y :
  map f ix = map Some X -> map g iy = map Some Y ->
  map (pairup f g) (combine ix iy) = map Some (combine X Y).
Proof.
  intros HX. revert X HX iy Y. induction ix as [|i ix IH]; intros [|a X] HX; try discriminate; [reflexivity|].
  cbn in HX. inversion HX as [[Hi Hr]].
  intros [|j iy] [|b Y] HY; try discriminate; [reflexivity|].
  cbn in HY. inversion HY as [[Hj Hr']].
  cbn [combine map]. rewrite (IH X Hr iy Y Hr'). unfold pairup at 1; cbn [fst snd]. now rewrite Hi, Hj.
Qed.

(* ------------------------------------------------------------------ flatten = elements at depth *)

Lemma elements_leaf n z : elements_at_depth n (Leaf z) = [Leaf z].
Proof. destruct n; reflexivity. Qed.

Lemma flatten_spec n : forall l, flatten n l = elements_at_depth n (Node l).
Proof.
  induction n as [|n IH]; intros l; [reflexivity|].
  cbn [flatten elements_at_depth]. apply flat_map_ext. intros [z|ch].
  - now rewrite elements_leaf.
  - apply IH.
Qed.

(* ------------------------------------------------------------------ rectangular values (spec level) *)

Lemma rectangular_node n v : rectangular (S n) v -> exists l, v = Node l.
Proof. destruct v as [z|l]; cbn; [tauto| now exists l]. Qed.

Lemma prod_dims n : forall v, rectangular n v -> prod (dims n v) = List.length (elements_at_depth n v).
Proof.
  induction n as [|n IH]; intros v R; [reflexivity|].
  destruct v as [z|l]; [destruct R|]. destruct R as [RF RD].
  cbn [dims elements_at_depth].
  destruct l as [|c r]; [reflexivity|].
  set (l := c :: r) in *.
  rewrite (length_flat_map_const (elements_at_depth n) (prod (dims n c)) l).
  - reflexivity.
  - rewrite Forall_forall in *. intros c' Hc'. rewrite <- (IH c' (RF c' Hc')).
    now rewrite (RD c' c Hc' (or_introl eq_refl)).
Qed.

Lemma rectangularb_spec n : forall v, rectangularb n v = true <-> rectangular n v.
Proof.
  induction n as [|n IH]; intros v; cbn [rectangularb rectangular]; [tauto|].
  destruct v as [z|l]; [split; [discriminate|tauto]|].
  rewrite andb_true_iff, forallb_forall, Forall_forall.
  split.
  - intros [HF HD]. split; [intros c Hc; apply IH, HF, Hc|].
    destruct l as [|c0 r]; [intros c c' []|].
    rewrite forallb_forall in HD.
    assert (E : forall c, In c (c0 :: r) -> dims n c = dims n c0).
    { intros c [<-|Hc]; [reflexivity|]. symmetry. apply nat_list_eqb_eq, HD, Hc. }
    intros c c' Hc Hc'. now rewrite (E c Hc), (E c' Hc').
  - intros [HF HD]. split; [intros c Hc; apply IH, HF, Hc|].
    destruct l as [|c0 r]; [reflexivity|].
    apply forallb_forall. intros c' Hc'. apply nat_list_eqb_eq.
    apply HD; [left; reflexivity| right; exact Hc'].
Qed.

(* ------------------------------------------------------------------ the input_shape loop *)

Definition all_shape (f : list value -> list nat) (s : list nat) (l : list value) : Prop :=
  Forall (fun v => exists ch, v = Node ch /\ f ch = s) l.

Lemma scan_Some_intro f s l : all_shape f s l -> scan f (Some s) l = Some s.
Proof.
  induction 1 as [|v l [ch [-> E]] _ IH]; [reflexivity|].
  cbn [scan]. rewrite E. now rewrite (proj2 (nat_list_eqb_eq s s) eq_refl).
Qed.

Lemma scan_Some_inv f s0 l s : scan f (Some s0) l = Some s -> s = s0 /\ all_shape f s0 l.
Proof.
  induction l as [|[z|ch] l IH]; cbn [scan]; intros H.
  - inversion H; split; [reflexivity|constructor].
  - discriminate.
  - destruct (list_eqb Nat.eqb s0 (f ch)) eqn:E; [|discriminate].
    apply nat_list_eqb_eq in E. destruct (IH H) as [-> Hl]. split; [reflexivity|].
    constructor; [exists ch; auto|exact Hl].
Qed.

Lemma scan_None_inv f l s :
  scan f None l = Some s -> exists ch r, l = Node ch :: r /\ f ch = s /\ all_shape f s (Node ch :: r).
Proof.
  destruct l as [|[z|ch] r]; cbn [scan]; try discriminate.
  intros H. destruct (scan_Some_inv _ _ _ _ H) as [-> Hr].
  exists ch, r. split; [reflexivity|]. split; [reflexivity|].
  constructor; [exists ch; auto|exact Hr].
Qed.

(* the shape of a rectangular value is its dimension vector *)
Lemma shape_rec_rect c : forall l, rectangular (S c) (Node l) -> shape_rec c l = dims (S c) (Node l).
Proof.
  induction c as [|c IH]; intros l R.
  - cbn. destruct l; reflexivity.
  - destruct R as [RF RD]. cbn [shape_rec].
    destruct l as [|v r]; [reflexivity|].
    rewrite Forall_forall in RF.
    destruct (rectangular_node c v (RF v (or_introl eq_refl))) as [ch ->].
    cbn [scan].
    rewrite (scan_Some_intro (shape_rec c) (shape_rec c ch) r).
    + cbn [dims]. rewrite (IH ch (RF _ (or_introl eq_refl))). reflexivity.
    + apply Forall_forall. intros v' Hv'.
      destruct (rectangular_node c v' (RF v' (or_intror Hv'))) as [ch' ->].
      exists ch'. split; [reflexivity|].
      rewrite (IH ch' (RF _ (or_intror Hv'))), (IH ch (RF _ (or_introl eq_refl))).
      apply RD; [right; exact Hv'| left; reflexivity].
Qed.

Lemma input_shape_rect n l :
  1 <= n -> rectangular n (Node l) -> input_shape l n = dims n (Node l).
Proof.
  intros Hn R. destruct n as [|c]; [lia|]. unfold input_shape.
  replace (S c - 1) with c by lia. now apply shape_rec_rect.
Qed.

(* ------------------------------------------------------------------ one field *)

Lemma split1_iff_count n l :
  split1 (Some n) l = Jobs (elements_at_depth n (Node l)) <->
  prod (input_shape l n) = List.length (flatten n l).
Proof.
  unfold split1, single_ind, get_elem, range. cbn [ndim_shape ndim_flat].
  rewrite <- flatten_spec. split.
  - intros H.
    destruct (sequence (map (nth_error (flatten n l)) (seq 0 (prod (input_shape l n))))) as [r|] eqn:E;
      [|discriminate].
    inversion H; subst r. apply sequence_length in E. rewrite map_length, seq_length in E. lia.
  - intros ->. now rewrite map_nth_error_seq, sequence_map_Some.
Qed.

Lemma split1_rect n l :
  1 <= n -> rectangular n (Node l) -> split1 (Some n) l = Jobs (elements_at_depth n (Node l)).
Proof.
  intros Hn R. apply split1_iff_count.
  rewrite (input_shape_rect n l Hn R), (prod_dims n _ R). now rewrite flatten_spec.
Qed.

(* a field without a container_ndim entry behaves like container dimension 1 *)
Lemma split1_default l : split1 None l = split1 (Some 1) l.
Proof. reflexivity. Qed.

(* the pinned code drops the element 3 of [[1,2],[3]] *)
Definition witness : list value := [Node [Leaf 1; Leaf 2]; Node [Leaf 3]]%Z.
Lemma witness_drops : split1 (Some 2) witness = Jobs [Leaf 1; Leaf 2]%Z.
Proof. vm_compute. reflexivity. Qed.
Lemma witness_elements : elements_at_depth 2 (Node witness) = [Leaf 1; Leaf 2; Leaf 3]%Z.
Proof. vm_compute. reflexivity. Qed.

Lemma single_refuted :
  ~ (forall n l, 1 <= n -> single_ok n (Node l) (split1 (Some n) l)).
Proof.
  intros H. specialize (H 2 witness ltac:(lia)). unfold single_ok in H.
  rewrite witness_drops, witness_elements in H. discriminate.
Qed.
