(* C28 — Batch-scheduler workers follow the scheduler's verdict. *)
From Pydra Require Import Base.Prelude Model.Batch Spec.Batch Proofs.Batch.

(* SLURM, the verdict at full strength: for every pair of answer streams (squeue, sacct), every error
   file, with or without --no-requeue, and any status lists that say what the statement's classes say *)
Definition C28_full_statement : Prop :=
  forall sl st, lists_agree sl st ->
  forall norequeue errfile sq sa,
    let '(v, t) := poll_loop sl norequeue errfile sq sa in
    (outcome_of v, count_requeues t) = decide (negb norequeue) (reports st sq sa).

(* refuted: with --no-requeue a cancelled / timed-out / preempted job is reported complete *)
Theorem C28_refuted_norequeue_reported_complete : ~ C28_full_statement.
Proof. exact refuted_norequeue_reported_complete. Qed.
Print Assumptions C28_refuted_norequeue_reported_complete.

(* the verdict for EVERY answer stream when requeueing is allowed (excluded class: --no-requeue):
   complete iff the first decisive report is COMPLETED with exit 0, failed iff it is another final state,
   one scontrol requeue per interruption before it, still waiting when the answers run out *)
Theorem C28_slurm_verdict : forall sl st, lists_agree sl st ->
  forall errfile sq sa,
    let '(v, t) := poll_loop sl false errfile sq sa in
    (outcome_of v, count_requeues t) = decide true (reports st sq sa).
Proof. exact verdict_requeue. Qed.
Print Assumptions C28_slurm_verdict.

(* with --no-requeue: the same verdict, except exactly the refuted case *)
Theorem C28_slurm_verdict_norequeue : forall sl st, lists_agree sl st ->
  forall errfile sq sa,
    let '(v, t) := poll_loop sl true errfile sq sa in
    (outcome_of v, count_requeues t) = decide false (reports st sq sa) \/
    (decide false (reports st sq sa) = (OInterruptedNoRequeue, 0) /\ v = Complete /\ count_requeues t = 0).
Proof. exact verdict_norequeue. Qed.
Print Assumptions C28_slurm_verdict_norequeue.

(* requeued, never failed, on cancellation / timeout / preemption *)
Theorem C28_interrupted_never_failed : forall sl st, lists_agree sl st ->
  forall errfile sq sa,
    Forall (fun r => r = Some Active \/ r = Some Interrupted) (reports st sq sa) ->
    let '(v, t) := poll_loop sl false errfile sq sa in
    v = StillPolling /\
    count_requeues t = List.length (filter (fun r => match r with Some Interrupted => true | _ => false end) (reports st sq sa)).
Proof. exact interrupted_never_failed. Qed.
Print Assumptions C28_interrupted_never_failed.

(* the verdict on RAW scheduler text: sacct's stdout is parsed by the model of _sacct_re; for every stream of
   accounting answers that are empty or a printed accounting line (job id, blanks, state word, optional '+',
   blanks, code:signal, anything) the verdict is the one the text's state word and exit code call for *)
Theorem C28_slurm_verdict_raw : forall sl st, lists_agree sl st ->
  forall errfile sq answers,
    forallb (fun a => match a with None => true | Some l => wf_line l end) answers = true ->
    let '(v, t) := poll_loop sl false errfile sq (map parse_sacct (map render_ans answers)) in
    (outcome_of v, count_requeues t) = decide true (reports st sq (map ans_of answers)).
Proof. exact verdict_raw. Qed.
Print Assumptions C28_slurm_verdict_raw.

Theorem C28_parse_rendered : forall l, wf_line l = true -> parse_sacct (render_line l) = ans_of (Some l).
Proof. exact parse_rendered. Qed.
Print Assumptions C28_parse_rendered.

(* outside that language: an untruncated "CANCELLED by <uid>" is read as status <uid> => failed, not requeued *)
Theorem C28_refuted_cancelled_by :
  parse_sacct "123  CANCELLED by 1000  0:0" = SaLine "1000" 0 /\
  fst (poll_loop sl0 false (Some ["x"; "Exception: boom"; ""]%string) [{| sq_stdout := ""; sq_stderr := "" |}]
                 [parse_sacct "123  CANCELLED by 1000  0:0"]) = Failed "boom" /\
  classify st0 (SaLine "CANCELLED" 0) = Interrupted.
Proof. exact refuted_cancelled_by. Qed.
Print Assumptions C28_refuted_cancelled_by.

Theorem C28_submit_errors : forall sl c s,
  (sb_rc s <> 0 -> slurm_run sl c s = (sbatch_argv c, SubmitError, [])) /\
  (sb_rc s = 0 -> first_digits (sb_stdout s) = None -> slurm_run sl c s = (sbatch_argv c, NoJobId, [])).
Proof. exact submit_errors. Qed.
Print Assumptions C28_submit_errors.

(* user options: shape of the sbatch vector for every argument string … *)
Theorem C28_sbatch_argv_shape : forall c,
  exists defaults, sbatch_argv c = (split_ws (sc_args c) ++ defaults ++ [sc_batch_script c])%list /\
    forall d, In d defaults ->
      (d = String.append "--job-name=" (sc_default_name c) /\ find_opt "-J" "--job-name=" (sc_args c) = None) \/
      (d = String.append "--output=" (String.append (sc_script_dir c) "/slurm-%j.out") /\ find_opt "-o" "--output=" (sc_args c) = None) \/
      (d = String.append "--error=" (String.append (sc_script_dir c) "/slurm-%j.err") /\ find_opt "-e" "--error=" (sc_args c) = None).
Proof. exact sbatch_argv_shape. Qed.
Print Assumptions C28_sbatch_argv_shape.

(* … and for EVERY list of clean tokens in the forms the code handles (forms_ok: no "-Xvalue", no bare
   "--long value", no token with the short name as a proper suffix or "--long=" inside): the vector is the user's
   tokens, then the worker's default for exactly those options the user did not give, then the script.  So each
   option the user gave stays exactly as often as given, and a default is added only when the user gave none. *)
Theorem C28_options_general : forall toks name dir script,
  forallb clean toks = true -> forms_ok toks = true ->
  sbatch_argv {| sc_args := join_sp toks; sc_default_name := name; sc_script_dir := dir; sc_batch_script := script |} =
  (toks ++ (if Nat.eqb (occurrences KName toks) 0 then [String.append "--job-name=" name] else [])
        ++ (if Nat.eqb (occurrences KOut toks) 0 then [String.append "--output=" (String.append dir "/slurm-%j.out")] else [])
        ++ (if Nat.eqb (occurrences KErr toks) 0 then [String.append "--error=" (String.append dir "/slurm-%j.err")] else [])
        ++ [script])%list.
Proof. exact options_general. Qed.
Print Assumptions C28_options_general.

(* … but not outside forms_ok: "--job-name name" (and "-Jname") get a second option appended *)
Theorem C28_refuted_option_form : ~ options_statement.
Proof. exact refuted_option_form. Qed.
Print Assumptions C28_refuted_option_form.

(* the pinned tree crashed in run() when the user gave an error option; the current model polls and reads the user's file *)
Theorem C28_pinned_refuted_user_error_option :
  slurm_run_pinned sl0 ctx_e sched_ok = (["-e"; "/tmp/my-%j.err"; "--job-name=add.uid"; "--output=/c/slurm_scripts/uid/slurm-%j.out";
                                           "/c/slurm_scripts/uid/batchscript_uid.sh"]%string, Crash, []) /\
  slurm_run sl0 ctx_e sched_ok = (["-e"; "/tmp/my-%j.err"; "--job-name=add.uid"; "--output=/c/slurm_scripts/uid/slurm-%j.out";
                                    "/c/slurm_scripts/uid/batchscript_uid.sh"]%string, Complete, [CSqueue; CSacct]) /\
  error_file ctx_e "123" = "/tmp/my-123.err"%string.
Proof. exact pinned_refuted_user_error_option. Qed.
Print Assumptions C28_pinned_refuted_user_error_option.

(* SGE accounting: evicted / failed entries mean ERRORED (resubmit), "job id not found" means still pending *)
Theorem C28_sge_verify : forall nf1 rs1 nf2 rs2,
  forallb clean_record rs1 = true -> forallb clean_record rs2 = true ->
  sge_verify (answer_of nf1 rs1) (answer_of nf2 rs2) =
  match rs1 with
  | [] => sge_spec (negb nf2) (map kv rs2)
  | _ => sge_spec (negb nf1) (map kv rs1)
  end.
Proof. exact sge_verify_spec. Qed.
Print Assumptions C28_sge_verify.
