(* Proofs/ShellCmdline.v — C24: pydra's cmdline rendering (quotes added only around arguments containing a blank)
   re-splits to the argument vector on the stated class of vectors, and does not in general. *)
From Pydra Require Import Base.Prelude Base.Shlex Model.Shell Spec.Shell Proofs.Shlex.
Local Open Scope char_scope.
Local Open Scope list_scope.

Lemma bare_word_inv a : bare_word a = true -> exists c w, a = c :: w /\ plain_char c = true /\ forallb plain_char w = true.
Proof.
  unfold bare_word. destruct a as [|c w]; cbn; [discriminate|].
  intros H. apply andb_true_iff in H as [H1 H2]. eauto.
Qed.

Lemma emits_rev_nonempty c w qd : emits (rev (c :: w)) qd = true.
Proof.
  unfold emits. cbn [rev]. destruct (rev w ++ [c]) eqn:E; [|reflexivity].
  apply app_eq_nil in E as [_ E]. discriminate E.
Qed.

Lemma lex_cmdline_rest rest : forallb c24_arg_ok rest = true -> forall tok qd acc,
  emits tok qd = true ->
  lex (flat_map (fun a => " " :: cmdline_arg a) rest) SWord tok qd acc = Ok (rev acc ++ rev tok :: rest).
Proof.
  induction rest as [|a rest IH]; intros H tok qd acc He.
  - cbn [flat_map lex]. unfold emits in He. rewrite He. cbn [rev]. reflexivity.
  - cbn [forallb] in H. apply andb_true_iff in H as [Ha Hr].
    cbn [flat_map]. rewrite <- app_comm_cons. cbn [lex is_ws]. unfold emits in He. rewrite He.
    unfold c24_arg_ok in Ha. unfold cmdline_arg. destruct (has_space a) eqn:S.
    + assert (E : sq :: a ++ [sq] = always_quote a) by (unfold always_quote; now rewrite esc_no_sq).
      rewrite E, lex_always_quote. rewrite IH; [|assumption|unfold emits; apply orb_true_r].
      rewrite rev_involutive. cbn [rev]. rewrite <- app_assoc. reflexivity.
    + destruct (bare_word_inv a Ha) as (c & w & -> & Hc & Hw).
      rewrite lex_plain_start by assumption.
      rewrite IH; [|assumption|apply emits_rev_nonempty].
      rewrite rev_involutive. cbn [rev]. rewrite <- app_assoc. reflexivity.
Qed.

Theorem cmdline_resplits : forall args, c24_in_domain args = true -> split_la (cmdline_render args) = Ok args.
Proof.
  intros [|a0 rest]; cbn [c24_in_domain]; [discriminate|].
  intros H. apply andb_true_iff in H as [H0 Hr].
  destruct (bare_word_inv a0 H0) as (c & w & -> & Hc & Hw).
  unfold split_la, cmdline_render. rewrite lex_plain_start by assumption.
  rewrite lex_cmdline_rest; [|assumption|apply emits_rev_nonempty].
  rewrite rev_involutive. reflexivity.
Qed.

Theorem task_cmdline_resplits : forall fm e fields vals app argv cl,
  task_argv fm e fields vals app = Good argv ->
  task_cmdline fm e fields vals app = Good cl ->
  c24_in_domain argv = true ->
  split_la cl = Ok argv.
Proof.
  intros fm e fields vals app argv cl Ha Hc Hd. unfold task_cmdline in Hc. rewrite Ha in Hc. cbn in Hc.
  injection Hc as <-. now apply cmdline_resplits.
Qed.

(* the displayed line is never anything else than the rendering of the executed vector *)
Lemma task_cmdline_is_render : forall fm e fields vals app argv,
  task_argv fm e fields vals app = Good argv ->
  task_cmdline fm e fields vals app = Good (cmdline_render argv).
Proof. intros. unfold task_cmdline. rewrite H. reflexivity. Qed.

Definition L := la_of.
Theorem cmdline_refuted : ~ C24_statement.
Proof.
  intros H.
  specialize (H Functional (EList [L "echo"; L "it's"]) [] [] (AppList [])
                [L "echo"; L "it's"] (L "echo it's") eq_refl eq_refl).
  vm_compute in H. discriminate H.
Qed.

(* a second witness of a different kind: no error, but a different vector (the glob character is kept, the double
   quotes are eaten) *)
Example cmdline_refuted_silent :
  split_la (cmdline_render [L "echo"; L "say ""hi"""; L """x"""]) = Ok [L "echo"; L "say ""hi"""; L "x"].
Proof. vm_compute. reflexivity. Qed.
