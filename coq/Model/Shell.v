(* Model/Shell.v — how pydra builds the argument vector and the displayed command line of a shell task.
   Follows, defects included:
     pydra/compose/shell/builder.py   define (implicit positions) / remaining_positions
     pydra/compose/base/helpers.py    extract_fields_from_class (class form: fields come from dir(), i.e. sorted by name)
     pydra/compose/shell/task.py      ShellTask._command_args, _command_pos_args, _format_arg, split_cmd, cmdline,
                                      append_args_converter
     pydra/compose/shell/templating.py argstr_formatting (str.format + bracket clean-up + strip)
     pydra/utils/general.py           position_sort (bisect.insort)
   No proofs here.  Strings are [la] = list ascii (bytes, UTF-8).                                                   *)
From Pydra Require Import Base.Prelude Base.Shlex.
From Coq Require Import DecimalString.
Local Open Scope char_scope.
Local Open Scope list_scope.

(* ------------------------------------------------------------------ byte-string helpers (Python str methods) *)
Definition la_eqb (a b : la) : bool := list_eqb Ascii.eqb a b.
Definition starts_with (p s : la) : bool := is_prefix Ascii.eqb p s.
Definition ends_with (suf s : la) : bool := starts_with (rev suf) (rev s).
Definition has_char (c : ascii) (s : la) : bool := existsb (Ascii.eqb c) s.

(* str.replace(pat, rep) for a non-empty pat: leftmost, non-overlapping. [skip] = characters of a match still to drop *)
Fixpoint repl (pat rep s : la) (skip : nat) : la :=
  match s with
  | [] => []
  | c :: r =>
      match skip with
      | S k => repl pat rep r k
      | O => if starts_with pat s then rep ++ repl pat rep r (List.length pat - 1) else c :: repl pat rep r 0
      end
  end.
Definition replace_all (pat rep s : la) : la := repl pat rep s 0.

(* does pat occur in s *)
Fixpoint occurs (pat s : la) : bool :=
  match s with
  | [] => match pat with [] => true | _ => false end
  | _ :: r => starts_with pat s || occurs pat r
  end.

Fixpoint join_sep (sep : la) (l : list la) : la :=
  match l with [] => [] | [a] => a | a :: r => a ++ sep ++ join_sep sep r end.

(* characters removed by str.strip() that can occur in a byte string: space \t \n \v \f \r and 0x1c-0x1f *)
Definition py_ws (c : ascii) : bool :=
  let n := nat_of_ascii c in ((n =? 32) || ((9 <=? n) && (n <=? 13)) || ((28 <=? n) && (n <=? 31)))%nat.
Fixpoint lstrip (s : la) : la := match s with [] => [] | c :: r => if py_ws c then lstrip r else s end.
Definition strip (s : la) : la := rev (lstrip (rev (lstrip s))).

Definition ellipsis : la := ["."; "."; "."].
Definition lbrace : ascii := "{".
Definition rbrace : ascii := "}".

(* ------------------------------------------------------------------ errors *)
Inductive err :=
| ENoClosingQuote | ENoEscaped        (* ValueError from shlex.split inside split_cmd / append_args *)
| EFormat                             (* str.format failed on the built string (stray or unknown braces) *)
| EOverlap                            (* define: "Multiple fields have the overlapping positions" *)
| EUnsupported.                       (* outside what is modelled; the generator must never reach it *)
Inductive result (A : Type) := Good (a : A) | Bad (e : err).
Arguments Good {A} a. Arguments Bad {A} e.
Definition bind {A B} (r : result A) (f : A -> result B) : result B :=
  match r with Good a => f a | Bad e => Bad e end.
Fixpoint map_result {A B} (f : A -> result B) (l : list A) : result (list B) :=
  match l with
  | [] => Good []
  | x :: r => bind (f x) (fun y => bind (map_result f r) (fun ys => Good (y :: ys)))
  end.
Definition of_lex (r : res) : result (list la) :=
  match r with Ok l => Good l | ErrNoClosingQuote => Bad ENoClosingQuote | ErrNoEscaped => Bad ENoEscaped end.

(* ------------------------------------------------------------------ definitions and values *)
Inductive ty := TBool | TStr | TInt | TFloat | TPath | TList | TMulti
  | TOpt (t : ty).                                      (* t | None  (Optional[t]) *)
(* pydra.utils.typing.optional_type: _command_pos_args classifies the field on
   `tp = optional_type(fld.type) if is_optional(fld.type) else fld.type`; is_multi_input unwraps in the same way *)
Definition optional_type (t : ty) : ty := match t with TOpt u => u | _ => t end.
   (* TPath: pathlib.Path or a fileformats File (both rendered by str()); TList: list[...]/tuple; TMulti: MultiInputObj[...] *)
Inductive atom :=
| AStr (s : la) | AInt (z : Z) | AFloat (repr : la) (nonzero : bool)   (* str(float) is taken from Python *)
| APath (s : la).
Inductive value := VNone | VBool (b : bool) | VAtom (a : atom) | VList (l : list atom).
   (* values as _command_args receives them, i.e. after the attrs converters (a MultiInputObj is always a list) *)

Record field := mkField {
  f_name : la; f_ty : ty;
  f_argstr : option la;      (* None = not part of the command *)
  f_pos : option Z;
  f_sep : la }.
Inductive form := Functional | ClassForm.
Inductive exe := EStr (s : la) | EList (l : list la).
Inductive appargs := AppStr (s : la) | AppList (l : list la).

Definition render_atom (a : atom) : la :=           (* str(value) *)
  match a with
  | AStr s => s
  | AInt z => la_of (NilZero.string_of_int (Z.to_int z))
  | AFloat r _ => r
  | APath s => s
  end.
Definition truthy_atom (a : atom) : bool :=         (* bool(value) *)
  match a with
  | AStr s => negb (match s with [] => true | _ => false end)
  | AInt z => negb (Z.eqb z 0)
  | AFloat _ nz => nz
  | APath _ => true
  end.

(* ------------------------------------------------------------------ define: implicit positions *)
Fixpoint la_ltb (a b : la) : bool :=                (* str < str *)
  match a, b with
  | _, [] => false
  | [], _ :: _ => true
  | x :: a', y :: b' => (nat_of_ascii x <? nat_of_ascii y)%nat || (Ascii.eqb x y && la_ltb a' b')
  end.
Fixpoint insert_by_name (f : field) (l : list field) : list field :=
  match l with
  | [] => [f]
  | g :: r => if la_ltb (f_name f) (f_name g) then f :: l else g :: insert_by_name f r
  end.
Definition sort_by_name (l : list field) : list field := fold_right insert_by_name [] l.

(* the order in which define() walks the fields when it hands out positions *)
Definition builder_order (fm : form) (fields : list field) : list field :=
  match fm with Functional => fields | ClassForm => sort_by_name fields end.

Local Open Scope Z_scope.
Definition num_args (fields : list field) : Z := Z.of_nat (List.length fields) + 1.   (* + executable, - append_args *)
Definition slot (n p : Z) : Z := if p <? 0 then n + p else p.
Definition used_slots (fields : list field) : list Z :=
  0 :: flat_map (fun f => match f_pos f with Some p => [slot (num_args fields) p] | None => [] end) fields.
Definition zmem (x : Z) (l : list Z) : bool := existsb (Z.eqb x) l.
Fixpoint has_dup (l : list Z) : bool :=
  match l with [] => false | x :: r => zmem x r || has_dup r end.
Definition free_slots (fields : list field) : list Z :=
  filter (fun i => negb (zmem i (used_slots fields))) (map Z.of_nat (seq 0 (List.length fields + 1))).
Definition set_pos (f : field) (p : Z) : field :=
  mkField (f_name f) (f_ty f) (f_argstr f) (Some p) (f_sep f).
Fixpoint assign (fields : list field) (free : list Z) : result (list field) :=
  match fields with
  | [] => Good []
  | f :: r =>
      match f_pos f with
      | Some _ => bind (assign r free) (fun r' => Good (f :: r'))
      | None => match free with
                | p :: free' => bind (assign r free') (fun r' => Good (set_pos f p :: r'))
                | [] => Bad EUnsupported        (* position_stack.pop(0) on an empty list: cannot happen *)
                end
      end
  end.
(* fields of the built class, each with its final position, in the order define() visited them *)
Definition define (fm : form) (fields : list field) : result (list field) :=
  if has_dup (used_slots fields) then Bad EOverlap
  else assign (builder_order fm fields) (free_slots fields).
Local Close Scope Z_scope.

(* ------------------------------------------------------------------ str.format for plain {name} fields *)
Definition is_digit (c : ascii) : bool := let n := nat_of_ascii c in ((48 <=? n) && (n <=? 57))%nat.
Definition ident_start (c : ascii) : bool :=
  let n := nat_of_ascii c in (((65 <=? n) && (n <=? 90)) || ((97 <=? n) && (n <=? 122)) || (n =? 95))%nat.
Definition ident_char (c : ascii) : bool := ident_start c || is_digit c.
Definition valid_ident (s : la) : bool :=
  match s with [] => false | c :: r => ident_start c && forallb ident_char r end.

(* name = None: copying literal text; Some acc: inside {...}, acc is the reversed field name read so far *)
Fixpoint fmt (env : la -> result la) (s : la) (name : option la) : result la :=
  match s with
  | [] => match name with None => Good [] | Some _ => Bad EFormat end
  | c :: r =>
      match name with
      | None =>
          if Ascii.eqb c lbrace then
            match r with
            | c2 :: r' => if Ascii.eqb c2 lbrace then bind (fmt env r' None) (fun t => Good (lbrace :: t))
                          else fmt env r (Some [])
            | [] => Bad EFormat
            end
          else if Ascii.eqb c rbrace then
            match r with
            | c2 :: r' => if Ascii.eqb c2 rbrace then bind (fmt env r' None) (fun t => Good (rbrace :: t))
                          else Bad EFormat
            | [] => Bad EFormat
            end
          else bind (fmt env r None) (fun t => Good (c :: t))
      | Some acc =>
          if Ascii.eqb c rbrace then
            if valid_ident (rev acc)
            then bind (env (rev acc)) (fun v => bind (fmt env r None) (fun t => Good (v ++ t)))
            else Bad EFormat            (* lookups, conversions, format specs, positional fields: not modelled *)
          else fmt env r (Some (c :: acc))
      end
  end.

Definition vals_t := list (la * value).
Fixpoint lookup (vals : vals_t) (n : la) : value :=
  match vals with [] => VNone | (k, v) :: r => if la_eqb k n then v else lookup r n end.

Definition py_true : la := la_of "True".
Definition py_false : la := la_of "False".
(* values.get(n, "") as rendered by format(); a list would be rendered by repr(list): not modelled *)
Definition env_of (vals : vals_t) (n : la) : result la :=
  match lookup vals n with
  | VNone => Good []
  | VBool b => Good (if b then py_true else py_false)
  | VAtom a => Good (render_atom a)
  | VList _ => Bad EUnsupported
  end.

Definition bracket_fix (s : la) : la :=
  strip (replace_all [","; "]"] ["]"] (replace_all ["["; ","] ["["]
        (replace_all [" "; "]"] ["]"] (replace_all ["["; " "] ["["] s)))).
Definition argstr_formatting (argstr : la) (vals : vals_t) : result la :=
  bind (fmt (env_of vals) argstr None) (fun s => Good (bracket_fix s)).

(* ------------------------------------------------------------------ split_cmd *)
Definition nl : ascii := "010".
Definition is_quote (c : ascii) : bool := Ascii.eqb c sq || Ascii.eqb c dq.
Definition no_nl (s : la) : bool := negb (has_char nl s).
(* split_cmd's regular expression: an opening quote character, then any characters except newline (greedy),
   then the same quote character, then end of string (the dollar anchor also matches before one final newline).
   The result is the text between the quotes when it matches, else the argument unchanged. *)
Definition strip_outer_quotes (a : la) : la :=
  match a with
  | q :: rest =>
      if is_quote q then
        match rev rest with
        | l1 :: rmid =>
            if Ascii.eqb l1 q then (if no_nl rmid then rev rmid else a)
            else if Ascii.eqb l1 nl then
              match rmid with
              | l2 :: rmid' => if Ascii.eqb l2 q && no_nl rmid' then rev rmid' else a
              | [] => a
              end
            else a
        | [] => a
        end
      else a
  | [] => a
  end.
Definition split_cmd (cmd : la) : result (list la) :=
  bind (of_lex (split_la cmd)) (fun args => Good (map strip_outer_quotes args)).

(* ------------------------------------------------------------------ _format_arg *)
Definition sp : la := [" "].
Definition placeholder (n : la) : la := lbrace :: n ++ [rbrace].

Definition format_scalar (f : field) (argstr' : la) (vals : vals_t) (s : la) (truthy : bool) : result (list la) :=
  if has_char lbrace argstr' && has_char rbrace argstr'
  then bind (argstr_formatting (replace_all (placeholder (f_name f)) s argstr') vals) split_cmd
  else if truthy then split_cmd (argstr' ++ sp ++ s) else split_cmd [].

Definition format_arg (f : field) (argstr : la) (vals : vals_t) : result (list la) :=
  let argstr' := replace_all ellipsis [] argstr in
  match lookup vals (f_name f) with
  | VList l =>
      if ends_with ellipsis argstr then
        if has_char lbrace argstr' && has_char rbrace argstr'
        then bind (map_result (fun a => bind (argstr_formatting argstr' ((f_name f, VAtom a) :: vals))
                                             (fun t => Good (sp ++ t))) l)
                  (fun parts => split_cmd (join_sep (f_sep f) parts))
        else split_cmd (join_sep (f_sep f) (map (fun a => sp ++ argstr' ++ sp ++ render_atom a) l))
      else
        let s := join_sep (f_sep f) (map render_atom l) in
        format_scalar f argstr' vals s (negb (match s with [] => true | _ => false end))
  | VAtom a => format_scalar f argstr' vals (render_atom a) (truthy_atom a)
  | VBool b => format_scalar f argstr' vals (if b then py_true else py_false) b
  | VNone => Bad EUnsupported          (* None values were dropped before *)
  end.

(* ------------------------------------------------------------------ _command_pos_args *)
Definition entry := (option Z * list la)%type.
Definition command_pos_args (f : field) (vals : vals_t) : result (option entry) :=
  match f_argstr f with
  | None => Good None
  | Some argstr =>
      match optional_type (f_ty f), has_char lbrace argstr with
      | TBool, false =>
          Good (Some (f_pos f, match lookup vals (f_name f) with VBool true => [argstr] | _ => [] end))
      | TMulti, _ =>
          match lookup vals (f_name f) with
          | VList l =>
              bind (map_result (fun a => format_arg f argstr ((f_name f, VAtom a) :: vals)) l)
                   (fun parts => Good (Some (f_pos f, List.concat parts)))
          | _ => Bad EUnsupported
          end
      | _, _ => bind (format_arg f argstr vals) (fun args => Good (Some (f_pos f, args)))
      end
  end.

(* ------------------------------------------------------------------ position_sort *)
Local Open Scope Z_scope.
(* bisect.insort (= insort_right) on the position; positions are unique after define, so the tie-break on the
   argument lists never decides *)
Fixpoint insort {A} (p : Z) (x : A) (l : list (Z * A)) : list (Z * A) :=
  match l with
  | [] => [(p, x)]
  | (q, y) :: r => if p <? q then (p, x) :: l else (q, y) :: insort p x r
  end.
Fixpoint position_split {A} (l : list (option Z * A)) (pos : list (Z * A)) (none : list A) (neg : list (Z * A))
  : list (Z * A) * list A * list (Z * A) :=
  match l with
  | [] => (pos, rev none, neg)
  | (None, x) :: r => position_split r pos (x :: none) neg
  | (Some p, x) :: r => if p <? 0 then position_split r pos none (insort p x neg)
                        else position_split r (insort p x pos) none neg
  end.
Definition position_sort {A} (l : list (option Z * A)) : list A :=
  let '(pos, none, neg) := position_split l [] [] [] in map snd pos ++ none ++ map snd neg.
Local Close Scope Z_scope.

(* ------------------------------------------------------------------ _command_args *)
Definition is_unset (f : field) (v : value) : bool :=
  match v with
  | VNone => true
  | VList [] => match optional_type (f_ty f) with TMulti => true | _ => false end
  | _ => false
  end.
(* the copy of `values` with None / empty multi-inputs deleted, in field order *)
Definition drop_unset (fields : list field) (vals : vals_t) : vals_t :=
  flat_map (fun f => let v := lookup vals (f_name f) in if is_unset f v then [] else [(f_name f, v)]) fields.
Definition is_present (vals : vals_t) (n : la) : bool := existsb (fun kv => la_eqb (fst kv) n) vals.

Definition exe_list (e : exe) : list la := match e with EStr s => [s] | EList l => l end.
Definition append_args_conv (a : appargs) : result (list la) :=
  match a with AppStr s => of_lex (split_la s) | AppList l => Good l end.

(* fields: as returned by define (every field positioned) *)
Definition command_args (e : exe) (fields : list field) (vals : vals_t) (app : list la) : result (list la) :=
  let vals' := drop_unset fields vals in
  bind (map_result (fun f => if is_present vals' (f_name f) then command_pos_args f vals' else Good None) fields)
       (fun ents =>
          let pos_args := (Some 0%Z, exe_list e) :: flat_map (fun o => match o with Some x => [x] | None => [] end) ents in
          Good (List.concat (position_sort pos_args) ++ app)).

Definition task_argv (fm : form) (e : exe) (fields : list field) (vals : vals_t) (app : appargs) : result (list la) :=
  bind (define fm fields) (fun fs => bind (append_args_conv app) (fun a => command_args e fs vals a)).

(* ------------------------------------------------------------------ cmdline *)
Definition has_space (a : la) : bool := has_char " " a.
Definition cmdline_arg (a : la) : la := if has_space a then sq :: a ++ [sq] else a.
Definition cmdline_render (args : list la) : la :=
  match args with
  | [] => []        (* cmd_args[0] would raise IndexError; the executable is never empty *)
  | a0 :: rest => a0 ++ flat_map (fun a => " " :: cmdline_arg a) rest
  end.
Definition task_cmdline (fm : form) (e : exe) (fields : list field) (vals : vals_t) (app : appargs) : result la :=
  bind (task_argv fm e fields vals app) (fun args => Good (cmdline_render args)).
