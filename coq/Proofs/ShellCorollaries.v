(* Proofs/ShellCorollaries.v — readable consequences of the per-field and order theorems (C22/C23). *)
From Pydra Require Import Base.Prelude Base.Shlex Model.Shell Spec.Shell Proofs.Shlex Proofs.ShellStr
  Proofs.ShellOrder Proofs.ShellAssign Proofs.ShellOrderThm Proofs.ShellTemplate Proofs.ShellField Proofs.ShellContrib Proofs.ShellArgv.
Local Open Scope char_scope.
Local Open Scope list_scope.

(* ---- order *)
Theorem define_functional : forall fs,
  has_dup (used_slots (map to_field fs)) = false ->
  define Functional (map to_field fs) = Good (map to_field (sassign fs (free_slots (map to_field fs)))).
Proof. intros fs H. unfold define. rewrite H. cbn [builder_order]. apply assign_to_field, enough_free. Qed.

Theorem order_dense : forall (g : sfield -> option (list la)) fs ex,
  (forall f p, g (set_spos f p) = g f) ->
  has_dup (used_slots (map to_field fs)) = false ->
  order_ok fs = true ->
  List.concat (position_sort ((Some 0%Z, ex) :: ents g (sassign fs (free_slots (map to_field fs)))))
  = ex ++ List.concat (map (payload g) (spec_order fs)).
Proof. intros g fs ex Hg Hd Ho. apply order_theorem; auto. apply enough_free. Qed.

(* ---- omission *)
Theorem omission_unset : forall F vals nm,
  (forall g, In g F -> f_name g = nm -> is_unset g (lookup vals nm) = true) ->
  is_present (drop_unset F vals) nm = false.
Proof.
  intros F vals nm H. destruct (is_present (drop_unset F vals) nm) eqn:E; [|reflexivity].
  exfalso. revert H E. induction F as [|g F IH]; intros H E; [discriminate|].
  unfold drop_unset in E. cbn [flat_map] in E. unfold is_present in E. rewrite existsb_app in E.
  apply orb_true_iff in E as [E|E].
  - destruct (is_unset g (lookup vals (f_name g))) eqn:Eu; [discriminate|]. cbn in E. rewrite orb_false_r in E.
    apply la_eqb_eq in E. rewrite (H g (or_introl eq_refl) E) in Eu || (rewrite <- E in H; rewrite (H g (or_introl eq_refl) eq_refl) in Eu). discriminate.
  - apply IH; [intros h Hh; apply H; now right|exact E].
Qed.
Theorem omission_none_and_empty_multi : forall f,
  is_unset f VNone = true /\ (optional_type (f_ty f) = TMulti -> is_unset f (VList []) = true).
Proof. intros f. split; [reflexivity|]. intros E. unfold is_unset. now rewrite E. Qed.
Theorem flag_rule : forall f vals argstr b,
  optional_type (f_ty f) = TBool -> f_argstr f = Some argstr -> has_char lbrace argstr = false ->
  lookup vals (f_name f) = VBool b ->
  command_pos_args f vals = Good (Some (f_pos f, if b then [argstr] else [])).
Proof. intros f vals argstr b Ht Ha Hb Hl. unfold command_pos_args. rewrite Ha, Ht, Hb, Hl. destruct b; reflexivity. Qed.

(* ---- C23: a benign word arrives verbatim *)
Lemma lookup_self n v rest : lookup ((n, v) :: rest) n = v.
Proof. cbn. now rewrite la_eqb_refl. Qed.

Theorem own_argument : forall n flag v pos rest,
  valid_ident n = true -> benign_text flag = true -> occurs ellipsis flag = false -> benign_text v = true ->
  command_pos_args (to_field (mkS n TStr (SA [[Lit flag]] false) pos [" "])) ((n, VAtom (AStr v)) :: rest)
  = Good (Some (pos, [flag; v])).
Proof.
  intros n flag v pos rest Hn Hf He Hv.
  set (f := mkS n TStr (SA [[Lit flag]] false) pos [" "]). set (vals := (n, VAtom (AStr v)) :: rest).
  destruct (benign_text_inv flag Hf) as [Hfn Hfb]. destruct (benign_text_inv v Hv) as [Hvn Hvb].
  assert (Hl : lookup vals n = VAtom (AStr v)) by apply lookup_self.
  assert (Hok : field_ok f vals = true).
  { assert (W : word_ok [Lit flag] = true)
      by (unfold word_ok; cbn [forallb piece_ok existsb piece_solid]; rewrite Hfb; destruct flag; [congruence|reflexivity]).
    assert (D : dots_text_ok n [[Lit flag]] false = true)
      by (unfold dots_text_ok, render_words, render_word; cbn [map List.concat join_sep render_piece]; rewrite app_nil_r, He; reflexivity).
    assert (A : atom_ok [[Lit flag]] (AStr v) = true)
      by (unfold atom_ok, atom_benign; cbn [truthy_atom render_atom]; rewrite Hv; destruct v; [congruence|reflexivity]).
    unfold field_ok. cbn [f sf_name sf_argstr sf_ty sf_sep optional_type]. rewrite Hn, Hl. cbn [forallb]. rewrite W, D, A. reflexivity. }
  rewrite (contrib_ok f vals vals [[Lit flag]] false eq_refl Hok eq_refl) by (cbn [f sf_name]; rewrite Hl; discriminate).
  unfold spec_contrib. cbn [f sf_argstr sf_name]. rewrite Hl. unfold occurrence. cbn. now rewrite app_nil_r.
Qed.

Theorem inside_template : forall n pre post v pos rest,
  valid_ident n = true -> forallb benign_char pre = true -> forallb benign_char post = true ->
  occurs ellipsis (pre ++ placeholder n ++ post) = false ->
  benign_text v = true -> bracket_inert (pre ++ v ++ post) = true ->
  command_pos_args (to_field (mkS n TStr (SA [[Lit pre; Self; Lit post]] false) pos [" "])) ((n, VAtom (AStr v)) :: rest)
  = Good (Some (pos, [pre ++ v ++ post])).
Proof.
  intros n pre post v pos rest Hn Hpre Hpost He Hv Hbr.
  set (f := mkS n TStr (SA [[Lit pre; Self; Lit post]] false) pos [" "]). set (vals := (n, VAtom (AStr v)) :: rest).
  destruct (benign_text_inv v Hv) as [Hvn Hvb].
  assert (Hl : lookup vals n = VAtom (AStr v)) by apply lookup_self.
  assert (Hok : field_ok f vals = true).
  { assert (W : word_ok [Lit pre; Self; Lit post] = true)
      by (unfold word_ok; cbn [forallb piece_ok existsb piece_solid]; rewrite Hpre, Hpost; now rewrite orb_true_r).
    assert (D : dots_text_ok n [[Lit pre; Self; Lit post]] false = true)
      by (unfold dots_text_ok, render_words, render_word; cbn [map List.concat join_sep render_piece]; rewrite app_nil_r, He; reflexivity).
    assert (A : atom_ok [[Lit pre; Self; Lit post]] (AStr v) = true)
      by (unfold atom_ok, atom_benign; cbn [truthy_atom render_atom]; rewrite Hv; destruct v; [congruence|reflexivity]).
    assert (I : inert [[Lit pre; Self; Lit post]] vals v = true)
      by (unfold inert, occ_text, inst_word; cbn [has_ph existsb is_ph orb negb map List.concat join_sep inst_piece]; now rewrite app_nil_r, Hbr).
    unfold field_ok. cbn [f sf_name sf_argstr sf_ty sf_sep optional_type]. rewrite Hn, Hl. cbn [forallb render_atom]. rewrite W, D, A, I. reflexivity. }
  rewrite (contrib_ok f vals vals [[Lit pre; Self; Lit post]] false eq_refl Hok eq_refl) by (cbn [f sf_name]; rewrite Hl; discriminate).
  unfold spec_contrib. cbn [f sf_argstr sf_name]. rewrite Hl. unfold occurrence, inst_word.
  cbn [has_ph existsb is_ph orb map List.concat inst_piece render_atom filter]. rewrite app_nil_r.
  destruct (pre ++ v ++ post) eqn:E; [|reflexivity]. exfalso. destruct v; [congruence|]. destruct pre; discriminate.
Qed.

(* the hypotheses are satisfiable by strings full of shell metacharacters and UTF-8 *)
Example own_argument_example :
  command_pos_args (to_field (mkS (la_of "inp") TStr (SA [[Lit (la_of "--in")]] false) None [" "]))
                   [(la_of "inp", VAtom (AStr (la_of "$HOME/*.nii;rm&|<>()#~")))]
  = Good (Some (None, [la_of "--in"; la_of "$HOME/*.nii;rm&|<>()#~"])).
Proof. apply own_argument; reflexivity. Qed.
