(* Spec/Shell.v — reference semantics for C22/C23/C24, written from the property statements.
   It never mentions how pydra builds the vector (no string building, no re-tokenisation, no implicit positions):
   an argstr is a parsed template (words made of literal text and placeholders) and a field's contribution is
   obtained by instantiating words, each value landing verbatim in exactly one argument.
   Only the data types and trivial helpers (lookup, join_sep, render_atom = str()) come from Model/Shell.v.        *)
From Pydra Require Import Base.Prelude Base.Shlex Model.Shell.
Local Open Scope char_scope.
Local Open Scope list_scope.

(* ------------------------------------------------------------------ argstr as a template AST *)
Inductive piece := Lit (s : la) | Self | Other (n : la).
Definition word := list piece.
Inductive sargstr := SANone | SA (ws : list word) (dots : bool).
Record sfield := mkS { sf_name : la; sf_ty : ty; sf_argstr : sargstr; sf_pos : option Z; sf_sep : la }.

(* the argstr text handed to pydra for this AST *)
Definition render_piece (self : la) (p : piece) : la :=
  match p with Lit s => s | Self => placeholder self | Other n => placeholder n end.
Definition render_word (self : la) (w : word) : la := List.concat (map (render_piece self) w).
Definition render_words (self : la) (ws : list word) : la := join_sep [" "] (map (render_word self) ws).
Definition render_argstr (self : la) (a : sargstr) : option la :=
  match a with
  | SANone => None
  | SA ws dots => Some (render_words self ws ++ if dots then ellipsis else [])
  end.
Definition to_field (f : sfield) : field :=
  mkField (sf_name f) (sf_ty f) (render_argstr (sf_name f) (sf_argstr f)) (sf_pos f) (sf_sep f).

(* ------------------------------------------------------------------ contribution of one field *)
Definition is_ph (p : piece) : bool := match p with Lit _ => false | _ => true end.
Definition has_ph (ws : list word) : bool := existsb (existsb is_ph) ws.
Definition nonempty {A} (s : list A) : bool := match s with [] => false | _ => true end.

(* text of another field's value when referred to from a template; unset = empty *)
Definition ref_text (vals : vals_t) (n : la) : la :=
  match lookup vals n with
  | VAtom a => render_atom a
  | VBool b => if b then py_true else py_false
  | _ => []
  end.
Definition inst_piece (vals : vals_t) (self : la) (p : piece) : la :=
  match p with Lit s => s | Self => self | Other n => ref_text vals n end.
Definition inst_word (vals : vals_t) (self : la) (w : word) : la := List.concat (map (inst_piece vals self) w).

(* one occurrence of the field for the value text [self]:
   - argstr without placeholder: its words, then the value as its own argument;
   - argstr with placeholders: its words with the placeholders replaced, the value verbatim inside;
     a word that becomes empty (reference to an unset field) is left out                                    *)
Definition occurrence (ws : list word) (vals : vals_t) (self : la) : list la :=
  if has_ph ws then filter nonempty (map (inst_word vals self) ws)
  else map (inst_word vals self) ws ++ [self].

Definition spec_contrib (f : sfield) (vals : vals_t) : list la :=
  match sf_argstr f with
  | SANone => []
  | SA ws dots =>
      let occ := occurrence ws vals in
      match lookup vals (sf_name f) with
      | VNone => []
      | VBool b =>
          if has_ph ws then occ (if b then py_true else py_false)
          else if b then [render_words (sf_name f) ws] else []          (* a flag *)
      | VAtom a => occ (render_atom a)
      | VList [] =>
          (* nothing to join: no value argument, so a plain flag is left out too; inside a template the empty text
             is substituted like any other (words that become empty vanish) *)
          match optional_type (sf_ty f) with
          | TMulti => []
          | _ => if has_ph ws && negb dots then occ [] else []
          end
      | VList l =>
          match optional_type (sf_ty f) with
          | TMulti => List.concat (map (fun a => occ (render_atom a)) l)          (* one occurrence per element *)
          | _ =>
              if dots then List.concat (map (fun a => occ (render_atom a)) l)       (* '...': repeated *)
              else if la_eqb (sf_sep f) [" "] && negb (has_ph ws)
                   then map (inst_word vals []) ws ++ map render_atom l   (* joined by a blank = separate arguments *)
                   else occ (join_sep (sf_sep f) (map render_atom l))     (* joined by the separator: one argument *)
          end
      end
  end.

(* ------------------------------------------------------------------ order *)
Local Open Scope Z_scope.
Definition pos_nonneg (f : sfield) : bool := match sf_pos f with Some p => 0 <=? p | None => false end.
Definition pos_none (f : sfield) : bool := match sf_pos f with None => true | Some _ => false end.
Definition pos_neg (f : sfield) : bool := match sf_pos f with Some p => p <? 0 | None => false end.
Definition posz (f : sfield) : Z := match sf_pos f with Some p => p | None => 0 end.
Fixpoint insert_pos (f : sfield) (l : list sfield) : list sfield :=
  match l with
  | [] => [f]
  | g :: r => if posz f <? posz g then f :: l else g :: insert_pos f r
  end.
Definition sort_pos (l : list sfield) : list sfield := fold_right insert_pos [] l.
Local Close Scope Z_scope.

(* non-negative ascending, then unpositioned in definition order, then negative ascending *)
Definition spec_order (fs : list sfield) : list sfield :=
  sort_pos (filter pos_nonneg fs) ++ filter pos_none fs ++ sort_pos (filter pos_neg fs).

Definition spec_argv (e : exe) (fs : list sfield) (vals : vals_t) (app : list la) : list la :=
  exe_list e ++ List.concat (map (fun f => spec_contrib f vals) (spec_order fs)) ++ app.

(* ------------------------------------------------------------------ C22 *)
(* the property at full strength: whenever pydra accepts the definition (functional or class form) and the
   free arguments, the vector it builds is the reference vector *)
Definition raw_positions (fs : list sfield) : list Z :=
  0%Z :: flat_map (fun f => match sf_pos f with Some p => [p] | None => [] end) fs.
Definition C22_statement : Prop :=
  forall (fm : form) (e : exe) (fs : list sfield) (vals : vals_t) (app : list la),
    exe_list e <> [] ->
    has_dup (raw_positions fs) = false ->          (* explicit positions distinct and not the executable's 0 *)
    task_argv fm e (map to_field fs) vals (AppList app) = Good (spec_argv e fs vals app).

Definition c22_ok (fm : form) (e : exe) (fs : list sfield) (vals : vals_t) (app : list la)
                  (observed : result (list la)) : bool :=
  match observed with
  | Good argv => negb (has_dup (raw_positions fs)) && list_eqb la_eqb argv (spec_argv e fs vals app)
  | Bad EOverlap => has_dup (raw_positions fs)     (* rejecting a definition is right exactly when positions repeat *)
  | Bad _ => false
  end.

(* ---- the input class on which C22_partial speaks (everything outside it is a recorded finding class or an
        argstr/value shape the theorem does not cover).  Computable; the drivers evaluate it on every case. *)
Definition benign_char (c : ascii) : bool :=
  negb (py_ws c || is_quote c || Ascii.eqb c bsl || Ascii.eqb c lbrace || Ascii.eqb c rbrace).
Definition benign_text (s : la) : bool := nonempty s && forallb benign_char s.
Definition piece_ok (p : piece) : bool :=
  match p with Lit s => forallb benign_char s | Self => true | Other _ => false end.
Definition piece_solid (p : piece) : bool :=
  match p with Lit s => nonempty s | Self => true | Other _ => false end.
Definition word_ok (w : word) : bool := forallb piece_ok w && existsb piece_solid w.
Definition atom_benign (a : atom) : bool := benign_text (render_atom a).
(* Python's `if value:` is consulted only for a scalar / MultiInputObj element of an argstr WITHOUT placeholder *)
Definition atom_ok (ws : list word) (a : atom) : bool := atom_benign a && (truthy_atom a || has_ph ws).
Definition occ_text (ws : list word) (vals : vals_t) (self : la) : la :=
  join_sep [" "] (map (inst_word vals self) ws).
Definition bracket_inert (s : la) : bool :=
  negb (occurs ["["; " "] s || occurs [" "; "]"] s || occurs ["["; ","] s || occurs [","; "]"] s).
Definition inert (ws : list word) (vals : vals_t) (self : la) : bool :=
  negb (has_ph ws) || bracket_inert (occ_text ws vals self).
Definition dots_text_ok (self : la) (ws : list word) (dots : bool) : bool :=
  let r := render_words self ws in
  if dots then negb (has_char "." r) else negb (occurs ellipsis r).

Definition field_ok (f : sfield) (vals : vals_t) : bool :=
  valid_ident (sf_name f) &&
  match sf_argstr f with
  | SANone => true
  | SA ws dots =>
      forallb word_ok ws && dots_text_ok (sf_name f) ws dots &&
      match lookup vals (sf_name f), optional_type (sf_ty f) with
      | VNone, _ => true
      | VBool _, TBool => negb (has_ph ws) && negb dots
      | VAtom a, (TStr | TInt | TFloat | TPath) => atom_ok ws a && inert ws vals (render_atom a)
      | VList l, TMulti => forallb (fun a => atom_ok ws a && inert ws vals (render_atom a)) l
      | VList l, TList =>
          forallb atom_benign l &&
          (if dots then la_eqb (sf_sep f) [" "] && forallb (fun a => inert ws vals (render_atom a)) l
           else if la_eqb (sf_sep f) [" "] then negb (has_ph ws)
           else forallb benign_char (sf_sep f)
                && (nonempty (map render_atom l) || negb (has_ph ws))
                && inert ws vals (join_sep (sf_sep f) (map render_atom l)))
      | _, _ => false
      end
  end.
Local Open Scope Z_scope.
(* every explicit non-negative position lies below the first implicit one pydra hands out *)
Definition order_ok (fs : list sfield) : bool :=
  let fields := map to_field fs in
  match filter pos_none fs, free_slots fields with
  | [], _ => true
  | _ :: _, q :: _ => forallb (fun f => match sf_pos f with Some p => (p <? 0) || (p <? q) | None => true end) fs
  | _ :: _, [] => false
  end.
Local Close Scope Z_scope.
Definition c22_in_domain (fm : form) (e : exe) (fs : list sfield) (vals : vals_t) : bool :=
  match fm with Functional => true | ClassForm => false end
  && nonempty (exe_list e)
  && negb (has_dup (used_slots (map to_field fs)))
  && order_ok fs
  && forallb (fun f => field_ok f vals) fs.

(* ------------------------------------------------------------------ C23 *)
(* a string/path element reaches the command as its own argument, or verbatim inside the argument built by its
   argstr / separator: this is [spec_contrib] read for one field; the executable form compares the part of the
   observed vector that belongs to the field *)
Definition C23_statement : Prop :=
  forall (f : sfield) (vals : vals_t) (argstr : la),
    render_argstr (sf_name f) (sf_argstr f) = Some argstr ->
    (match optional_type (sf_ty f) with TBool => False | _ => True end) ->
    lookup vals (sf_name f) <> VNone ->
    command_pos_args (to_field f) vals = Good (Some (sf_pos f, spec_contrib f vals)).

(* ------------------------------------------------------------------ C24 *)
(* splitting the displayed command line with POSIX shell rules gives back the executed arguments *)
Definition c24_ok (cmdline : la) (argv : list la) : bool :=
  match split_la cmdline with Ok l => list_eqb la_eqb l argv | _ => false end.
(* where C24_partial speaks: the first word is bare; a later argument with a blank has no single quote, one without
   a blank is a non-empty bare word *)
Definition bare_word (a : la) : bool := nonempty a && forallb plain_char a.
Definition c24_arg_ok (a : la) : bool :=
  if has_space a then forallb (fun c => negb (Ascii.eqb c sq)) a else bare_word a.
Definition c24_in_domain (args : list la) : bool :=
  match args with [] => false | a0 :: rest => bare_word a0 && forallb c24_arg_ok rest end.
Definition C24_statement : Prop :=
  forall fm e fields vals app argv cl,
    task_argv fm e fields vals app = Good argv ->
    task_cmdline fm e fields vals app = Good cl ->
    split_la cl = Ok argv.
