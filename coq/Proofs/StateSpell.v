(* Proofs/StateSpell.v — C05: equivalent spellings have the same expansion; request validation. *)
From Pydra Require Import Base.Prelude Model.State Spec.State Proofs.State.

(* ---------------------------------------------------------------- re-bracketing *)
Lemma expand_outer e l : expand e (Outer l) = outer_all (map (expand e) l).
Proof. reflexivity. Qed.
Lemma expand_inner e l : expand e (Inner l) = inner_all (map (expand e) l).
Proof. reflexivity. Qed.

Section Assoc.
  Variable all : list (option denot) -> option denot.
  Variable step : option denot -> option denot -> option denot.
  Hypothesis Hfold : forall r d, fold_left step r d = all (d :: r).
  Hypothesis Hassoc : forall a b c, step (step a b) c = step a (step b c).

  Lemma step_all x : forall m d, step x (fold_left step m d) = fold_left step m (step x d).
  Proof. induction m as [|d' m IH]; intros d; cbn [fold_left]; [reflexivity|]. rewrite IH, Hassoc. reflexivity. Qed.

  Lemma all_flatten l1 m l2 : m <> [] -> all (l1 ++ all m :: l2) = all (l1 ++ m ++ l2).
  Proof.
    intros Hm. destruct m as [|d m]; [congruence|]. destruct l1 as [|d0 l1]; cbn [app].
    - rewrite <- !Hfold. rewrite fold_left_app. reflexivity.
    - rewrite <- !Hfold. rewrite !fold_left_app. cbn [fold_left]. rewrite fold_left_app.
      f_equal. rewrite step_all. reflexivity.
  Qed.

  Lemma all_single d : all [d] = d.
  Proof. rewrite <- Hfold. reflexivity. Qed.
End Assoc.

Lemma respell_expand e s t : respell s t -> expand e s = expand e t.
Proof.
  induction 1.
  - reflexivity.
  - congruence.
  - congruence.
  - reflexivity.
  - reflexivity.
  - rewrite !expand_outer, !map_app. cbn [map]. rewrite expand_outer.
    apply (all_flatten outer_all ostep (fun r d => fold_outer r d) ostep_assoc).
    destruct m; [congruence|discriminate].
  - rewrite !expand_inner, !map_app. cbn [map]. rewrite expand_inner.
    apply (all_flatten inner_all istep (fun r d => fold_inner r d) istep_assoc).
    destruct m; [congruence|discriminate].
  - rewrite !expand_outer, !map_app. cbn [map]. rewrite IHrespell. reflexivity.
  - rewrite !expand_inner, !map_app. cbn [map]. rewrite IHrespell. reflexivity.
Qed.

Lemma leaves_outer l : leaves (Outer l) = flat_map leaves l.
Proof. reflexivity. Qed.
Lemma leaves_inner l : leaves (Inner l) = flat_map leaves l.
Proof. reflexivity. Qed.

Lemma respell_leaves s t : respell s t -> leaves s = leaves t.
Proof.
  induction 1; rewrite ?leaves_outer, ?leaves_inner; try congruence.
  - cbn [flat_map]. apply app_nil_r.
  - cbn [flat_map]. apply app_nil_r.
  - rewrite !flat_map_app. cbn [flat_map]. rewrite leaves_outer. reflexivity.
  - rewrite !flat_map_app. cbn [flat_map]. rewrite leaves_inner. reflexivity.
  - rewrite !flat_map_app. cbn [flat_map]. rewrite IHrespell. reflexivity.
  - rewrite !flat_map_app. cbn [flat_map]. rewrite IHrespell. reflexivity.
Qed.

(* the model runs the same jobs, with the same inputs, in the same order for two spellings *)
Theorem respell_same_jobs e s t : respell s t -> wfb s = true -> wfb t = true ->
  prepare_states e s = prepare_states e t.
Proof.
  intros R Ws Wt. rewrite (prepare_states_spec e s Ws), (prepare_states_spec e t Wt).
  unfold spec_result, jobs. rewrite (respell_expand e s t R). reflexivity.
Qed.

(* one-element wrappers disappear already in the RPN *)
Lemma rpn_single s : rpn (Outer [s]) = rpn s /\ rpn (Inner [s]) = rpn s.
Proof. cbn [rpn flat_map]. rewrite app_nil_r. auto. Qed.

(* ---------------------------------------------------------------- validation *)
Lemma memb_In x l : memb x l = true <-> In x l.
Proof.
  unfold memb. rewrite existsb_exists. split.
  - intros (y & Hy & E). apply Nat.eqb_eq in E. subst. exact Hy.
  - intros H. exists x. split; [exact H| apply Nat.eqb_refl].
Qed.

Lemma has_dup_spec l : has_dup l = false <-> NoDup l.
Proof.
  induction l as [|x l IH]; cbn [has_dup].
  - split; [constructor|reflexivity].
  - rewrite orb_false_iff, IH. split.
    + intros [M N]. constructor; [|exact N]. intros Hin. apply memb_In in Hin. congruence.
    + intros N. inversion N as [|? ? Hn N']; subst. split; [|exact N'].
      destruct (memb x l) eqn:E; [|reflexivity]. apply memb_In in E. contradiction.
Qed.

Lemma subsetb_spec a b : subsetb a b = true <-> (forall x, In x a -> In x b).
Proof.
  unfold subsetb. rewrite forallb_forall. split; intros H x Hx; [apply memb_In|apply memb_In]; auto.
Qed.

Lemma subsetb_false a b : subsetb a b = false <-> exists x, In x a /\ ~ In x b.
Proof.
  split.
  - induction a as [|x a IH]; cbn [subsetb forallb]; [discriminate|].
    fold (subsetb a b). destruct (memb x b) eqn:E; cbn [andb].
    + intros H. destruct (IH H) as (y & Hy & Hn). exists y. split; [right; exact Hy|exact Hn].
    + intros _. exists x. split; [left; reflexivity|]. intros Hin. apply memb_In in Hin. congruence.
  - intros (x & Hx & Hn). destruct (subsetb a b) eqn:E; [|reflexivity].
    exfalso. apply Hn. rewrite subsetb_spec in E. auto.
Qed.

Lemma len0 {A} (l : list A) : Nat.eqb (List.length l) 0 = true <-> l = [].
Proof. destruct l; cbn; split; congruence. Qed.

Lemma split_stage_effective r os : split_stage r = inr os -> os = effective_split r.
Proof.
  unfold split_stage, effective_split. destruct (r_split_called r); cbn [negb]; [|congruence].
  destruct (r_split r) as [s|].
  - repeat match goal with |- context[if ?c then _ else _] => destruct c end; congruence.
  - destruct (negb (Nat.eqb (List.length (r_nonseq r)) 0)); congruence.
Qed.

(* the two sites that reject a combiner without a splitter (Submitter.__call__ for a directly submitted task,
   Node._set_state + State.depth for a workflow node) decide alike *)
Definition validate' (r : req) : verr + option spl :=
  match split_stage r with
  | inl x => inl x
  | inr os =>
      let comb := match r_comb r with Some c => c | None => [] end in
      if negb (subsetb comb (r_task r)) then inl VCombNotInTask
      else match os with
           | Some s => if negb (subsetb comb (leaves s)) then inl VCombNotSplit else inr (Some s)
           | None => match comb with [] => inr None | _ => inl VCombNoSplit end
           end
  end.

Lemma validate_eq r : validate r = validate' r.
Proof.
  unfold validate, validate'. destruct (split_stage r) as [x|[s|]]; try reflexivity.
  cbv zeta. destruct (negb (subsetb _ (r_task r))); [reflexivity|].
  destruct (r_node r); [|reflexivity]. destruct (match r_comb r with Some c => c | None => [] end); reflexivity.
Qed.

Lemma validate_err_illformed r v : validate r = inl v -> illformed r.
Proof.
  rewrite validate_eq. unfold validate'.
    destruct (split_stage r) as [x|os] eqn:S.
    + intros _. unfold split_stage in S.
      destruct (r_split_called r) eqn:Ec; cbn [negb] in S; [|discriminate].
      destruct (r_split r) as [s|] eqn:Es.
      * destruct (has_dup (leaves s)) eqn:D.
        { left. split; [exact Ec|]. exists s. split; [exact Es|]. intros N. apply has_dup_spec in N. congruence. }
        destruct (subsetb (leaves s) (r_vals r)) eqn:M; cbn [negb] in S.
        2:{ right; left. apply subsetb_false in M as (f & Hf & Hn). split; [exact Ec|]. exists s, f. auto. }
        destruct (subsetb (r_vals r) (leaves s)) eqn:St; cbn [negb] in S.
        2:{ right; right; left. apply subsetb_false in St as (f & Hf & Hn). split; [exact Ec|]. exists s, f. auto. }
        destruct (Nat.eqb (List.length (r_nonseq r)) 0) eqn:N; cbn [negb] in S; [discriminate|].
        right; right; right; left. split; [exact Ec|]. intros E. apply len0 in E. congruence.
      * destruct (Nat.eqb (List.length (r_nonseq r)) 0) eqn:N; cbn [negb] in S; [discriminate|].
        right; right; right; left. split; [exact Ec|]. intros E. apply len0 in E. congruence.
    + pose proof (split_stage_effective r os S) as Eff.
      set (comb := match r_comb r with Some c => c | None => [] end).
      destruct (subsetb comb (r_task r)) eqn:CT; cbn [negb].
      2:{ intros _. right; right; right; right; left.
          apply subsetb_false in CT as (f & Hf & Hn). subst comb.
          destruct (r_comb r) as [c|] eqn:Ec; [|destruct Hf]. exists c, f. auto. }
      destruct os as [s|].
      * destruct (subsetb comb (leaves s)) eqn:CS; cbn [negb]; [discriminate|]. intros _.
        right; right; right; right; left.
        apply subsetb_false in CS as (f & Hf & Hn). subst comb.
        destruct (r_comb r) as [c|] eqn:Ec; [|destruct Hf]. exists c, f. split; [exact Ec|]. split; [exact Hf|].
        right. exists s. split; [symmetry; exact Eff| exact Hn].
      * destruct comb as [|f c'] eqn:Ecomb; [discriminate|]. intros _.
        right; right; right; right; right.
        subst comb. destruct (r_comb r) as [c|] eqn:Ec; [|discriminate]. exists c.
        split; [exact Ec|]. split; [congruence| symmetry; exact Eff].
Qed.


Theorem validate_ok_iff r : (exists os, validate r = inr os) <-> ~ illformed r.
Proof.
  split.
  - intros [os V] I. rewrite validate_eq in V. unfold validate' in V.
    destruct (split_stage r) as [x|os'] eqn:S; [discriminate|].
    pose proof (split_stage_effective r os' S) as Eff.
    set (comb := match r_comb r with Some c => c | None => [] end) in V.
    destruct (subsetb comb (r_task r)) eqn:CT; cbn [negb] in V; [|discriminate].
    assert (Hsplit : ~ split_twice r /\ ~ field_without_value r /\ ~ value_without_field r /\ ~ value_not_sequence r).
    { unfold split_stage in S. unfold split_twice, field_without_value, value_without_field, value_not_sequence.
      destruct (r_split_called r); cbn [negb] in S.
      2:{ repeat split; intros [? _]; discriminate. }
      destruct (r_split r) as [s|].
      - destruct (has_dup (leaves s)) eqn:D; [discriminate|].
        destruct (subsetb (leaves s) (r_vals r)) eqn:M; cbn [negb] in S; [|discriminate].
        destruct (subsetb (r_vals r) (leaves s)) eqn:St; cbn [negb] in S; [|discriminate].
        destruct (Nat.eqb (List.length (r_nonseq r)) 0) eqn:N; cbn [negb] in S; [|discriminate].
        apply has_dup_spec in D. rewrite subsetb_spec in M, St. apply len0 in N.
        repeat split.
        + intros (_ & s' & E & Hn). inversion E; subst. auto.
        + intros (_ & s' & f & E & Hin & Hn). inversion E; subst. auto.
        + intros (_ & s' & f & E & Hin & Hn). inversion E; subst. auto.
        + intros (_ & Hn). auto.
      - destruct (Nat.eqb (List.length (r_nonseq r)) 0) eqn:N; cbn [negb] in S; [|discriminate].
        apply len0 in N. repeat split.
        + intros (_ & s' & E & _). discriminate.
        + intros (_ & s' & f & E & _). discriminate.
        + intros (_ & s' & f & E & _). discriminate.
        + intros (_ & Hn). auto. }
    destruct Hsplit as (H1 & H2 & H3 & H4).
    destruct I as [I|[I|[I|[I|[I|I]]]]]; try contradiction.
    + destruct I as (c & f & Ec & Hf & Hbad). subst comb. rewrite Ec in *. rewrite subsetb_spec in CT.
      destruct Hbad as [Hbad|(s & Es & Hbad)]; [apply Hbad, CT, Hf|].
      rewrite <- Eff in Es. subst os'.
      destruct (subsetb c (leaves s)) eqn:CS; cbn [negb] in V; [|discriminate].
      rewrite subsetb_spec in CS. auto.
    + destruct I as (c & Ec & Hne & En). subst comb. rewrite Ec in *. rewrite <- Eff in En. subst os'.
      destruct c; [congruence|discriminate].
  - intros NI. destruct (validate r) as [v|os] eqn:V; [|eauto].
    exfalso. apply NI. exact (validate_err_illformed r v V).
Qed.

(* a rejected request runs no task body: validation is complete before any job exists *)
Theorem illformed_no_job e r : illformed r -> exists v, submit e r = Rejected v /\ bodies (submit e r) = 0.
Proof.
  intros I. unfold submit. destruct (validate r) as [v|os] eqn:V.
  - exists v. auto.
  - exfalso. assert (H : exists os, validate r = inr os) by eauto. apply validate_ok_iff in H. contradiction.
Qed.

Theorem rejected_shape_no_job e r : submit e r = RejectedShape -> bodies (submit e r) = 0.
Proof. intros ->. reflexivity. Qed.

Lemma illformedb_validate r : illformedb r = false <-> exists os, validate r = inr os.
Proof.
  rewrite validate_eq. unfold illformedb, validate', split_stage, effective_split.
  destruct (r_split_called r); cbn [negb andb orb].
  - destruct (r_split r) as [s|].
    + destruct (has_dup (leaves s)); cbn [orb negb]; [split; [discriminate| intros [? H]; discriminate]|].
      destruct (subsetb (leaves s) (r_vals r)); cbn [orb negb]; [|split; [discriminate| intros [? H]; discriminate]].
      destruct (subsetb (r_vals r) (leaves s)); cbn [orb negb]; [|split; [discriminate| intros [? H]; discriminate]].
      destruct (Nat.eqb (List.length (r_nonseq r)) 0); cbn [orb negb]; [|split; [discriminate| intros [? H]; discriminate]].
      destruct (subsetb _ (r_task r)); cbn [orb negb]; [|split; [discriminate| intros [? H]; discriminate]].
      destruct (subsetb _ (leaves s)); cbn [orb negb]; split; eauto; try discriminate. intros [? H]; discriminate.
    + destruct (Nat.eqb (List.length (r_nonseq r)) 0); cbn [orb negb]; [|split; [discriminate| intros [? H]; discriminate]].
      destruct (subsetb _ (r_task r)); cbn [orb negb]; [|split; [discriminate| intros [? H]; discriminate]].
      destruct (r_vals r) as [|v vs].
      * destruct (match r_comb r with Some c => c | None => [] end); cbn; split; eauto; try discriminate. intros [? H]; discriminate.
      * destruct (subsetb _ _); cbn [orb negb]; split; eauto; try discriminate. intros [? H]; discriminate.
  - destruct (subsetb _ (r_task r)); cbn [orb negb]; [|split; [discriminate| intros [? H]; discriminate]].
    destruct (match r_comb r with Some c => c | None => [] end); cbn; split; eauto; try discriminate. intros [? H]; discriminate.
Qed.

Theorem illformedb_spec r : illformedb r = true <-> illformed r.
Proof.
  split.
  - intros H. destruct (validate r) as [v|os] eqn:V.
    + exact (validate_err_illformed r v V).
    + assert (E : exists os, validate r = inr os) by eauto. apply illformedb_validate in E. congruence.
  - intros I. destruct (illformedb r) eqn:B; [reflexivity|].
    apply illformedb_validate in B. apply validate_ok_iff in B. contradiction.
Qed.
