(* C03 — workflow state propagation = nested-loop reference evaluation. *)
From Pydra Require Import Base.Prelude Model.StateWf Spec.StateWf Proofs.StateWf Proofs.StateWfMain Proofs.StateWfCor Proofs.StateWfPair.

(* the property at full strength: on every well-formed workflow of the modelled fragment the model
   (= the code) produces exactly the nested-loop outputs *)
Definition C03_full_statement : Prop :=
  forall wf : workflow, wf_ok wf = true -> model_run wf = Some (spec_run wf).

(* false on the unchanged tree: the diamond multiplies the shared origin (finding F03) *)
Theorem C03_refuted : ~ C03_full_statement.
Proof. exact refuted. Qed.
Print Assumptions C03_refuted.

Theorem C03_diamond_multiplies :
  option_map (map (fun v => match v with VList l => List.length l | _ => 0 end)) (model_run diamond) = Some [3; 3; 3; 9]
  /\ spec_njobs diamond = [3; 3; 3; 3].
Proof. exact diamond_counts. Qed.
Print Assumptions C03_diamond_multiplies.

(* the strongest positive theorem: for every workflow (any number of nodes, any list lengths, any own splitters
   and combiners) in which the state-carrying inputs of every node either carry separate origins (no open axis
   in common, none an input of another) or are exactly a state and a node that only hands that state on, the
   model's outputs are the nested-loop outputs.  The excluded class is computable: share_class wf = false
   (finding F03). *)
Theorem C03_partial : forall wf : workflow,
  c03_aligned wf = true -> zip_len_ok wf = true -> model_run wf = Some (spec_run wf).
Proof. exact aligned. Qed.
Print Assumptions C03_partial.

(* second pass: own inner (zip) splitters mixed with outer ones, combiners named by any field of a zip group,
   both outputs of every node (each input chooses which one it consumes), nested-workflow nodes (opaque).
   model_run2 / spec_run2 are what the harness observes: both outputs of every node; spec_run2 is None exactly when
   two zipped fields differ in length (rejection).  The class: c03_aligned after combiner names are replaced by their
   group leaders, equal zip shapes, no node with a combiner keeps a zip group open (F03z = inherited F02), combiners
   name whole zip groups (F03y). *)
Theorem C03_partial2 : forall wf : workflow, c03_class2 wf = true -> model_run2 wf = spec_run2 wf.
Proof. exact partial2. Qed.
Print Assumptions C03_partial2.
Example C03_partial2_zip_example : c03_class2 zip_example = true /\ spec_njobs (normalize zip_example) = [6; 6; 6].
Proof. split; [exact zip_example_in_class | exact zip_example_njobs]. Qed.

(* separate origins only *)
Theorem C03_separate_origins : forall wf : workflow,
  c03_domain wf = true -> zip_len_ok wf = true -> model_run wf = Some (spec_run wf).
Proof. exact partial. Qed.
Print Assumptions C03_separate_origins.

(* direct sharing: an origin reaching a node both directly and through a state-less intermediate is
   aligned (the _add_state_history case) — for all lists vs, us, ws and both field orders *)
Theorem C03_shared_direct : forall (vs us ws : list Z) (flip : bool),
  model_run (shared_direct vs us ws flip) = Some (spec_run (shared_direct vs us ws flip)).
Proof. exact shared_direct_ok. Qed.
Print Assumptions C03_shared_direct.
Example C03_shared_direct_not_separate : c03_domain (shared_direct [1; 2]%Z [3]%Z [4; 5]%Z false) = false.
Proof. exact shared_direct_not_separate. Qed.
Example C03_shared_direct_counts :
  spec_njobs (shared_direct [1; 2]%Z [3]%Z [4; 5]%Z false) = [2; 2; 4; 4]
  /\ option_map (map (fun v => match v with VList l => List.length l | _ => 0 end))
       (model_run (shared_direct [1; 2]%Z [3]%Z [4; 5]%Z false)) = Some [2; 2; 4; 4].
Proof. exact shared_direct_counts. Qed.

Example C03_partial_fanin_example : c03_domain fanin_example = true.
Proof. exact fanin_example_in_class. Qed.

(* chains, fan-out, trees of pipelines: every node takes all its upstream inputs from one node (possibly
   through several fields, with own splitters and combiners) — any length, any list sizes *)
Theorem C03_chain : forall wf : workflow,
  wf_ok wf = true -> zip_len_ok wf = true -> forallb single_input wf = true -> model_run wf = Some (spec_run wf).
Proof. exact chain_class. Qed.
Print Assumptions C03_chain.

Example C03_chain_example : wf_ok chain_example = true /\ forallb single_input chain_example = true.
Proof. exact chain_example_in_class. Qed.

(* fan-in of independent origins: the inputs of every node have pairwise no common ancestor
   (a graph condition: the provenance of every node is a forest) *)
Theorem C03_fanin_independent : forall wf : workflow,
  wf_ok wf = true -> zip_len_ok wf = true -> independent_inputs wf = true -> model_run wf = Some (spec_run wf).
Proof. exact fanin_class. Qed.
Print Assumptions C03_fanin_independent.

Example C03_fanin_example : independent_inputs fanin_example = true.
Proof. exact fanin_example_independent. Qed.
Example C03_diamond_excluded : independent_inputs diamond = false /\ c03_domain diamond = false.
Proof. exact diamond_not_independent. Qed.

(* third pass: the harness observes model_run3 / spec_run3, which also know nodes whose splitter pairs two upstream
   states explicitly, ("_A", "_B") (Model.build_pair, Spec.spec_entry_pair).  The proof did NOT close for pair nodes in
   the time box: c03_class3 = "no pair node" && c03_class2, i.e. C03_partial3 only carries C03_partial2 over to the
   observable functions the correspondence run uses; pair nodes are compared with model and spec differentially. *)
Theorem C03_partial3 : forall w3 : workflow3, c03_class3 w3 = true -> model_run3 w3 = spec_run3 w3.
Proof. exact partial3. Qed.
Print Assumptions C03_partial3.
