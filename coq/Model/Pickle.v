(* Model/Pickle.v — C29: how Job, Submitter, Worker (debug, cf, slurm, sge), Result and the objects they
   hold travel through cloudpickle: pydra/engine/job.py Job.__getstate__/__setstate__, submitter.py
   Submitter.__getstate__/__setstate__, workers/base.py, cf.py, slurm.py, sge.py, engine/result.py.
   No proofs here.

   An object is its class name and its attribute dictionary (insertion order).  Attribute values are
   abstracted to: None, a plain datum (anything cloudpickle transports unchanged: numbers, strings, paths,
   flags, dicts of those, a Task — identified by a fingerprint number), a live resource (event loop,
   process pool, running monitor thread: cloudpickle refuses it), a resource created on the receiving
   side, or again an object.  What a class's __getstate__ removes / blanks and what its __setstate__ puts
   back is a table [descr], read off the live classes by the driver on every run. *)
From Pydra Require Import Base.Prelude.
Local Open Scope string_scope.
Local Open Scope list_scope.

Inductive val :=
| VNone
| VData (fingerprint : nat)
| VLive (n : nat)
| VFresh (tag : string)
| VObj (cls : string) (attrs : list (string * val)).

Record descr := mkDescr {
  d_drop : list string;              (* keys __getstate__ deletes from the state *)
  d_null : list string;              (* keys __getstate__ sets to None *)
  d_fresh : list (string * val);     (* keys __setstate__ assigns itself, with what *)
  d_push : list (string * string * string * string)
                                     (* (attr, class, key, own): __setstate__ also does self.attr.key = self.own, attr holding
                                        an object of that class — Submitter: self.worker.loop = self.loop *)
}.
Definition no_descr : descr := mkDescr [] [] [] [].  (* default pickling: __dict__ as it is *)

Definition mem (k : string) (l : list string) : bool := existsb (String.eqb k) l.
Definition transient (d : descr) : list string := d_drop d ++ d_null d ++ map fst (d_fresh d).

Fixpoint lookup (k : string) (l : list (string * val)) : option val :=
  match l with
  | [] => None
  | (k', v) :: r => if String.eqb k k' then Some v else lookup k r
  end.

(* obj.k = v : replace the first binding or append *)
Fixpoint set (k : string) (v : val) (l : list (string * val)) : list (string * val) :=
  match l with
  | [] => [(k, v)]
  | (k', v') :: r => if String.eqb k k' then (k, v) :: r else (k', v') :: set k v r
  end.
Definition set_all (fs : list (string * val)) (l : list (string * val)) : list (string * val) :=
  fold_left (fun acc kv => set (fst kv) (snd kv) acc) fs l.

Definition apply_push (p : string * string * string * string) (l : list (string * val)) : list (string * val) :=
  let '(ch, cc, ck, own) := p in
  match lookup ch l, lookup own l with
  | Some (VObj c' a), Some v => if String.eqb c' cc then set ch (VObj c' (set ck v a)) l else l
  | _, _ => l
  end.
Definition push_all (ps : list (string * string * string * string)) (l : list (string * val)) :=
  fold_left (fun acc p => apply_push p acc) ps l.
Definition setstate (d : descr) (st : list (string * val)) : list (string * val) :=
  push_all (d_push d) (set_all (d_fresh d) st).

Section Pickle.
  Variable desc : string -> descr.                 (* the class table *)
  Variable cp : nat -> option nat.                 (* cloudpickle.loads (cloudpickle.dumps d) on a plain datum *)

  (* cloudpickle.loads (cloudpickle.dumps v)):
     - a datum goes through [cp]; a live resource cannot be pickled;
     - an object: state = __getstate__() (drop, blank), every remaining value is pickled in turn,
       then __setstate__ installs the state, assigns the recreated attributes and pushes them into
       the objects it holds.
     Job.__getstate__ / Result.__getstate__ additionally turn `task` / `outputs` into cloudpickle bytes
     and back in __setstate__: with [cp] that is the same as pickling them in place. *)
  Fixpoint rt (v : val) : option val :=
    match v with
    | VNone => Some VNone
    | VData n => match cp n with Some m => Some (VData m) | None => None end
    | VLive _ => None
    | VFresh _ => None
    | VObj c attrs =>
        let d := desc c in
        match (fix go (l : list (string * val)) : option (list (string * val)) :=
                 match l with
                 | [] => Some []
                 | (k, x) :: r =>
                     if mem k (d_drop d) then go r
                     else if mem k (d_null d) then
                       match go r with Some r' => Some ((k, VNone) :: r') | None => None end
                     else match rt x, go r with
                          | Some x', Some r' => Some ((k, x') :: r')
                          | _, _ => None
                          end
                 end) attrs with
        | Some st => Some (VObj c (setstate d st))
        | None => None
        end
    end.

  (* the same state transformation, named, for stating lemmas *)
  Fixpoint rt_attrs (d : descr) (l : list (string * val)) : option (list (string * val)) :=
    match l with
    | [] => Some []
    | (k, x) :: r =>
        if mem k (d_drop d) then rt_attrs d r
        else if mem k (d_null d) then
          match rt_attrs d r with Some r' => Some ((k, VNone) :: r') | None => None end
        else match rt x, rt_attrs d r with
             | Some x', Some r' => Some ((k, x') :: r')
             | _, _ => None
             end
    end.
End Pickle.

(* ---- cache identity: Job.checksum returns self._checksum if it is set, else self.task._checksum, which is
   a function of the task alone *)
Definition job_reads : list string := ["_checksum"; "task"].
Definition checksum (task_hash : val -> nat) (job : val) : option nat :=
  match job with
  | VObj _ attrs =>
      match lookup "_checksum" attrs with
      | Some (VData n) => Some n
      | _ => match lookup "task" attrs with Some t => Some (task_hash t) | None => None end
      end
  | _ => None
  end.

(* decidable equality on values up to the order of attributes (comparison of the model's result with an
   observed object) *)
Fixpoint val_eqb (a b : val) : bool :=
  match a, b with
  | VNone, VNone => true
  | VData n, VData m => Nat.eqb n m
  | VLive n, VLive m => Nat.eqb n m
  | VFresh s, VFresh t => String.eqb s t
  | VObj c l, VObj c' l' =>
      String.eqb c c' && Nat.eqb (List.length l) (List.length l') &&
      (fix go (r : list (string * val)) : bool :=
         match r with
         | [] => true
         | (k, x) :: r' => match lookup k l' with Some x' => val_eqb x x' | None => false end && go r'
         end) l
  | _, _ => false
  end.

(* class table from an association list *)
Fixpoint table (t : list (string * descr)) (c : string) : descr :=
  match t with
  | [] => no_descr
  | (c', d) :: r => if String.eqb c c' then d else table r c
  end.
