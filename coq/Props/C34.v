(* C34 — File inputs are staged according to their copy mode (Job.inputs).  See Props/C33.v for
   copy_one / copy_contract / ff_copy. *)
From Pydra Require Import Base.Prelude Base.PyPath Model.Mount Model.CopyFiles Spec.CopyFiles Proofs.CopyFiles.

(* for every mount table, job directory (whatever it already holds), file system and list of fields
   (type gate, copy mode, value): if the files exist and each requested mode can be realised on the mounts,
   staging succeeds and meets the spec [staged] (shape and non-file values, class, a way permitted by
   the mode and the mounts with its observable behaviour — copy independent, link shows the original —,
   one FileSet.copy per distinct file-set of a field, nothing existing altered) *)
Definition C34_full_statement : Prop :=
  forall (tab : table) (dest : string) (fs0 : fsT) (fields : list field),
    fields_ready tab dest fs0 fields ->
    exists outs fs1 av, job_inputs ff_copy tab dest fields fs0 = Ok (outs, fs1, av)
                        /\ staged tab dest fs0 fs1 fields (counts outs).

Theorem C34_full : C34_full_statement.
Proof. exact c34_full. Qed.
Print Assumptions C34_full.

Theorem C34_staged :
  forall copy_one, copy_contract copy_one ->
  forall tab dest fs0 fields outs fs1 av,
    (forall fd f, In fd fields -> is_staged fd = true -> In f (leaves (fd_value fd)) -> ino_of fs0 (snd f) <> None) ->
    job_inputs copy_one tab dest fields fs0 = Ok (outs, fs1, av) ->
    staged tab dest fs0 fs1 fields (counts outs).
Proof. exact c34_staged. Qed.
Print Assumptions C34_staged.

Theorem C34_shape :
  forall copy_one, copy_contract copy_one ->
  forall tab dest fs0 fields outs fs1 av,
    (forall fd f, In fd fields -> is_staged fd = true -> In f (leaves (fd_value fd)) -> ino_of fs0 (snd f) <> None) ->
    job_inputs copy_one tab dest fields fs0 = Ok (outs, fs1, av) ->
    Forall2 (fun fd o => same_shape (fd_value fd) (fst o) = true) fields (counts outs).
Proof. intros. eapply g_shape, c34_staged; eauto. Qed.
Print Assumptions C34_shape.

Theorem C34_once :
  forall copy_one, copy_contract copy_one ->
  forall tab dest fs0 fields outs fs1 av,
    (forall fd f, In fd fields -> is_staged fd = true -> In f (leaves (fd_value fd)) -> ino_of fs0 (snd f) <> None) ->
    job_inputs copy_one tab dest fields fs0 = Ok (outs, fs1, av) ->
    forall fd o, In (fd, o) (combine fields (counts outs)) -> is_staged fd = true ->
      (forall s1 d1 s2 d2, In (s1, d1) (pairs_of (fd_value fd) (fst o)) ->
                           In (s2, d2) (pairs_of (fd_value fd) (fst o)) -> s1 = s2 -> d1 = d2)
      /\ distinct_count (leaves (fd_value fd)) (snd o).
Proof. intros until 3. eapply g_once, c34_staged; eauto. Qed.
Print Assumptions C34_once.

Theorem C34_mode :
  forall copy_one, copy_contract copy_one ->
  forall tab dest fs0 fields outs fs1 av,
    (forall fd f, In fd fields -> is_staged fd = true -> In f (leaves (fd_value fd)) -> ino_of fs0 (snd f) <> None) ->
    job_inputs copy_one tab dest fields fs0 = Ok (outs, fs1, av) ->
    forall fd o, In (fd, o) (combine fields (counts outs)) -> is_staged fd = true ->
    forall s d, In (s, d) (pairs_of (fd_value fd) (fst o)) ->
      fst d = fst s /\
      exists w, allowed w (fd_mode fd) = true /\ mount_ok tab dest w s /\ behaves w dest fs0 fs1 s d.
Proof. intros until 3. eapply g_mode, c34_staged; eauto. Qed.
Print Assumptions C34_mode.

Theorem C34_total :
  forall tab dest fs0 fields, fields_ready tab dest fs0 fields ->
  exists r, job_inputs ff_copy tab dest fields fs0 = Ok r.
Proof. exact c34_total. Qed.
Print Assumptions C34_total.

(* the engine later writes `_result.pklz` etc. into the job directory: no staged file has a reserved name, the
   name is still free after staging, and writing it touches nothing else *)
Theorem C34_save_safe :
  forall copy_one, copy_contract copy_one ->
  forall tab dest fs0 fields outs fs1 av n c,
    (forall fd f, In fd fields -> is_staged fd = true -> In f (leaves (fd_value fd)) -> ino_of fs0 (snd f) <> None) ->
    job_inputs copy_one tab dest fields fs0 = Ok (outs, fs1, av) ->
    In n reserved_names -> ino_of fs0 (dest, n) = None ->
    ino_of fs1 (dest, n) = None
    /\ (forall q, q <> (dest, n) -> read (dump fs1 (dest, n) c) q = read fs1 q)
    /\ forall fd o, In (fd, o) (combine fields outs) -> is_staged fd = true ->
         forall s d, In (s, d) (pairs_of (fd_value fd) (fst o)) -> snd d <> (dest, n) /\ snd s <> (dest, n).
Proof. exact c34_save_safe. Qed.
Print Assumptions C34_save_safe.
