(* Proofs/StateWfCor.v — C03: syntactic sub-classes of C03_partial (pipelines / forests of single-input
   nodes), valid for every number of nodes and every list length. *)
From Pydra Require Import Base.Prelude Model.StateWf Spec.StateWf Proofs.StateWfLists Proofs.StateWfInv
  Proofs.StateWfStep Proofs.StateWfMain Proofs.StateWf.
Local Open Scope nat_scope.

(* every input that comes from another node comes from the same node (chains, fan-out, trees of pipelines) *)
Definition single_input (nd : node) : bool :=
  forallb (fun b => forallb (fun b' => match b, b' with BUp x, BUp y => Nat.eqb x y | _, _ => true end) (n_fields nd)) (n_fields nd).

Lemma single_input_ups tab nd : single_input nd = true -> List.length (ups tab (n_fields nd)) <= 1.
Proof.
  intros H. pose proof (ups_nodup tab (n_fields nd)) as Hnd.
  assert (Heq : forall x y, In x (ups tab (n_fields nd)) -> In y (ups tab (n_fields nd)) -> x = y).
  { intros x y Hx Hy. apply ups_in in Hx. apply ups_in in Hy. destruct Hx as [Hx _], Hy as [Hy _].
    unfold single_input in H. rewrite forallb_forall in H. specialize (H _ Hx). rewrite forallb_forall in H.
    specialize (H _ Hy). apply Nat.eqb_eq in H. exact H. }
  destruct (ups tab (n_fields nd)) as [|a [|b l]]; cbn; try lia. exfalso.
  inversion Hnd as [|? ? Hn _]; subst. apply Hn. rewrite (Heq a b); [left; reflexivity | left; reflexivity | right; left; reflexivity].
Qed.

Lemma on_nodes_intro wf p : (forall n e nd, In nd wf -> p n e nd = true) -> on_nodes wf p = true.
Proof.
  intros H. unfold on_nodes. apply forallb_forall. intros [[n e] nd] Hin. cbn. apply H.
  eapply in_combine_r. exact Hin.
Qed.

Lemma single_input_separate wf : forallb single_input wf = true -> separate_class wf = true.
Proof.
  intros H. apply on_nodes_intro. intros n e nd Hnd. rewrite forallb_forall in H. specialize (H nd Hnd).
  unfold separate_ok. pose proof (single_input_ups (spec_table wf) nd H) as L.
  destruct (ups (spec_table wf) (n_fields nd)) as [|a [|b l]]; cbn in *; try reflexivity. lia.
Qed.

Theorem chain_class : forall wf,
  wf_ok wf = true -> zip_len_ok wf = true -> forallb single_input wf = true -> model_run wf = Some (spec_run wf).
Proof.
  intros wf H1 Z H2. apply partial; [|exact Z]. unfold c03_domain.
  rewrite H1, (single_input_separate wf H2). reflexivity.
Qed.

(* a concrete, non-trivial member: N0 split over two fields -> N1 relay -> N2 with an own splitter and a
   combiner over an inherited axis; N3 fans N2 out again *)
Definition chain_example : workflow :=
  [ {| n_fields := [BSplit [1; 2]%Z; BSplit [5; 6; 7]%Z]; n_split := [1; 0]; n_zip := []; n_osel := []; n_comb := [] |};
    {| n_fields := [BUp 0; BConst 9%Z]; n_split := []; n_zip := []; n_osel := []; n_comb := [] |};
    {| n_fields := [BSplit [3; 4]%Z; BUp 1; BUp 1]; n_split := [0]; n_zip := []; n_osel := []; n_comb := [(0, 0)] |};
    {| n_fields := [BUp 2]; n_split := []; n_zip := []; n_osel := []; n_comb := [] |} ].
Lemma chain_example_in_class :
  wf_ok chain_example = true /\ forallb single_input chain_example = true.
Proof. split; vm_compute; reflexivity. Qed.

(* fan-in of independent origins inside C03_partial's class *)
Definition fanin_example : workflow :=
  [ {| n_fields := [BSplit [1; 2]%Z; BSplit [5; 6]%Z]; n_split := [0; 1]; n_zip := []; n_osel := []; n_comb := [] |};
    {| n_fields := [BSplit [8; 9; 10]%Z]; n_split := [0]; n_zip := []; n_osel := []; n_comb := [] |};
    {| n_fields := [BUp 0; BUp 1; BUp 1]; n_split := []; n_zip := []; n_osel := []; n_comb := [(0, 1)] |};
    {| n_fields := [BUp 2; BSplit [3; 4]%Z]; n_split := [1]; n_zip := []; n_osel := []; n_comb := [] |} ].
Lemma fanin_example_in_class : c03_domain fanin_example = true.
Proof. vm_compute. reflexivity. Qed.

(* ---------- fan-in of independent sub-workflows (a graph condition) ---------- *)
(* ancestors of every node (itself included), by node index *)
Definition anc_entry (tab : list (list nat)) (n : nat) (nd : node) : list nat :=
  n :: flat_map (fun b => match b with BUp j => nth j tab [] | _ => [] end) (n_fields nd).
Fixpoint anc_from (tab : list (list nat)) (nodes : list node) : list (list nat) :=
  match nodes with
  | [] => tab
  | nd :: r => anc_from (tab ++ [anc_entry tab (List.length tab) nd]) r
  end.
Definition anc_table (wf : workflow) : list (list nat) := anc_from [] wf.
Definition disjointn (a b : list nat) : bool := forallb (fun x => negb (memn x b)) a.
(* the inputs of every node come from sub-workflows without a common ancestor (a node is its own
   ancestor); "x is not a direct input of y" follows from that and is checked separately only to keep
   the proof short *)
Definition feeds (wf : workflow) (x y : nat) : bool :=
  existsb (fun b => match b with BUp j => Nat.eqb j x | _ => false end) (n_fields (node_at wf y)).
Definition indep (wf : workflow) (x y : nat) : bool :=
  Nat.eqb x y || (disjointn (nth x (anc_table wf) []) (nth y (anc_table wf) []) && negb (feeds wf x y)).
Definition independent_inputs (wf : workflow) : bool :=
  forallb (fun nd =>
    forallb (fun b => forallb (fun b' =>
      match b, b' with BUp x, BUp y => indep wf x y | _, _ => true end) (n_fields nd)) (n_fields nd)) wf.

Lemma up_axes_sub tab fields k :
  In k (up_axes tab fields) -> exists x, In (BUp x) fields /\ In k (s_faxes_of tab x).
Proof.
  unfold up_axes.
  assert (G : forall fs a, In k (fold_left (fun a b => match b with BUp j => add_new a (s_faxes_of tab j) | _ => a end) fs a) ->
              In k a \/ exists x, In (BUp x) fs /\ In k (s_faxes_of tab x)).
  { induction fs as [|b fs IH]; intros a H; [left; exact H|]. cbn [fold_left] in H. apply IH in H.
    destruct H as [H|[x [H1 H2]]]; [|right; exists x; split; [right; exact H1 | exact H2]].
    destruct b as [z|vs|j]; try (left; exact H).
    assert (A : forall ks acc, In k (add_new acc ks) -> In k acc \/ In k ks).
    { induction ks as [|c ks IHk]; intros acc Hk; [left; exact Hk|]. rewrite add_new_cons in Hk. apply IHk in Hk.
      destruct Hk as [Hk|Hk]; [|right; right; exact Hk]. destruct (memk c acc); [left; exact Hk|].
      apply in_app_or in Hk. destruct Hk as [Hk|[<-|[]]]; [left; exact Hk | right; left; reflexivity]. }
    apply A in H. destruct H as [H|H]; [left; exact H | right; exists j; split; [left; reflexivity | exact H]]. }
  intros H. apply G in H. destruct H as [[]|H]; exact H.
Qed.

Lemma anc_invariant wf : forall rest stab atab,
  List.length stab = List.length atab ->
  (forall j e, nth_error stab j = Some e ->
     incl (s_faxes e) (s_axes e) /\ forall k, In k (s_axes e) -> In (fst k) (nth j atab [])) ->
  (forall j e, nth_error (spec_from wf stab rest) j = Some e ->
     incl (s_faxes e) (s_axes e) /\ forall k, In k (s_axes e) -> In (fst k) (nth j (anc_from atab rest) [])).
Proof.
  induction rest as [|nd rest IH]; intros stab atab HL H1; cbn [spec_from anc_from]; [exact H1|].
  apply IH.
  - rewrite !app_length, HL. reflexivity.
  - intros j e Hj. destruct (Nat.lt_ge_cases j (List.length stab)) as [Hlt|Hge].
    + rewrite nth_error_app1 in Hj by exact Hlt. rewrite app_nth1 by (rewrite <- HL; exact Hlt). exact (H1 j e Hj).
    + assert (Ej : j = List.length stab).
      { assert (j < List.length (stab ++ [spec_entry wf stab (List.length stab) nd])) by (apply nth_error_Some; rewrite Hj; discriminate).
        rewrite app_length in H. cbn in H. lia. }
      subst j. rewrite nth_error_app2, Nat.sub_diag in Hj by lia. cbn in Hj. inversion Hj; subst e. clear Hj.
      split.
      * cbn [s_faxes s_axes spec_entry]. intros k Hk. apply filter_In in Hk. tauto.
      * intros k Hk. rewrite app_nth2, HL, Nat.sub_diag by (rewrite HL; lia). cbn [nth]. unfold anc_entry.
        cbn [s_axes spec_entry] in Hk. apply in_app_or in Hk. destruct Hk as [Hk|Hk].
        -- right. apply up_axes_sub in Hk. destruct Hk as [x [Hx Hk]]. apply in_flat_map. exists (BUp x). split; [exact Hx|].
           unfold s_faxes_of in Hk. destruct (nth_error stab x) as [ex|] eqn:Ex; [|contradiction].
           destruct (H1 x ex Ex) as [Hsub Hanc]. apply Hanc. apply Hsub. exact Hk.
        -- left. apply in_map_iff in Hk. destruct Hk as [f [<- _]]. cbn. symmetry. exact HL.
Qed.
Lemma axes_in_anc wf j e k :
  nth_error (spec_table wf) j = Some e -> In k (s_axes e) -> In (fst k) (nth j (anc_table wf) []).
Proof.
  intros Hj Hk. unfold spec_table in Hj.
  destruct (anc_invariant wf wf [] [] eq_refl (fun j0 e0 H => ltac:(destruct j0; discriminate H)) j e Hj) as [_ H].
  exact (H k Hk).
Qed.
Lemma faxes_in_anc wf j k : In k (s_faxes_of (spec_table wf) j) -> In (fst k) (nth j (anc_table wf) []).
Proof.
  unfold s_faxes_of. destruct (nth_error (spec_table wf) j) as [e|] eqn:E; [|intros []]. intros Hk.
  unfold spec_table in E.
  destruct (anc_invariant wf wf [] [] eq_refl (fun j0 e0 H => ltac:(destruct j0; discriminate H)) j e E) as [Hs H].
  exact (H k (Hs k Hk)).
Qed.


Lemma pairwise_intro {A} (ok : A -> A -> bool) l :
  (forall x y, In x l -> In y l -> x <> y -> ok x y = true) -> NoDup l -> pairwise ok l = true.
Proof.
  induction l as [|a l IH]; intros H Hnd; [reflexivity|]. inversion Hnd; subst. cbn. apply andb_true_iff. split.
  - apply forallb_forall. intros y Hy. assert (a <> y) by (intros ->; contradiction).
    rewrite (H a y), (H y a); auto using in_eq, in_cons.
  - apply IH; [intros x y Hx Hy; apply H; right; assumption | assumption].
Qed.

Lemma independent_separate wf : independent_inputs wf = true -> separate_class wf = true.
Proof.
  intros H. apply on_nodes_intro. intros n e nd Hnd. unfold independent_inputs in H. rewrite forallb_forall in H.
  specialize (H nd Hnd). unfold separate_ok. apply pairwise_intro; [|apply ups_nodup].
  intros x y Hx Hy Hne. apply ups_in in Hx. apply ups_in in Hy. destruct Hx as [Hx HFx], Hy as [Hy HFy].
  rewrite forallb_forall in H. specialize (H _ Hx). rewrite forallb_forall in H. specialize (H _ Hy). cbn in H.
  unfold indep in H. apply orb_true_iff in H. destruct H as [H|H]; [apply Nat.eqb_eq in H; contradiction|].
  apply andb_true_iff in H. destruct H as [HD HN]. unfold sep_ok. apply andb_true_iff. split.
  - unfold disjointk. apply forallb_forall. intros k Hk. apply negb_true_iff. apply memk_false. intros Hk'.
    apply faxes_in_anc in Hk. apply faxes_in_anc in Hk'. unfold disjointn in HD. rewrite forallb_forall in HD.
    specialize (HD _ Hk). apply negb_true_iff in HD. apply memn_false in HD. contradiction.
  - apply negb_true_iff. apply memn_false. intros Hin. unfold parents in Hin. apply ups_in in Hin. destruct Hin as [Hin _].
    apply negb_true_iff in HN. unfold feeds in HN.
    assert (E : existsb (fun b => match b with BUp j => Nat.eqb j x | _ => false end) (n_fields (node_at wf y)) = true).
    { apply existsb_exists. exists (BUp x). split; [exact Hin | apply Nat.eqb_refl]. }
    congruence.
Qed.

Theorem fanin_class : forall wf,
  wf_ok wf = true -> zip_len_ok wf = true -> independent_inputs wf = true -> model_run wf = Some (spec_run wf).
Proof.
  intros wf H1 Z H2. apply partial; [|exact Z]. unfold c03_domain.
  rewrite H1, (independent_separate wf H2). reflexivity.
Qed.
Lemma fanin_example_independent : independent_inputs fanin_example = true.
Proof. vm_compute. reflexivity. Qed.
(* the diamond is outside: N1 and N2 share the ancestor N0 *)
Lemma diamond_not_independent : independent_inputs diamond = false /\ c03_domain diamond = false.
Proof. split; vm_compute; reflexivity. Qed.

(* ---------- the shared origin the code aligns (DESIGN: C03_shared_direct) ---------- *)
(* N0 split over vs (and us) -> N1 hands N0's state on -> N2 consumes N0 directly and through N1 (in either
   field order) and has an own splitter over ws; N3 consumes N2 *)
Definition shared_direct (vs us ws : list Z) (flip : bool) : workflow :=
  [ {| n_fields := [BSplit vs; BSplit us]; n_split := [0; 1]; n_zip := []; n_osel := []; n_comb := [] |};
    {| n_fields := [BUp 0; BConst 7%Z]; n_split := []; n_zip := []; n_osel := []; n_comb := [] |};
    {| n_fields := (if flip then [BUp 1; BUp 0] else [BUp 0; BUp 1]) ++ [BSplit ws]; n_split := [2]; n_zip := []; n_osel := []; n_comb := [] |};
    {| n_fields := [BUp 2]; n_split := []; n_zip := []; n_osel := []; n_comb := [] |} ].
Lemma shared_direct_aligned vs us ws flip : c03_aligned (shared_direct vs us ws flip) = true.
Proof. destruct flip; vm_compute; reflexivity. Qed.
Lemma shared_direct_not_separate : c03_domain (shared_direct [1; 2]%Z [3]%Z [4; 5]%Z false) = false.
Proof. vm_compute. reflexivity. Qed.
Theorem shared_direct_ok : forall vs us ws flip,
  model_run (shared_direct vs us ws flip) = Some (spec_run (shared_direct vs us ws flip)).
Proof. intros. apply aligned; [apply shared_direct_aligned | destruct flip; reflexivity]. Qed.
(* the aligned job count: N2 runs |vs|*|us|*|ws| times, not (|vs|*|us|)^2*|ws| *)
Lemma shared_direct_counts : spec_njobs (shared_direct [1; 2]%Z [3]%Z [4; 5]%Z false) = [2; 2; 4; 4]
  /\ option_map (map (fun v => match v with VList l => List.length l | _ => 0 end))
       (model_run (shared_direct [1; 2]%Z [3]%Z [4; 5]%Z false)) = Some [2; 2; 4; 4].
Proof. split; vm_compute; reflexivity. Qed.

(* ---------- members of C03_partial2's class with inner splitters, a partly consumed second output ---------- *)
(* N0: splitter [(b, a), c] (a zipped to b), N1 consumes both outputs of N0 and combines the zip group by naming
   both of its fields; N2 has an own inner pair as well *)
Definition zip_example : workflow :=
  [ {| n_fields := [BSplit [1; 2]%Z; BSplit [5; 6]%Z; BSplit [8; 9; 10]%Z]; n_split := [1; 2]; n_zip := [(0, 1)];
       n_osel := []; n_comb := [] |};
    {| n_fields := [BUp 0; BUp 0]; n_split := []; n_zip := []; n_osel := [1; 0]; n_comb := [(0, 0); (0, 1)] |};
    {| n_fields := [BUp 1; BSplit [3; 4]%Z; BSplit [6; 7]%Z]; n_split := [2]; n_zip := [(1, 2)]; n_osel := [1];
       n_comb := [] |} ].
Lemma zip_example_in_class : c03_class2 zip_example = true.
Proof. vm_compute. reflexivity. Qed.
Lemma zip_example_njobs : spec_njobs (normalize zip_example) = [6; 6; 6].
Proof. vm_compute. reflexivity. Qed.
