(* Proofs/CacheSeq.v — the sequential cache model meets the reference semantics (C11, C13). *)
From Pydra Require Import Base.Prelude Model.CacheSeq Spec.CacheSeq.
Local Open Scope bool_scope.

(* ------------------------------------------------------------------ induction over task trees *)
Section TaskInd.
  Variable P : task -> Prop.
  Hypothesis HL : forall c, P (Leaf c).
  Hypothesis HW : forall c ns, Forall P ns -> P (Wf c ns).
  Fixpoint task_ind2 (t : task) : P t :=
    match t with
    | Leaf c => HL c
    | Wf c ns => HW c ns ((fix go (l : list task) : Forall P l :=
                             match l with
                             | [] => Forall_nil P
                             | x :: r => Forall_cons x (task_ind2 x) (go r)
                             end) ns)
    end.
End TaskInd.

(* ------------------------------------------------------------------ small facts *)
Lemma res_eqb_spec a b : res_eqb a b = true <-> a = b.
Proof.
  destruct a, b; cbn; try (split; congruence).
  rewrite Nat.eqb_eq. split; congruence.
Qed.
Lemma dir_eqb_spec a b : dir_eqb a b = true <-> a = b.
Proof.
  destruct a, b; cbn; try (split; congruence).
  rewrite res_eqb_spec. split; congruence.
Qed.

Lemma last_run_app c a b :
  last_run c (a ++ b) = match last_run c b with Some x => Some x | None => last_run c a end.
Proof.
  induction a as [|e a IH]; cbn.
  - destruct (last_run c b); reflexivity.
  - rewrite IH. destruct (last_run c b); reflexivity.
Qed.

Lemma last_run_none c evs :
  last_run c evs = None <-> forall e, In e evs -> is_run_of c e = false.
Proof.
  induction evs as [|e evs IH]; cbn.
  - split; [intros _ ? []|reflexivity].
  - destruct (last_run c evs) eqn:E.
    + split; [discriminate|]. intros H.
      assert (Some r = None) by (apply IH; intros; apply H; auto). discriminate.
    + split.
      * intros H x [<-|Hx]; [|now apply IH].
        destruct e as [|c' rr x]; cbn; [reflexivity|]. destruct (Nat.eqb c c'); [discriminate|reflexivity].
      * intros H. specialize (H e (or_introl eq_refl)).
        destruct e as [|c' rr x]; cbn in *; [reflexivity|]. now rewrite H.
Qed.

Lemma last_run_not_in c evs :
  (forall e, In e evs -> ev_id e <> c) -> last_run c evs = None.
Proof.
  intros H. apply last_run_none. intros e He. specialize (H e He).
  destruct e as [|c' rr x]; cbn in *; [reflexivity|]. apply Nat.eqb_neq. congruence.
Qed.

Lemma last_run_snoc c evs c' rr x :
  last_run c (evs ++ [EvRun c' rr x]) = if Nat.eqb c c' then Some x else last_run c evs.
Proof. rewrite last_run_app. cbn. destruct (Nat.eqb c c'); reflexivity. Qed.

(* load_result *)
Lemma load_result_some s c ls r :
  load_result s c ls = Some r -> exists l, In l ls /\ s l c = Complete r.
Proof.
  induction ls as [|l ls IH]; cbn; [discriminate|].
  destruct (s l c) eqn:E.
  - intros H. destruct (IH H) as (l' & Hin & Hl'). exists l'. auto.
  - intros H. destruct (IH H) as (l' & Hin & Hl'). exists l'. auto.
  - intros [= <-]. exists l. auto.
Qed.

Lemma load_result_head s c l ls r : s l c = Complete r -> load_result s c (l :: ls) = Some r.
Proof. intros H. cbn. now rewrite H. Qed.

(* without an errored result in front, the first successful listed result is what is loaded *)
Lemma load_result_reuse s c ls v :
  errored_shadow s c ls = false ->
  (exists l, In l ls /\ s l c = Complete (Ok v)) ->
  exists v' l', load_result s c ls = Some (Ok v') /\ In l' ls /\ s l' c = Complete (Ok v').
Proof.
  induction ls as [|l ls IH]; cbn; intros Hs (l0 & Hin & Hl0); [contradiction|].
  destruct (s l c) as [| |[v1|]] eqn:E.
  - destruct Hin as [->|Hin]; [congruence|].
    destruct (IH Hs (ex_intro _ l0 (conj Hin Hl0))) as (v' & l' & H1 & H2 & H3). exists v', l'. auto.
  - destruct Hin as [->|Hin]; [congruence|].
    destruct (IH Hs (ex_intro _ l0 (conj Hin Hl0))) as (v' & l' & H1 & H2 & H3). exists v', l'. auto.
  - exists v1, l. auto.
  - destruct Hin as [->|Hin]; [congruence|].
    exfalso. rewrite <- not_true_iff_false in Hs. apply Hs. apply existsb_exists.
    exists l0. split; [exact Hin|now rewrite Hl0].
Qed.

(* ------------------------------------------------------------------ the invariant of Job.run *)
Fixpoint count_runs (c : ident) (evs : list event) : nat :=
  match evs with [] => 0 | e :: r => (if is_run_of c e then 1 else 0) + count_runs c r end.
Lemma count_runs_app c a b : count_runs c (a ++ b) = count_runs c a + count_runs c b.
Proof. induction a as [|e a IH]; cbn; [reflexivity|]. rewrite IH. lia. Qed.

Section Inv.
  Variable w : world.
  Variable cfg : config.
  Notation rt := (root cfg).
  Notation caches := (all_caches cfg).

  (* the store after a run, from the store before and the executions that happened *)
  Definition post_store (pre : store) (evs : list event) : store :=
    fun l c => if Nat.eqb l rt
               then match last_run c evs with Some x => Complete x | None => pre l c end
               else pre l c.

  Lemma post_store_nil pre l c : post_store pre [] l c = pre l c.
  Proof. unfold post_store. cbn. destruct (Nat.eqb l rt); reflexivity. Qed.

  Lemma post_store_app pre a b l c :
    post_store pre (a ++ b) l c = post_store (post_store pre a) b l c.
  Proof.
    unfold post_store. destruct (Nat.eqb l rt); [|reflexivity].
    rewrite last_run_app. destruct (last_run c b); reflexivity.
  Qed.

  Lemma post_store_ext p1 p2 evs l c :
    (forall l c, p1 l c = p2 l c) -> post_store p1 evs l c = post_store p2 evs l c.
  Proof. intros H. unfold post_store. now rewrite H. Qed.

  (* every event is justified by the store at the moment it happens *)
  Definition ev_ok (pre : store) (e1 : list event) (e : event) : Prop :=
    match e with
    | EvRun c rr _ => rok pre rt e1 c = true -> rr = true
    | EvHit c v => servedp pre rt caches e1 c v
    end.
  Definition trace_ok (pre : store) (evs : list event) : Prop :=
    forall e1 e e2, evs = e1 ++ e :: e2 -> ev_ok pre e1 e.

  Lemma rok_shift pre a l c : rok pre rt (a ++ l) c = rok (post_store pre a) rt l c.
  Proof.
    unfold rok, post_store. rewrite last_run_app, Nat.eqb_refl.
    destruct (last_run c l); [reflexivity|]. destruct (last_run c a) as [[|]|]; reflexivity.
  Qed.

  Lemma served_shift pre a l c v :
    servedp (post_store pre a) rt caches l c v -> servedp pre rt caches (a ++ l) c v.
  Proof.
    unfold servedp. rewrite last_run_app. intros [H|(l0 & Hin & Hl0 & Hroot)].
    - left. now rewrite H.
    - unfold post_store in Hl0. destruct (Nat.eqb l0 rt) eqn:E.
      + apply Nat.eqb_eq in E. specialize (Hroot E). rewrite Hroot.
        destruct (last_run c a) eqn:La.
        * left. congruence.
        * right. exists l0. repeat split; auto.
      + right. exists l0. repeat split; auto. intros ->. now rewrite Nat.eqb_refl in E.
  Qed.

  Lemma ev_ok_shift pre a l e : ev_ok (post_store pre a) l e -> ev_ok pre (a ++ l) e.
  Proof.
    destruct e as [c v|c rr x]; cbn.
    - apply served_shift.
    - now rewrite rok_shift.
  Qed.

  Lemma trace_ok_nil pre : trace_ok pre [].
  Proof. intros e1 e e2 H. destruct e1; discriminate. Qed.

  Lemma trace_ok_app pre a b :
    trace_ok pre a -> trace_ok (post_store pre a) b -> trace_ok pre (a ++ b).
  Proof.
    intros Ha Hb e1 e e2 H.
    apply app_eq_app in H. destruct H as (l & [[H1 H2]|[H1 H2]]).
    - destruct l as [|x l].
      + cbn in H2. rewrite app_nil_r in H1. subst a. rewrite <- (app_nil_r e1).
        apply ev_ok_shift. apply (Hb [] e e2). now rewrite <- H2.
      + cbn in H2. injection H2 as <- H2. apply (Ha e1 e l). exact H1.
    - subst e1. apply ev_ok_shift. apply (Hb l e e2). exact H2.
  Qed.

  (* the justification of events about identities other than c0 does not look at c0's directory *)
  Lemma trace_ok_frame pre pre' c0 evs :
    (forall e, In e evs -> ev_id e <> c0) ->
    (forall l c, c <> c0 -> pre' l c = pre l c) ->
    trace_ok pre' evs -> trace_ok pre evs.
  Proof.
    intros Hid Hpre H e1 e e2 E. specialize (H e1 e e2 E).
    assert (Hin : In e evs) by (rewrite E; apply in_or_app; right; left; reflexivity).
    specialize (Hid e Hin).
    destruct e as [c v|c rr x]; cbn in *.
    - destruct H as [H|(l0 & H1 & H2 & H3)]; [now left|].
      right. exists l0. rewrite <- Hpre by exact Hid. auto.
    - unfold rok in *. now rewrite <- Hpre by exact Hid.
  Qed.

  Record run_inv (rr : bool) (t : task) (s : state) (o : out3) : Prop := {
    i_store : forall l c, st (fst (fst o)) l c = post_store (st s) (snd (fst o)) l c;
    i_clock : clock (fst (fst o)) = clock s;
    i_execs : forall c, execs (fst (fst o)) c = execs s c + count_runs c (snd (fst o));
    i_result : last_run (tid t) (snd (fst o)) = Some (snd o) \/
               exists v, snd (fst o) = [EvHit (tid t) v] /\ snd o = Ok v /\ rr = false /\
                         fst (fst o) = s /\ load_result (st s) (tid t) caches = Some (Ok v);
    i_ids : forall e, In e (snd (fst o)) -> In (ev_id e) (ids t);
    i_trace : trace_ok (st s) (snd (fst o));
    i_flags : forall c rr' x, In (EvRun c rr' x) (snd (fst o)) -> rr' = true ->
                              rr = true /\ (c = tid t \/ prop cfg = true);
    i_all_run : rr = true -> prop cfg = true -> forall e, In e (snd (fst o)) -> is_run e = true;
    i_rerun : rr = true -> last_run (tid t) (snd (fst o)) = Some (snd o)
  }.

  Record nodes_inv (rr : bool) (ns : list task) (s : state)
         (o : state * list event * option (list value)) : Prop := {
    n_store : forall l c, st (fst (fst o)) l c = post_store (st s) (snd (fst o)) l c;
    n_clock : clock (fst (fst o)) = clock s;
    n_execs : forall c, execs (fst (fst o)) c = execs s c + count_runs c (snd (fst o));
    n_ids : forall e, In e (snd (fst o)) -> In (ev_id e) (flat_map ids ns);
    n_trace : trace_ok (st s) (snd (fst o));
    n_flags : forall c rr' x, In (EvRun c rr' x) (snd (fst o)) -> rr' = true -> rr = true;
    n_all_run : rr = true -> prop cfg = true -> forall e, In e (snd (fst o)) -> is_run e = true
  }.

  Lemma run_nodes_inv rr ns :
    Forall (fun n => forall rr s, wf_taskb n = true -> run_inv rr n s (run_job w cfg rr n s)) ns ->
    forallb wf_taskb ns = true ->
    forall s acc, nodes_inv rr ns s (run_nodes (run_job w cfg rr) ns s acc).
  Proof.
    induction 1 as [|n ns Hn Hns IH]; intros Hwf s acc.
    - cbn. constructor; cbn; intros; try tauto; try lia.
      + now rewrite post_store_nil.
      + apply trace_ok_nil.
    - cbn in Hwf. apply andb_true_iff in Hwf. destruct Hwf as [Hwn Hwns].
      cbn [run_nodes]. specialize (Hn rr s Hwn).
      destruct (run_job w cfg rr n s) as [[s1 e1] r] eqn:E1.
      destruct Hn as [A1 A2 A3 A4 A5 A6 A7 A8 A9]. cbn [fst snd] in *.
      destruct r as [v|].
      + specialize (IH Hwns s1 (v :: acc)).
        destruct (run_nodes (run_job w cfg rr) ns s1 (v :: acc)) as [[s2 e2] o] eqn:E2.
        destruct IH as [B1 B2 B3 B4 B5 B6 B7]. cbn [fst snd] in *.
        constructor; cbn [fst snd].
        * intros l c. rewrite B1, post_store_app. apply post_store_ext. exact A1.
        * congruence.
        * intros c. rewrite B3, A3, count_runs_app. lia.
        * intros e He. apply in_app_or in He. cbn [flat_map]. apply in_or_app.
          destruct He as [He|He]; [left; now apply A5|right; now apply B4].
        * apply trace_ok_app; [exact A6|].
          intros x1 x x2 Hx. specialize (B5 x1 x x2 Hx).
          destruct x as [c v0|c rr0 x0]; cbn in *.
          -- destruct B5 as [B5|(l0 & H1 & H2 & H3)]; [now left|]. right. exists l0.
             rewrite <- A1. auto.
          -- unfold rok in *. now rewrite <- A1.
        * intros c rr' x He Hrr. apply in_app_or in He. destruct He as [He|He].
          -- now destruct (A7 c rr' x He Hrr).
          -- now apply (B6 c rr' x).
        * intros Hr Hp e He. apply in_app_or in He. destruct He; [now apply A8|now apply B7].
      + constructor; cbn [fst snd].
        * exact A1.
        * exact A2.
        * exact A3.
        * intros e He. cbn [flat_map]. apply in_or_app. left. now apply A5.
        * exact A6.
        * intros c rr' x He Hrr. now destruct (A7 c rr' x He Hrr).
        * exact A8.
  Qed.

  Lemma tid_in_ids t : In (tid t) (ids t).
  Proof. destruct t; cbn; auto. Qed.

  Lemma early_exit_some rr s c v :
    early_exit cfg rr s c = Some v -> rr = false /\ load_result s c caches = Some (Ok v).
  Proof.
    unfold early_exit. destruct rr; [discriminate|].
    destruct (load_result s c caches) as [[v'|]|]; try discriminate. intros [= ->]. auto.
  Qed.

  Lemma early_exit_none_root rr s c v :
    early_exit cfg rr s c = None -> s rt c = Complete (Ok v) -> rr = true.
  Proof.
    unfold early_exit. destruct rr; [reflexivity|]. intros H Hs.
    cbn in H. rewrite Hs in H. discriminate.
  Qed.

  Lemma hit_inv rr t s v :
    early_exit cfg rr (st s) (tid t) = Some v -> run_inv rr t s (s, [EvHit (tid t) v], Ok v).
  Proof.
    intros H. apply early_exit_some in H. destruct H as [-> Hl].
    constructor; cbn [fst snd].
    - intros l c. unfold post_store. cbn. destruct (Nat.eqb l rt); reflexivity.
    - reflexivity.
    - intros c. cbn. lia.
    - right. exists v. auto.
    - intros e [<-|[]]. apply tid_in_ids.
    - intros e1 e e2 E. destruct e1 as [|x e1]; [|destruct e1; discriminate].
      injection E as <- _. cbn. apply load_result_some in Hl. destruct Hl as (l & Hin & Hl).
      right. exists l. auto.
    - intros c rr' x [E|[]]. discriminate.
    - discriminate.
    - discriminate.
  Qed.

  Lemma exec_inv rr t s s2 evs r :
    early_exit cfg rr (st s) (tid t) = None ->
    (forall l c, st s2 l c = post_store (set_dir (st s) rt (tid t) Partial) evs l c) ->
    clock s2 = clock s ->
    (forall c, execs s2 c = execs s c + count_runs c evs) ->
    (forall e, In e evs -> In (ev_id e) (ids t) /\ ev_id e <> tid t) ->
    trace_ok (set_dir (st s) rt (tid t) Partial) evs ->
    (forall c rr' x, In (EvRun c rr' x) evs -> rr' = true -> rr = true /\ prop cfg = true) ->
    (rr = true -> prop cfg = true -> forall e, In e evs -> is_run e = true) ->
    run_inv rr t s (bump (with_dir s2 rt (tid t) (Complete r)) (tid t), evs ++ [EvRun (tid t) rr r], r).
  Proof.
    set (c0 := tid t). intros Hee Hst Hck Hex Hids Htr Hfl Har.
    assert (Hnone : last_run c0 evs = None).
    { apply last_run_not_in. intros e He. now destruct (Hids e He). }
    constructor; cbn [fst snd bump with_dir st execs clock].
    - intros l c. unfold set_dir at 1. unfold post_store. rewrite last_run_snoc.
      destruct (Nat.eqb_spec rt l) as [<-|Hl].
      + rewrite Nat.eqb_refl. destruct (Nat.eqb_spec c0 c) as [<-|Hc]; cbn [andb].
        * now rewrite Nat.eqb_refl.
        * destruct (Nat.eqb_spec c c0) as [->|_]; [congruence|].
          rewrite Hst. unfold post_store, set_dir. rewrite !Nat.eqb_refl. cbn [andb].
          destruct (Nat.eqb_spec c0 c); [congruence|]. reflexivity.
      + cbn [andb]. destruct (Nat.eqb_spec l rt) as [->|_]; [congruence|].
        rewrite Hst. unfold post_store, set_dir.
        destruct (Nat.eqb_spec l rt) as [->|_]; [congruence|].
        destruct (Nat.eqb_spec rt l); [congruence|]. reflexivity.
    - exact Hck.
    - intros c. rewrite count_runs_app. cbn. rewrite Hex.
      rewrite (Nat.eqb_sym c0 c). destruct (Nat.eqb c c0); lia.
    - left. rewrite last_run_snoc. now rewrite Nat.eqb_refl.
    - intros e He. apply in_app_or in He. destruct He as [He|[<-|[]]].
      + now destruct (Hids e He).
      + cbn. apply tid_in_ids.
    - apply trace_ok_app.
      + apply (trace_ok_frame (st s) (set_dir (st s) rt c0 Partial) c0).
        * intros e He. now destruct (Hids e He).
        * intros l c Hc. unfold set_dir. destruct (Nat.eqb_spec c0 c); [congruence|].
          now rewrite andb_false_r.
        * exact Htr.
      + intros e1 e e2 E. destruct e1 as [|x e1]; [|destruct e1; discriminate].
        injection E as <- _. cbn. unfold rok. cbn. unfold post_store. rewrite Nat.eqb_refl, Hnone.
        destruct (st s rt c0) as [| |[v|]] eqn:Es; try discriminate.
        intros _. now apply (early_exit_none_root rr (st s) c0 v).
    - intros c rr' x He Hrr. apply in_app_or in He. destruct He as [He|[E|[]]].
      + destruct (Hfl c rr' x He Hrr). auto.
      + injection E as <- <- _. auto.
    - intros Hr Hp e He. apply in_app_or in He. destruct He as [He|[<-|[]]]; [now apply Har|reflexivity].
    - intros _. rewrite last_run_snoc. now rewrite Nat.eqb_refl.
  Qed.

  Theorem run_job_inv t : forall rr s, wf_taskb t = true -> run_inv rr t s (run_job w cfg rr t s).
  Proof.
    induction t as [c|c ns IH] using task_ind2; intros rr s Hwf.
    - cbn [run_job tid]. destruct (early_exit cfg rr (st s) c) as [v|] eqn:E.
      + now apply (hit_inv rr (Leaf c) s v).
      + rewrite <- (app_nil_l [EvRun c rr _]).
        apply (exec_inv rr (Leaf c) s (with_dir s rt c Partial) []); cbn [tid with_dir st clock execs].
        * exact E.
        * intros l c'. now rewrite post_store_nil.
        * reflexivity.
        * intros c'. cbn. lia.
        * intros e [].
        * apply trace_ok_nil.
        * intros c' rr' x [].
        * intros _ _ e [].
    - cbn [run_job tid]. destruct (early_exit cfg rr (st s) c) as [v|] eqn:E.
      + now apply (hit_inv rr (Wf c ns) s v).
      + cbn in Hwf. apply andb_true_iff in Hwf. destruct Hwf as [Hc Hns].
        pose proof (run_nodes_inv (rr && prop cfg) ns IH Hns (with_dir s rt c Partial) []) as N.
        destruct (run_nodes (run_job w cfg (rr && prop cfg)) ns (with_dir s rt c Partial) []) as [[s2 evs] o].
        destruct N as [B1 B2 B3 B4 B5 B6 B7]. cbn [fst snd with_dir st clock execs] in *.
        apply (exec_inv rr (Wf c ns) s s2 evs); cbn [tid].
        * exact E.
        * exact B1.
        * exact B2.
        * exact B3.
        * intros e He. split; [cbn; right; now apply B4|].
          intros Heq. apply negb_true_iff in Hc. rewrite <- not_true_iff_false in Hc. apply Hc.
          apply existsb_exists. exists (ev_id e). split; [now apply B4|]. now rewrite Heq, Nat.eqb_refl.
        * exact B5.
        * intros c' rr' x He Hrr. specialize (B6 c' rr' x He Hrr). now apply andb_true_iff in B6.
        * intros Hr Hp. apply B7; [now rewrite Hr, Hp|exact Hp].
  Qed.
End Inv.

(* ------------------------------------------------------------------ one submission meets the spec *)
Definition observe_submit (w : world) (sub : submission) (s : state) : observed * state :=
  let '(s1, evs, r) := submit w (s_cfg sub) (s_rerun sub) (s_task sub) s in
  ({| o_pre := st s; o_sub := sub; o_events := evs; o_reported := r; o_post := st s1 |}, s1).

Lemma submit_reports w cfg rr t s :
  wf_taskb t = true ->
  forall s1 evs r, run_job w cfg rr t s = (s1, evs, r) ->
  submit w cfg rr t s = (s1, evs, r).
Proof.
  intros Hwf s1 evs r E. unfold submit. rewrite E.
  pose proof (run_job_inv w cfg t rr s Hwf) as I. rewrite E in I.
  destruct I as [I1 _ _ I4 _ _ _ _ _]. cbn [fst snd] in *.
  destruct I4 as [H|(v & -> & -> & _ & -> & Hl)].
  - unfold all_caches. rewrite (load_result_head (st s1) (tid t) (root cfg) (ro cfg) r); [reflexivity|].
    rewrite I1. unfold post_store. now rewrite Nat.eqb_refl, H.
  - now rewrite Hl.
Qed.

Theorem submit_meets_spec_core w sub s :
  wf_taskb (s_task sub) = true -> step_spec_core (fst (observe_submit w sub s)).
Proof.
  intros Hwf. unfold observe_submit.
  destruct (run_job w (s_cfg sub) (s_rerun sub) (s_task sub) s) as [[s1 evs] r] eqn:E.
  rewrite (submit_reports w _ _ _ s Hwf s1 evs r E).
  pose proof (run_job_inv w (s_cfg sub) (s_task sub) (s_rerun sub) s Hwf) as I. rewrite E in I.
  destruct I as [I1 I2 I3 I4 I5 I6 I7 I8 I9]. cbn [fst snd] in *.
  unfold step_spec_core, spec_once, spec_rerun, spec_readonly, spec_written, spec_not_served, spec_reported,
    root_ok_after, served, o_root, o_listed, o_top. cbn [o_pre o_sub o_events o_reported o_post].
  repeat split.
  - intros e1 c rr x e2 Hev Hok. pose proof (I6 e1 (EvRun c rr x) e2 Hev) as H. cbn in H.
    specialize (H Hok). subst rr.
    assert (Hin : In (EvRun c true x) evs) by (rewrite Hev; apply in_or_app; right; left; reflexivity).
    destruct (I7 c true x Hin eq_refl) as [Hr Hc]. unfold requested. rewrite Hr. cbn.
    destruct Hc as [-> | ->]; [now rewrite Nat.eqb_refl|apply orb_true_r].
  - exists r. now apply I9.
  - intros Hp e He. now apply I8.
  - intros l c Hl. rewrite I1. unfold post_store. destruct (Nat.eqb_spec l (root (s_cfg sub))); [contradiction|reflexivity].
  - intros c. rewrite I1. unfold post_store. rewrite Nat.eqb_refl. destruct (last_run c evs); reflexivity.
  - intros e1 c v e2 Hev. apply (I6 e1 (EvHit c v) e2 Hev).
  - destruct I4 as [H|(v & -> & -> & _)].
    + now rewrite H.
    + cbn. exists v. reflexivity.
Qed.

(* reuse, outside the errored-shadow class *)
Theorem submit_reuses w sub s :
  wf_taskb (s_task sub) = true ->
  errored_shadow (st s) (tid (s_task sub)) (all_caches (s_cfg sub)) = false ->
  spec_reuse (fst (observe_submit w sub s)).
Proof.
  intros Hwf Hsh. unfold observe_submit.
  destruct (run_job w (s_cfg sub) (s_rerun sub) (s_task sub) s) as [[s1 evs] r] eqn:E.
  rewrite (submit_reports w _ _ _ s Hwf s1 evs r E).
  unfold spec_reuse, listed_ok, o_listed, o_top. cbn [fst o_pre o_sub o_events o_reported o_post].
  intros Hrr (v & Hv).
  destruct (load_result_reuse (st s) _ _ v Hsh Hv) as (v' & l' & H1 & H2 & H3).
  destruct (s_task sub) as [c|c ns] eqn:Et; cbn [run_job tid] in E, H1, H3 |- *;
    unfold early_exit in E; rewrite Hrr, H1 in E; injection E as <- <- <-.
  - split; [intros e [<-|[]]; reflexivity|]. exists v'. split; [exists l'; auto|reflexivity].
  - split; [intros e [<-|[]]; reflexivity|]. exists v'. split; [exists l'; auto|reflexivity].
Qed.

(* "a complete result present in any listed cache is reused" at full strength is false on the
   current tree: an errored result in the cache root hides a successful one in a read-only cache *)
Definition reuse_full_statement : Prop :=
  forall w sub s, wf_taskb (s_task sub) = true -> spec_reuse (fst (observe_submit w sub s)).

Definition w0 : world := {| body := fun _ _ _ => Ok 7; wfout := fun _ _ _ => Ok 0 |}.
Definition shadow_store : store :=
  set_dir (set_dir empty_store 0 5 (Complete Err)) 1 5 (Complete (Ok 7)).
Definition shadow_state : state := {| st := shadow_store; execs := fun _ => 0; clock := 0 |}.
Definition shadow_sub : submission :=
  {| s_task := Leaf 5; s_cfg := {| root := 0; ro := [1]; prop := true |}; s_rerun := false |}.

Theorem reuse_refuted_errored_shadow : ~ reuse_full_statement.
Proof.
  intros H. specialize (H w0 shadow_sub shadow_state eq_refl).
  unfold spec_reuse in H. cbn in H.
  destruct (H eq_refl) as [Hno _].
  - exists 7. exists 1. split; [right; left; reflexivity|reflexivity].
  - specialize (Hno (EvRun 5 false (Ok 7)) (or_introl eq_refl)). discriminate.
Qed.

(* the repaired finding F11: an incomplete leftover directory in the root in front of a complete
   result in a read-only cache.  The current tree reuses; the code before the repair
   (load_result_first_dir) found nothing and re-executed. *)
Definition leftover_store : store := set_dir (set_dir empty_store 0 5 Partial) 1 5 (Complete (Ok 7)).
Lemma leftover_now_reused :
  load_result leftover_store 5 [0; 1] = Some (Ok 7) /\
  load_result_first_dir leftover_store 5 [0; 1] = None /\
  leftover_shadow leftover_store 5 [0; 1] = true /\ errored_shadow leftover_store 5 [0; 1] = false.
Proof. repeat split; vm_compute; reflexivity. Qed.

(* ------------------------------------------------------------------ histories *)
(* Part 1 (reference semantics only): any chain of observed submissions, each meeting the
   per-step semantics, executes a successful identity again under the same root only on request *)
Definition all_core (h : list hobs) : Prop := forall o, In (HSubmit o) h -> step_spec_core o.

Lemma all_core_tail x h : all_core (x :: h) -> all_core h.
Proof. intros H o Ho. apply H. now right. Qed.

Lemma plant_store_complete s l c' R c x :
  s R c = Complete x -> plant_store s l c' R c = Complete x.
Proof.
  intros H. unfold plant_store. destruct (s l c') eqn:E; try exact H.
  unfold set_dir. destruct (Nat.eqb_spec l R) as [->|]; [|exact H].
  destruct (Nat.eqb_spec c' c) as [->|]; [congruence|exact H].
Qed.

Definition tag (sub : submission) (e : event) : tagged := (sub, e).

Lemma map_tag_split sub evs a sub' e' b :
  map (tag sub) evs = a ++ (sub', e') :: b ->
  exists e1 e2, evs = e1 ++ e' :: e2 /\ sub' = sub /\ a = map (tag sub) e1 /\ b = map (tag sub) e2.
Proof.
  intros H. apply map_eq_app in H. destruct H as (e1 & r & -> & H1 & H2).
  apply map_eq_cons in H2. destruct H2 as (e & e2 & -> & H2 & H3).
  unfold tag in H2. injection H2 as <- <-. exists e1, e2. auto.
Qed.

Lemma no_runs_last_run R c sub es :
  forallb (fun x => negb (is_run_at R c x)) (map (tag sub) es) = true ->
  root (s_cfg sub) = R -> last_run c es = None.
Proof.
  intros H HR. apply last_run_none. intros e He.
  rewrite forallb_forall in H. specialize (H (tag sub e) (in_map _ _ _ He)).
  unfold is_run_at, tag in H. cbn in H. rewrite HR, Nat.eqb_refl in H. cbn in H.
  now apply negb_true_iff in H.
Qed.

Lemma post_keeps o R c x :
  step_spec_core o -> o_pre o R c = Complete x ->
  forallb (fun y => negb (is_run_at R c y)) (map (tag (o_sub o)) (o_events o)) = true ->
  o_post o R c = Complete x.
Proof.
  intros (_ & _ & Hro & Hw & _) Hpre Hno.
  destruct (Nat.eq_dec R (o_root o)) as [->|Hne].
  - specialize (Hw c). rewrite (no_runs_last_run (o_root o) c (o_sub o)) in Hw; auto. congruence.
  - rewrite Hro; auto.
Qed.

Lemma held_until_request h : forall s R c v,
  chained s h -> all_core h -> s R c = Complete (Ok v) ->
  forall t2 sub2 rr2 r2 t3,
    flatten h = t2 ++ (sub2, EvRun c rr2 r2) :: t3 ->
    root (s_cfg sub2) = R ->
    forallb (fun x => negb (is_run_at R c x)) t2 = true ->
    requested sub2 c = true.
Proof.
  induction h as [|x h IH]; intros s R c v Hch Hall Hs t2 sub2 rr2 r2 t3 Hfl HR Hno.
  - cbn in Hfl. destruct t2; discriminate.
  - destruct x as [o|l c'].
    + cbn in Hch, Hfl. destruct Hch as [Hpre Hch].
      assert (Hcore : step_spec_core o) by (apply Hall; now left).
      fold (tag (o_sub o)) in Hfl.
      apply app_eq_app in Hfl. destruct Hfl as (l' & [[H1 H2]|[H1 H2]]).
      * destruct l' as [|y l'].
        -- cbn in H2. rewrite app_nil_r in H1. subst t2.
           apply (IH (o_post o) R c v Hch (all_core_tail _ _ Hall)) with (t2 := []) (rr2 := rr2) (r2 := r2) (t3 := t3); auto.
           apply (post_keeps o R c (Ok v) Hcore); [now rewrite Hpre|exact Hno].
        -- cbn in H2. injection H2 as <- H2.
           apply map_tag_split in H1. destruct H1 as (e1 & e2 & Hev & -> & -> & _).
           destruct Hcore as (Hon & _). apply (Hon e1 c rr2 r2 e2 Hev).
           unfold root_ok_after, rok, o_root. rewrite HR.
           rewrite (no_runs_last_run R c (o_sub o) e1 Hno HR). now rewrite Hpre, Hs.
      * subst t2. rewrite forallb_app in Hno. apply andb_true_iff in Hno. destruct Hno as [Hno1 Hno2].
        apply (IH (o_post o) R c v Hch (all_core_tail _ _ Hall)) with (t2 := l') (rr2 := rr2) (r2 := r2) (t3 := t3); auto.
        apply (post_keeps o R c (Ok v) Hcore); [now rewrite Hpre|exact Hno1].
    + cbn in Hch, Hfl.
      apply (IH (plant_store s l c') R c v Hch (all_core_tail _ _ Hall)) with (t2 := t2) (rr2 := rr2) (r2 := r2) (t3 := t3); auto.
      now apply plant_store_complete.
Qed.

Theorem chained_history_once h : forall s, chained s h -> all_core h -> history_once h.
Proof.
  induction h as [|x h IH]; intros s Hch Hall R c t1 sub1 rr1 v t2 sub2 rr2 r2 t3 Hfl HR1 HR2 Hno.
  - cbn in Hfl. destruct t1; discriminate.
  - destruct x as [o|l c'].
    + cbn in Hch, Hfl. destruct Hch as [Hpre Hch].
      assert (Hcore : step_spec_core o) by (apply Hall; now left).
      fold (tag (o_sub o)) in Hfl.
      apply app_eq_app in Hfl. destruct Hfl as (l' & [[H1 H2]|[H1 H2]]).
      * destruct l' as [|y l'].
        -- cbn in H2. rewrite app_nil_r in H1.
           apply (IH (o_post o) Hch (all_core_tail _ _ Hall) R c [] sub1 rr1 v t2 sub2 rr2 r2 t3); auto.
        -- cbn in H2. injection H2 as <- H2.
           apply map_tag_split in H1. destruct H1 as (e1 & e2 & Hev & -> & -> & ->).
           (* the first execution is in this submission; where is the second? *)
           symmetry in H2. apply app_eq_app in H2. destruct H2 as (m & [[H3 H4]|[H3 H4]]).
           ++ (* in this submission too *)
              destruct m as [|z m].
              ** cbn in H4. rewrite app_nil_r in H3.
                 apply (held_until_request h (o_post o) R c v Hch (all_core_tail _ _ Hall)) with (t2 := []) (rr2 := rr2) (r2 := r2) (t3 := t3); auto.
                 destruct Hcore as (_ & _ & _ & Hw & _). specialize (Hw c).
                 rewrite Hev, last_run_app in Hw. cbn in Hw.
                 rewrite (no_runs_last_run R c (o_sub o) e2) in Hw; [|now rewrite H3|exact HR1].
                 rewrite Nat.eqb_refl in Hw. unfold o_root in Hw. now rewrite HR1 in Hw.
              ** cbn in H4. injection H4 as <- H4.
                 apply map_tag_split in H3. destruct H3 as (e2a & e2b & He2 & -> & -> & _).
                 destruct Hcore as (Hon & _).
                 apply (Hon (e1 ++ EvRun c rr1 (Ok v) :: e2a) c rr2 r2 e2b).
                 --- rewrite Hev, He2, <- app_assoc. reflexivity.
                 --- unfold root_ok_after, rok. rewrite last_run_app. cbn.
                     rewrite (no_runs_last_run R c (o_sub o) e2a Hno HR1). now rewrite Nat.eqb_refl.
           ++ (* in a later submission *)
              subst t2. rewrite forallb_app in Hno. apply andb_true_iff in Hno. destruct Hno as [Hno1 Hno2].
              apply (held_until_request h (o_post o) R c v Hch (all_core_tail _ _ Hall)) with (t2 := m) (rr2 := rr2) (r2 := r2) (t3 := t3); auto.
              destruct Hcore as (_ & _ & _ & Hw & _). specialize (Hw c).
              rewrite Hev, last_run_app in Hw. cbn in Hw.
              rewrite (no_runs_last_run R c (o_sub o) e2 Hno1 HR1) in Hw.
              rewrite Nat.eqb_refl in Hw. unfold o_root in Hw. now rewrite HR1 in Hw.
      * apply (IH (o_post o) Hch (all_core_tail _ _ Hall) R c l' sub1 rr1 v t2 sub2 rr2 r2 t3); auto.
    + cbn in Hch, Hfl.
      apply (IH (plant_store s l c') Hch (all_core_tail _ _ Hall) R c t1 sub1 rr1 v t2 sub2 rr2 r2 t3); auto.
Qed.

(* Part 2: the model produces such chains, for every world, history and initial state *)
Fixpoint observe (w : world) (h : list step) (s : state) : list hobs :=
  match h with
  | [] => []
  | Submit sub :: r => HSubmit (fst (observe_submit w sub s)) :: observe w r (tick (snd (observe_submit w sub s)))
  | Plant l c :: r => HPlant l c :: observe w r (tick (plant s l c))
  end.

Definition tasks_wf (h : list step) : bool :=
  forallb (fun x => match x with Submit sub => wf_taskb (s_task sub) | Plant _ _ => true end) h.

Lemma observe_post w sub s : o_post (fst (observe_submit w sub s)) = st (snd (observe_submit w sub s)).
Proof.
  unfold observe_submit. destruct (submit w (s_cfg sub) (s_rerun sub) (s_task sub) s) as [[s1 evs] r]. reflexivity.
Qed.
Lemma observe_pre w sub s : o_pre (fst (observe_submit w sub s)) = st s.
Proof.
  unfold observe_submit. destruct (submit w (s_cfg sub) (s_rerun sub) (s_task sub) s) as [[s1 evs] r]. reflexivity.
Qed.

Lemma observe_chained w h : forall s, chained (st s) (observe w h s).
Proof.
  induction h as [|x h IH]; intros s; cbn; [exact I|].
  destruct x as [sub|l c]; cbn.
  - split; [intros; now rewrite observe_pre|]. rewrite observe_post. apply (IH (tick _)).
  - replace (plant_store (st s) l c) with (st (tick (plant s l c))); [apply IH|].
    unfold plant, plant_store. cbn. destruct (st s l c); reflexivity.
Qed.

Lemma observe_all_core w h : forall s, tasks_wf h = true -> all_core (observe w h s).
Proof.
  induction h as [|x h IH]; intros s Hwf o Ho; [destruct Ho|].
  cbn in Hwf. apply andb_true_iff in Hwf. destruct Hwf as [Hx Hh].
  destruct x as [sub|l c]; cbn in Ho; destruct Ho as [E|Ho]; try discriminate.
  - injection E as <-. now apply submit_meets_spec_core.
  - exact (IH _ Hh o Ho).
  - exact (IH _ Hh o Ho).
Qed.

Theorem model_history_once w h s : tasks_wf h = true -> history_once (observe w h s).
Proof.
  intros Hwf. apply (chained_history_once _ (st s)); [apply observe_chained|now apply observe_all_core].
Qed.

(* no location other than the roots of the submissions is ever modified by the submissions *)
Theorem model_history_readonly w h : forall s l c,
  tasks_wf h = true ->
  (forall sub, In (Submit sub) h -> root (s_cfg sub) <> l) ->
  (forall l' c', In (Plant l' c') h -> l' <> l) ->
  st (fst (run_history w h s)) l c = st s l c.
Proof.
  induction h as [|x h IH]; intros s l c Hwf Hr Hp; [reflexivity|].
  cbn in Hwf. apply andb_true_iff in Hwf. destruct Hwf as [Hx Hh].
  cbn [run_history]. destruct (do_step w x s) as [s1 o] eqn:E1.
  specialize (IH s1 l c Hh (fun sub H => Hr sub (or_intror H)) (fun l' c' H => Hp l' c' (or_intror H))).
  destruct (run_history w h s1) as [s2 os]. cbn [fst] in *. rewrite IH.
  destruct x as [sub|l' c']; cbn in E1.
  - pose proof (submit_meets_spec_core w sub s Hx) as (_ & _ & Hro & _).
    unfold observe_submit in Hro.
    destruct (submit w (s_cfg sub) (s_rerun sub) (s_task sub) s) as [[s1' evs] r]. injection E1 as <- _.
    cbn in Hro |- *. apply Hro. intros ->. now apply (Hr sub (or_introl eq_refl)).
  - injection E1 as <- _. cbn. unfold plant. destruct (st s l' c') eqn:E; try reflexivity.
    cbn. unfold set_dir. destruct (Nat.eqb_spec l' l) as [->|]; [|reflexivity].
    exfalso. now apply (Hp l c' (or_introl eq_refl)).
Qed.

(* ------------------------------------------------------------------ rerun and propagation, statically *)
Fixpoint postorder (t : task) : list ident :=
  match t with Leaf c => [c] | Wf c ns => flat_map postorder ns ++ [c] end.

Section Propagate.
  Variable w : world.
  Variable cfg : config.
  Hypothesis Hprop : prop cfg = true.

  Definition all_done (t : task) : Prop :=
    forall s s' evs v, run_job w cfg true t s = (s', evs, Ok v) ->
      map ev_id evs = postorder t /\ forallb is_run evs = true.

  Lemma rerun_nodes_all ns : Forall all_done ns ->
    forall s acc s' evs vs, run_nodes (run_job w cfg true) ns s acc = (s', evs, Some vs) ->
      map ev_id evs = flat_map postorder ns /\ forallb is_run evs = true.
  Proof.
    induction 1 as [|n ns Hn _ IH]; intros s acc s' evs vs E; cbn in E.
    - injection E as _ <- _. auto.
    - destruct (run_job w cfg true n s) as [[s1 e1] r] eqn:E1. destruct r as [v|]; [|discriminate].
      destruct (run_nodes (run_job w cfg true) ns s1 (v :: acc)) as [[s2 e2] o] eqn:E2.
      injection E as _ <- ->. destruct (Hn s s1 e1 v E1) as [A1 A2].
      destruct (IH s1 (v :: acc) s2 e2 vs E2) as [B1 B2].
      rewrite map_app, forallb_app, A1, A2, B1, B2. auto.
  Qed.

  (* with rerun and propagation, a submission that ends well has executed every job of the tree,
     in dependency order; nothing was taken from any cache *)
  Theorem rerun_propagates t : all_done t.
  Proof.
    induction t as [c|c ns IH] using task_ind2; intros s s' evs v E; cbn [run_job tid early_exit] in E.
    - injection E as _ <- _. auto.
    - rewrite Hprop in E. cbn [andb] in E.
      destruct (run_nodes (run_job w cfg true) ns (with_dir s (root cfg) c Partial) []) as [[s2 e2] o] eqn:E2.
      injection E as _ <- Hr. destruct o as [vs|]; [|discriminate].
      destruct (rerun_nodes_all ns IH _ _ _ _ _ E2) as [B1 B2].
      rewrite map_app, forallb_app, B1, B2. auto.
  Qed.
End Propagate.

Lemma last_run_counted c evs : forall r, last_run c evs = Some r -> 1 <= count_runs c evs.
Proof.
  induction evs as [|e evs IH]; cbn; intros r H; [discriminate|].
  destruct (last_run c evs) as [r'|]; [specialize (IH r' eq_refl); lia|].
  destruct e as [|c' rr x]; [discriminate|]. cbn. destruct (Nat.eqb c c'); [lia|discriminate].
Qed.

(* rerun re-executes the submitted task, whatever the caches hold *)
Theorem rerun_reexecutes w cfg t s :
  wf_taskb t = true ->
  let '(s', evs, r) := run_job w cfg true t s in
  last_run (tid t) evs = Some r /\ st s' (root cfg) (tid t) = Complete r /\
  execs s' (tid t) = execs s (tid t) + count_runs (tid t) evs /\ 1 <= count_runs (tid t) evs.
Proof.
  intros Hwf. pose proof (run_job_inv w cfg t true s Hwf) as I.
  destruct (run_job w cfg true t s) as [[s' evs] r]. destruct I as [I1 _ I3 _ _ _ _ _ I9]. cbn [fst snd] in *.
  specialize (I9 eq_refl). repeat split.
  - exact I9.
  - rewrite I1. unfold post_store. now rewrite Nat.eqb_refl, I9.
  - apply I3.
  - now apply (last_run_counted _ _ r).
Qed.

(* a stored failure is never handed back by the early exit: the job is executed again *)
Theorem error_not_served w cfg t s :
  wf_taskb t = true ->
  load_result (st s) (tid t) (all_caches cfg) = Some Err ->
  forall rr, let '(s', evs, r) := run_job w cfg rr t s in
  last_run (tid t) evs = Some r /\ 1 <= count_runs (tid t) evs /\ st s' (root cfg) (tid t) = Complete r.
Proof.
  intros Hwf Hl rr. pose proof (run_job_inv w cfg t rr s Hwf) as I.
  destruct (run_job w cfg rr t s) as [[s' evs] r]. destruct I as [I1 _ _ I4 _ _ _ _ _]. cbn [fst snd] in *.
  destruct I4 as [H|(v & _ & _ & _ & _ & Hl')]; [|congruence].
  repeat split; [exact H|now apply (last_run_counted _ _ r)|rewrite I1; unfold post_store; now rewrite Nat.eqb_refl, H].
Qed.

(* a failing execution is stored as a failure, and the next submission of the same task under
   the same root (nothing else having touched that directory) executes it again *)
Theorem failure_reexecuted w cfg t s rr :
  wf_taskb t = true ->
  forall s1 evs1, run_job w cfg rr t s = (s1, evs1, Err) ->
  st s1 (root cfg) (tid t) = Complete Err /\
  forall w2 cfg2 s2 rr2, root cfg2 = root cfg -> st s2 (root cfg) (tid t) = Complete Err ->
    let '(s3, evs3, r3) := run_job w2 cfg2 rr2 t s2 in last_run (tid t) evs3 = Some r3.
Proof.
  intros Hwf s1 evs1 E. pose proof (run_job_inv w cfg t rr s Hwf) as I. rewrite E in I.
  destruct I as [I1 _ _ I4 _ _ _ _ _]. cbn [fst snd] in *.
  destruct I4 as [H|(v & _ & Hv & _)]; [|discriminate].
  split; [rewrite I1; unfold post_store; now rewrite Nat.eqb_refl, H|].
  intros w2 cfg2 s2 rr2 Hroot Hs2.
  pose proof (run_job_inv w2 cfg2 t rr2 s2 Hwf) as J.
  destruct (run_job w2 cfg2 rr2 t s2) as [[s3 evs3] r3]. destruct J as [_ _ _ J4 _ _ _ _ _]. cbn [fst snd] in *.
  destruct J4 as [J|(v & _ & _ & _ & _ & Hl)]; [exact J|].
  unfold all_caches in Hl. cbn in Hl. rewrite Hroot, Hs2 in Hl. discriminate.
Qed.

(* what the submission reports is the outcome of the execution (Err = the failure is reported) *)
Theorem submit_reports_outcome w cfg rr t s :
  wf_taskb t = true -> submit w cfg rr t s = run_job w cfg rr t s.
Proof.
  intros Hwf. destruct (run_job w cfg rr t s) as [[s1 evs] r] eqn:E. now apply submit_reports.
Qed.

(* ------------------------------------------------------------------ the hypotheses are met by real cases *)
Definition ex_wf : task := Wf 9 [Leaf 1; Wf 8 [Leaf 1; Leaf 2]].
Definition ex_cfg (rt : loc) (ros : list loc) (p : bool) : config := {| root := rt; ro := ros; prop := p |}.
Definition ex_world : world :=
  {| body := fun c k _ => if Nat.eqb c 2 && Nat.eqb k 0 then Err else Ok (10 + c); wfout := fun c _ vs => Ok (100 * c + List.length vs) |}.
Definition ex_history : list step :=
  [ Submit {| s_task := ex_wf; s_cfg := ex_cfg 0 [] true; s_rerun := false |};      (* node 2 fails *)
    Submit {| s_task := ex_wf; s_cfg := ex_cfg 0 [] true; s_rerun := false |};      (* 1 reused, rest executed *)
    Plant 1 9;
    Submit {| s_task := ex_wf; s_cfg := ex_cfg 1 [0] true; s_rerun := false |};     (* leftover in root 1, result in 0: reused *)
    Submit {| s_task := ex_wf; s_cfg := ex_cfg 0 [1] false; s_rerun := true |};     (* rerun without propagation *)
    Submit {| s_task := ex_wf; s_cfg := ex_cfg 0 [1] true; s_rerun := true |} ].    (* rerun with propagation *)

Example ex_nonvacuous :
  tasks_wf ex_history = true /\
  map (fun o => match o with Some (evs, r) => (map (fun e => match e with EvHit c _ => (c, 0) | EvRun c _ (Ok _) => (c, 1) | EvRun c _ Err => (c, 2) end) evs, r) | None => ([], Err) end)
      (snd (run_history ex_world ex_history init_state))
  = [ ([(1, 1); (1, 0); (2, 2); (8, 2); (9, 2)], Err);
      ([(1, 0); (1, 0); (2, 1); (8, 1); (9, 1)], Ok 902);
      ([], Err);
      ([(9, 0)], Ok 902);
      ([(1, 0); (8, 0); (9, 1)], Ok 902);
      ([(1, 1); (1, 1); (2, 1); (8, 1); (9, 1)], Ok 902) ].
Proof. split; vm_compute; reflexivity. Qed.
