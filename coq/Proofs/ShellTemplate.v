(* Proofs/ShellTemplate.v — rendering an argstr AST to text and what str.replace / str.format / the bracket clean-up /
   shlex do to it when literals and values are benign: the built text re-tokenises to the instantiated words. *)
From Pydra Require Import Base.Prelude Base.Shlex Model.Shell Spec.Shell Proofs.Shlex Proofs.ShellStr.
Local Open Scope char_scope.
Local Open Scope list_scope.

Definition nobrace (c : ascii) : bool := negb (Ascii.eqb c lbrace) && negb (Ascii.eqb c rbrace).
Definition piece_nb (p : piece) : bool :=
  match p with Lit s => forallb nobrace s | Self => true | Other _ => false end.

(* ------------------------------------------------------------------ character classes *)
Lemma benign_inv c : benign_char c = true ->
  py_ws c = false /\ is_quote c = false /\ Ascii.eqb c bsl = false /\ Ascii.eqb c lbrace = false /\ Ascii.eqb c rbrace = false.
Proof.
  unfold benign_char. intros H. apply negb_true_iff in H.
  apply orb_false_iff in H as [H H5]. apply orb_false_iff in H as [H H4]. apply orb_false_iff in H as [H H3].
  apply orb_false_iff in H as [H1 H2]. auto.
Qed.
Lemma benign_nobrace c : benign_char c = true -> nobrace c = true.
Proof. intros H. destruct (benign_inv c H) as (_ & _ & _ & A & B). unfold nobrace. now rewrite A, B. Qed.
Lemma benign_noq c : benign_char c = true -> noq_char c = true.
Proof.
  intros H. destruct (benign_inv c H) as (_ & Q & B & _ & _). unfold is_quote in Q. apply orb_false_iff in Q as [Q1 Q2].
  unfold noq_char. now rewrite Q1, Q2, B.
Qed.
Lemma benign_not_pyws c : benign_char c = true -> py_ws c = false.
Proof. intros H. now destruct (benign_inv c H). Qed.
Lemma pyws_of_ws c : is_ws c = true -> py_ws c = true.
Proof. destruct c as [[] [] [] [] [] [] [] []]; vm_compute; intros H; try reflexivity; discriminate H. Qed.
Lemma benign_not_ws c : benign_char c = true -> negb (is_ws c) = true.
Proof.
  intros H. apply benign_not_pyws in H. destruct (is_ws c) eqn:E; [|reflexivity].
  apply pyws_of_ws in E. congruence.
Qed.
Lemma benign_not_quote c : benign_char c = true -> is_quote c = false.
Proof. intros H. now destruct (benign_inv c H) as (_ & Q & _). Qed.
Lemma ident_nobrace c : ident_char c = true -> nobrace c = true.
Proof. destruct c as [[] [] [] [] [] [] [] []]; vm_compute; intros H; try reflexivity; discriminate H. Qed.
Lemma ident_start_char c : ident_start c = true -> ident_char c = true.
Proof. unfold ident_char. intros ->. reflexivity. Qed.
Lemma valid_ident_nobrace n : valid_ident n = true -> forallb nobrace n = true.
Proof.
  destruct n as [|c n]; cbn; [discriminate|]. intros H. apply andb_true_iff in H as [H1 H2].
  rewrite (ident_nobrace c (ident_start_char c H1)). cbn.
  eapply forallb_impl; [|exact H2]. apply ident_nobrace.
Qed.
Lemma nobrace_l c : nobrace c = true -> Ascii.eqb lbrace c = false /\ Ascii.eqb c lbrace = false /\ Ascii.eqb c rbrace = false.
Proof.
  unfold nobrace. intros H. apply andb_true_iff in H as [H1 H2]. apply negb_true_iff in H1, H2.
  repeat split; auto; rewrite Ascii.eqb_sym; exact H1.
Qed.

(* ------------------------------------------------------------------ the flat view of a template *)
Fixpoint flat (ws : list word) : list piece :=
  match ws with [] => [] | [w] => w | w :: r => w ++ Lit [" "] :: flat r end.

Lemma join_flat (f : piece -> la) (Hsp : f (Lit [" "]) = [" "]) : forall ws,
  join_sep [" "] (map (fun w => List.concat (map f w)) ws) = List.concat (map f (flat ws)).
Proof.
  induction ws as [|w ws IH]; [reflexivity|]. destruct ws as [|w2 ws]; [reflexivity|].
  change (flat (w :: w2 :: ws)) with (w ++ Lit [" "] :: flat (w2 :: ws)).
  rewrite map_app, concat_app. cbn [map List.concat]. rewrite Hsp, <- IH. reflexivity.
Qed.
Lemma render_flat n ws : render_words n ws = List.concat (map (render_piece n) (flat ws)).
Proof. unfold render_words, render_word. now apply join_flat. Qed.
Lemma occ_flat vals v ws : occ_text ws vals v = List.concat (map (inst_piece vals v) (flat ws)).
Proof. unfold occ_text, inst_word. now apply join_flat. Qed.

Lemma flat_nb ws : forallb (forallb piece_nb) ws = true -> forallb piece_nb (flat ws) = true.
Proof.
  induction ws as [|w ws IH]; [reflexivity|]. cbn [forallb]. intros H. apply andb_true_iff in H as [H1 H2].
  destruct ws as [|w2 ws]; [exact H1|]. change (flat (w :: w2 :: ws)) with (w ++ Lit [" "] :: flat (w2 :: ws)).
  rewrite forallb_app, H1. cbn [forallb andb]. change (piece_nb (Lit [" "])) with true. cbn [andb]. apply IH, H2.
Qed.
Lemma flat_ph ws : existsb is_ph (flat ws) = has_ph ws.
Proof.
  unfold has_ph. induction ws as [|w ws IH]; [reflexivity|]. destruct ws as [|w2 ws]; [cbn; now rewrite orb_false_r|].
  change (flat (w :: w2 :: ws)) with (w ++ Lit [" "] :: flat (w2 :: ws)).
  rewrite existsb_app. cbn [existsb is_ph orb]. rewrite IH. reflexivity.
Qed.

Lemma piece_ok_nb p : piece_ok p = true -> piece_nb p = true.
Proof. destruct p; cbn; auto. intros H. eapply forallb_impl; [|exact H]. apply benign_nobrace. Qed.
Lemma words_ok_nb ws : forallb word_ok ws = true -> forallb (forallb piece_nb) ws = true.
Proof.
  intros H. eapply forallb_impl; [|exact H]. intros w Hw. unfold word_ok in Hw. apply andb_true_iff in Hw as [Hw _].
  eapply forallb_impl; [|exact Hw]. apply piece_ok_nb.
Qed.

(* ------------------------------------------------------------------ braces in the rendered text *)
Section Name.
Variable n : la.
Hypothesis Hn : valid_ident n = true.

Lemma has_char_nobrace s : forallb nobrace s = true -> has_char lbrace s = false /\ has_char rbrace s = false.
Proof.
  unfold has_char. induction s as [|c s IH]; [split; reflexivity|]. cbn [forallb existsb]. intros H.
  apply andb_true_iff in H as [H1 H2]. destruct (nobrace_l c H1) as (E1 & _ & E2). destruct (IH H2) as [A B].
  rewrite E1, A. rewrite (Ascii.eqb_sym rbrace c), E2, B. split; reflexivity.
Qed.

Lemma has_brace_piece p : piece_nb p = true ->
  has_char lbrace (render_piece n p) = is_ph p /\ has_char rbrace (render_piece n p) = is_ph p.
Proof.
  destruct p as [s| |m]; cbn [piece_nb render_piece is_ph]; [| |discriminate].
  - apply has_char_nobrace.
  - intros _. unfold placeholder, has_char. split.
    + cbn [existsb]. now rewrite Ascii.eqb_refl.
    + cbn [existsb]. rewrite existsb_app. cbn [existsb]. rewrite Ascii.eqb_refl. now rewrite !orb_true_r.
Qed.

Lemma has_brace_pieces ps : forallb piece_nb ps = true ->
  has_char lbrace (List.concat (map (render_piece n) ps)) = existsb is_ph ps /\
  has_char rbrace (List.concat (map (render_piece n) ps)) = existsb is_ph ps.
Proof.
  induction ps as [|p ps IH]; [split; reflexivity|]. cbn [forallb map List.concat existsb]. intros H.
  apply andb_true_iff in H as [H1 H2]. destruct (has_brace_piece p H1) as [A B]. destruct (IH H2) as [C D].
  rewrite !has_char_app, A, B, C, D. split; reflexivity.
Qed.

Lemma has_brace_words ws : forallb word_ok ws = true ->
  has_char lbrace (render_words n ws) = has_ph ws /\ has_char rbrace (render_words n ws) = has_ph ws.
Proof.
  intros H. rewrite render_flat, <- flat_ph. apply has_brace_pieces, flat_nb, words_ok_nb, H.
Qed.

(* ------------------------------------------------------------------ str.replace("{name}", v) *)
Lemma repl_pieces vals v : forall ps, forallb piece_nb ps = true ->
  replace_all (placeholder n) v (List.concat (map (render_piece n) ps)) = List.concat (map (inst_piece vals v) ps).
Proof.
  unfold replace_all, placeholder. induction ps as [|p ps IH]; [reflexivity|]. cbn [forallb map List.concat].
  intros H. apply andb_true_iff in H as [H1 H2]. destruct p as [s| |m]; cbn [piece_nb render_piece inst_piece] in *.
  - rewrite repl_copy, IH by (exact H2 || (eapply forallb_impl; [|exact H1]; intros c Hc;
      destruct (nobrace_l c Hc) as (E & _ & _); now rewrite E)). reflexivity.
  - unfold placeholder. rewrite repl_hit, IH by exact H2. reflexivity.
  - discriminate.
Qed.

(* ------------------------------------------------------------------ str.format *)
Lemma fmt_copy env : forall a b, forallb nobrace a = true ->
  fmt env (a ++ b) None = bind (fmt env b None) (fun t => Good (a ++ t)).
Proof.
  induction a as [|c a IH]; intros b H.
  - cbn [app]. destruct (fmt env b None); reflexivity.
  - cbn [forallb] in H. apply andb_true_iff in H as [H1 H2]. destruct (nobrace_l c H1) as (_ & E1 & E2).
    cbn [app fmt]. rewrite E1, E2, IH by exact H2. destruct (fmt env b None); reflexivity.
Qed.
Lemma fmt_nobrace env s : forallb nobrace s = true -> fmt env s None = Good s.
Proof. intros H. rewrite <- (app_nil_r s) at 1. rewrite fmt_copy by exact H. cbn. now rewrite app_nil_r. Qed.

Lemma fmt_name env : forall m acc b, forallb nobrace m = true ->
  fmt env (m ++ rbrace :: b) (Some acc) =
  if valid_ident (rev acc ++ m)
  then bind (env (rev acc ++ m)) (fun v => bind (fmt env b None) (fun t => Good (v ++ t)))
  else Bad EFormat.
Proof.
  induction m as [|c m IH]; intros acc b H.
  - cbn [app fmt]. rewrite Ascii.eqb_refl, app_nil_r. reflexivity.
  - cbn [forallb] in H. apply andb_true_iff in H as [H1 H2]. destruct (nobrace_l c H1) as (_ & _ & E2).
    cbn [app fmt]. rewrite E2, IH by exact H2. cbn [rev]. rewrite <- app_assoc. reflexivity.
Qed.

Lemma fmt_placeholder env v b : env n = Good v ->
  fmt env (placeholder n ++ b) None = bind (fmt env b None) (fun t => Good (v ++ t)).
Proof.
  intros He. unfold placeholder. pose proof (valid_ident_nobrace n Hn) as Hnb.
  destruct n as [|c m] eqn:En; [discriminate Hn|].
  cbn [forallb] in Hnb. apply andb_true_iff in Hnb as [Hc Hm]. destruct (nobrace_l c Hc) as (_ & E1 & E2).
  cbn [app fmt]. rewrite Ascii.eqb_refl. rewrite E1, E2.
  replace ((m ++ [rbrace]) ++ b) with (m ++ rbrace :: b) by (now rewrite <- app_assoc).
  rewrite fmt_name by exact Hm. cbn [rev app]. rewrite Hn, He. reflexivity.
Qed.

Lemma fmt_pieces env vals v : env n = Good v -> forall ps, forallb piece_nb ps = true ->
  fmt env (List.concat (map (render_piece n) ps)) None = Good (List.concat (map (inst_piece vals v) ps)).
Proof.
  intros He. induction ps as [|p ps IH]; [reflexivity|]. cbn [forallb map List.concat]. intros H.
  apply andb_true_iff in H as [H1 H2]. destruct p as [s| |m]; cbn [piece_nb render_piece inst_piece] in *.
  - rewrite fmt_copy, IH by assumption. reflexivity.
  - rewrite (fmt_placeholder env v _ He), IH by assumption. reflexivity.
  - discriminate.
Qed.
End Name.
