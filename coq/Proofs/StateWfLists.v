(* Proofs/StateWfLists.v — list, dictionary and product lemmas used by the C03 proofs. *)
From Pydra Require Import Base.Prelude Model.StateWf Spec.StateWf.
Local Open Scope nat_scope.

(* ---------- keys ---------- *)
Lemma key_eqb_eq a b : key_eqb a b = true <-> a = b.
Proof.
  unfold key_eqb. destruct a as [a1 a2], b as [b1 b2]; cbn.
  rewrite andb_true_iff, !Nat.eqb_eq. split; [intros [-> ->]; reflexivity | intros E; inversion E; auto].
Qed.
Lemma key_eqb_refl a : key_eqb a a = true.
Proof. apply key_eqb_eq; reflexivity. Qed.
Lemma key_eqb_neq a b : key_eqb a b = false <-> a <> b.
Proof.
  split.
  - intros E H. apply key_eqb_eq in H. congruence.
  - intros H. destruct (key_eqb a b) eqn:E; [apply key_eqb_eq in E; contradiction | reflexivity].
Qed.
Lemma key_eqb_sym a b : key_eqb a b = key_eqb b a.
Proof.
  destruct (key_eqb a b) eqn:E.
  - apply key_eqb_eq in E; subst. symmetry; apply key_eqb_refl.
  - apply key_eqb_neq in E. symmetry. apply key_eqb_neq. congruence.
Qed.
Lemma key_dec (a b : key) : {a = b} + {a <> b}.
Proof. decide equality; apply Nat.eq_dec. Qed.

Lemma memk_In k l : memk k l = true <-> In k l.
Proof.
  unfold memk. rewrite existsb_exists. split.
  - intros [x [Hx E]]. apply key_eqb_eq in E; subst; assumption.
  - intros H. exists k. split; [assumption | apply key_eqb_refl].
Qed.
Lemma memk_false k l : memk k l = false <-> ~ In k l.
Proof.
  split.
  - intros E H. apply memk_In in H. congruence.
  - intros H. destruct (memk k l) eqn:E; [apply memk_In in E; contradiction | reflexivity].
Qed.
Lemma memn_In n l : memn n l = true <-> In n l.
Proof.
  unfold memn. rewrite existsb_exists. split.
  - intros [x [Hx E]]. apply Nat.eqb_eq in E; subst; assumption.
  - intros H. exists n. split; [assumption | apply Nat.eqb_refl].
Qed.
Lemma memn_false n l : memn n l = false <-> ~ In n l.
Proof.
  split.
  - intros E H. apply memn_In in H. congruence.
  - intros H. destruct (memn n l) eqn:E; [apply memn_In in E; contradiction | reflexivity].
Qed.
Lemma nodupk_NoDup l : nodupk l = true <-> NoDup l.
Proof.
  induction l as [|k l IH]; cbn.
  - split; [constructor | reflexivity].
  - rewrite andb_true_iff, negb_true_iff, memk_false, IH. split.
    + intros [H1 H2]; constructor; assumption.
    + intros H; inversion H; subst; split; assumption.
Qed.
Lemma is_nil_true {A} (l : list A) : is_nil l = true <-> l = [].
Proof. destruct l; cbn; split; congruence. Qed.
Lemma is_nil_false {A} (l : list A) : is_nil l = false <-> l <> [].
Proof. destruct l; cbn; split; congruence. Qed.

(* ---------- all_some ---------- *)
Lemma all_some_map {A B} (f : A -> option B) (g : A -> B) l :
  (forall x, In x l -> f x = Some (g x)) -> all_some (map f l) = Some (map g l).
Proof.
  induction l as [|x l IH]; intros H; cbn; [reflexivity|].
  rewrite (H x (or_introl eq_refl)). rewrite IH; [reflexivity|]. intros y Hy; apply H; right; assumption.
Qed.

(* ---------- lookup / dictionaries ---------- *)
Lemma lookup_app d1 d2 k :
  lookup (d1 ++ d2) k = match lookup d1 k with Some v => Some v | None => lookup d2 k end.
Proof.
  induction d1 as [|[k' v] d1 IH]; cbn; [reflexivity|]. destruct (key_eqb k' k); [reflexivity | apply IH].
Qed.
Lemma lookup_none d k : lookup d k = None <-> ~ In k (map fst d).
Proof.
  induction d as [|[k' v] d IH]; cbn.
  - split; [intros _ []| reflexivity].
  - destruct (key_eqb k' k) eqn:E.
    + apply key_eqb_eq in E; subst. split; [discriminate | intros H; exfalso; apply H; left; reflexivity].
    + apply key_eqb_neq in E. rewrite IH. split; [intros H [H1|H1]; [contradiction | exact (H H1)] | intros H H1; apply H; right; exact H1].
Qed.
Lemma map_fst_combine {A B} (a : list A) (b : list B) :
  List.length a <= List.length b -> map fst (combine a b) = a.
Proof.
  revert b; induction a as [|x a IH]; intros [|y b]; cbn; intros H; try reflexivity; [lia|].
  f_equal. apply IH. lia.
Qed.
Lemma map_snd_combine {A B} (a : list A) (b : list B) :
  List.length b <= List.length a -> map snd (combine a b) = b.
Proof.
  revert b; induction a as [|x a IH]; intros [|y b]; cbn; intros H; try reflexivity; [lia|].
  f_equal. apply IH. lia.
Qed.
Lemma in_map_fst_combine {A B} (a : list A) (b : list B) x : In x (map fst (combine a b)) -> In x a.
Proof.
  revert b; induction a as [|y a IH]; intros [|z b]; cbn; try tauto.
  intros [H|H]; [left; assumption | right; eapply IH; eassumption].
Qed.

Lemma dict_set_fresh d k v : ~ In k (map fst d) -> dict_set d k v = d ++ [(k, v)].
Proof.
  induction d as [|[k' v'] d IH]; cbn; intros H; [reflexivity|].
  destruct (key_eqb k' k) eqn:E.
  - apply key_eqb_eq in E; subst. exfalso; apply H; left; reflexivity.
  - f_equal. apply IH. intros H1; apply H; right; exact H1.
Qed.
Lemma mkdict_from_nodup ks : forall d vs,
  NoDup ks -> (forall k, In k ks -> ~ In k (map fst d)) -> mkdict_from d ks vs = d ++ combine ks vs.
Proof.
  induction ks as [|k ks IH]; intros d vs Hnd Hd; cbn.
  - rewrite app_nil_r; reflexivity.
  - destruct vs as [|v vs]; [rewrite app_nil_r; reflexivity|].
    inversion Hnd; subst.
    rewrite dict_set_fresh by (apply Hd; left; reflexivity).
    rewrite IH; [rewrite <- app_assoc; reflexivity | assumption |].
    intros k' Hk'. rewrite map_app, in_app_iff; cbn. intros [H|[H|[]]].
    + eapply Hd; [right; exact Hk' | exact H].
    + subst. contradiction.
Qed.
Lemma mkdict_nodup ks vs : NoDup ks -> mkdict ks vs = combine ks vs.
Proof. intros H. unfold mkdict. rewrite mkdict_from_nodup; [reflexivity | assumption | intros k _ []]. Qed.

Lemma combine_app {A B} (a1 a2 : list A) (b1 b2 : list B) :
  List.length a1 = List.length b1 -> combine (a1 ++ a2) (b1 ++ b2) = combine a1 b1 ++ combine a2 b2.
Proof.
  revert b1; induction a1 as [|x a1 IH]; intros [|y b1]; cbn; intros H; try discriminate; [reflexivity|].
  f_equal. apply IH. lia.
Qed.

(* looking a key up in a row assembled from two segments *)
Lemma lookup_combine_app_l ks1 ks2 vs1 vs2 k :
  List.length ks1 = List.length vs1 -> In k ks1 ->
  lookup (combine (ks1 ++ ks2) (vs1 ++ vs2)) k = lookup (combine ks1 vs1) k.
Proof.
  intros HL Hin. rewrite combine_app by assumption. rewrite lookup_app.
  destruct (lookup (combine ks1 vs1) k) eqn:E; [reflexivity|].
  apply lookup_none in E. rewrite map_fst_combine in E by lia. contradiction.
Qed.
Lemma lookup_combine_app_r ks1 ks2 vs1 vs2 k :
  List.length ks1 = List.length vs1 -> ~ In k ks1 ->
  lookup (combine (ks1 ++ ks2) (vs1 ++ vs2)) k = lookup (combine ks2 vs2) k.
Proof.
  intros HL Hin. rewrite combine_app by assumption. rewrite lookup_app.
  replace (lookup (combine ks1 vs1) k) with (@None nat); [reflexivity|].
  symmetry. apply lookup_none. intros H. apply in_map_fst_combine in H. contradiction.
Qed.
Lemma lookup_combine_some ks vs k :
  In k ks -> List.length ks = List.length vs -> exists v, lookup (combine ks vs) k = Some v.
Proof.
  intros Hin HL. destruct (lookup (combine ks vs) k) eqn:E; [eexists; reflexivity|].
  apply lookup_none in E. rewrite map_fst_combine in E by lia. contradiction.
Qed.

(* ---------- products ---------- *)
Lemma flat_map_singleton {A} (l : list A) : flat_map (fun x => [x]) l = l.
Proof. induction l; cbn; congruence. Qed.
Lemma prod2_nil_r {A} (a : list (list A)) : prod2 a [[]] = a.
Proof.
  unfold prod2. rewrite <- (flat_map_singleton a) at 2. apply flat_map_ext. intros x; cbn. rewrite app_nil_r; reflexivity.
Qed.
Lemma prod2_nil_l {A} (b : list (list A)) : prod2 [[]] b = b.
Proof. unfold prod2; cbn. rewrite app_nil_r. rewrite map_id. reflexivity. Qed.
Lemma prod2_empty_r {A} (a : list (list A)) : prod2 a [] = [].
Proof. unfold prod2. induction a; cbn; auto. Qed.
Lemma flat_map_app {A B} (f : A -> list B) l1 l2 : flat_map f (l1 ++ l2) = flat_map f l1 ++ flat_map f l2.
Proof. induction l1; cbn; [reflexivity | rewrite IHl1, app_assoc; reflexivity]. Qed.
Lemma flat_map_flat_map {A B C} (f : A -> list B) (g : B -> list C) l :
  flat_map g (flat_map f l) = flat_map (fun x => flat_map g (f x)) l.
Proof. induction l; cbn; [reflexivity | rewrite flat_map_app, IHl; reflexivity]. Qed.
Lemma flat_map_map {A B C} (f : A -> B) (g : B -> list C) l : flat_map g (map f l) = flat_map (fun x => g (f x)) l.
Proof. induction l; cbn; congruence. Qed.
Lemma map_flat_map {A B C} (f : A -> list B) (g : B -> C) l : map g (flat_map f l) = flat_map (fun x => map g (f x)) l.
Proof. induction l; cbn; [reflexivity | rewrite map_app, IHl; reflexivity]. Qed.

Lemma prod2_assoc {A} (a b c : list (list A)) : prod2 (prod2 a b) c = prod2 a (prod2 b c).
Proof.
  unfold prod2. rewrite flat_map_flat_map. apply flat_map_ext. intros x.
  rewrite flat_map_map. rewrite map_flat_map. apply flat_map_ext. intros y.
  rewrite map_map. apply map_ext. intros z. rewrite app_assoc. reflexivity.
Qed.
Lemma prods_app {A} (l1 l2 : list (list (list A))) : prods (l1 ++ l2) = prod2 (prods l1) (prods l2).
Proof.
  induction l1 as [|x l1 IH].
  - change (prods ([] ++ l2)) with (prods l2). change (@prods A []) with ([[]] : list (list A)).
    rewrite prod2_nil_l; reflexivity.
  - change (prods ((x :: l1) ++ l2)) with (prod2 x (prods (l1 ++ l2))).
    change (prods (x :: l1)) with (prod2 x (prods l1)).
    rewrite IH, prod2_assoc; reflexivity.
Qed.
Lemma box_idx_app l1 l2 : box_idx (l1 ++ l2) = prod2 (box_idx l1) (box_idx l2).
Proof. unfold box_idx. rewrite map_app, prods_app. reflexivity. Qed.
Lemma box_idx_nil : box_idx [] = [[]].
Proof. reflexivity. Qed.
Lemma prods_box_idx (lss : list (list nat)) : prods (map box_idx lss) = box_idx (List.concat lss).
Proof.
  induction lss as [|l lss IH]; [reflexivity|].
  change (List.concat (l :: lss)) with (l ++ List.concat lss). rewrite box_idx_app, <- IH. reflexivity.
Qed.

Lemma In_prod2 {A} (a b : list (list A)) z :
  In z (prod2 a b) <-> exists x y, In x a /\ In y b /\ z = x ++ y.
Proof.
  unfold prod2. rewrite in_flat_map. split.
  - intros [x [Hx Hz]]. apply in_map_iff in Hz. destruct Hz as [y [E Hy]]. exists x, y. auto.
  - intros [x [y [Hx [Hy E]]]]. exists x. split; [assumption|]. apply in_map_iff. exists y; auto.
Qed.
Lemma prod2_length {A} (a b : list (list A)) : List.length (prod2 a b) = List.length a * List.length b.
Proof.
  unfold prod2. induction a as [|x a IH]; cbn; [reflexivity|]. rewrite app_length, map_length, IH. reflexivity.
Qed.

(* every tuple of box_idx lens has one entry per length, each below it *)
Lemma box_idx_elem lens : forall t, In t (box_idx lens) -> Forall2 lt t lens.
Proof.
  induction lens as [|n lens IH]; intros t Ht.
  - cbn in Ht. destruct Ht as [<-|[]]. constructor.
  - change (n :: lens) with ([n] ++ lens) in Ht. rewrite box_idx_app in Ht.
    apply In_prod2 in Ht. destruct Ht as [x [y [Hx [Hy ->]]]].
    change (box_idx [n]) with (prod2 (map (fun i => [i]) (seq 0 n)) [[]]) in Hx.
    rewrite prod2_nil_r in Hx. apply in_map_iff in Hx.
    destruct Hx as [i [<- Hi]]. apply in_seq in Hi. cbn. constructor; [lia | apply IH; exact Hy].
Qed.
Lemma Forall2_length {A B} (R : A -> B -> Prop) l1 l2 : Forall2 R l1 l2 -> List.length l1 = List.length l2.
Proof. induction 1; cbn; congruence. Qed.
Lemma box_idx_elem_length lens t : In t (box_idx lens) -> List.length t = List.length lens.
Proof. intros H. apply box_idx_elem in H. eapply Forall2_length; eassumption. Qed.

(* zip of two products whose right factors have equal length *)
Lemma combine_app_eq {A B} (a1 a2 : list A) (b1 b2 : list B) :
  List.length a1 = List.length b1 -> combine (a1 ++ a2) (b1 ++ b2) = combine a1 b1 ++ combine a2 b2.
Proof. apply combine_app. Qed.
Lemma combine_map {A B C D} (f : A -> C) (g : B -> D) a b :
  combine (map f a) (map g b) = map (fun p => (f (fst p), g (snd p))) (combine a b).
Proof.
  revert b; induction a as [|x a IH]; intros [|y b]; cbn; try reflexivity. f_equal. apply IH.
Qed.
Definition pprod2 {A B} (a b : list (list A * list B)) : list (list A * list B) :=
  flat_map (fun x => map (fun y => (fst x ++ fst y, snd x ++ snd y)) b) a.
Definition pprods {A B} (ls : list (list (list A * list B))) : list (list A * list B) :=
  fold_right pprod2 [([], [])] ls.
Lemma combine_prod2 {A B} (a b : list (list A)) (a' b' : list (list B)) :
  List.length b = List.length b' ->
  combine (prod2 a b) (prod2 a' b') = pprod2 (combine a a') (combine b b').
Proof.
  intros HL. unfold prod2, pprod2. revert a'. induction a as [|x a IH]; intros [|x' a']; cbn; try reflexivity.
  - destruct (map (fun y => x ++ y) b ++ _); reflexivity.
  - rewrite combine_app by (rewrite !map_length; exact HL). rewrite IH. f_equal.
    rewrite combine_map. reflexivity.
Qed.
Lemma combine_prods {A B X} (F : X -> list (list A)) (G : X -> list (list B)) (xs : list X) :
  (forall x, In x xs -> List.length (F x) = List.length (G x)) ->
  combine (prods (map F xs)) (prods (map G xs)) = pprods (map (fun x => combine (F x) (G x)) xs)
  /\ List.length (prods (map F xs)) = List.length (prods (map G xs)).
Proof.
  induction xs as [|x xs IH]; intros H.
  - split; reflexivity.
  - destruct IH as [IH1 IH2]; [intros y Hy; apply H; right; exact Hy|].
    change (prods (map F (x :: xs))) with (prod2 (F x) (prods (map F xs))).
    change (prods (map G (x :: xs))) with (prod2 (G x) (prods (map G xs))).
    change (pprods (map (fun x0 => combine (F x0) (G x0)) (x :: xs)))
      with (pprod2 (combine (F x) (G x)) (pprods (map (fun x0 => combine (F x0) (G x0)) xs))).
    split.
    + rewrite combine_prod2 by exact IH2. rewrite IH1. reflexivity.
    + rewrite !prod2_length, IH2, (H x (or_introl eq_refl)). reflexivity.
Qed.
Lemma In_pprod2 {A B} (a b : list (list A * list B)) z :
  In z (pprod2 a b) <-> exists x y, In x a /\ In y b /\ z = (fst x ++ fst y, snd x ++ snd y).
Proof.
  unfold pprod2. rewrite in_flat_map. split.
  - intros [x [Hx Hz]]. apply in_map_iff in Hz. destruct Hz as [y [E Hy]]. exists x, y. auto.
  - intros [x [y [Hx [Hy E]]]]. exists x. split; [assumption|]. apply in_map_iff. exists y; auto.
Qed.
