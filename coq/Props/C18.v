(* C18 — Every submission terminates (pydra/engine/graph.py sorting, pydra/engine/submitter.py
   expand_workflow / expand_workflow_async).  On the pinned tree DiGraph.sorting looped for ever on
   a cyclic graph (finding F18); the code was repaired (a pass that sorts nothing raises) and the
   former refutation is replaced by the theorems below about the repaired code. *)
From Pydra Require Import Base.Prelude Model.Graph Spec.Graph
  Proofs.GraphSort Proofs.GraphInv Proofs.GraphEdges Proofs.GraphTopo Proofs.GraphLive Proofs.GraphSched Proofs.GraphC18.
Local Open Scope nat_scope.

(* (1) sorting, from ANY object state and for any presorted argument, stops within |notsorted|
   passes: it returns an order that is valid for the recorded predecessors, or raises. *)
Theorem C18_cycle_is_error :
  forall g presorted,
    (exists g' l, sorting g presorted = Ok g' /\ g' = set_sorted g (Some l) /\
        Permutation.Permutation l (if nonempty presorted then presorted else g_nodes g) /\
        forall a b, In a (if nonempty presorted then presorted else g_nodes g) ->
                    In b (if nonempty presorted then presorted else g_nodes g) ->
                    inW (g_preds g) b a -> before a b l) \/
    (exists e, sorting g presorted = Err e /\ e <> EFuel).
Proof. exact sorting_terminates. Qed.
Print Assumptions C18_cycle_is_error.

(* (2) the exception is for cycles only: a consistent graph object whose edges between remaining
   nodes are acyclic is sorted ... *)
Theorem C18_sort_terminates_acyclic :
  forall g presorted,
    consistent g -> (presorted = [] \/ Permutation.Permutation presorted (g_nodes g)) ->
    acyclic (g_nodes g) (g_edges g) -> exists g', sorting g presorted = Ok g'.
Proof. exact consistent_sorting_ok. Qed.
Print Assumptions C18_sort_terminates_acyclic.

(* ... in particular every graph built like Workflow._create_graph builds it *)
Theorem C18_built_acyclic_sorts :
  forall ns es ops g0 g,
    init ns es = Ok g0 -> run_build g0 ops = true -> run g0 ops = Ok g ->
    acyclic (g_nodes g) (g_edges g) ->
    (exists g', sorting g [] = Ok g') /\ (exists g', step g GetSorted = Ok g').
Proof. exact built_acyclic_sorts. Qed.
Print Assumptions C18_built_acyclic_sorts.

(* and an order that sorting returned is evidence that there is no cycle *)
Theorem C18_order_implies_acyclic : forall ns es l, topo_valid ns es l -> acyclic ns es.
Proof. exact topo_valid_acyclic. Qed.
Print Assumptions C18_order_implies_acyclic.

(* (3) the loops.  Asynchronous: for ANY predecessor dictionary and node list (valid order or not),
   every completion order / failure pattern (oracle) and every max_concurrent >= 1, the loop stops
   within 2|nodes|+2 iterations — a state that cannot progress ends in the stall detector's error. *)
Theorem C18_async_loop_terminates :
  forall pd order k oracle, NoDup order -> 1 <= k ->
    run_async (2 * List.length order + 2) pd order k oracle <> OutOfFuel.
Proof. exact async_terminates. Qed.
Print Assumptions C18_async_loop_terminates.

(* Synchronous (no stall detector in the code): terminates because the scanned list is a valid
   topological order — which C37 guarantees for what sorting returned. *)
Theorem C18_sync_loop_terminates :
  forall pd order fails, NoDup order -> order_valid pd order ->
    run_sync (2 * List.length order + 1) pd order fails <> OutOfFuel.
Proof. exact sync_terminates. Qed.
Print Assumptions C18_sync_loop_terminates.

(* (4) together *)
Definition C18_full_statement : Prop :=
  forall ns es ops g0 g,
    init ns es = Ok g0 -> run_build g0 ops = true -> run g0 ops = Ok g ->
    (* cyclic or not, sorting the execution graph ends: with an order or with an exception *)
    ((exists g', step g GetSorted = Ok g') \/ (exists e, step g GetSorted = Err e /\ e <> EFuel)) /\
    (* acyclic: it ends with a valid order, on which both loops end as well *)
    (acyclic (g_nodes g) (g_edges g) ->
     exists g' s, step g GetSorted = Ok g' /\ g_sorted g' = Some s /\
       topo_valid (g_nodes g) (g_edges g) s /\
       (forall fails, run_sync (2 * List.length s + 1) (g_preds g') s fails <> OutOfFuel) /\
       (forall k oracle, 1 <= k -> run_async (2 * List.length s + 2) (g_preds g') s k oracle <> OutOfFuel)).

Theorem C18_full : C18_full_statement.
Proof.
  intros ns es ops g0 g Hi Hb Hr. split.
  - cbn. unfold sorted_nodes. destruct (g_sorted g) as [s|]; cbn; [left; eauto|].
    destruct (sorting_terminates g []) as [[g' [l [H _]]]|[e [H He]]]; rewrite H; cbn; [left; eauto|right; eauto].
  - apply (submission_terminates ns es ops g0 g Hi Hb Hr).
Qed.
Print Assumptions C18_full.

(* the recorded finding, on the repaired model: a two-node cycle built through node input assignment *)
Example C18_cycle_raises :
  exists g, run_build_from_empty [AddNodes [0]; AddNodes [1]; AddEdges [(0, 1)]; AddEdges [(1, 0)]] = Some g /\
            step g GetSorted = Err ECycle.
Proof. vm_compute. eexists. split; reflexivity. Qed.

(* the hypotheses of C18_full are met by a diamond; both loops then finish every node *)
Example C18_diamond_runs :
  match run_build_from_empty [AddNodes [0]; AddNodes [1]; AddNodes [2]; AddNodes [3];
                              AddEdges [(0, 1)]; AddEdges [(0, 2)]; AddEdges [(1, 3)]; AddEdges [(2, 3)]] with
  | Some g =>
      acyclicb (g_nodes g) (g_edges g) = true /\
      match step g GetSorted with
      | Ok g' =>
          g_sorted g' = Some [0; 1; 2; 3] /\
          run_sync 9 (g_preds g') [0; 1; 2; 3] (fun _ => false)
            = Finished [0; 1; 2; 3] [(0, Succ); (1, Succ); (2, Succ); (3, Succ)] /\
          run_async 10 (g_preds g') [0; 1; 2; 3] 2 (fun i => (i, false))
            = Finished [0; 2; 1; 3] [(0, Succ); (1, Succ); (2, Succ); (3, Succ)]
      | Err _ => False
      end
  | None => False
  end.
Proof. vm_compute. repeat split. Qed.

(* ==========================================================================================
   (5) The same on the FULL scheduler model (Model/Sched.v, builder D2: several jobs per node,
   failing jobs, max_concurrent, `futured`, jobs seen running, the stall detector), code after the
   repairs F14/F16.  Names below are those of Model/Sched.v, not of Model/Graph.v. *)
From Pydra Require Import Base.SchedBase Model.Sched Spec.Sched Proofs.SchedTermA Proofs.SchedTermS.

(* expand_workflow_async: for every graph in topological order, every value type and job body,
   EVERY set of failing jobs, max_concurrent >= 1 or unlimited, and EVERY oracle — the only
   fairness built into the model is asyncio.wait(FIRST_COMPLETED)'s: when futures are pending, a
   wake-up reports at least one of them completed (which ones, how many, in which order, and which
   jobs are seen running is arbitrary) — |jobs| + 2 loop iterations suffice, and the loop ends by
   itself (Finished, the failures being collected in `errors`) or with the stall detector's
   RuntimeError (Stalled).  The bound does not depend on |nodes| or on the stall limit: the up to
   11 polls of the stall detector happen inside one iteration. *)
Theorem C18_async_loop_terminates_full :
  forall (V : Type) (body : nat -> nat -> list (list (option V)) -> V) (fails : SchedBase.job -> bool)
         (vr : variant) (g : SchedBase.graph) (kmax : option nat) (orc : list oracle_step) (fuel : nat),
    fix14 vr = true -> wf_graph g -> (forall k, kmax = Some k -> 1 <= k) ->
    List.length (all_jobs g) + 2 <= fuel ->
    o_status (Sched.run_async V body fails vr g kmax orc fuel) = Sched.Finished \/
    o_status (Sched.run_async V body fails vr g kmax orc fuel) = Sched.Stalled.
Proof. intros V body fails vr g kmax orc fuel F W K. exact (async_terminates_full V body fails vr F g W kmax K orc fuel). Qed.
Print Assumptions C18_async_loop_terminates_full.

(* expand_workflow (debug worker): |jobs| + 1 iterations suffice; the loop ends by itself or with
   the first failing job's exception. *)
Theorem C18_sync_loop_terminates_full :
  forall (V : Type) (body : nat -> nat -> list (list (option V)) -> V) (fails : SchedBase.job -> bool)
         (vr : variant) (g : SchedBase.graph) (kmax : option nat) (fuel : nat),
    fix14 vr = true -> wf_graph g -> (forall nd, In nd g -> 1 <= njobs nd) -> (forall k, kmax = Some k -> 1 <= k) ->
    List.length (all_jobs g) + 1 <= fuel ->
    o_status (Sched.run_sync V body fails vr g kmax fuel) = Sched.Finished \/
    o_status (Sched.run_sync V body fails vr g kmax fuel) = Sched.Raised.
Proof. intros V body fails vr g kmax fuel F W N K. exact (sync_terminates_full V body fails vr F g W kmax N K fuel). Qed.
Print Assumptions C18_sync_loop_terminates_full.

(* the hypotheses are met with a failing job: node 0 is split in two and its second job fails;
   node 1 (and node 3 behind it) become unrunnable, the independent node 2 still runs *)
Example C18_full_model_failing_job :
  let g := [mkNode 0 [] 2; mkNode 1 [0] 1; mkNode 2 [] 1; mkNode 3 [1; 2] 1] in
  let r := Sched.run_async unit (fun _ _ _ => tt) (fails_of [(0, 1)]) repaired g (Some 2) [] (List.length (all_jobs g) + 2) in
  let s := Sched.run_sync unit (fun _ _ _ => tt) (fails_of [(0, 1)]) repaired g (Some 2) (List.length (all_jobs g) + 1) in
  fix14 repaired = true /\ wf_graph g /\
  o_status r = Sched.Finished /\ error_names r = [(0, 1)] /\ launches r = [(0, 0); (0, 1); (2, 0)] /\
  o_status s = Sched.Raised /\ error_names s = [(0, 1)].
Proof. vm_compute. repeat split. Qed.

(* ... and the Stalled ending is real: behind a failing job a chain of 13 nodes is marked
   unrunnable one node per poll (the `not_started` break), which the 11 polls do not finish *)
Example C18_full_model_stall_detector :
  let g := mkNode 0 [] 1 :: map (fun i => mkNode (S i) [i] 1) (seq 0 13) in
  wf_graph g /\
  o_status (Sched.run_async unit (fun _ _ _ => tt) (fails_of [(0, 0)]) repaired g None [] (List.length (all_jobs g) + 2)) = Sched.Stalled.
Proof. vm_compute. repeat split. Qed.
