From Pydra Require Import Base.Prelude Base.SchedBase Model.Sched Spec.Sched Proofs.SchedA.
From Coq Require Import Permutation.
Local Open Scope nat_scope.
Section Inv.
Variable V : Type.
Variable body : nat -> nat -> list (list (option V)) -> V.
Variable fails : job -> bool.
Variable vr : variant.
Hypothesis F14 : fix14 vr = true.
Variable g : graph.
Hypothesis WF : wf_graph g.
Notation NInv := (NInv V fails g).
Notation upstream_ok := (upstream_ok V g).
Notation Fresh := (@Fresh V).
Notation members := (@members V).
Notation wle := (@wle V).
Variable kmax : option nat.

Notation world := (world V).
Notation nstate := (nstate V).
Notation sstate := (sstate V).
Notation lstate := (lstate V).

(* update_status keeps the invariant, raises nothing, and leaves the node fresh *)
Record UpdSpec (w : world) (n : nat) (s s' : nstate) : Prop := {
  us_inv : NInv w n s';
  us_fresh : Fresh w n s';
  us_flag : started_flag s' = started_flag s;
  us_unr : unrunnable s' = unrunnable s;
  us_inputs : ninputs s' = ninputs s;
  us_members : forall i, In i (members s') <-> In i (members s);
  us_queued : forall i, In i (queued s') -> In i (queued s);
  us_succ : forall i, In i (successful s) -> In i (successful s');
  us_err : forall i, In i (errored s) -> In i (errored s')
}.

Lemma nil_of_no_mem {A} (l : list A) : (forall i, ~ In i l) -> l = [].
Proof. destruct l as [|x l]; [reflexivity|]. intros H. exfalso. apply (H x). left; reflexivity. Qed.

Lemma count_filter (f : nat -> bool) l i :
  count_occ Nat.eq_dec (filter f l) i = if f i then count_occ Nat.eq_dec l i else 0.
Proof.
  induction l as [|x l IH]; cbn; [destruct (f i); reflexivity|].
  destruct (f x) eqn:Fx; cbn; destruct (Nat.eq_dec x i) as [->|Ne]; try rewrite Fx; rewrite IH;
    destruct (f i); auto; congruence.
Qed.

Lemma update_ns_spec (w : world) n (s : nstate) :
  NInv w n s -> snd (update_ns vr w n s) = false /\ UpdSpec w n s (fst (update_ns vr w n s)).
Proof.
  intros I. pose proof I as I0. destruct I as [Isucc Ierr Iblk Inoflag Iunr Ipart Irange Iup Iin Ind Itu Itr].
  unfold update_ns. destruct (negb (is_started s)) eqn:St.
  - (* not started: nothing *)
    apply negb_true_iff in St. cbn.
    assert (Fl : started_flag s = false).
    { unfold is_started in St. rewrite !orb_false_iff in St. tauto. }
    destruct (Inoflag Fl) as [M U].
    destruct (members_nil V s M) as [Hq [Hr _]].
    split; [reflexivity|]. constructor; auto; try tauto.
    split; intros i Hi; [rewrite Hq in Hi|rewrite Hr in Hi]; destruct Hi.
  - rewrite F14. cbn [fst snd]. split; [reflexivity|].
    set (q := queued s).
    set (visf := fun i => is_none w (n, i) && mem_job (n, i) (visible w)).
    set (run1 := running s ++ filter visf q).
    match goal with |- UpdSpec _ _ _ ?x => set (s' := x) end.
    assert (Hmem : forall i, In i (members s') <-> In i (members s)).
    { intros i. unfold SchedA.members, s', run1. cbn. fold q. rewrite !in_app_iff, !filter_In, !in_app_iff, !filter_In.
      unfold visf.
      destruct (probe_cases V w (n, i)) as [[A [B C]]|[[A [B C]]|[A [B C]]]]; rewrite A, B, C;
        destruct (mem_job (n, i) (visible w)); cbn; intuition congruence. }
    assert (Hnil : members s = [] -> members s' = []).
    { intros M. apply nil_of_no_mem. intros i Hi. apply Hmem in Hi. rewrite M in Hi. destruct Hi. }
    constructor; auto.
    + (* NInv *)
      constructor.
      * cbn. intros i. rewrite !in_app_iff, !filter_In. intros [[H|[_ H]]|[_ H]]; auto.
      * cbn. intros i. rewrite !in_app_iff, !filter_In. intros [[H|[_ H]]|[_ H]]; auto.
      * exact Iblk.
      * intros Fl. destruct (Inoflag Fl) as [M U]. split; [auto|exact U].
      * intros U. apply Hnil. apply (Iunr U).
      * intros Fl U i Hi. apply Hmem. apply (Ipart Fl U i Hi).
      * intros i Hi. apply Irange. apply Hmem. exact Hi.
      * exact Iup.
      * exact Iin.
      * (* NoDup by counting occurrences *)
        apply (proj2 (NoDup_count_occ Nat.eq_dec _)). intros i.
        pose proof (proj1 (NoDup_count_occ Nat.eq_dec _) Ind i) as C1.
        revert C1. unfold SchedA.members, s', run1. cbn. fold q.
        rewrite !count_occ_app, !count_filter, !count_occ_app, !count_filter. unfold visf.
        destruct (probe_cases V w (n, i)) as [[A [B C]]|[[A [B C]]|[A [B C]]]]; rewrite A, B, C;
          destruct (mem_job (n, i) (visible w)); cbn; lia.
      * exact Itu.
      * exact Itr.
    + (* Fresh *)
      split; cbn.
      * intros i Hi. apply filter_In in Hi. destruct Hi as [_ Hi]. apply andb_true_iff in Hi.
        destruct Hi as [A B]. apply negb_true_iff in B. auto.
      * intros i Hi. apply filter_In in Hi. tauto.
    + cbn. intros i Hi. apply filter_In in Hi. tauto.
    + cbn. intros i Hi. rewrite !in_app_iff. auto.
    + cbn. intros i Hi. rewrite !in_app_iff. auto.
Qed.

Lemma update_ns_fresh (w : world) n (s : nstate) : Fresh w n s -> fst (update_ns vr w n s) = s /\ snd (update_ns vr w n s) = false.
Proof.
  intros [Fq Fr]. unfold update_ns. destruct (negb (is_started s)); [auto|]. rewrite F14. cbn.
  assert (Q0 : forall f, (forall i, In i (queued s) -> f i = false) -> filter f (queued s) = []) by (intros; apply filter_none; auto).
  assert (E1 : filter (fun i => is_ok w (n, i)) (queued s) = []).
  { apply filter_none. intros i Hi. destruct (Fq i Hi) as [A _]. unfold is_ok, is_none in *. destruct (probe_job w (n, i)); congruence. }
  assert (E2 : filter (fun i => is_err w (n, i)) (queued s) = []).
  { apply filter_none. intros i Hi. destruct (Fq i Hi) as [A _]. unfold is_err, is_none in *. destruct (probe_job w (n, i)); congruence. }
  assert (E3 : filter (fun i => is_none w (n, i) && mem_job (n, i) (visible w)) (queued s) = []).
  { apply filter_none. intros i Hi. destruct (Fq i Hi) as [_ B]. rewrite B. apply andb_false_r. }
  assert (E4 : filter (fun i => is_none w (n, i) && negb (mem_job (n, i) (visible w))) (queued s) = queued s).
  { apply filter_all. intros i Hi. destruct (Fq i Hi) as [A B]. rewrite A, B. reflexivity. }
  rewrite E1, E2, E3, E4, !app_nil_r.
  assert (E5 : filter (fun i => is_none w (n, i)) (running s) = running s) by (apply filter_all; auto).
  assert (E6 : filter (fun i => is_ok w (n, i)) (running s) = []).
  { apply filter_none. intros i Hi. pose proof (Fr i Hi) as A. unfold is_ok, is_none in *. destruct (probe_job w (n, i)); congruence. }
  assert (E7 : filter (fun i => is_err w (n, i)) (running s) = []).
  { apply filter_none. intros i Hi. pose proof (Fr i Hi) as A. unfold is_err, is_none in *. destruct (probe_job w (n, i)); congruence. }
  rewrite E5, E6, E7, !app_nil_r. destruct s; auto.
Qed.

End Inv.
