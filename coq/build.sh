#!/bin/bash
# serialised build:  coq/build.sh [targets…]   (e.g. Props/C38.vo; no target = everything)
cd "$(dirname "$0")" || exit 2
exec flock .build.lock bash -c './mkproject.sh && timeout 3000 make -j16 "$@"' _ "$@"
