(* Proofs/SchedSpec2.v — more facts about the specification objects: induction along a topologically
   listed graph, "downstream of a failure" (inductive) = the one-pass computation, the reference
   evaluation satisfies its defining equation. *)
From Pydra Require Import Base.Prelude Base.SchedBase Spec.Sched Proofs.SchedA Proofs.SchedSpec.
Local Open Scope nat_scope.

Lemma topo_ind g (P : node -> Prop) :
  wf_graph g ->
  (forall nd, In nd g -> (forall p nd', In p (npreds nd) -> In nd' g -> nid nd' = p -> P nd') -> P nd) ->
  forall nd, In nd g -> P nd.
Proof.
  intros WF Step.
  assert (H : forall pre rest, g = pre ++ rest -> forall nd, In nd pre -> P nd).
  { induction pre as [|x pre IH] using rev_ind; intros rest E nd Hin; [destruct Hin|].
    rewrite <- app_assoc in E. cbn in E.
    apply in_app_or in Hin. destruct Hin as [Hin|[<-|[]]]; [eapply IH; eauto|].
    apply Step; [rewrite E; apply in_or_app; right; left; reflexivity|].
    intros p nd' Hp Hnd' Hid.
    pose proof WF as W. unfold wf_graph in W. rewrite E in W.
    destruct (topo_b_split _ _ _ _ W) as [Hpre _].
    destruct (topo_b_nodup _ _ W) as [ND _].
    destruct (Hpre p Hp) as [[]|Hpp].
    rewrite E in Hnd'. apply in_app_or in Hnd'. destruct Hnd' as [Hnd'|Hnd']; [eapply IH; eauto|].
    exfalso. rewrite map_app in ND. apply in_split in Hpp. destruct Hpp as [l1 [l2 El]].
    rewrite El, <- app_assoc in ND. cbn in ND. apply NoDup_remove_2 in ND. apply ND.
    apply in_or_app. right. apply in_or_app. right. rewrite <- Hid. change (In (nid nd') (map nid (x :: rest))). apply in_map. exact Hnd'. }
  intros nd Hin. apply (H g [] (eq_sym (app_nil_r g)) nd Hin).
Qed.

Section Taint.
Variable g : graph.
Variable fails : job -> bool.
Hypothesis WF : wf_graph g.

Lemma has_fail_b_iff a : has_fail_b g fails a = true <-> has_fail g fails a.
Proof.
  unfold has_fail_b, has_fail. rewrite existsb_exists. split.
  - intros [i [Hi F]]. apply in_seq in Hi. exists i. split; [lia|exact F].
  - intros [i [Hi F]]. exists i. split; [apply in_seq; lia|exact F].
Qed.

Lemma tainted_b_in n : tainted_b g fails n = true -> exists nd, In nd g /\ nid nd = n.
Proof.
  unfold tainted_b. intros H. apply mem_nat_In in H. apply tainted_nodes_from in H.
  destruct H as [[]|H]. apply in_map_iff in H. destruct H as [nd [E Hin]]. exists nd; auto.
Qed.

Lemma tainted_b_iff n : tainted_b g fails n = true <-> downstream_of_failure g fails n.
Proof.
  split.
  - intros H. destruct (tainted_b_in n H) as [nd [Hnd <-]]. revert H.
    apply (topo_ind g (fun nd => tainted_b g fails (nid nd) = true -> downstream_of_failure g fails (nid nd)) WF); [|exact Hnd].
    clear nd Hnd. intros nd Hnd IH H.
    rewrite (tainted_char g fails WF nd Hnd) in H. apply existsb_exists in H. destruct H as [p [Hp H]].
    apply orb_true_iff in H. destruct H as [H|H].
    + destruct (tainted_b_in p H) as [nd' [Hnd' Hid]].
      destruct (IH p nd' Hp Hnd' Hid) as [a [A1 A2]]; [rewrite Hid; exact H|].
      exists a. split; [|exact A2]. eapply anc_trans; [rewrite Hid in A1; exact A1|]. apply anc_pred; auto.
    + exists p. split; [apply anc_pred; auto|apply has_fail_b_iff; exact H].
  - intros [a [A1 A2]].
    assert (Q : forall a n, ancestor g a n -> (has_fail g fails a \/ tainted_b g fails a = true) -> tainted_b g fails n = true).
    { intros a0 n0 A. induction A as [nd p Hnd Hp|a0 b c B1 IH1 B2 IH2]; intros H.
      - rewrite (tainted_char g fails WF nd Hnd). apply existsb_exists. exists p. split; [exact Hp|].
        apply orb_true_iff. destruct H as [H|H]; [right; apply has_fail_b_iff; exact H|left; exact H].
      - apply IH2. right. apply IH1. exact H. }
    apply (Q a n A1). left; exact A2.
Qed.

Lemma no_fail_no_taint n : (forall j, fails j = false) -> tainted_b g fails n = false.
Proof.
  intros NF. destruct (tainted_b g fails n) eqn:E; [|reflexivity].
  apply tainted_b_iff in E. destruct E as [a [_ [i [_ F]]]]. rewrite NF in F. discriminate.
Qed.

Lemma should_run_iff j : should_run_b g fails j = true <-> should_run g fails j.
Proof.
  unfold should_run_b, should_run. rewrite andb_true_iff, negb_true_iff, mem_job_In. split.
  - intros [A B]. split; [exact A|]. intros H. apply tainted_b_iff in H. congruence.
  - intros [A B]. split; [exact A|]. destruct (tainted_b g fails (fst j)) eqn:E; [|reflexivity].
    exfalso. apply B. apply tainted_b_iff. exact E.
Qed.
Lemma should_fail_iff j : should_fail_b g fails j = true <-> should_fail g fails j.
Proof. unfold should_fail_b, should_fail. rewrite andb_true_iff, should_run_iff. tauto. Qed.
End Taint.

(* ------------------------------------------------------------------ the reference evaluation *)
Section Ref.
Variable V : Type.
Variable body : nat -> nat -> list (list (option V)) -> V.
Variable g : graph.
Hypothesis WF : wf_graph g.

Lemma env_lookup_app j (a b : list (job * V)) :
  env_lookup V j (a ++ b) = match env_lookup V j a with Some v => Some v | None => env_lookup V j b end.
Proof.
  induction a as [|[j' v] a IH]; cbn; [reflexivity|]. destruct (job_eqb j j'); [reflexivity|exact IH].
Qed.

Lemma env_lookup_new_hit n (f : nat -> V) k i :
  i < k -> env_lookup V (n, i) (map (fun i => ((n, i), f i)) (seq 0 k)) = Some (f i).
Proof.
  assert (H : forall k s, s <= i < s + k ->
              env_lookup V (n, i) (map (fun i => ((n, i), f i)) (seq s k)) = Some (f i)).
  { induction k0 as [|k0 IH]; intros s Hs; [lia|]. cbn [seq map env_lookup].
    destruct (job_eqb (n, i) (n, s)) eqn:E.
    - apply job_eqb_eq in E. inversion E. reflexivity.
    - apply IH. apply job_eqb_neq in E. assert (i <> s) by (intros ->; apply E; reflexivity). lia. }
  intros Hi. apply H. lia.
Qed.
Lemma env_lookup_new_miss n (f : nat -> V) l j i v :
  env_lookup V (j, i) (map (fun i => ((n, i), f i)) l) = Some v -> j = n.
Proof.
  induction l as [|x l IH]; cbn; [discriminate|].
  destruct (job_eqb (j, i) (n, x)) eqn:E; [|exact IH].
  apply job_eqb_eq in E. inversion E. reflexivity.
Qed.

Lemma ref_eval_keeps nodes : forall env j v,
  env_lookup V j env = Some v -> env_lookup V j (ref_eval V body g nodes env) = Some v.
Proof.
  induction nodes as [|nd r IH]; intros env j v H; cbn; [exact H|].
  apply IH. rewrite env_lookup_app, H. reflexivity.
Qed.

Lemma ref_eval_keys nodes : forall env n i v,
  env_lookup V (n, i) (ref_eval V body g nodes env) = Some v ->
  env_lookup V (n, i) env = Some v \/ In n (map nid nodes).
Proof.
  induction nodes as [|nd r IH]; intros env n i v H; cbn in *; [left; exact H|].
  apply IH in H. destruct H as [H|H]; [|right; right; exact H].
  rewrite env_lookup_app in H. destruct (env_lookup V (n, i) env) as [x|] eqn:E; [left; exact H|].
  apply env_lookup_new_miss in H. right; left; symmetry; exact H.
Qed.

Lemma ref_eval_app pre rest env :
  ref_eval V body g (pre ++ rest) env = ref_eval V body g rest (ref_eval V body g pre env).
Proof. revert env. induction pre as [|nd pre IH]; intros env; cbn; [reflexivity|apply IH]. Qed.

(* the defining equation of the reference semantics *)
Lemma reference_char nd i :
  In nd g -> i < njobs nd ->
  env_lookup V (nid nd, i) (reference V body g) =
  Some (body (nid nd) i (ref_inputs V g (reference V body g) nd)).
Proof.
  intros Hin Hi. apply in_split in Hin. destruct Hin as [pre [rest E]].
  pose proof WF as W. unfold wf_graph in W. rewrite E in W.
  destruct (topo_b_split _ _ _ _ W) as [Hp [_ Hn]].
  destruct (topo_b_nodup _ _ W) as [ND _]. rewrite map_app in ND. cbn in ND.
  set (E0 := ref_eval V body g pre []).
  assert (Hfull : reference V body g =
                  ref_eval V body g rest (E0 ++ map (fun i => ((nid nd, i), body (nid nd) i (ref_inputs V g E0 nd))) (seq 0 (njobs nd)))).
  { unfold reference. rewrite E at 2. rewrite ref_eval_app. reflexivity. }
  assert (Hnone : env_lookup V (nid nd, i) E0 = None).
  { destruct (env_lookup V (nid nd, i) E0) as [x|] eqn:X; [|reflexivity].
    apply ref_eval_keys in X. destruct X as [X|X]; [discriminate|contradiction]. }
  assert (Hins : ref_inputs V g (reference V body g) nd = ref_inputs V g E0 nd).
  { unfold ref_inputs. apply map_ext_in. intros p Hpp. apply map_ext_in. intros k Hk.
    destruct (Hp p Hpp) as [[]|Hpre].
    destruct (env_lookup V (p, k) E0) as [x|] eqn:X.
    - rewrite Hfull. apply ref_eval_keeps. rewrite env_lookup_app, X. reflexivity.
    - destruct (env_lookup V (p, k) (reference V body g)) as [y|] eqn:Y; [|reflexivity].
      exfalso. rewrite Hfull in Y. apply ref_eval_keys in Y.
      assert (Hp2 : ~ In p (map nid (nd :: rest))).
      { intros H. apply in_split in Hpre. destruct Hpre as [l1 [l2 El]].
        rewrite El, <- app_assoc in ND. cbn in ND. apply NoDup_remove_2 in ND. apply ND.
        apply in_or_app. right. apply in_or_app. right. exact H. }
      destruct Y as [Y|Y]; [|apply Hp2; right; exact Y].
      rewrite env_lookup_app, X in Y. apply env_lookup_new_miss in Y. apply Hp2. left. symmetry; exact Y. }
  rewrite Hins. rewrite Hfull at 1. apply ref_eval_keeps.
  rewrite env_lookup_app, Hnone. apply env_lookup_new_hit. exact Hi.
Qed.

End Ref.
