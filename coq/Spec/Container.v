(* Spec/Container.v — C27 reference semantics: what the argument vector of a containerised shell task
   must be, stated directly on the task's inputs.  No dictionary, no insertion order, no overwriting:
   the mounts are characterised as a set. *)
From Pydra Require Import Base.Prelude Base.PyPath Model.Container.
Local Open Scope string_scope.
Local Open Scope list_scope.
Local Infix "^^" := String.append (at level 60, right associativity).

(* <root>p : the root (without trailing slashes) followed by the absolute host path *)
Definition remap (root p : string) : string := rstrip_slash root ^^ p.
(* the directory holding p (pathlib parent) *)
Definition dir_of (p : string) : string := pstr (path_parent (ppath_of p)).

(* the host paths a field contributes: FileSet-typed fields with a non-empty value *)
Definition paths_of (f : field) : list string :=
  if f_fileset f && truthy (f_value f) then
    match f_value f with VOne p => [p] | VMany ps => ps | VNone => [] end
  else [].

Definition uses_dir (h : string) (f : field) : bool := existsb (fun p => String.eqb (dir_of p) h) (paths_of f).
(* h must be mounted: it holds some input/output path, or it is the cache root *)
Definition required (fs : list field) (cache_root h : string) : bool :=
  String.eqb h cache_root || existsb (uses_dir h) fs.
(* read-write for copied inputs and outputs and for the cache root, read-only otherwise *)
Definition needs_rw (fs : list field) (cache_root h : string) : bool :=
  String.eqb h cache_root || existsb (fun f => f_rw f && uses_dir h f) fs.

Definition remap_value (root : string) (f : field) : fvalue :=
  if f_fileset f && truthy (f_value f) then
    match f_value f with VOne p => VOne (remap root p) | VMany ps => VMany (map (remap root) ps) | VNone => VNone end
  else f_value f.
(* the native vector with every host path of a FileSet field replaced by <root>p *)
Definition remapped_argv (root : string) (fs : list field) (tmpl : list token) : list string :=
  instantiate (map (fun f => (f_name f, remap_value root f)) fs) tmpl.

Definition mount_str (root : string) (hm : string * bool) : string :=
  fst hm ^^ ":" ^^ remap root (fst hm) ^^ ":" ^^ mode_str (snd hm).

Definition container_spec (c : config) (fs : list field) (tmpl : list token) (argv : list string) : Prop :=
  exists ms : list (string * bool),
    NoDup (map fst ms) /\
    (forall h, In h (map fst ms) <-> required fs (c_cache_root c) h = true) /\
    (forall h m, In (h, m) ms -> m = needs_rw fs (c_cache_root c) h) /\
    argv = runtime_words (c_runtime c) ++ c_xargs c ++
           flat_map (fun hm => [mount_flag (c_runtime c); mount_str (c_root c) hm]) ms ++
           [wd_flag (c_runtime c); remap (c_root c) (c_cache_dir c); c_image c ^^ ":" ^^ c_tag c] ++
           remapped_argv (c_root c) fs tmpl.

(* ---- executable version for the correspondence cases ---- *)
Fixpoint strip_prefix (p l : list string) : option (list string) :=
  match p, l with
  | [], _ => Some l
  | x :: p', y :: l' => if String.eqb x y then strip_prefix p' l' else None
  | _ :: _, [] => None
  end.
Fixpoint take_mounts (flag : string) (fuel : nat) (l : list string) : list string * list string :=
  match fuel, l with
  | S n, f :: a :: r => if String.eqb f flag then let '(ms, rest) := take_mounts flag n r in (a :: ms, rest) else ([], l)
  | _, _ => ([], l)
  end.
Fixpoint nodup_str (l : list string) : bool :=
  match l with [] => true | x :: r => negb (existsb (String.eqb x) r) && nodup_str r end.
Definition subset_str (a b : list string) : bool := forallb (fun x => existsb (String.eqb x) b) a.

Definition candidate_dirs (fs : list field) (cache_root : string) : list string :=
  cache_root :: flat_map (fun f => map dir_of (paths_of f)) fs.
Definition expected_mounts (c : config) (fs : list field) : list string :=
  map (fun h => mount_str (c_root c) (h, needs_rw fs (c_cache_root c) h)) (candidate_dirs fs (c_cache_root c)).

Definition spec_ok (c : config) (fs : list field) (tmpl : list token) (argv : list string) : bool :=
  match strip_prefix (runtime_words (c_runtime c) ++ c_xargs c) argv with
  | None => false
  | Some rest =>
      let '(ms, rest') := take_mounts (mount_flag (c_runtime c)) (List.length rest) rest in
      nodup_str ms && subset_str ms (expected_mounts c fs) && subset_str (expected_mounts c fs) ms &&
      list_eqb String.eqb rest'
        ([wd_flag (c_runtime c); remap (c_root c) (c_cache_dir c); c_image c ^^ ":" ^^ c_tag c] ++
         remapped_argv (c_root c) fs tmpl)
  end.

(* ---- the domain ---- *)
Definition abs_norm (p : string) : bool :=
  String.eqb (pstr (ppath_of p)) p && anchor_eqb (p_anchor (ppath_of p)) ARoot.
(* a root is either empty or a normalised absolute path optionally followed by slashes (not just slashes) *)
Definition root_ok (root : string) : bool :=
  String.eqb root "" || (abs_norm (rstrip_slash root) && negb (String.eqb (rstrip_slash root) "/")).
(* a file path: normalised, absolute, and not directly under the filesystem root *)
Definition file_ok (p : string) : bool :=
  abs_norm p && negb (String.eqb p "/") && negb (String.eqb (dir_of p) "/").
Definition fields_ok (fs : list field) : bool := forallb (fun f => forallb file_ok (paths_of f)) fs.
