(* Proofs/GraphSort.v — soundness of DiGraph.sorting: whenever it returns, the list is a
   permutation of the nodes it was asked to sort and every node comes strictly after each of
   its recorded predecessors that is itself among those nodes.  No assumption on the state
   (duplicates, stale _node_wip entries, inconsistent dictionaries are all allowed). *)
From Pydra Require Import Base.Prelude Model.Graph Proofs.GraphBase.
From Coq Require Import Sorting.Permutation.
Local Open Scope nat_scope.
Local Open Scope list_scope.

Definition before (a b : node) (l : list node) : Prop :=
  exists l1 l2, l = l1 ++ l2 /\ In a l1 /\ In b l2.

(* b is listed in successors[a];  a is listed in w[b] *)
Definition inS (sd : dict) (a b : node) : Prop := exists sl, dget sd a = Some sl /\ In b sl.
Definition inW (w : dict) (b a : node) : Prop := exists pl, dget w b = Some pl /\ In a pl.

(* w' is w after releasing (some of) the nodes in X: same keys, lists only lose entries, and an
   entry y of w[b] can only disappear when y was released and b is listed in successors[y] *)
Definition shrinks (sd : dict) (X : node -> Prop) (w w' : dict) : Prop :=
  forall b,
    match dget w b, dget w' b with
    | None, None => True
    | Some pl, Some pl' => incl pl' pl /\ forall y, In y pl -> ~ (X y /\ inS sd y b) -> In y pl'
    | _, _ => False
    end.

Lemma shrinks_refl sd X w : shrinks sd X w w.
Proof. intros b. destruct (dget w b); [split; [apply incl_refl|auto]|exact I]. Qed.

Lemma shrinks_trans sd (X Y Z : node -> Prop) w1 w2 w3 :
  (forall y, X y -> Z y) -> (forall y, Y y -> Z y) ->
  shrinks sd X w1 w2 -> shrinks sd Y w2 w3 -> shrinks sd Z w1 w3.
Proof.
  intros HX HY H12 H23 b. specialize (H12 b). specialize (H23 b).
  destruct (dget w1 b) as [p1|], (dget w2 b) as [p2|], (dget w3 b) as [p3|]; try tauto.
  destruct H12 as [I12 K12], H23 as [I23 K23]. split.
  - eapply incl_tran; eauto.
  - intros y Hy Hn. apply K23; [apply K12; [exact Hy|]|]; intros [Hx Hs]; apply Hn; split; auto.
Qed.

Lemma shrinks_inW sd X w w' b a : shrinks sd X w w' -> inW w' b a -> inW w b a.
Proof.
  intros H [pl' [Hg Hin]]. specialize (H b). rewrite Hg in H.
  destruct (dget w b) as [pl|] eqn:Hw; [|contradiction]. destruct H as [Hi _]. exists pl. split; [exact Hw|apply Hi, Hin].
Qed.

Lemma shrinks_keep sd X w w' b a :
  shrinks sd X w w' -> inW w b a -> ~ (X a /\ inS sd a b) -> inW w' b a.
Proof.
  intros H [pl [Hg Hin]] Hn. specialize (H b). rewrite Hg in H.
  destruct (dget w' b) as [pl'|] eqn:Hw; [|contradiction]. destruct H as [_ Hk]. exists pl'. split; [exact Hw|auto].
Qed.

Lemma shrinks_get_none sd X w w' b : shrinks sd X w w' -> dget w' b = None -> dget w b = None.
Proof. intros H Hn. specialize (H b). rewrite Hn in H. destruct (dget w b); [contradiction|reflexivity]. Qed.

Lemma dremove_shrinks sd w b a w' :
  dremove w b a = Ok w' -> inS sd a b -> shrinks sd (eq a) w w' /\ inW w b a.
Proof.
  intros H Hs. apply dremove_ok in H. destruct H as [v [v' [Hg [Hr ->]]]]. split.
  - intros c. rewrite dget_dset. destruct (Nat.eqb c b) eqn:E.
    + apply Nat.eqb_eq in E. subst c. rewrite Hg. split.
      * intros y Hy. eapply (remove_one_incl Nat.eqb Nat.eqb_eq); eauto.
      * intros y Hy Hn. eapply (remove_one_other Nat.eqb Nat.eqb_eq); eauto.
        intros ->. apply Hn. split; [reflexivity|exact Hs].
    + destruct (dget w c); [split; [apply incl_refl|auto]|exact I].
  - exists v. split; [exact Hg|]. eapply (remove_one_In Nat.eqb Nat.eqb_eq); eauto.
Qed.

Lemma release_list_shrinks sd a sl : forall w w',
  (forall b, In b sl -> inS sd a b) ->
  foldM (fun w nd_in => dremove w nd_in a) sl w = Ok w' ->
  shrinks sd (eq a) w w' /\ forall b, In b sl -> inW w b a.
Proof.
  induction sl as [|b sl IH]; cbn; intros w w' Hs H.
  - inversion H; subst. split; [apply shrinks_refl|contradiction].
  - apply bind_ok in H. destruct H as [w1 [H1 H2]].
    destruct (dremove_shrinks sd w b a w1 H1 (Hs b (or_introl eq_refl))) as [S1 I1].
    destruct (IH w1 w' (fun c Hc => Hs c (or_intror Hc)) H2) as [S2 I2]. split.
    + eapply shrinks_trans; [| |exact S1|exact S2]; auto.
    + intros c [->|Hc]; [exact I1|]. eapply shrinks_inW; [exact S1|auto].
Qed.

Lemma release_one_shrinks sd w a w' :
  release_one sd w a = Ok w' ->
  shrinks sd (eq a) w w' /\ forall b, inS sd a b -> inW w b a.
Proof.
  unfold release_one. intros H. apply bind_ok in H. destruct H as [sl [Hsl H]].
  apply of_opt_ok in Hsl.
  destruct (release_list_shrinks sd a sl w w') as [S1 I1]; [|exact H|].
  - intros b Hb. exists sl. auto.
  - split; [exact S1|]. intros b [sl' [Hg Hb]]. rewrite Hsl in Hg. inversion Hg; subst. auto.
Qed.

Lemma release_shrinks sd outs : forall w w',
  release sd outs w = Ok w' ->
  shrinks sd (fun y => In y outs) w w' /\ forall a b, In a outs -> inS sd a b -> inW w b a.
Proof.
  unfold release. induction outs as [|a outs IH]; cbn; intros w w' H.
  - inversion H; subst. split; [apply shrinks_refl|contradiction].
  - apply bind_ok in H. destruct H as [w1 [H1 H2]].
    destruct (release_one_shrinks sd w a w1 H1) as [S1 I1].
    destruct (IH w1 w' H2) as [S2 I2]. split.
    + eapply shrinks_trans; [| |exact S1|exact S2]; cbn; auto.
    + intros x b [->|Hx] Hs; [auto|]. eapply shrinks_inW; [exact S1|eauto].
Qed.

(* ---- one pass *)
Lemma sort_pass_spec w ns part rest :
  sort_pass w ns = Ok (part, rest) ->
  Permutation (part ++ rest) ns /\
  (forall x, In x part -> dget w x = Some []) /\
  (forall x, In x rest -> exists y p, dget w x = Some (y :: p)) /\
  List.length ns = List.length part + List.length rest.
Proof.
  revert part rest. induction ns as [|n ns IH]; cbn; intros part rest H.
  - inversion H; subst. cbn. repeat split; try contradiction. constructor.
  - destruct (dget w n) as [p|] eqn:Hg; [|discriminate].
    apply bind_ok in H. destruct H as [[pa re] [Hrec H]]. cbn in H.
    destruct (IH pa re Hrec) as [Hp [Hpa [Hre Hlen]]].
    destruct p as [|y p]; inversion H; subst; cbn.
    + repeat split.
      * constructor. exact Hp.
      * intros x [->|Hx]; auto.
      * exact Hre.
      * lia.
    + repeat split.
      * symmetry. apply Permutation_cons_app. symmetry. exact Hp.
      * exact Hpa.
      * intros x [->|Hx]; eauto.
      * lia.
Qed.

(* ---- the loop *)
Lemma sort_loop_unfold fuel sd acc n ns w :
  sort_loop (S fuel) sd acc (n :: ns) w =
  (pr <- sort_pass w (n :: ns) ;;
   match fst pr with
   | [] => Err ECycle
   | _ :: _ => w' <- release sd (fst pr) w ;; sort_loop fuel sd (acc ++ fst pr) (snd pr) w'
   end).
Proof. reflexivity. Qed.

Lemma sort_loop_nil fuel sd acc w : sort_loop fuel sd acc [] w = Ok acc.
Proof. destruct fuel; reflexivity. Qed.

Lemma sort_loop_sound sd : forall fuel acc ns w l,
  sort_loop fuel sd acc ns w = Ok l ->
  exists rest, l = acc ++ rest /\ Permutation rest ns /\
    (forall a b, In b ns -> In a ns -> inW w b a -> before a b rest) /\
    (forall a b, In a ns -> inS sd a b -> inW w b a).
Proof.
  induction fuel as [|fuel IH]; intros acc ns w l H.
  - destruct ns; cbn in H; [|discriminate]. inversion H; subst. exists []. rewrite app_nil_r.
    repeat split; try constructor; contradiction.
  - destruct ns as [|n0 ns0]; [cbn in H; inversion H; subst; exists []; rewrite app_nil_r;
                                repeat split; try constructor; contradiction|].
    rewrite sort_loop_unfold in H. set (ns := n0 :: ns0) in *.
    apply bind_ok in H. destruct H as [[part rem] [Hpass H]]. cbn in H.
    destruct part as [|p0 part0] eqn:Hpart; [discriminate|]. rewrite <- Hpart in *.
    apply bind_ok in H. destruct H as [w' [Hrel H]].
    destruct (sort_pass_spec w ns part rem Hpass) as [Hperm [Hpa [Hre _]]].
    destruct (release_shrinks sd part w w' Hrel) as [Hsh Hemit].
    destruct (IH _ _ _ _ H) as [rest' [-> [Hperm' [Hbef Hs]]]].
    exists (part ++ rest'). split; [now rewrite app_assoc|]. split; [|split].
    + rewrite <- Hperm. apply Permutation_app_head. exact Hperm'.
    + intros a b Hb Ha Hw.
      assert (Hb' : In b (part ++ rem)) by (eapply Permutation_in; [symmetry; exact Hperm|exact Hb]).
      assert (Ha' : In a (part ++ rem)) by (eapply Permutation_in; [symmetry; exact Hperm|exact Ha]).
      apply in_app_or in Hb'. destruct Hb' as [Hb'|Hb'].
      * (* b sorted in this pass: w[b] is empty *)
        destruct Hw as [pl [Hg Hin]]. rewrite (Hpa b Hb') in Hg. inversion Hg; subst. contradiction.
      * assert (Hbr : In b rest') by (eapply Permutation_in; [symmetry; exact Hperm'|exact Hb']).
        apply in_app_or in Ha'. destruct Ha' as [Ha'|Ha'].
        -- exists part, rest'. auto.
        -- (* a stays: a is not one of the released nodes, so it is still listed in w'[b] *)
           assert (Hw' : inW w' b a).
           { eapply shrinks_keep; [exact Hsh|exact Hw|]. intros [Hap _].
             destruct (Hre a Ha') as [y [p Hy]]. rewrite (Hpa a Hap) in Hy. discriminate. }
           destruct (Hbef a b Hb' Ha' Hw') as [l1 [l2 [-> [H1 H2]]]].
           exists (part ++ l1), l2. split; [now rewrite app_assoc|]. split; [apply in_or_app; auto|exact H2].
    + intros a b Ha Hsab.
      assert (Ha' : In a (part ++ rem)) by (eapply Permutation_in; [symmetry; exact Hperm|exact Ha]).
      apply in_app_or in Ha'. destruct Ha' as [Ha'|Ha'].
      * eapply Hemit; eauto.
      * eapply shrinks_inW; [exact Hsh|]. apply Hs; auto.
Qed.

Lemma foldM_nofuel {A S} (f : S -> A -> result S) l :
  (forall s x, f s x <> Err EFuel) -> forall s, foldM f l s <> Err EFuel.
Proof.
  intros Hf. induction l as [|x l IH]; cbn; intros s; [discriminate|].
  destruct (f s x) as [s'|e] eqn:E; cbn; [apply IH|]. intros E2. inversion E2; subst. eapply Hf; eauto.
Qed.

Lemma dremove_nofuel w b a : dremove w b a <> Err EFuel.
Proof. unfold dremove. destruct (dget w b); [|discriminate]. destruct (remove_one Nat.eqb a l); discriminate. Qed.

Lemma release_nofuel sd outs w : release sd outs w <> Err EFuel.
Proof.
  apply foldM_nofuel. intros s x. unfold release_one.
  destruct (dget sd x); cbn; [|discriminate]. apply foldM_nofuel. intros; apply dremove_nofuel.
Qed.

Lemma sort_pass_nofuel w ns : sort_pass w ns <> Err EFuel.
Proof.
  induction ns as [|n ns IH]; cbn; [discriminate|].
  destruct (dget w n); [|discriminate].
  destruct (sort_pass w ns) as [pr|e]; cbn; [discriminate|]. intros E. inversion E; subst. now apply IH.
Qed.

(* the loop never runs out of passes when given |notsorted| of them *)
Lemma sort_loop_fuel sd : forall fuel acc ns w,
  List.length ns <= fuel -> sort_loop fuel sd acc ns w <> Err EFuel.
Proof.
  induction fuel as [|fuel IH]; intros acc ns w Hlen.
  - destruct ns; cbn in *; [discriminate|lia].
  - destruct ns as [|n0 ns0]; [cbn; discriminate|].
    rewrite sort_loop_unfold. set (ns := n0 :: ns0) in *.
    destruct (sort_pass w ns) as [[part rem]|e] eqn:Hpass; cbn [bind fst snd].
    + destruct part as [|p0 part0] eqn:Hpart; [discriminate|]. rewrite <- Hpart in *.
      destruct (release sd part w) as [w'|e] eqn:Hrel; cbn [bind].
      * apply IH. destruct (sort_pass_spec w ns part rem Hpass) as [_ [_ [_ Hl]]].
        subst part. subst ns. cbn in Hl, Hlen. lia.
      * intros E. inversion E; subst. eapply release_nofuel; eauto.
    + intros E. inversion E; subst. eapply sort_pass_nofuel; eauto.
Qed.
