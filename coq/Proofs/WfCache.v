(* Proofs/WfCache.v — C30: the cached construction history simulates the cache-free spec. *)
From Pydra Require Import Base.Prelude Model.WfCache Spec.WfCache.
Local Open Scope string_scope.
Local Open Scope list_scope.

(* ---------- small facts about key sets and association lists ---------- *)
Lemma mem_true_iff f l : mem f l = true <-> In f l.
Proof.
  unfold mem. rewrite existsb_exists. split.
  - intros [x [Hi He]]. apply String.eqb_eq in He. now subst.
  - intros Hi. exists f. split; [assumption | apply String.eqb_refl].
Qed.

Lemma subset_mem a b f : subset a b = true -> mem f a = true -> mem f b = true.
Proof.
  unfold subset. rewrite forallb_forall. intros H Hm.
  apply mem_true_iff in Hm. now apply H.
Qed.

Lemma keys_eqb_mem a b f : keys_eqb a b = true -> mem f a = mem f b.
Proof.
  unfold keys_eqb. rewrite andb_true_iff. intros [H1 H2].
  destruct (mem f a) eqn:Ea.
  - symmetry. now apply (subset_mem a b).
  - destruct (mem f b) eqn:Eb; [|reflexivity].
    rewrite (subset_mem b a f H2 Eb) in Ea. discriminate.
Qed.

Lemma subset_trans_eq a a' b : keys_eqb a' a = true -> subset a b = true -> subset a' b = true.
Proof.
  intros He Hs. unfold subset. rewrite forallb_forall. intros f Hf.
  apply (subset_mem a b); [assumption|].
  rewrite <- (keys_eqb_mem a' a f He). now apply mem_true_iff.
Qed.

Lemma find_h_In {A B} (eqb : A -> A -> bool) (l : list (A * B)) k b :
  find_h eqb l k = Some b -> exists k', In (k', b) l /\ eqb k k' = true.
Proof.
  induction l as [|[k' b'] l IH]; cbn; [discriminate|].
  destruct (eqb k k') eqn:E.
  - intros H. inversion H; subst. exists k'. split; [now left | assumption].
  - intros H. destruct (IH H) as [k'' [Hi He]]. exists k''. split; [now right | assumption].
Qed.

Lemma existsb_false_In {A} (f : A -> bool) l :
  existsb f l = false -> forall x, In x l -> f x = false.
Proof.
  induction l as [|y l IH]; cbn; [intros _ x []|].
  intros H x [->|Hi]; apply orb_false_iff in H; destruct H as [H1 H2]; auto.
Qed.

Section Proofs.
  Variable V : Type.
  Variable T : Type.
  Variable G : Type.
  Variable R : Type.
  Variable HT HD HC : Type.
  Variable ht_eqb : HT -> HT -> bool.
  Variable hd_eqb : HD -> HD -> bool.
  Variable hc_eqb : HC -> HC -> bool.
  Variable hash_type : T -> HT.
  Variable hash_dict : list (fname * V) -> HD.
  Variable checksum : T -> list (fname * V) -> HC.
  Variable type_name : T -> string.
  Variable fields : T -> list fname.
  Variable default : T -> fname -> attr V.
  Variable ctor : T -> list (fname * arg V) -> G.
  Variable subst : list (fname * V) -> G -> G.
  Variable eval : G -> R.
  Variable g_eqb : G -> G -> bool.

  (* digests are compared by equality *)
  Hypothesis ht_eqb_spec : forall a b, ht_eqb a b = true <-> a = b.
  Hypothesis hd_eqb_spec : forall a b, hd_eqb a b = true <-> a = b.
  Hypothesis hc_eqb_spec : forall a b, hc_eqb a b = true <-> a = b.
  Hypothesis g_eqb_spec : forall a b, g_eqb a b = true <-> a = b.
  (* no hash collision *)
  Hypothesis hash_type_inj : forall a b, hash_type a = hash_type b -> a = b.
  Hypothesis hash_dict_inj : forall a b, hash_dict a = hash_dict b -> a = b.
  Hypothesis checksum_inj : forall t l t' l', checksum t l = checksum t' l' -> t = t' /\ l = l'.
  (* a class has distinct field names *)
  Hypothesis fields_nodup : forall t, NoDup (fields t).

  Notation wfT := (wf V G).
  Notation cacheT := (cache V G HT HD).
  Notation nlv := (non_lazy_vals V).
  Notation mk_inputs' := (mk_inputs V).
  Notation build' := (build V T G type_name ctor).
  Notation construct' := (construct V T G HT HD ht_eqb hd_eqb hash_type hash_dict type_name ctor).
  Notation fresh' := (fresh V T G type_name ctor).
  Notation view' := (view V G subst).
  Notation spec_inputs' := (spec_inputs V).
  Notation given' := (given_values V).
  Notation excluded_req' := (excluded_req V T G ctor subst g_eqb).
  Notation step' := (step V T G R HT HD HC ht_eqb hd_eqb hc_eqb hash_type hash_dict checksum type_name fields
                           default ctor subst eval).
  Notation run_ops' := (run_ops V T G R HT HD HC ht_eqb hd_eqb hc_eqb hash_type hash_dict checksum type_name fields
                           default ctor subst eval).
  Notation spec_obs' := (spec_obs V T G R type_name ctor subst eval).
  Notation obj_step' := (obj_step V T fields default).
  Notation spec_run' := (spec_run V T G R type_name fields default ctor subst eval).
  Notation excluded_from' := (excluded_from V T G fields default ctor subst g_eqb).
  Notation abs' := (abs_obs V G R subst).

  (* ---------- non-lazy values, inputs ---------- *)
  Lemma lookup_nlv_notin attrs lazy f :
    ~ In f (map fst attrs) -> lookup (nlv attrs lazy) f = None.
  Proof.
    induction attrs as [|[g a] r IH]; cbn; [reflexivity|].
    intros Hn. assert (Hg : g <> f) by (intros ->; apply Hn; now left).
    assert (Hr : ~ In f (map fst r)) by (intros Hi; apply Hn; now right).
    destruct a as [v|]; [|now apply IH].
    destruct (mem g lazy); [now apply IH|]. cbn.
    destruct (String.eqb f g) eqn:E; [apply String.eqb_eq in E; congruence | now apply IH].
  Qed.

  Lemma lookup_nlv attrs lazy f a :
    NoDup (map fst attrs) -> In (f, a) attrs ->
    lookup (nlv attrs lazy) f =
      match a with AVal v => if mem f lazy then None else Some v | ALazy => None end.
  Proof.
    induction attrs as [|[g b] r IH]; cbn; [intros _ []|].
    intros Hnd [He|Hi].
    - inversion He; subst g b. inversion Hnd as [|? ? Hnot Hnd']; subst.
      destruct a as [v|].
      + destruct (mem f lazy); [now apply lookup_nlv_notin|]. cbn. now rewrite String.eqb_refl.
      + now apply lookup_nlv_notin.
    - inversion Hnd as [|? ? Hnot Hnd']; subst.
      assert (Hg : g <> f).
      { intros ->. apply Hnot. change f with (fst (f, a)). now apply in_map. }
      destruct b as [v|]; [|now apply IH].
      destruct (mem g lazy); [now apply IH|]. cbn.
      destruct (String.eqb f g) eqn:E; [apply String.eqb_eq in E; congruence | now apply IH].
  Qed.

  Lemma mk_inputs_spec attrs lazy :
    NoDup (map fst attrs) -> mk_inputs' attrs (nlv attrs lazy) = spec_inputs' attrs lazy.
  Proof.
    intros Hnd. unfold mk_inputs, spec_inputs. apply map_ext_in. intros [f a] Hi. cbn.
    rewrite (lookup_nlv attrs lazy f a Hnd Hi).
    destruct a as [v|]; [destruct (mem f lazy)|]; reflexivity.
  Qed.

  Lemma lookup_restrict (l : list (fname * V)) ks f :
    lookup (restrict V l ks) f = if mem f ks then lookup l f else None.
  Proof.
    unfold restrict. induction l as [|[g v] r IH]; cbn; [now destruct (mem f ks)|].
    destruct (mem g ks) eqn:Eg; cbn.
    - destruct (String.eqb f g) eqn:E.
      + apply String.eqb_eq in E. subst. now rewrite Eg.
      + apply IH.
    - rewrite IH. destruct (String.eqb f g) eqn:E; [|reflexivity].
      apply String.eqb_eq in E. subst. now rewrite Eg.
  Qed.

  Lemma mk_inputs_restrict attrs lazy ks :
    NoDup (map fst attrs) ->
    mk_inputs' attrs (restrict V (nlv attrs lazy) ks) = lazy_except V attrs lazy ks.
  Proof.
    intros Hnd. unfold mk_inputs, lazy_except. apply map_ext_in. intros [f a] Hi. cbn.
    rewrite lookup_restrict, (lookup_nlv attrs lazy f a Hnd Hi).
    destruct a as [v|]; [destruct (mem f lazy); destruct (mem f ks)| destruct (mem f ks)]; reflexivity.
  Qed.

  Lemma lazy_except_ext attrs lazy ks ks' :
    (forall f, mem f ks = mem f ks') -> lazy_except V attrs lazy ks = lazy_except V attrs lazy ks'.
  Proof.
    intros H. unfold lazy_except. apply map_ext. intros [f a]. cbn. now rewrite H.
  Qed.

  Lemma restrict_ext (l : list (fname * V)) ks ks' :
    (forall f, mem f ks = mem f ks') -> restrict V l ks = restrict V l ks'.
  Proof. intros H. unfold restrict. apply filter_ext. intros [f v]. cbn. apply H. Qed.

  Lemma mk_inputs_names (a b : list (fname * attr V)) l :
    map fst a = map fst b -> mk_inputs' a l = mk_inputs' b l.
  Proof.
    intros H. unfold mk_inputs.
    transitivity (map (fun f => (f, match lookup l f with Some v => Conc v | None => LzIn f end)) (map fst a)).
    - rewrite map_map. reflexivity.
    - rewrite H, map_map. reflexivity.
  Qed.

  Lemma given_spec_inputs attrs lazy : given' (spec_inputs' attrs lazy) = nlv attrs lazy.
  Proof.
    unfold spec_inputs. induction attrs as [|[f a] r IH]; cbn; [reflexivity|].
    destruct a as [v|]; [destruct (mem f lazy)|]; cbn; now rewrite IH.
  Qed.

  Lemma conc_given (i : list (fname * arg V)) : conc_part V i = given' i.
  Proof. induction i as [|[f [v|g]] r IH]; cbn; now rewrite ?IH. Qed.

  Lemma build_fresh t attrs lazy :
    map fst attrs = fields t -> build' t attrs (nlv attrs lazy) = fresh' t attrs lazy.
  Proof.
    intros Hn. unfold build, fresh. rewrite mk_inputs_spec; [reflexivity|].
    rewrite Hn. apply fields_nodup.
  Qed.

  (* ---------- the cache invariant ---------- *)
  Definition In_cache (c : cacheT) (th : HT) (ks : list fname) (vh : HD) (w : wfT) : Prop :=
    exists tc kc, In (th, tc) c /\ In (ks, kc) tc /\ In (vh, w) kc.

  (* every entry is the fresh construction of a request made earlier in the history *)
  Definition entry_ok (earlier : list (list fname)) (th : HT) (ks : list fname) (vh : HD) (w : wfT) : Prop :=
    exists t attrs lazy,
      map fst attrs = fields t /\ hash_type t = th /\
      keys_eqb (map fst (nlv attrs lazy)) ks = true /\
      hash_dict (nlv attrs lazy) = vh /\
      w = fresh' t attrs lazy /\
      In (map fst (nlv attrs lazy)) earlier.

  Definition cache_ok (earlier : list (list fname)) (c : cacheT) : Prop :=
    forall th ks vh w, In_cache c th ks vh w -> entry_ok earlier th ks vh w.

  Lemma entry_ok_mono e e' th ks vh w : entry_ok e th ks vh w -> entry_ok (e ++ e') th ks vh w.
  Proof.
    intros (t & attrs & lazy & H1 & H2 & H3 & H4 & H5 & H6).
    exists t, attrs, lazy. repeat split; try assumption. apply in_or_app. now left.
  Qed.

  Lemma cache_ok_mono e e' c : cache_ok e c -> cache_ok (e ++ e') c.
  Proof. intros H th ks vh w Hi. apply entry_ok_mono. now apply H. Qed.

  Lemma keys_eqb_refl a : keys_eqb a a = true.
  Proof.
    unfold keys_eqb. assert (H : subset a a = true).
    { unfold subset. rewrite forallb_forall. intros f Hf. now apply mem_true_iff. }
    now rewrite H.
  Qed.

  Lemma keys_eqb_trans a b c : keys_eqb a b = true -> keys_eqb b c = true -> keys_eqb a c = true.
  Proof.
    intros H1 H2. unfold keys_eqb. apply andb_true_iff. split.
    - unfold subset. rewrite forallb_forall. intros f Hf. apply mem_true_iff in Hf.
      now rewrite <- (keys_eqb_mem b c f H2), <- (keys_eqb_mem a b f H1).
    - unfold subset. rewrite forallb_forall. intros f Hf. apply mem_true_iff in Hf.
      now rewrite (keys_eqb_mem a b f H1), (keys_eqb_mem b c f H2).
  Qed.

  Lemma In_insert_k (tc : tcache V G HD) keys vh w ks kc :
    In (ks, kc) (insert_k V G HD tc keys vh w) ->
    In (ks, kc) tc \/
    (keys_eqb keys ks = true /\
     exists kc0, kc = kc0 ++ [(vh, w)] /\ (In (ks, kc0) tc \/ kc0 = [])).
  Proof.
    induction tc as [|[ks' kc'] r IH]; cbn.
    - intros [H|[]]. inversion H; subst. right. split; [apply keys_eqb_refl|].
      exists []. split; [reflexivity | now right].
    - destruct (keys_eqb keys ks') eqn:E; cbn.
      + intros [H|H].
        * inversion H; subst. right. split; [assumption|]. exists kc'. split; [reflexivity| left; now left].
        * left. now right.
      + intros [H|H].
        * left. now left.
        * destruct (IH H) as [H'|(Hk & kc0 & Hkc & [Hin|Hnil])].
          -- left. now right.
          -- right. split; [assumption|]. exists kc0. split; [assumption| left; now right].
          -- right. split; [assumption|]. exists kc0. split; [assumption| now right].
  Qed.

  Lemma In_cache_insert (c : cacheT) th keys vh w th' ks' vh' w' :
    In_cache (insert_t V G HT HD ht_eqb c th keys vh w) th' ks' vh' w' ->
    In_cache c th' ks' vh' w' \/ (th' = th /\ keys_eqb keys ks' = true /\ vh' = vh /\ w' = w).
  Proof.
    induction c as [|[th0 tc0] r IH]; cbn.
    - intros (tc & kc & [H|[]] & Hk & Hv). inversion H; subst.
      cbn in Hk. destruct Hk as [Hk|[]]. inversion Hk; subst.
      destruct Hv as [Hv|[]]. inversion Hv; subst.
      right. repeat split; try reflexivity. apply keys_eqb_refl.
    - destruct (ht_eqb th th0) eqn:E.
      + apply ht_eqb_spec in E. subst th0.
        intros (tc & kc & [H|H] & Hk & Hv).
        * inversion H; subst th' tc.
          destruct (In_insert_k _ _ _ _ _ _ Hk) as [Hin|(Hke & kc0 & Hkc & Hin)].
          -- left. exists tc0, kc. repeat split; try assumption. now left.
          -- subst kc. apply in_app_or in Hv. destruct Hv as [Hv|[Hv|[]]].
             ++ destruct Hin as [Hin|Hnil]; [|subst; destruct Hv].
                left. exists tc0, kc0. repeat split; try assumption. now left.
             ++ inversion Hv; subst. right. repeat split; try reflexivity. assumption.
        * left. exists tc, kc. repeat split; try assumption. now right.
      + intros (tc & kc & [H|H] & Hk & Hv).
        * inversion H; subst. left. exists tc, kc. repeat split; try assumption. now left.
        * destruct (IH (ex_intro _ tc (ex_intro _ kc (conj H (conj Hk Hv))))) as [(tc1 & kc1 & A & B & C)|Hnew].
          -- left. exists tc1, kc1. repeat split; try assumption. now right.
          -- now right.
  Qed.

  Lemma In_cache_clear (c : cacheT) th th' ks vh w :
    In_cache (clear_type V G HT HD ht_eqb c th) th' ks vh w -> In_cache c th' ks vh w.
  Proof.
    induction c as [|[th0 tc0] r IH]; cbn.
    - intros (tc & kc & [] & _).
    - destruct (ht_eqb th th0) eqn:E.
      + intros (tc & kc & [H|H] & Hk & Hv).
        * inversion H; subst. destruct Hk.
        * exists tc, kc. repeat split; try assumption. now right.
      + intros (tc & kc & [H|H] & Hk & Hv).
        * inversion H; subst. exists tc, kc. repeat split; try assumption. now left.
        * destruct (IH (ex_intro _ tc (ex_intro _ kc (conj H (conj Hk Hv))))) as (tc1 & kc1 & A & B & C).
          exists tc1, kc1. repeat split; try assumption. now right.
  Qed.

  Lemma type_cache_In (c : cacheT) th ks kc :
    In (ks, kc) (type_cache V G HT HD ht_eqb c th) -> exists tc, In (th, tc) c /\ In (ks, kc) tc.
  Proof.
    unfold type_cache. destruct (find_h ht_eqb c th) as [tc|] eqn:E; [|intros []].
    intros Hi. apply find_h_In in E. destruct E as [th' [Hin He]].
    apply ht_eqb_spec in He. subst th'. now exists tc.
  Qed.

  Lemma exact_lookup_In (tc : tcache V G HD) keys vh w :
    exact_lookup V G HD hd_eqb tc keys vh = Some w ->
    exists ks kc, In (ks, kc) tc /\ keys_eqb keys ks = true /\ In (vh, w) kc.
  Proof.
    unfold exact_lookup. destruct (find_h keys_eqb tc keys) as [kc|] eqn:E; [|discriminate].
    intros H. apply find_h_In in E. destruct E as [ks [Hin He]].
    apply find_h_In in H. destruct H as [vh' [Hv Hh]]. apply hd_eqb_spec in Hh. subst vh'.
    now exists ks, kc.
  Qed.

  Lemma superset_lookup_In (tc : tcache V G HD) l keys ks w :
    superset_lookup V G HD hd_eqb hash_dict tc l keys = Some (ks, w) ->
    exists kc, In (ks, kc) tc /\ subset ks keys = true /\ In (hash_dict (restrict V l ks), w) kc.
  Proof.
    induction tc as [|[ks' kc'] r IH]; cbn; [discriminate|].
    destruct (subset ks' keys) eqn:Es.
    - destruct (find_h hd_eqb kc' (hash_dict (restrict V l ks'))) as [w'|] eqn:Ef.
      + intros H. inversion H; subst ks' w'. apply find_h_In in Ef. destruct Ef as [vh' [Hv Hh]].
        apply hd_eqb_spec in Hh. subst vh'. exists kc'. repeat split; try assumption. now left.
      + intros H. destruct (IH H) as [kc [A [B C]]]. exists kc. repeat split; try assumption. now right.
    - intros H. destruct (IH H) as [kc [A [B C]]]. exists kc. repeat split; try assumption. now right.
  Qed.


  (* inputs after a superset hit: deep copy of the less specific workflow + the remaining values *)
  Lemma set_extra_inputs (w0 : wfT) attrs l ks :
    winputs w0 = mk_inputs' attrs (restrict V l ks) ->
    winputs (set_extra V G w0 l ks) = mk_inputs' attrs l.
  Proof.
    intros H. cbn. rewrite H. unfold mk_inputs. rewrite map_map. apply map_ext. intros [f a]. cbn.
    rewrite lookup_restrict. destruct (mem f ks); cbn; [reflexivity|].
    destruct (lookup l f); reflexivity.
  Qed.

  Lemma req_keys_nlv attrs lazy : req_keys V attrs lazy = map fst (nlv attrs lazy).
  Proof. unfold req_keys. now rewrite given_spec_inputs. Qed.

  Lemma fresh_names t a b lazy lazy' :
    map fst a = fields t -> map fst b = fields t -> nlv a lazy = nlv b lazy' ->
    fresh' t a lazy = fresh' t b lazy'.
  Proof.
    intros Ha Hb He. rewrite <- (build_fresh t a lazy Ha), <- (build_fresh t b lazy' Hb).
    unfold build. rewrite He. rewrite (mk_inputs_names a b); [reflexivity | congruence].
  Qed.

  (* ---------- Workflow.construct against the invariant ---------- *)
  Lemma construct_sound c t attrs lazy dc earlier c' w h :
    cache_ok earlier c -> map fst attrs = fields t ->
    construct' c t attrs lazy dc = (c', w, h) ->
    wname w = type_name t /\
    winputs w = spec_inputs' attrs lazy /\
    (h <> Superset -> w = fresh' t attrs lazy) /\
    (excluded_req' earlier t attrs lazy = false -> view' w = view' (fresh' t attrs lazy)) /\
    cache_ok (earlier ++ [req_keys V attrs lazy]) c'.
  Proof.
    intros Hok Hn. unfold construct.
    assert (Hnd : NoDup (map fst attrs)) by (rewrite Hn; apply fields_nodup).
    destruct (exact_lookup V G HD hd_eqb (type_cache V G HT HD ht_eqb c (hash_type t))
                (map fst (nlv attrs lazy)) (hash_dict (nlv attrs lazy))) as [we|] eqn:Ee.
    - (* exact hit *)
      intros H. inversion H; subst c' w h. clear H.
      apply exact_lookup_In in Ee. destruct Ee as (ks & kc & Hk & Hke & Hv).
      apply type_cache_In in Hk. destruct Hk as (tc & Ht & Hk).
      destruct (Hok (hash_type t) ks (hash_dict (nlv attrs lazy)) we) as
          (t0 & a0 & l0 & Hn0 & Hth & Hk0 & Hvh & Hw & Hin).
      { now exists tc, kc. }
      apply hash_type_inj in Hth. subst t0. apply hash_dict_inj in Hvh.
      assert (Hfr : we = fresh' t attrs lazy).
      { rewrite Hw. now apply fresh_names. }
      clear Hw. subst we. repeat split; try reflexivity.
      now apply cache_ok_mono.
    - destruct (superset_lookup V G HD hd_eqb hash_dict (type_cache V G HT HD ht_eqb c (hash_type t))
                  (nlv attrs lazy) (map fst (nlv attrs lazy))) as [[ks w0]|] eqn:Es.
      + (* superset-of-lazy hit *)
        intros H. inversion H; subst c' w h. clear H.
        apply superset_lookup_In in Es. destruct Es as (kc & Hk & Hsub & Hv).
        apply type_cache_In in Hk. destruct Hk as (tc & Ht & Hk).
        destruct (Hok (hash_type t) ks (hash_dict (restrict V (nlv attrs lazy) ks)) w0) as
            (t0 & a0 & l0 & Hn0 & Hth & Hk0 & Hvh & Hw & Hin).
        { now exists tc, kc. }
        apply hash_type_inj in Hth. subst t0. apply hash_dict_inj in Hvh.
        assert (Hnd0 : NoDup (map fst a0)) by (rewrite Hn0; apply fields_nodup).
        assert (Hin0 : winputs w0 = mk_inputs' attrs (restrict V (nlv attrs lazy) ks)).
        { rewrite Hw. cbn. rewrite <- (mk_inputs_spec a0 l0 Hnd0), Hvh.
          apply mk_inputs_names. congruence. }
        assert (Hinp : winputs (set_extra V G w0 (nlv attrs lazy) ks) = spec_inputs' attrs lazy).
        { rewrite (set_extra_inputs w0 attrs _ _ Hin0). now apply mk_inputs_spec. }
        split; [rewrite Hw; reflexivity|]. split; [exact Hinp|].
        split; [intros Hc; now elim Hc|]. split; [|now apply cache_ok_mono].
        intros Hex. unfold view. rewrite Hinp. cbn [wname wgraph set_extra fresh winputs].
        f_equal; [f_equal; rewrite Hw; reflexivity|].
        (* the graph: built with the inputs outside ks lazy, resolved with the requester's values *)
        unfold excluded_req in Hex.
        assert (Hex' := existsb_false_In _ _ Hex).
        set (k0 := map fst (nlv a0 l0)) in *.
        specialize (Hex' k0 Hin). cbv beta in Hex'.
        assert (Hs0 : subset k0 (req_keys V attrs lazy) = true).
        { rewrite req_keys_nlv. now apply (subset_trans_eq ks). }
        rewrite Hs0 in Hex'. cbn in Hex'. unfold nonparam_at in Hex'.
        apply negb_false_iff, g_eqb_spec in Hex'.
        rewrite <- Hex'. f_equal. rewrite Hw. cbn [wgraph fresh]. f_equal.
        rewrite <- (mk_inputs_spec a0 l0 Hnd0), Hvh.
        rewrite (mk_inputs_names a0 attrs) by congruence.
        rewrite (mk_inputs_restrict attrs lazy ks Hnd).
        apply lazy_except_ext. intros f. symmetry. now apply keys_eqb_mem.
      + (* miss: run the constructor *)
        intros H. inversion H; subst c' w h. clear H.
        rewrite (build_fresh t attrs lazy Hn).
        repeat split; try reflexivity.
        destruct dc; [now apply cache_ok_mono|].
        intros th ks vh w Hi. apply In_cache_insert in Hi.
        destruct Hi as [Hi|(-> & Hke & -> & ->)].
        * apply entry_ok_mono. now apply Hok.
        * exists t, attrs, lazy. repeat split; try assumption; try reflexivity.
          apply in_or_app. right. left. apply req_keys_nlv.
  Qed.

  (* ---------- task objects ---------- *)
  Notation objT := (obj V T).
  Notation sobjT := (sobj V T).
  Definition o2s (ob : objT) : sobjT := (otype V T ob, oattrs V T ob).

  Definition objs_wf (os : list sobjT) : Prop := forall t a, In (t, a) os -> map fst a = fields t.

  Lemma new_attrs_names t given : map fst (new_attrs V T fields default t given) = fields t.
  Proof. unfold new_attrs. rewrite map_map. cbn. apply map_id. Qed.

  Lemma set_attr_names attrs f a : map fst (set_attr V attrs f a) = map fst attrs.
  Proof.
    unfold set_attr. rewrite map_map. apply map_ext. intros [g b]. cbn.
    now destruct (String.eqb f g).
  Qed.

  Lemma set_attrs_names attrs ch : map fst (set_attrs V attrs ch) = map fst attrs.
  Proof.
    unfold set_attrs. rewrite map_map. apply map_ext. intros [g b]. cbn.
    now destruct (lookup ch g).
  Qed.

  Lemma replace_nth_map {A B} (g : A -> B) l i x :
    map g (replace_nth l i x) = replace_nth (map g l) i (g x).
  Proof.
    revert i. induction l as [|y l IH]; intros [|i]; cbn; try reflexivity. now rewrite IH.
  Qed.

  Lemma In_replace_nth {A} (l : list A) i x y : In y (replace_nth l i x) -> y = x \/ In y l.
  Proof.
    revert i. induction l as [|z l IH]; intros [|i]; cbn; try tauto.
    - intros [H|H]; [left; now symmetry | right; now right].
    - intros [H|H]; [right; now left|]. destruct (IH i H); [now left | right; now right].
  Qed.

  Lemma nth_error_o2s l i : nth_error (map o2s l) i = option_map o2s (nth_error l i).
  Proof. revert i. induction l as [|y l IH]; intros [|i]; cbn; try reflexivity. apply IH. Qed.

  Lemma objs_wf_app os t a : objs_wf os -> map fst a = fields t -> objs_wf (os ++ [(t, a)]).
  Proof.
    intros H Ha t' a' Hi. apply in_app_or in Hi. destruct Hi as [Hi|[Hi|[]]]; [now apply H|].
    inversion Hi; now subst.
  Qed.

  Lemma all_vals_spec attrs vals :
    all_vals V attrs = Some vals ->
    spec_inputs' attrs [] = map (fun fv => (fst fv, Conc (snd fv))) vals /\ nlv attrs [] = vals.
  Proof.
    revert vals. induction attrs as [|[f a] r IH]; intros vals H.
    - cbn in H. inversion H. now split.
    - cbn in H. destruct a as [v|]; [|discriminate].
      destruct (all_vals V r) as [l|]; [|discriminate]. inversion H; subst.
      destruct (IH l eq_refl) as [H1 H2]. split.
      + change (spec_inputs' ((f, AVal v) :: r) []) with ((f, Conc v) :: spec_inputs' r []). now rewrite H1.
      + change (nlv ((f, AVal v) :: r) []) with ((f, v) :: nlv r []). now rewrite H2.
  Qed.

  (* ---------- the invariant of a history ---------- *)
  Notation stT := (st V T G R HT HD HC).
  Definition inv_c (s : stT) (os : list sobjT) (earlier : list (list fname)) : Prop :=
    os = map o2s (objs V T G R HT HD HC s) /\ objs_wf os /\ cache_ok earlier (wcache V T G R HT HD HC s).

  Definition store_ok (s : stT) : Prop :=
    forall ck r, In (ck, r) (store V T G R HT HD HC s) ->
                 exists t vals, ck = checksum t vals /\ r = fresh_result V T G R ctor subst eval t vals.

  Notation req_of' := (req_of V T).
  Notation earlier_after' := (earlier_after V T).

  Definition op_ok (os : list sobjT) (earlier : list (list fname)) (o : op V T) : Prop :=
    match req_of' os o with
    | Some (t, a, lazy) => excluded_req' earlier t a lazy = false
    | None => True
    end.

  Lemma earlier_after_mono os o e : exists e', earlier_after' os o e = e ++ e'.
  Proof.
    unfold earlier_after. destruct (req_of' os o) as [[[t a] l]|].
    - now exists [req_keys V a l].
    - exists []. now rewrite app_nil_r.
  Qed.

  Lemma cache_ok_after os o e c : cache_ok e c -> cache_ok (earlier_after' os o e) c.
  Proof. intros H. destruct (earlier_after_mono os o e) as [e' ->]. now apply cache_ok_mono. Qed.

  Lemma cache_ok_nil e : cache_ok e [].
  Proof. intros th ks vh w (tc & kc & [] & _). Qed.

  Lemma cache_ok_clear e (c : cacheT) th : cache_ok e c -> cache_ok e (clear_type V G HT HD ht_eqb c th).
  Proof. intros H th' ks vh w Hi. apply H. now apply In_cache_clear in Hi. Qed.

  Lemma wf_nth so i t0 a0 :
    objs_wf (map o2s so) -> nth_error so i = Some {| otype := t0; oattrs := a0 |} -> map fst a0 = fields t0.
  Proof. intros H En. apply H. apply nth_error_In in En. apply (in_map o2s) in En. exact En. Qed.

  (* one operation: the cache part of the invariant is kept whatever the constructor does, and a
     returned workflow always carries the requester's inputs *)
  Lemma step_inv s os earlier o s' ob :
    inv_c s os earlier -> step' s o = (s', ob) ->
    inv_c s' (obj_step' os o) (earlier_after' os o earlier).
  Proof.
    intros (Hos & Hwf & Hc) Hst. destruct s as [so sc ss]. cbn in Hos, Hc. subst os.
    destruct o as [t given|i f a|i|i ch|i|i lazy dc|i nr|[t|]]; cbn -[mem set_attr set_attrs new_attrs] in Hst;
      unfold earlier_after, req_of, obj_step; rewrite ?nth_error_o2s.
    - (* new *)
      inversion Hst; subst. unfold inv_c; cbn -[mem set_attr set_attrs new_attrs]. repeat split; try assumption.
      + now rewrite map_app.
      + apply objs_wf_app; [assumption | apply new_attrs_names].
    - (* setattr *)
      destruct (nth_error so i) as [ob0|] eqn:En; cbn -[mem set_attr set_attrs new_attrs].
      + destruct ob0 as [t0 a0]. cbn -[mem set_attr set_attrs new_attrs] in *.
        destruct (mem f (map fst a0)).
        * inversion Hst; subst. unfold inv_c; cbn -[mem set_attr set_attrs new_attrs]. repeat split; try assumption.
          -- now rewrite replace_nth_map.
          -- intros t' a' Hi. apply In_replace_nth in Hi. destruct Hi as [Hi|Hi]; [|now apply Hwf].
             inversion Hi; subst. rewrite set_attr_names. eapply wf_nth; eassumption.
        * inversion Hst; subst. unfold inv_c; cbn -[mem set_attr set_attrs new_attrs]. now repeat split.
      + inversion Hst; subst. unfold inv_c; cbn -[mem set_attr set_attrs new_attrs]. now repeat split.
    - (* copy *)
      destruct (nth_error so i) as [ob0|] eqn:En; cbn -[mem set_attr set_attrs new_attrs]; inversion Hst; subst; unfold inv_c; cbn -[mem set_attr set_attrs new_attrs]; repeat split; try assumption.
      + now rewrite map_app.
      + destruct ob0 as [t0 a0]. apply objs_wf_app; [assumption|]. eapply wf_nth; eassumption.
    - (* evolve *)
      destruct (nth_error so i) as [ob0|] eqn:En; cbn -[mem set_attr set_attrs new_attrs]; inversion Hst; subst; unfold inv_c; cbn -[mem set_attr set_attrs new_attrs]; repeat split; try assumption.
      + destruct ob0 as [t0 a0]. now rewrite map_app.
      + destruct ob0 as [t0 a0]. cbn -[set_attrs]. apply objs_wf_app; [assumption|]. rewrite set_attrs_names. eapply wf_nth; eassumption.
    - (* construct *)
      destruct (nth_error so i) as [ob0|] eqn:En; cbn -[mem set_attr set_attrs new_attrs].
      + destruct ob0 as [t0 a0]. cbn -[mem set_attr set_attrs new_attrs] in *.
        destruct (construct' sc t0 a0 [] false) as [[c w] h] eqn:Ec.
        inversion Hst; subst. unfold inv_c; cbn -[mem set_attr set_attrs new_attrs]. repeat split; try assumption.
        eapply construct_sound; [eassumption | | eassumption].
        eapply wf_nth; eassumption.
      + inversion Hst; subst. unfold inv_c; cbn -[mem set_attr set_attrs new_attrs]. now repeat split.
    - (* Workflow.construct(lazy, dont_cache) *)
      destruct (nth_error so i) as [ob0|] eqn:En; cbn -[mem set_attr set_attrs new_attrs].
      + destruct ob0 as [t0 a0]. cbn -[mem set_attr set_attrs new_attrs] in *.
        destruct (construct' sc t0 a0 lazy dc) as [[c w] h] eqn:Ec.
        inversion Hst; subst. unfold inv_c; cbn -[mem set_attr set_attrs new_attrs]. repeat split; try assumption.
        eapply construct_sound; [eassumption | | eassumption].
        eapply wf_nth; eassumption.
      + inversion Hst; subst. unfold inv_c; cbn -[mem set_attr set_attrs new_attrs]. now repeat split.
    - (* run *)
      destruct (nth_error so i) as [ob0|] eqn:En; cbn -[mem set_attr set_attrs new_attrs].
      + destruct ob0 as [t0 a0]. cbn -[mem set_attr set_attrs new_attrs] in *.
        destruct (all_vals V a0) as [vals|] eqn:Ea.
        * destruct (if nr then None else find_h hc_eqb ss (checksum t0 vals)) as [r|].
          -- inversion Hst; subst. unfold inv_c; cbn -[mem set_attr set_attrs new_attrs]. repeat split; try assumption. now apply cache_ok_mono.
          -- destruct (construct' sc t0 a0 [] false) as [[c w] h] eqn:Ec.
             inversion Hst; subst. unfold inv_c; cbn -[mem set_attr set_attrs new_attrs]. repeat split; try assumption.
             eapply construct_sound; [eassumption | | eassumption].
             eapply wf_nth; eassumption.
        * inversion Hst; subst. unfold inv_c; cbn -[mem set_attr set_attrs new_attrs]. now repeat split.
      + inversion Hst; subst. unfold inv_c; cbn -[mem set_attr set_attrs new_attrs]. now repeat split.
    - (* clear_cache(class) *)
      inversion Hst; subst. unfold inv_c; cbn -[mem set_attr set_attrs new_attrs]. repeat split; try assumption. now apply cache_ok_clear.
    - (* clear_cache() *)
      inversion Hst; subst. unfold inv_c; cbn -[mem set_attr set_attrs new_attrs]. repeat split; try assumption. apply cache_ok_nil.
  Qed.

  Notation state_after' := (state_after V T G R HT HD HC ht_eqb hd_eqb hc_eqb hash_type hash_dict checksum type_name
                              fields default ctor subst eval).
  Notation st0' := (st0 V T G R HT HD HC).

  Lemma inv_c_init : inv_c st0' [] [].
  Proof. unfold inv_c. cbn. repeat split. - intros t a []. - apply cache_ok_nil. Qed.

  Lemma state_after_inv ops : forall s os e,
    inv_c s os e -> exists os' e', inv_c (state_after' s ops) os' e'.
  Proof.
    induction ops as [|o r IH]; intros s os e Hi; cbn.
    - now exists os, e.
    - destruct (step' s o) as [s' ob] eqn:Es. cbn. eapply IH. eapply step_inv; eassumption.
  Qed.

  (* every cache reachable by a history satisfies the invariant *)
  Lemma reachable_cache_ok ops :
    exists os e, inv_c (state_after' st0' ops) os e.
  Proof. eapply state_after_inv. apply inv_c_init. Qed.

  Theorem exact_hit_sound ops t attrs lazy dc c' w :
    map fst attrs = fields t ->
    construct' (wcache V T G R HT HD HC (state_after' st0' ops)) t attrs lazy dc = (c', w, Exact) ->
    w = fresh' t attrs lazy.
  Proof.
    intros Hn Hc. destruct (reachable_cache_ok ops) as (os & e & _ & _ & Hok).
    destruct (construct_sound _ _ _ _ _ _ _ _ _ Hok Hn Hc) as (_ & _ & H & _). apply H. discriminate.
  Qed.

  Theorem no_leak ops t attrs lazy dc c' w h :
    map fst attrs = fields t ->
    construct' (wcache V T G R HT HD HC (state_after' st0' ops)) t attrs lazy dc = (c', w, h) ->
    wname w = type_name t /\ winputs w = spec_inputs' attrs lazy.
  Proof.
    intros Hn Hc. destruct (reachable_cache_ok ops) as (os & e & _ & _ & Hok).
    destruct (construct_sound _ _ _ _ _ _ _ _ _ Hok Hn Hc) as (H1 & H2 & _). now split.
  Qed.

  Lemma excluded_req_param earlier t attrs lazy :
    (forall ks, nonparam_at V T G ctor subst g_eqb t attrs lazy ks = false) ->
    excluded_req' earlier t attrs lazy = false.
  Proof.
    intros H. unfold excluded_req. induction earlier as [|k r IH]; cbn; [reflexivity|].
    rewrite H, andb_false_r. exact IH.
  Qed.

  (* a superset-of-lazy hit is sound when the constructor is parametric at this request *)
  Theorem superset_hit_sound ops t attrs lazy dc c' w :
    map fst attrs = fields t ->
    (forall ks, nonparam_at V T G ctor subst g_eqb t attrs lazy ks = false) ->
    construct' (wcache V T G R HT HD HC (state_after' st0' ops)) t attrs lazy dc = (c', w, Superset) ->
    view' w = view' (fresh' t attrs lazy).
  Proof.
    intros Hn Hp Hc. destruct (reachable_cache_ok ops) as (os & e & _ & _ & Hok).
    destruct (construct_sound _ _ _ _ _ _ _ _ _ Hok Hn Hc) as (_ & _ & _ & H & _). apply H.
    now apply excluded_req_param.
  Qed.

  (* parametric constructors are parametric at every request *)
  Lemma inst_lazy_except attrs lazy ks :
    NoDup (map fst attrs) ->
    inst V (nlv attrs lazy) (lazy_except V attrs lazy ks) = spec_inputs' attrs lazy.
  Proof.
    intros Hnd. unfold inst, lazy_except, spec_inputs. rewrite map_map. apply map_ext_in.
    intros [f a] Hi. cbn.
    destruct a as [v|].
    - destruct (mem f lazy) eqn:El.
      + rewrite (lookup_nlv attrs lazy f (AVal v) Hnd Hi), El. reflexivity.
      + destruct (mem f ks); [reflexivity|].
        rewrite (lookup_nlv attrs lazy f (AVal v) Hnd Hi), El. reflexivity.
    - rewrite (lookup_nlv attrs lazy f ALazy Hnd Hi). reflexivity.
  Qed.

  Lemma parametric_nonparam t attrs lazy ks :
    parametric V T G ctor subst -> map fst attrs = fields t ->
    nonparam_at V T G ctor subst g_eqb t attrs lazy ks = false.
  Proof.
    intros Hp Hn. unfold nonparam_at. apply negb_false_iff, g_eqb_spec.
    rewrite given_spec_inputs. rewrite (Hp t (nlv attrs lazy) (lazy_except V attrs lazy ks)).
    rewrite inst_lazy_except; [reflexivity|]. rewrite Hn. apply fields_nodup.
  Qed.

  (* ---------- observations: the history simulates the cache-free spec ---------- *)
  Lemma step_sim s os earlier o s' ob :
    inv_c s os earlier -> store_ok s -> op_ok os earlier o -> step' s o = (s', ob) ->
    abs' ob = spec_obs' os o /\ store_ok s'.
  Proof.
    intros (Hos & Hwf & Hc) Hs Hop Hst. destruct s as [so sc ss]. unfold store_ok in *.
    cbn -[mem set_attr set_attrs new_attrs] in Hos, Hc, Hs. subst os.
    unfold op_ok, req_of in Hop.
    destruct o as [t given|i f a|i|i ch|i|i lazy dc|i nr|[t|]];
      cbn -[mem set_attr set_attrs new_attrs] in Hst, Hop |- *; rewrite ?nth_error_o2s in *.
    - inversion Hst; subst. now split.
    - destruct (nth_error so i) as [[t0 a0]|] eqn:En; cbn -[mem set_attr set_attrs new_attrs] in *.
      + destruct (mem f (map fst a0)); inversion Hst; subst; now split.
      + inversion Hst; subst; now split.
    - destruct (nth_error so i) as [[t0 a0]|] eqn:En; cbn in *; inversion Hst; subst; now split.
    - destruct (nth_error so i) as [[t0 a0]|] eqn:En; cbn -[set_attrs] in *; inversion Hst; subst; now split.
    - destruct (nth_error so i) as [[t0 a0]|] eqn:En; cbn in *.
      + destruct (construct' sc t0 a0 [] false) as [[c w] h] eqn:Ec.
        inversion Hst; subst. cbn. split; [|assumption]. f_equal.
        eapply construct_sound; [eassumption | eapply wf_nth; eassumption | eassumption | assumption].
      + inversion Hst; subst; now split.
    - destruct (nth_error so i) as [[t0 a0]|] eqn:En; cbn in *.
      + destruct (construct' sc t0 a0 lazy dc) as [[c w] h] eqn:Ec.
        inversion Hst; subst. cbn. split; [|assumption]. f_equal.
        eapply construct_sound; [eassumption | eapply wf_nth; eassumption | eassumption | assumption].
      + inversion Hst; subst; now split.
    - destruct (nth_error so i) as [[t0 a0]|] eqn:En; cbn in *.
      + destruct (all_vals V a0) as [vals|] eqn:Ea.
        * destruct (all_vals_spec a0 vals Ea) as [Hsi Hnl].
          destruct (if nr then None else find_h hc_eqb ss (checksum t0 vals)) as [r|] eqn:Ef.
          -- (* a result stored under the task's checksum *)
             inversion Hst; subst. cbn. split; [|assumption]. f_equal.
             destruct nr; [discriminate|]. apply find_h_In in Ef. destruct Ef as (ck & Hin & He).
             apply hc_eqb_spec in He. subst ck.
             destruct (Hs _ _ Hin) as (t1 & v1 & Hck & Hr). apply checksum_inj in Hck.
             destruct Hck; now subst.
          -- destruct (construct' sc t0 a0 [] false) as [[c w] h] eqn:Ec.
             assert (Hr : eval (resolved V G subst w) = fresh_result V T G R ctor subst eval t0 vals).
             { destruct (construct_sound _ _ _ _ _ _ _ _ _ Hc (wf_nth _ _ _ _ Hwf En) Ec) as (_ & _ & _ & Hv & _).
               specialize (Hv Hop). unfold view in Hv. assert (Hv3 := f_equal snd Hv). cbn [snd] in Hv3.
               unfold resolved, fresh_result. rewrite conc_given, Hv3. cbn [wgraph winputs fresh].
               rewrite given_spec_inputs, Hnl, Hsi. reflexivity. }
             clear Hsi Hnl. inversion Hst; subst. cbn. split; [now f_equal|].
             destruct nr; [assumption|]. cbn. intros ck r Hi. apply in_app_or in Hi.
             destruct Hi as [Hi|[Hi|[]]]; [now apply Hs|]. inversion Hi; subst.
             now exists t0, vals.
        * inversion Hst; subst; now split.
      + inversion Hst; subst; now split.
    - inversion Hst; subst; now split.
    - inversion Hst; subst; now split.
  Qed.

  Theorem sim ops : forall s os earlier,
    inv_c s os earlier -> store_ok s -> excluded_from' os earlier ops = false ->
    map abs' (run_ops' s ops) = spec_run' os ops.
  Proof.
    induction ops as [|o r IH]; intros s os e Hi Hs Hex; [reflexivity|].
    cbn in Hex. apply orb_false_iff in Hex. destruct Hex as [He1 He2].
    cbn. destruct (step' s o) as [s' ob] eqn:Es. unfold spec_step. cbn.
    assert (Hop : op_ok os e o).
    { unfold op_ok. destruct (req_of' os o) as [[[t a] l]|]; [exact He1 | exact I]. }
    destruct (step_sim _ _ _ _ _ _ Hi Hs Hop Es) as [Hobs Hs'].
    rewrite Hobs. f_equal. eapply IH; [eapply step_inv; eassumption | assumption | assumption].
  Qed.

  (* C30, positive part: every history outside the excluded class is transparent *)
  Theorem history_transparent ops :
    excluded V T G fields default ctor subst g_eqb ops = false ->
    map abs' (history V T G R HT HD HC ht_eqb hd_eqb hc_eqb hash_type hash_dict checksum type_name fields
                      default ctor subst eval ops)
    = spec_history V T G R type_name fields default ctor subst eval ops.
  Proof.
    intros H. unfold history, spec_history. apply (sim ops st0' [] []); [apply inv_c_init| |exact H].
    intros ck r [].
  Qed.

  (* with a parametric constructor no history is excluded *)
  Lemma parametric_not_excluded (Hp : parametric V T G ctor subst) ops : forall os e,
    objs_wf os -> excluded_from' os e ops = false.
  Proof.
    induction ops as [|o r IH]; intros os e Hwf; [reflexivity|]. cbn.
    assert (Hwf' : objs_wf (obj_step' os o)).
    { destruct o as [t given|i f a|i|i ch|i|i lazy dc|i nr|[t|]]; cbn -[mem set_attr set_attrs new_attrs]; try assumption.
      - apply objs_wf_app; [assumption | apply new_attrs_names].
      - destruct (nth_error os i) as [[t0 a0]|] eqn:En; [|assumption].
        destruct (mem f (map fst a0)); [|assumption].
        intros t' a' Hi. apply In_replace_nth in Hi. destruct Hi as [Hi|Hi]; [|now apply Hwf].
        inversion Hi; subst. rewrite set_attr_names. apply Hwf. eapply nth_error_In; eassumption.
      - destruct (nth_error os i) as [[t0 a0]|] eqn:En; [|assumption].
        apply objs_wf_app; [assumption|]. apply Hwf. eapply nth_error_In; eassumption.
      - destruct (nth_error os i) as [[t0 a0]|] eqn:En; [|assumption].
        apply objs_wf_app; [assumption|]. rewrite set_attrs_names. apply Hwf. eapply nth_error_In; eassumption. }
    rewrite (IH _ _ Hwf'), orb_false_r.
    destruct (req_of' os o) as [[[t a] l]|] eqn:Er; [|reflexivity].
    apply excluded_req_param. intros ks. apply parametric_nonparam; [assumption|].
    unfold req_of in Er.
    destruct o as [t1 given|i f a1|i|i ch|i|i lazy dc|i nr|[t1|]]; try discriminate;
      destruct (nth_error os i) as [[t0 a0]|] eqn:En; try discriminate.
    - inversion Er; subst. apply Hwf. eapply nth_error_In; eassumption.
    - inversion Er; subst. apply Hwf. eapply nth_error_In; eassumption.
    - destruct (all_vals V a0); [|discriminate]. inversion Er; subst. apply Hwf. eapply nth_error_In; eassumption.
  Qed.

  Theorem parametric_transparent (Hp : parametric V T G ctor subst) ops :
    map abs' (history V T G R HT HD HC ht_eqb hd_eqb hc_eqb hash_type hash_dict checksum type_name fields
                      default ctor subst eval ops)
    = spec_history V T G R type_name fields default ctor subst eval ops.
  Proof.
    apply history_transparent. unfold excluded. apply parametric_not_excluded; [assumption|]. intros t a [].
  Qed.

  (* ---------- object identity: cached workflows never alias the user's task objects ---------- *)
  Notation idsT := (ids HT HD).
  Notation iconstruct' := (iconstruct V T HT HD hash_type hash_dict).
  Notation istep' := (istep V T G R HT HD HC ht_eqb hd_eqb hc_eqb hash_type hash_dict checksum type_name ctor).
  Notation irun' := (irun V T G R HT HD HC ht_eqb hd_eqb hc_eqb hash_type hash_dict checksum type_name fields
                          default ctor subst eval).

  Definition ids_ok (i : idsT) : Prop :=
    (forall n, In n (iuser HT HD i) -> n < inext HT HD i) /\
    (forall n, In n (cache_ids HT HD i) -> n < inext HT HD i) /\
    (forall n, In n (iuser HT HD i) -> ~ In n (cache_ids HT HD i)).

  Lemma ifind_In ic th keys vh n :
    ifind HT HD ht_eqb hd_eqb ic th keys vh = Some n -> In n (map snd ic).
  Proof.
    induction ic as [|[[[th' ks] vh'] m] r IH]; cbn; [discriminate|].
    destruct (ht_eqb th th' && keys_eqb keys ks && hd_eqb vh vh').
    - intros H. inversion H. now left.
    - intros H. right. now apply IH.
  Qed.

  Definition obs_ok (o : idobs) : Prop :=
    (forall n, id_ret o = Some n -> ~ In n (id_user o)) /\
    (forall n, id_written o = Some n -> ~ In n (id_cached o)).

  Lemma iconstruct_ok i t attrs lazy dc h j n :
    ids_ok i -> iconstruct V T HT HD ht_eqb hd_eqb hash_type hash_dict i t attrs lazy dc h = (j, n) ->
    ids_ok j /\ ~ In n (iuser HT HD j).
  Proof.
    intros (Hu & Hc & Hd) H. unfold iconstruct in H. destruct h.
    - (* exact hit: the cached object *)
      inversion H; subst j. clear H. split; [now repeat split|].
      destruct (ifind HT HD ht_eqb hd_eqb (icache HT HD i) (hash_type t) (map fst (nlv attrs lazy))
                  (hash_dict (nlv attrs lazy))) as [m|] eqn:E.
      + subst n. apply ifind_In in E. intros Hi. exact (Hd _ Hi E).
      + subst n. intros Hi. apply Hu in Hi. lia.
    - (* superset hit: a deep copy *)
      inversion H; subst j n. clear H. cbn. split.
      + repeat split; cbn; intros m Hm; [apply Hu in Hm; lia | apply Hc in Hm; lia | now apply Hd].
      + intros Hi. apply Hu in Hi. lia.
    - (* miss: copy(task) *)
      inversion H; subst j n. clear H. cbn. split.
      + unfold ids_ok, cache_ids. cbn. destruct dc; repeat split; intros m Hm.
        * apply Hu in Hm; lia.
        * apply Hc in Hm; lia.
        * now apply Hd.
        * apply Hu in Hm; lia.
        * rewrite map_app in Hm. apply in_app_or in Hm. destruct Hm as [Hm|[Hm|[]]]; [apply Hc in Hm; lia | cbn in Hm; lia].
        * rewrite map_app. intros Hi. apply in_app_or in Hi. destruct Hi as [Hi|[Hi|[]]]; [exact (Hd _ Hm Hi)|].
          cbn in Hi. apply Hu in Hm. lia.
      + intros Hi. apply Hu in Hi. lia.
  Qed.

  Lemma alloc_user_ok i : ids_ok i -> ids_ok (alloc_user HT HD i).
  Proof.
    intros (Hu & Hc & Hd). unfold ids_ok, alloc_user, cache_ids. cbn. repeat split; intros m Hm.
    - apply in_app_or in Hm. destruct Hm as [Hm|[Hm|[]]]; [apply Hu in Hm; lia | lia].
    - apply Hc in Hm. lia.
    - apply in_app_or in Hm. destruct Hm as [Hm|[Hm|[]]]; [now apply Hd|].
      subst m. intros Hi. apply Hc in Hi. lia.
  Qed.

  Lemma quiet_ok u c : obs_ok {| id_ret := None; id_written := None; id_user := u; id_cached := c |}.
  Proof. split; intros n H; discriminate. Qed.

  Lemma filter_ids_sub (ic : list (HT * list fname * HD * nat)) p n :
    In n (map snd (filter p ic)) -> In n (map snd ic).
  Proof.
    intros H. apply in_map_iff in H. destruct H as (e & He & Hi). apply filter_In in Hi.
    apply in_map_iff. exists e. tauto.
  Qed.

  Lemma istep_ok s i o j ob :
    ids_ok i -> istep' s i o = (j, ob) -> ids_ok j /\ obs_ok ob.
  Proof.
    intros Hok H. unfold istep in H.
    destruct o as [t given|k f a|k|k ch|k|k lazy dc|k nr|[t|]].
    - inversion H; subst. split; [now apply alloc_user_ok | apply quiet_ok].
    - destruct (nth_error _ k) as [ob0|]; [|inversion H; subst; split; [assumption|apply quiet_ok]].
      destruct (mem f _); [|inversion H; subst; split; [assumption|apply quiet_ok]].
      inversion H; subst. split; [assumption|]. split; cbn; intros n Hn; [discriminate|].
      destruct Hok as (_ & _ & Hd). apply Hd. eapply nth_error_In; eassumption.
    - destruct (nth_error _ k); inversion H; subst; (split; [|apply quiet_ok]);
        [now apply alloc_user_ok | assumption].
    - destruct (nth_error _ k); inversion H; subst; (split; [|apply quiet_ok]);
        [now apply alloc_user_ok | assumption].
    - destruct (nth_error _ k) as [ob0|]; [|inversion H; subst; split; [assumption|apply quiet_ok]].
      destruct (construct' _ _ _ _ _) as [[c w] h].
      destruct (iconstruct V T HT HD ht_eqb hd_eqb hash_type hash_dict i _ _ _ _ h) as [j' n] eqn:Ei.
      inversion H; subst. destruct (iconstruct_ok _ _ _ _ _ _ _ _ Hok Ei) as [Hj Hn].
      split; [assumption|]. split; cbn; intros m Hm; [inversion Hm; now subst | discriminate].
    - destruct (nth_error _ k) as [ob0|]; [|inversion H; subst; split; [assumption|apply quiet_ok]].
      destruct (construct' _ _ _ _ _) as [[c w] h].
      destruct (iconstruct V T HT HD ht_eqb hd_eqb hash_type hash_dict i _ _ _ _ h) as [j' n] eqn:Ei.
      inversion H; subst. destruct (iconstruct_ok _ _ _ _ _ _ _ _ Hok Ei) as [Hj Hn].
      split; [assumption|]. split; cbn; intros m Hm; [inversion Hm; now subst | discriminate].
    - destruct (nth_error _ k) as [ob0|]; [|inversion H; subst; split; [assumption|apply quiet_ok]].
      destruct (all_vals V _) as [vals|]; [|inversion H; subst; split; [assumption|apply quiet_ok]].
      destruct (if nr then None else find_h hc_eqb _ _); [inversion H; subst; split; [assumption|apply quiet_ok]|].
      destruct (construct' _ _ _ _ _) as [[c w] h].
      destruct (iconstruct V T HT HD ht_eqb hd_eqb hash_type hash_dict i _ _ _ _ h) as [j' n] eqn:Ei.
      cbn in H. inversion H; subst. destruct (iconstruct_ok _ _ _ _ _ _ _ _ Hok Ei) as [Hj Hn].
      split; [assumption | apply quiet_ok].
    - inversion H; subst. destruct Hok as (Hu & Hc & Hd).
      assert (Hok' : ids_ok {| inext := inext HT HD i; iuser := iuser HT HD i;
                               icache := filter (fun e => negb (ht_eqb (hash_type t) (fst (fst (fst e))))) (icache HT HD i) |}).
      { unfold ids_ok, cache_ids. cbn. repeat split; intros m Hm.
        - now apply Hu.
        - apply Hc. eapply filter_ids_sub; eassumption.
        - intros Hi. apply (Hd _ Hm). eapply filter_ids_sub; eassumption. }
      split; [assumption | apply quiet_ok].
    - inversion H; subst. destruct Hok as (Hu & Hc & Hd).
      assert (Hok' : ids_ok {| inext := inext HT HD i; iuser := iuser HT HD i; icache := [] |}).
      { unfold ids_ok, cache_ids. cbn. repeat split; intros m Hm; [now apply Hu | destruct Hm | intros []]. }
      split; [assumption | apply quiet_ok].
  Qed.

  (* in every history: the inputs object of a returned workflow is never one of the user's task objects,
     and a setattr never writes to an object held by the cache *)
  Theorem no_alias ops : forall s i, ids_ok i -> Forall obs_ok (irun' s i ops).
  Proof.
    induction ops as [|o r IH]; intros s i Hok; cbn; [constructor|].
    destruct (istep' s i o) as [j ob] eqn:E. destruct (istep_ok _ _ _ _ _ Hok E) as [Hj Hob].
    constructor; [assumption | now apply IH].
  Qed.

  Lemma ids0_ok : ids_ok (ids0 HT HD).
  Proof. unfold ids_ok, cache_ids. cbn. repeat split; intros n []. Qed.

  Theorem history_no_alias ops :
    Forall obs_ok (id_history V T G R HT HD HC ht_eqb hd_eqb hc_eqb hash_type hash_dict checksum type_name fields
                              default ctor subst eval ops).
  Proof. apply no_alias. apply ids0_ok. Qed.
End Proofs.

(* ------------------------------------------------------------------------------------------
   The concrete family (Model/WfCache.v, second half)
   ------------------------------------------------------------------------------------------ *)
Lemma eqb_of_dec_spec {A} (dec : forall a b : A, {a = b} + {a <> b}) a b :
  eqb_of_dec dec a b = true <-> a = b.
Proof. unfold eqb_of_dec. destruct (dec a b); split; intros; try assumption; try reflexivity; try discriminate; contradiction. Qed.

Lemma wd_names_nodup d : NoDup (wd_names d).
Proof. apply NoDup_nodup. Qed.

(* the sub-family without `if <field>:` -- every constructor in it is parametric *)
Definition strip_else (d : wfdef) : wfdef :=
  {| wd_name := wd_name d; wd_fields := wd_fields d;
     wd_nodes := map (fun n => {| nd_name := nd_name n; nd_op := nd_op n; nd_else := None;
                                  nd_a := nd_a n; nd_b := nd_b n; nd_split := nd_split n;
                                  nd_combine := nd_combine n |}) (wd_nodes d);
     wd_out := wd_out d |}.

Definition cond_free (d : wfdef) : bool :=
  forallb (fun n => match nd_else n with None => true | Some _ => false end) (wd_nodes d).

Lemma strip_else_id d : cond_free d = true -> strip_else d = d.
Proof.
  destruct d as [nm fs ns o]. unfold cond_free, strip_else. cbn. intros H. f_equal.
  induction ns as [|n r IH]; cbn in *; [reflexivity|].
  apply andb_true_iff in H. destruct H as [H1 H2]. rewrite (IH H2). f_equal.
  destruct n as [a b e c d f g]. cbn in *. destruct e; [discriminate|reflexivity].
Qed.

Lemma lookup_inst (s : list (fname * val)) (args : list (fname * arg val)) f :
  lookup (inst val s args) f =
  option_map (fun a => match a with
                       | LzIn g => match lookup s g with Some v => Conc v | None => LzIn g end
                       | Conc v => Conc v
                       end) (lookup args f).
Proof.
  unfold inst. induction args as [|[g a] r IH]; cbn; [reflexivity|].
  destruct (String.eqb f g); [reflexivity | exact IH].
Qed.

Lemma bind_param s args r : subst_bind s (bind_of args r) = subst_bind s (bind_of (inst val s args) r).
Proof.
  destruct r as [f|v|n]; cbn; try reflexivity.
  rewrite lookup_inst. destruct (lookup args f) as [[v|g]|]; cbn; try reflexivity.
  destruct (lookup s g) as [v|] eqn:E; cbn; [reflexivity | now rewrite E].
Qed.

Lemma ctor_strip_parametric :
  parametric val wfdef graph (fun d => ctor_of (strip_else d)) subst_graph.
Proof.
  intros d s args. unfold ctor_of, subst_graph, strip_else. cbn. f_equal.
  - rewrite !map_map. apply map_ext. intros n. cbn. f_equal; apply bind_param.
  - apply bind_param.
Qed.

Definition pf_history (ops : list cop) : list cobs :=
  history val wfdef graph (option val) wfdef (list (fname * val)) (wfdef * list (fname * val))
          (eqb_of_dec wfdef_dec) (eqb_of_dec dict_dec) (eqb_of_dec ck_dec)
          (fun d => d) (fun l => l) (fun d l => (d, l))
          wd_name wd_names wd_default (fun d => ctor_of (strip_else d)) subst_graph eval_graph ops.
Definition pf_spec_history (ops : list cop) : list (sobs val graph (option val)) :=
  spec_history val wfdef graph (option val) wd_name wd_names wd_default
               (fun d => ctor_of (strip_else d)) subst_graph eval_graph ops.

(* the positive theorem instantiated: its hypotheses are satisfiable, by a non-trivial family *)
Theorem family_transparent (ops : list cop) : map c_abs (pf_history ops) = pf_spec_history ops.
Proof.
  unfold pf_history, pf_spec_history, c_abs.
  apply (parametric_transparent val wfdef graph (option val) wfdef (list (fname * val)) (wfdef * list (fname * val))
           (eqb_of_dec wfdef_dec) (eqb_of_dec dict_dec) (eqb_of_dec ck_dec) (fun d => d) (fun l => l) (fun d l => (d, l))
           wd_name wd_names wd_default (fun d => ctor_of (strip_else d)) subst_graph eval_graph (eqb_of_dec graph_dec)).
  - apply eqb_of_dec_spec.
  - apply eqb_of_dec_spec.
  - apply eqb_of_dec_spec.
  - apply eqb_of_dec_spec.
  - intros a b H; exact H.
  - intros a b H; exact H.
  - intros t l t' l' H. inversion H. now split.
  - apply wd_names_nodup.
  - apply ctor_strip_parametric.
Qed.

(* the whole concrete family, outside the excluded class *)
Theorem concrete_partial (ops : list cop) :
  c_excluded ops = false -> map c_abs (c_history ops) = c_spec_history ops.
Proof.
  unfold c_excluded, c_history, c_spec_history, c_abs.
  apply (history_transparent val wfdef graph (option val) wfdef (list (fname * val)) (wfdef * list (fname * val))
           (eqb_of_dec wfdef_dec) (eqb_of_dec dict_dec) (eqb_of_dec ck_dec) (fun d => d) (fun l => l) (fun d l => (d, l))
           wd_name wd_names wd_default ctor_of subst_graph eval_graph (eqb_of_dec graph_dec)).
  - apply eqb_of_dec_spec.
  - apply eqb_of_dec_spec.
  - apply eqb_of_dec_spec.
  - apply eqb_of_dec_spec.
  - intros a b H; exact H.
  - intros a b H; exact H.
  - intros t l t' l' H. inversion H. now split.
  - apply wd_names_nodup.
Qed.

(* ---------- the full statement fails: a constructor that branches on an input (finding F30b) ---------- *)
Local Open Scope Z_scope.
Definition W_cond : wfdef :=
  {| wd_name := "Inner";
     wd_fields := [("x", AVal VNothing); ("flag", AVal VNothing)];
     wd_nodes := [ {| nd_name := "n"; nd_op := "Add"; nd_else := Some ("flag", "Sub");
                      nd_a := RIn "x"; nd_b := RConst (VInt 100); nd_split := false; nd_combine := false |} ];
     wd_out := RNode "n" |}.

(* t = Inner(x=5, flag=0); Workflow.construct(t, lazy=["flag"]) (what plotting a nested graph does);
   then run t: the graph built while `flag` was lazy (Add) is reused, the result is 105 instead of -95 *)
Definition refuting_history : list cop :=
  [ ONew W_cond [("x", AVal (VInt 5)); ("flag", AVal (VInt 0))];
    OWConstruct 0%nat ["flag"] false;
    ORun 0%nat false ].

Lemma refuting_history_model :
  nth 2 (c_history refuting_history) NoObs = ObsOut (Some (VInt 105)) (Some Superset).
Proof. vm_compute. reflexivity. Qed.
Lemma refuting_history_spec :
  nth 2 (c_spec_history refuting_history) SNone = SOut (Some (VInt (-95))).
Proof. vm_compute. reflexivity. Qed.
Lemma refuting_history_excluded : c_excluded refuting_history = true.
Proof. vm_compute. reflexivity. Qed.

Lemma full_statement_refuted :
  ~ (forall ops : list cop, map c_abs (c_history ops) = c_spec_history ops).
Proof.
  intros H. specialize (H refuting_history).
  assert (E : nth 2 (map c_abs (c_history refuting_history)) SNone = nth 2 (c_spec_history refuting_history) SNone)
    by (now rewrite H).
  vm_compute in E. discriminate.
Qed.
