"""C24 — The displayed command line is a faithful rendering of the executed argv
(pydra/compose/shell/task.py ShellTask.cmdline: quotes only around arguments containing a blank)."""
import json
import shlex

from .lib import coqio, shellgen as sg
from .lib.runner import Outcome, Failure

PROP = "C24"
PROPS_FILE = "Props/C24.v"
MANIFEST = dict(
    text="Partial. The property at full strength (C24_full_statement: POSIX-splitting a task's cmdline gives back the "
         "executed argument vector) is REFUTED for the unchanged code (C24_refuted: ['echo', \"it's\"] is displayed as "
         "echo it's; finding F24). C24_partial proves for ALL tasks whose executed vector starts with a bare word and "
         "whose other arguments are bare non-empty words or contain a blank but no single quote (a computable class, "
         "sharper than 'no quotes/backslash/tab') that shlex-splitting the displayed line returns the vector; "
         "C24_roundtrip_quoted proves that CPython's shlex.join/quote (the repair candidate, modelled exactly incl. the "
         "safe-word shortcut) round-trips EVERY argument vector. The repair was tried and rejected: the repo's "
         "unedited test_shell_cmdline.py::test_shell_cmd_inputs_denoise_image asserts an unquoted '[...]' argument. "
         "Base/Shlex.v is compared with CPython shlex.split/join and Model.Shell.cmdline_render with Task.cmdline on "
         "every run.",
    note="Trusted: Coq kernel + vm_compute; hand-written Base/Shlex.v (POSIX shlex.split, shlex.quote/join) and "
         "Model/Shell.v (cmdline rendering), differentially tested against CPython and pydra on every run; 'POSIX "
         "shell rules' are taken to be shlex.split in POSIX mode (no expansion, globbing or operators).",
    technique="Coq proof by induction over the tokenizer's states + refutation witness + model/impl correspondence "
              "via generated cases.v + CPython shlex differential",
    design="§8 Group F / C24",
)
TIE_NAME = "Model.Shell.cmdline_render vs ShellTask.cmdline; Base.Shlex.split/join vs CPython shlex.split/join"
TRUSTED = [
    "Base/Shlex.v: CPython shlex.split (POSIX, whitespace_split) and shlex.quote/join by hand, compared with CPython on every run",
    "Model/Shell.v: ShellTask.cmdline rendering by hand (template_update for output path templates not modelled: "
    "the generated definitions have no outarg fields)",
    "'splitting with POSIX shell rules' = shlex.split(posix=True): quoting and escaping only",
    "the harness: shellgen generator / Gallina encoder / exception canonicaliser / finding classifier",
]
ASSUMPTIONS = ["strings are byte strings (UTF-8) without NUL"]
RULE = ("the C22 generator (0-5 fields, all kinds/argstr forms/positions, functional form) with 45% of string values and "
        "appended arguments from the C23 alphabet, executable as str or list; observed Task.cmdline and the argv handed "
        "to execute; non-trivial = the vector has an argument containing a character outside [A-Za-z0-9_./=-]; "
        "distinct = distinct (argv) tuples; plus shlex.join of the same vectors and random strings compared between "
        "CPython shlex and Base/Shlex.v")

WS_NOT_BLANK = set("\t\n\r")
DEFS = sg.COMMON_DEFS + """
Definition case_t := (inputs_t * result (list la) * option la * option (list la))%type.
(* inputs, observed argv, observed cmdline, CPython shlex.split(cmdline) (None = ValueError) *)
Definition lex_opt (r : res) : option (list la) := match r with Ok l => Some l | _ => None end.
Definition tie_all (c : case_t) : bool :=
  let '(i, obs, cl, py) := c in
  res_eqb (in_argv i) obs &&
  match obs, cl with
  | Good argv, Some s => la_eqb (cmdline_render argv) s
                         && option_eqb (list_eqb la_eqb) (lex_opt (split_la s)) py   (* ties Base/Shlex.v to CPython *)
  | Good _, None => false
  | Bad _, _ => true
  end.
Definition spec_ok (c : case_t) : bool :=
  let '(_, obs, cl, _) := c in
  match obs, cl with
  | Good argv, Some s => c24_ok s argv
  | Good _, None => false
  | Bad _, _ => true                   (* no vector is executed: nothing to render *)
  end.
Definition dom (c : case_t) : bool :=
  let '(_, obs, _, _) := c in match obs with Good argv => c24_in_domain argv | Bad _ => true end.
Definition code (c : case_t) : nat :=
  (if tie_all c then 0 else 1) + (if spec_ok c then 0 else 2) + (if dom c then 0 else 4).
Definition show (r : result (list la)) := match r with Good l => inl (map str_of l) | Bad e => inr e end.
"""


def bare(a):
    return a != "" and not any(ch in " \t\n\r'\"\\" for ch in a)


def arg_ok(a):
    return "'" not in a if " " in a else bare(a)


def classify(argv):
    if argv and (not bare(argv[0]) or not all(arg_ok(a) for a in argv[1:])):
        return "F24"
    return None


def special(s):
    return any(not (ch.isascii() and (ch.isalnum() or ch in "_./=-")) for ch in s)


def gen_cases(ctx, n, file_dir=None):
    rng = ctx.rng
    cases = [c for c in ctx.corpus() if "fields" in c]
    while len(cases) < n:
        c = sg.gen_definition(rng, max_fields=5, form="functional", file_dir=file_dir)
        sg.gen_values(rng, c, nasty=0.45, braces=0.0, falsy=0.02)
        cases.append(c)
    return cases


def run(ctx):
    import shutil as _sh, tempfile as _tf
    file_dir = _tf.mkdtemp(prefix="verif-c24-files-")
    try:
        return _run(ctx, file_dir)
    finally:
        _sh.rmtree(file_dir, ignore_errors=True)


def _run(ctx, file_dir):
    import time
    t0 = time.time()
    rng = ctx.rng
    n = ctx.budget(300, 2500)
    cases = gen_cases(ctx, n, file_dir)
    metas, terms = [], []
    for c in cases:
        obs = sg.observe(c)
        metas.append(obs)
        py = None
        if obs["cmdline"] is not None:
            try:
                py = shlex.split(obs["cmdline"])
            except ValueError:
                py = None
        terms.append(coqio.pair(sg.enc_inputs(c), sg.enc_result_argv(obs),
                                coqio.option(None if obs["cmdline"] is None else sg.L(obs["cmdline"])),
                                coqio.option(None if py is None else sg.enc_las(py))))
    codes = coqio.run_case_codes(ctx.scratch, "c24", sg.IMPORTS, "case_t", terms, "code", extra=DEFS, shard=120)
    t1 = time.time()
    dist = {"argv_built": 0, "argv_errors": 0, "args_total": 0, "args_with_blank": 0, "args_with_quote_or_backslash": 0,
            "args_empty": 0, "exe_lists": 0}
    seen, nontrivial = set(), 0
    for c, obs in zip(cases, metas):
        if obs["argv"] is None:
            dist["argv_errors"] += 1
            continue
        dist["argv_built"] += 1
        dist["exe_lists"] += isinstance(c["exe"], list)
        for a in obs["argv"]:
            dist["args_total"] += 1
            dist["args_with_blank"] += " " in a
            dist["args_with_quote_or_backslash"] += any(ch in "'\"\\" for ch in a)
            dist["args_empty"] += a == ""
        key = tuple(obs["argv"])
        if key not in seen:
            seen.add(key)
            nontrivial += any(special(a) for a in obs["argv"])
    dist["in_partial_theorem_domain"] = sum(1 for k in codes if not k & 4)
    dist["spec_disagreements"] = sum(1 for k in codes if k & 2)
    out = Outcome(evaluations=len(cases), distinct_nontrivial=nontrivial, rule=RULE, distribution=dist,
                  traces_validated=len(cases),
                  samples=[{"argv": metas[i]["argv"], "cmdline": metas[i]["cmdline"]} for i in range(min(3, len(cases)))],
                  extra={"model_agreements": sum(1 for k in codes if not k & 1),
                         "model_agreements_outside_domain": sum(1 for k in codes if k & 4 and not k & 1),
                         "cases_outside_domain": sum(1 for k in codes if k & 4)})
    nspec = {}
    for i, k in enumerate(codes):
        c, obs = cases[i], metas[i]
        observed = {"argv": obs["argv"], "cmdline": obs["cmdline"], "error": obs["error"], "cmdline_error": obs["cmdline_error"]}
        if k & 2:
            fid = classify(obs["argv"]) if k & 4 else None
            nspec[fid] = nspec.get(fid, 0) + 1
            if nspec[fid] <= 3:
                try:
                    resplit = shlex.split(obs["cmdline"]) if obs["cmdline"] is not None else None
                except ValueError as e:
                    resplit = "ValueError: %s" % e
                out.failures.append(Failure(case=sg.strip_case(c), observed=observed,
                                            expected={"shlex.split(cmdline) should be": obs["argv"], "is": resplit},
                                            kind="spec", finding=fid,
                                            note="cmdline does not re-split to the executed argv"
                                                 + (" inside the domain of C24_partial" if not k & 4 else "")))
        if k & 1 and (not k & 4 or k & 2) and sum(1 for f in out.failures if f.kind == "tie") < 6:
            out.failures.append(Failure(case=sg.strip_case(c), observed=observed, kind="tie",
                                        expected="Model.Shell.task_argv / cmdline_render / Base.Shlex.split_la give something else",
                                        note="model != implementation" + (" inside the domain of C24_partial" if not k & 4
                                                                            else " (and implementation != spec)")))
    dist["spec_disagreements_by_class"] = {str(k): v for k, v in nspec.items()}
    t2 = time.time()

    # ---- CPython shlex.split / shlex.join vs Base/Shlex.v: random strings, and join of the observed vectors
    strings = sg.gen_shlex_strings(rng, ctx.budget(400, 3000))
    vectors = [o["argv"] for o in metas if o["argv"] is not None][:ctx.budget(200, 1000)]
    nshlex, bad = sg.check_shlex(ctx, "c24shlex", strings, vectors)
    out.evaluations += nshlex
    out.extra["shlex_cases_compared_with_cpython"] = nshlex
    out.extra["shlex_disagreements"] = len(bad)
    # the repair candidate on the implementation side: shlex.split(shlex.join(argv)) == argv for the observed vectors
    out.extra["cpython_join_roundtrips"] = sum(1 for v in vectors if shlex.split(shlex.join(v)) == v)
    out.extra["cpython_join_vectors"] = len(vectors)
    for s, r, k in bad[:5]:
        out.failures.append(Failure(case={"string": s}, observed={"cpython_shlex": r}, kind="tie",
                                    expected="Base/Shlex.v differs (code %d: 1=split, 2=join)" % k,
                                    note="Base/Shlex.v != CPython shlex"))
    out.extra["phase_wall_s"] = {"implementation_and_coq": round(t1 - t0, 1), "classification": round(t2 - t1, 1),
                                 "shlex": round(time.time() - t2, 1)}
    return out


def replay(ctx, payload):
    c = payload["case"]
    if "string" in c:
        try:
            print("CPython shlex.split:", shlex.split(c["string"]))
        except ValueError as e:
            print("CPython shlex.split: ValueError", e)
        print("Base/Shlex.v       :", coqio.eval_terms(ctx.scratch, "replay", ["Base.Shlex"], ["split %s" % coqio.string(c["string"])])[0])
        return 0
    obs = sg.observe(c)
    print("implementation: argv   =", obs["argv"], obs["error"] or "")
    print("                cmdline=", repr(obs["cmdline"]), obs["cmdline_error"] or "")
    if obs["cmdline"] is not None:
        try:
            print("CPython shlex.split(cmdline) =", shlex.split(obs["cmdline"]))
        except ValueError as e:
            print("CPython shlex.split(cmdline) : ValueError", e)
        vals = coqio.eval_terms(ctx.scratch, "replay", sg.IMPORTS,
                                ["match split_la %s with Ok l => inl (map str_of l) | e => inr e end" % sg.L(obs["cmdline"]),
                                 "str_of (cmdline_render %s)" % sg.enc_las(obs["argv"] or []),
                                 "c24_in_domain %s" % sg.enc_las(obs["argv"] or [])], extra=sg.PRELUDE)
        print("model split_la(cmdline)      =", vals[0])
        print("model cmdline_render(argv)   =", vals[1])
        print("argv inside C24_partial class:", vals[2])
    return 0
