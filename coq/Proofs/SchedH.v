(* Proofs/SchedH.v — runs of the asynchronous loop that end by themselves (status Finished):
   which jobs ran, which errors are reported (C14), every job once (C15), outputs (C17). *)
From Pydra Require Import Base.Prelude Base.SchedBase Model.Sched Spec.Sched Proofs.SchedA Proofs.SchedSpec Proofs.SchedSpec2 Proofs.SchedB Proofs.SchedC Proofs.SchedD Proofs.SchedE Proofs.SchedF Proofs.SchedG.
Local Open Scope nat_scope.

Section Final.
Variable V : Type.
Variable body : nat -> nat -> list (list (option V)) -> V.
Variable fails : job -> bool.
Variable vr : variant.
Hypothesis F14 : fix14 vr = true.
Variable g : graph.
Hypothesis WF : wf_graph g.
Variable kmax : option nat.

Notation world := (world V).
Notation lstate := (lstate V).
Notation run := (run_async V body fails vr g kmax).
Notation LInv := (LInv V body fails vr g kmax).

Lemma run_loop_finished : forall fuel orc ls,
  o_status (run_loop body fails vr g kmax fuel orc ls) = Finished ->
  loop_cond vr g (o_final (run_loop body fails vr g kmax fuel orc ls)) = false.
Proof.
  induction fuel as [|f IH]; intros orc ls; cbn [run_loop]; [discriminate|].
  set (o := match orc with [] => (default_step, []) | o :: r => (o, r) end).
  destruct o as [o rest]. unfold async_step.
  destruct (raised (ls_ss ls)); [cbn; discriminate|].
  destruct (negb (loop_cond vr g ls)) eqn:C; [cbn; intros _; apply negb_true_iff; exact C|].
  destruct (if is_nil (ls_tasks ls) && is_nil (ls_pending ls) then _ else _) as [[ss1 tasks1] stalled].
  destruct (raised ss1); [cbn; discriminate|].
  destruct stalled; [cbn; discriminate|].
  destruct (launch vr kmax tasks1 (ls_futured ls) (ls_pending ls) (ls_trace ls) []) as [[[fut pend] tr] launched].
  destruct (match pend with [] => _ | _ :: _ => _ end) as [[[w2 pend2] errs2] tr2].
  destruct (poll vr g kmax w2 ss1) as [ss3 tasks3]. apply IH.
Qed.

(* facts about a state in which the loop condition is false *)
Section AtEnd.
Variable ls : lstate.
Hypothesis I : LInv ls.
Hypothesis C : loop_cond vr g ls = false.

Let w := ls_w ls.
Let T := li_t _ _ _ _ _ _ _ I.

Lemma end_pending : ls_pending ls = [].
Proof.
  unfold loop_cond in C. rewrite !orb_false_iff in C. destruct C as [[_ B] _].
  apply negb_false_iff, is_nil_true in B. exact B.
Qed.

Lemma end_node nd :
  In nd g ->
  let s' := fst (update_ns vr w (nid nd) (nst (ls_ss ls) (nid nd))) in
  NInv V fails g w (nid nd) s' /\ done_ns s' = true.
Proof.
  intros Hnd s'. split.
  - destruct (update_ns_spec V body fails vr F14 g w (nid nd) _ (gi_node _ _ _ _ _ (li_g _ _ _ _ _ _ _ I) (nid nd))) as [_ U].
    apply (us_inv _ _ _ _ _ _ _ U).
  - unfold loop_cond in C. rewrite !orb_false_iff in C. destruct C as [_ A].
    unfold any_not_done in A.
    destruct (done_ns s') eqn:D; [reflexivity|]. exfalso.
    assert (X : existsb (fun nd => negb (done_ns (fst (update_ns vr (ls_w ls) (nid nd) (nst (ls_ss ls) (nid nd)))))) g = true).
    { apply existsb_exists. exists nd. split; [exact Hnd|]. fold w. fold s'. rewrite D. reflexivity. }
    congruence.
Qed.

(* every job of a node that is not downstream of a failure has a result *)
Lemma end_job nd i :
  In nd g -> i < njobs nd -> tainted_b g fails (nid nd) = false ->
  is_ok w (nid nd, i) = true \/ is_err w (nid nd, i) = true.
Proof.
  intros Hnd Hi Ht. destruct (end_node nd Hnd) as [N D]. cbv zeta in N, D.
  set (s' := fst (update_ns vr w (nid nd) (nst (ls_ss ls) (nid nd)))) in *.
  assert (U : unrunnable s' = false).
  { destruct (unrunnable s') eqn:E; [|reflexivity]. rewrite (ni_taint_unr _ _ _ _ _ _ N E) in Ht. discriminate. }
  unfold done_ns in D. rewrite !andb_true_iff, !is_nil_true in D. destruct D as [[[St Q] _] R].
  pose proof (is_started_flag V fails g w (nid nd) s' N St) as Fl.
  assert (Hi' : i < njobs_of g (nid nd)) by (rewrite (njobs_of_nd g WF nd Hnd); exact Hi).
  pose proof (ni_part _ _ _ _ _ _ N Fl U i Hi') as M.
  unfold members in M. rewrite Q, R in M. cbn in M. apply in_app_or in M. destruct M as [M|M].
  - left. apply (ni_succ _ _ _ _ _ _ N i M).
  - right. apply (ni_err _ _ _ _ _ _ N i M).
Qed.

Lemma ok_not_none (w0 : world) j : is_ok w0 j = true -> is_none w0 j = false.
Proof. unfold is_ok, is_none. destruct (probe_job w0 j); congruence. Qed.
Lemma err_not_none (w0 : world) j : is_err w0 j = true -> is_none w0 j = false.
Proof. unfold is_err, is_none. destruct (probe_job w0 j); congruence. Qed.

Lemma end_launched j :
  In j (launches_of (rev (ls_trace ls))) <-> should_run_b g fails j = true.
Proof.
  rewrite (ti_fut _ _ _ _ _ _ _ _ _ _ T). unfold should_run_b. rewrite andb_true_iff, negb_true_iff, mem_job_In. split.
  - intros H. apply (ti_fut_ok _ _ _ _ _ _ _ _ _ _ T j H).
  - intros [A B]. destruct j as [n i]. destruct (all_jobs_node g n i A) as [nd [Hnd [<- Hi]]]. cbn in B.
    apply (ti_res_fut _ _ _ _ _ _ _ _ _ _ T).
    destruct (end_job nd i Hnd Hi B) as [X|X]; [apply ok_not_none|apply err_not_none]; exact X.
Qed.

Lemma end_errors j : In j (ls_errors ls) <-> should_fail_b g fails j = true.
Proof.
  unfold should_fail_b. rewrite andb_true_iff. split.
  - intros H. apply (ti_err_fut _ _ _ _ _ _ _ _ _ _ T) in H.
    destruct (ti_fin_fails _ _ _ _ _ _ _ _ _ _ T j false H) as [A B]. split; [|exact B].
    apply end_launched. rewrite (ti_fut _ _ _ _ _ _ _ _ _ _ T). exact A.
  - intros [A B]. pose proof A as A'. unfold should_run_b in A. apply andb_true_iff in A. destruct A as [A1 A2].
    apply mem_job_In in A1. apply negb_true_iff in A2. destruct j as [n i].
    destruct (all_jobs_node g n i A1) as [nd [Hnd [<- Hi]]]. cbn in A2.
    apply (ti_err_res _ _ _ _ _ _ _ _ _ _ T).
    destruct (end_job nd i Hnd Hi A2) as [X|X]; [|exact X].
    destruct (li_w _ _ _ _ _ _ _ I (nid nd, i)) as [W1 _]. rewrite (W1 X) in B. discriminate.
Qed.

(* no failures: every job has succeeded and its value is the reference value *)
Hypothesis NF : forall j, fails j = false.

Lemma end_all_ok nd i : In nd g -> i < njobs nd -> is_ok w (nid nd, i) = true.
Proof.
  intros Hnd Hi. destruct (end_job nd i Hnd Hi (no_fail_no_taint g fails WF _ NF)) as [X|X]; [exact X|].
  destruct (li_w _ _ _ _ _ _ _ I (nid nd, i)) as [_ W2]. rewrite NF in W2. specialize (W2 X). discriminate.
Qed.

Lemma end_values nd :
  In nd g -> forall i, i < njobs nd ->
  value_of w (nid nd, i) = env_lookup V (nid nd, i) (reference V body g).
Proof.
  apply (topo_ind g (fun nd => forall i, i < njobs nd ->
            value_of w (nid nd, i) = env_lookup V (nid nd, i) (reference V body g)) WF).
  intros nd0 Hnd IH i Hi.
  pose proof (end_all_ok nd0 i Hnd Hi) as Ok.
  rewrite (reference_char V body g WF nd0 i Hnd Hi).
  unfold is_ok, probe_job in Ok. unfold value_of.
  destruct (lookup (nid nd0, i) (results w)) as [[v|]|] eqn:L; try discriminate.
  destruct (li_v _ _ _ _ _ _ _ I (nid nd0) i v L) as [nd' [Fn [_ Ev]]].
  rewrite (topo_b_find [] g nd0 WF Hnd) in Fn. inversion Fn; subst nd'.
  f_equal. rewrite Ev. f_equal.
  unfold inputs_from, ref_inputs. apply map_ext_in. intros p Hp. apply map_ext_in. intros k Hk.
  apply in_seq in Hk.
  destruct (find_node g p) as [nd'|] eqn:Fp.
  - destruct (find_node_some g p nd' Fp) as [Hnd' Hid].
    assert (Hk' : k < njobs nd'). { unfold njobs_of in Hk. rewrite Fp in Hk. lia. }
    rewrite <- Hid. apply (IH p nd' Hp Hnd' Hid k Hk').
  - unfold njobs_of in Hk. rewrite Fp in Hk. lia.
Qed.

End AtEnd.

(* ------------------------------------------------------------------ theorems about run_async *)
Theorem async_c14 orc fuel :
  o_status (run orc fuel) = Finished ->
  c14_outcome g fails (launches (run orc fuel)) (error_names (run orc fuel)).
Proof.
  intros St. pose proof (run_async_inv V body fails vr F14 g WF kmax orc fuel) as I.
  pose proof (run_loop_finished _ _ _ St) as C. fold (run orc fuel) in C.
  split; intros j.
  - rewrite <- (should_run_iff g fails WF). apply (end_launched _ I C).
  - rewrite <- (should_fail_iff g fails WF). apply (end_errors _ I C).
Qed.

Theorem async_launched_should_run orc fuel j :
  In j (launches (run orc fuel)) -> should_run g fails j.
Proof.
  intros H. pose proof (run_async_inv V body fails vr F14 g WF kmax orc fuel) as I.
  pose proof (li_t _ _ _ _ _ _ _ I) as T. unfold launches in H.
  change (In j (launches_of (rev (ls_trace (o_final (run orc fuel)))))) in H.
  rewrite (ti_fut _ _ _ _ _ _ _ _ _ _ T) in H.
  apply (should_run_iff g fails WF). unfold should_run_b.
  destruct (ti_fut_ok _ _ _ _ _ _ _ _ _ _ T j H) as [A B].
  rewrite B. apply andb_true_iff. split; [apply mem_job_In; exact A|reflexivity].
Qed.

Theorem async_all_run orc fuel :
  (forall j, fails j = false) -> o_status (run orc fuel) = Finished ->
  every_job_once g (event_log (run orc fuel)).
Proof.
  intros NF St. pose proof (run_async_inv V body fails vr F14 g WF kmax orc fuel) as I.
  pose proof (run_loop_finished _ _ _ St) as C. fold (run orc fuel) in C.
  split; [apply (async_at_most_once V body fails vr F14 g WF kmax)|split].
  - intros j. unfold event_log. rewrite (end_launched _ I C). unfold should_run_b.
    rewrite (no_fail_no_taint g fails WF _ NF), andb_true_r, mem_job_In. tauto.
  - intros [n i] Hj. destruct (all_jobs_node g n i Hj) as [nd [Hnd [<- Hi]]].
    unfold event_log. apply -> in_rev.
    apply (ti_ok_trace _ _ _ _ _ _ _ _ _ _ (li_t _ _ _ _ _ _ _ I)). apply (end_all_ok _ I C NF nd i Hnd Hi).
Qed.

Theorem async_outputs orc fuel :
  (forall j, fails j = false) -> o_status (run orc fuel) = Finished ->
  node_outputs g (run orc fuel) = reference_outputs V body g.
Proof.
  intros NF St. pose proof (run_async_inv V body fails vr F14 g WF kmax orc fuel) as I.
  pose proof (run_loop_finished _ _ _ St) as C. fold (run orc fuel) in C.
  unfold node_outputs, reference_outputs. apply map_ext_in. intros nd Hnd. apply map_ext_in. intros i Hi.
  apply in_seq in Hi. apply (end_values _ I C NF nd Hnd i). lia.
Qed.

End Final.
