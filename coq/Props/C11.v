(* C11 — At-most-once execution per identity; rerun and read-only caches as documented. *)
From Pydra Require Import Base.Prelude Model.CacheSeq Spec.CacheSeq Proofs.CacheSeq.

(* The property at full strength: every submission of every history meets the whole reference
   semantics, including "a complete result present in any listed cache is reused". *)
Definition C11_full_statement : Prop :=
  forall (w : world) (sub : submission) (s : state),
    wf_taskb (s_task sub) = true -> step_spec (fst (observe_submit w sub s)).

(* refuted on the current tree: an errored result listed in front of a successful one (F11b) *)
Theorem C11_refuted_errored_shadow : ~ C11_full_statement.
Proof.
  intros H. apply reuse_refuted_errored_shadow. intros w sub s Hwf. exact (proj2 (H w sub s Hwf)).
Qed.
Print Assumptions C11_refuted_errored_shadow.

(* one submission, any world / configuration / well-formed task tree / store: at most once unless
   requested, rerun and propagation, only the root is written, the root holds the last outcomes,
   nothing but stored successes is served, the outcome is reported *)
Theorem C11_step :
  forall (w : world) (sub : submission) (s : state),
    wf_taskb (s_task sub) = true -> step_spec_core (fst (observe_submit w sub s)).
Proof. exact submit_meets_spec_core. Qed.
Print Assumptions C11_step.

(* reuse, outside the computable class errored_shadow (mirrored by the driver's classifier);
   covers the repaired leftover-directory case F11 *)
Theorem C11_reuse :
  forall (w : world) (sub : submission) (s : state),
    wf_taskb (s_task sub) = true ->
    errored_shadow (st s) (tid (s_task sub)) (all_caches (s_cfg sub)) = false ->
    spec_reuse (fst (observe_submit w sub s)).
Proof. exact submit_reuses. Qed.
Print Assumptions C11_reuse.

(* every history of submissions and planted leftovers, from every state: a successful execution of
   an identity under a root is followed by another one under that root only on a requested rerun *)
Theorem C11_once_per_identity :
  forall (w : world) (h : list step) (s : state),
    tasks_wf h = true -> history_once (observe w h s).
Proof. exact model_history_once. Qed.
Print Assumptions C11_once_per_identity.

(* the same at the level of the reference semantics alone: it applies to any chain of observed
   submissions that meet the per-step semantics — which is what the driver checks on real runs *)
Theorem C11_once_from_steps :
  forall (h : list hobs) (s : store), chained s h -> all_core h -> history_once h.
Proof. exact chained_history_once. Qed.
Print Assumptions C11_once_from_steps.

Theorem C11_rerun_reexecutes :
  forall (w : world) (cfg : config) (t : task) (s : state),
    wf_taskb t = true ->
    let '(s', evs, r) := run_job w cfg true t s in
    last_run (tid t) evs = Some r /\ st s' (root cfg) (tid t) = Complete r /\
    execs s' (tid t) = execs s (tid t) + count_runs (tid t) evs /\ 1 <= count_runs (tid t) evs.
Proof. exact rerun_reexecutes. Qed.
Print Assumptions C11_rerun_reexecutes.

Theorem C11_propagate :
  forall (w : world) (cfg : config), prop cfg = true ->
  forall (t : task) (s s' : state) (evs : list event) (v : value),
    run_job w cfg true t s = (s', evs, Ok v) ->
    map ev_id evs = postorder t /\ forallb is_run evs = true.
Proof. exact rerun_propagates. Qed.
Print Assumptions C11_propagate.

(* read-only caches are never modified, over whole histories *)
Theorem C11_writes_only_root :
  forall (w : world) (h : list step) (s : state) (l : loc) (c : ident),
    tasks_wf h = true ->
    (forall sub, In (Submit sub) h -> root (s_cfg sub) <> l) ->
    (forall l' c', In (Plant l' c') h -> l' <> l) ->
    st (fst (run_history w h s)) l c = st s l c.
Proof. exact model_history_readonly. Qed.
Print Assumptions C11_writes_only_root.

(* the repaired finding F11 on its witness: now reused; before the repair nothing was found *)
Theorem C11_leftover_repaired :
  load_result leftover_store 5 [0; 1] = Some (Ok 7) /\
  load_result_first_dir leftover_store 5 [0; 1] = None /\
  leftover_shadow leftover_store 5 [0; 1] = true /\ errored_shadow leftover_store 5 [0; 1] = false.
Proof. exact leftover_now_reused. Qed.
Print Assumptions C11_leftover_repaired.
