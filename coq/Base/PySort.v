(* Base/PySort.v — CPython 3.12 `sorted` / `list.sort` for fewer than 64 elements
   (Objects/listobject.c): merge_compute_minrun(n) = n for n < 64, so the whole list is one run:
   count_run finds the initial non-descending or strictly descending run (the latter is reversed
   in place), then binarysort inserts every remaining element by binary search.  Every comparison
   is `x < y` (Py_LT) and may raise (None = TypeError).  On a partial order (frozenset `<` is
   proper subset) the result depends on exactly these steps, which is why they are modelled.

   For n >= 64 the real algorithm merges several runs; the model is then exact only when `<` is a
   strict total order on the elements (any correct sort gives the same list). *)
From Pydra Require Import Base.Prelude.

Section Sort.
  Context {A : Type}.
  Variable lt : A -> A -> option bool.

  (* binarysort's inner loop, on the already sorted prefix [l]:
       l = 0; r = n; do { p = l + ((r - l) >> 1); if (pivot < a[p]) r = p; else l = p + 1; } while (l < r);
     and the pivot is inserted at l.  Written on the list: probe the middle element, continue in the
     left or right part. *)
  Fixpoint bins (fuel : nat) (x : A) (l : list A) : option (list A) :=
    match l with
    | [] => Some [x]
    | _ :: _ =>
      match fuel with
      | 0 => None
      | S f =>
        let k := Nat.div2 (List.length l) in
        match skipn k l with
        | [] => None
        | p :: b =>
          match lt x p with
          | None => None
          | Some true => option_map (fun a' => a' ++ p :: b) (bins f x (firstn k l))
          | Some false => option_map (fun b' => firstn k l ++ p :: b') (bins f x b)
          end
        end
      end
    end.

  (* count_run, strictly descending case; [acc] is the run so far, already reversed (ascending) *)
  Fixpoint run_desc (prev : A) (acc : list A) (l : list A) : option (list A * list A) :=
    match l with
    | [] => Some (acc, [])
    | c :: r => match lt c prev with
                | None => None
                | Some true => run_desc c (c :: acc) r
                | Some false => Some (acc, l)
                end
    end.

  (* count_run, non-descending case; [acc] is the run so far in reverse *)
  Fixpoint run_asc (prev : A) (acc : list A) (l : list A) : option (list A * list A) :=
    match l with
    | [] => Some (rev acc, [])
    | c :: r => match lt c prev with
                | None => None
                | Some true => Some (rev acc, l)
                | Some false => run_asc c (c :: acc) r
                end
    end.

  Definition ins_step (acc : option (list A)) (e : A) : option (list A) :=
    match acc with None => None | Some a => bins (List.length a) e a end.

  Definition py_sorted (l : list A) : option (list A) :=
    match l with
    | [] => Some []
    | [x] => Some [x]
    | x :: y :: r =>
      match lt y x with
      | None => None
      | Some d =>
        match (if d then run_desc y [y; x] r else run_asc y [y; x] r) with
        | None => None
        | Some (run, rest) => fold_left ins_step rest (Some run)
        end
      end
    end.
End Sort.
