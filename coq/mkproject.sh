#!/bin/bash
# regenerate _CoqProject from the files present (dependency order is coqdep's job)
cd "$(dirname "$0")" || exit 2
{
  echo "-Q . Pydra"
  echo "-arg -w -arg -notation-overridden,-deprecated-hint-without-locality,-deprecated-syntactic-definition"
  find Base Model Spec Proofs Props -name '*.v' | LC_ALL=C sort
  # translated tables (capitalised names); per-run case files live in Generated/<id>.<pid>/ and are not listed
  find Generated -maxdepth 1 -name '[A-Z]*.v' | LC_ALL=C sort
} > _CoqProject.new
if ! cmp -s _CoqProject.new _CoqProject; then mv _CoqProject.new _CoqProject; rm -f Makefile Makefile.conf; else rm _CoqProject.new; fi
[ -f Makefile ] || coq_makefile -f _CoqProject -o Makefile > /dev/null
