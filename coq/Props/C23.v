(* C23 — Field values reach the command intact. *)
From Pydra Require Import Base.Prelude Base.Shlex Model.Shell Spec.Shell Proofs.ShellRefute.

Definition C23_full_statement : Prop := C23_statement.

Theorem C23_refuted_space : ~ C23_full_statement.
Proof. exact refuted_space. Qed.
Print Assumptions C23_refuted_space.

Theorem C23_refuted_quote :
  command_pos_args (to_field s_field) [sv "s" "it's"] = Bad ENoClosingQuote
  /\ spec_contrib s_field [sv "s" "it's"] = map la_of ["-s"; "it's"]%string.
Proof. exact refuted_quote. Qed.
Print Assumptions C23_refuted_quote.
