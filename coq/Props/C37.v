(* C37 — Graph operations keep a valid topological order (pydra/engine/graph.py, DiGraph). *)
From Pydra Require Import Base.Prelude Model.Graph Spec.Graph
  Proofs.GraphSort Proofs.GraphInv Proofs.GraphEdges Proofs.GraphTopo.
Local Open Scope nat_scope.

(* Every history of DiGraph operations — constructor, then any list of add_nodes / add_edges /
   remove_nodes / remove_nodes_connections / remove_previous_connections /
   remove_successors_nodes / sorting / sorted_nodes / copy calls, none of which raised, and in
   which add_nodes was only given nodes that are not marked for removal and that no recorded edge
   points to — leaves a graph whose recorded order, if any, lists every remaining node exactly
   once and puts the source of every edge between remaining nodes before its target.
   No acyclicity hypothesis is needed: on a cyclic graph sorting raises (repair F18), and a
   history containing a raising call is not a history that returned. *)
Definition C37_full_statement : Prop :=
  forall (ns : list node) (es : list edge) (ops : list op) (g0 g : graph),
    init ns es = Ok g0 -> run_dom g0 ops = true -> run g0 ops = Ok g ->
    forall s, g_sorted g = Some s -> topo_valid (g_nodes g) (g_edges g) s.

Theorem C37_reachable : C37_full_statement.
Proof. exact reachable_edges. Qed.
Print Assumptions C37_reachable.

(* Without any condition on the calls: the recorded order is valid for the connections recorded
   in the predecessors dictionary (what the submitter reads). *)
Theorem C37_reachable_preds :
  forall (ns : list node) (es : list edge) (ops : list op) (g0 g : graph),
    init ns es = Ok g0 -> run g0 ops = Ok g ->
    forall s, g_sorted g = Some s -> topo_valid (g_nodes g) (pred_edges (g_preds g)) s.
Proof. exact reachable_preds. Qed.
Print Assumptions C37_reachable_preds.

(* One step: the invariant (order valid, predecessors[b] lists a as often as (a,b) is an edge,
   nodes have dictionary entries, no node is both present and marked for removal) is kept by every
   operation that returns. *)
Theorem C37_inv_step :
  forall g o g', inv2 g -> dom_ok g o = true -> step g o = Ok g' ->
                 inv2 g' /\ sorted_ok g' /\ sorted_ok_preds g'.
Proof. exact inv_step. Qed.
Print Assumptions C37_inv_step.

(* sorting alone, from any state whatsoever *)
Theorem C37_sorting_sound :
  forall g presorted g', sorting g presorted = Ok g' ->
    exists l, g' = set_sorted g (Some l) /\
      Permutation.Permutation l (if nonempty presorted then presorted else g_nodes g) /\
      forall a b, In a (if nonempty presorted then presorted else g_nodes g) ->
                  In b (if nonempty presorted then presorted else g_nodes g) ->
                  inW (g_preds g) b a -> before a b l.
Proof. exact sorting_sound. Qed.
Print Assumptions C37_sorting_sound.

(* The hypotheses are met by non-trivial histories: the diamond of test_graph.py, one removal
   through the head-of-list fast path, one through the re-sorting path, a re-added node. *)
Example C37_example :
  let ops := [AddNodes [4]; AddEdges [(3, 4)]; GetSorted; RemoveNodes [0] true; RemoveNodesConnections [0];
              AddNodes [0]; AddEdges [(4, 0)]; RemoveNodes [2] true; RemoveNodesConnections [2]] in
  exists g0 g, init [0; 1; 2; 3] [(0, 1); (0, 2); (1, 3); (2, 3)] = Ok g0 /\
               run_dom g0 ops = true /\ run g0 ops = Ok g /\
               g_sorted g = Some [1; 3; 4; 0] /\ g_nodes g = [1; 3; 4; 0].
Proof. vm_compute. eexists. eexists. repeat split. Qed.
