(* C02 — Combine groups job outputs into an exact, ordered partition. *)
From Pydra Require Import Base.Prelude Model.State Spec.State.

Definition groups_of (r : cerr + (list assignment * list (list nat))) : option (list (list nat)) :=
  match r with inr (_, g) => Some g | inl _ => None end.

(* the property at full strength: for every well-formed splitter, every combiner subset of its fields and all
   non-empty lists, the groups the model of State.prepare_states computes are the reference partition *)
Definition C02_full_statement : Prop :=
  forall (e : env) (s : spl) (comb : list nat),
    wf s -> (forall x, In x comb -> In x (leaves s)) -> (forall f, In f (leaves s) -> nprod (e f) >= 1) ->
    jobs e s <> None ->
    groups_of (prepare_combined e s comb) = spec_groups e s comb.

Theorem C02_refuted : ~ C02_full_statement.
Proof.
  intros H.
  specialize (H (fun f => nth f [[2]; [1]; [2]; [2]] []) (Outer [Fld 0; Outer [Fld 1; Inner [Fld 2; Fld 3]]]) [0; 1]).
  assert (W : wf (Outer [Fld 0; Outer [Fld 1; Inner [Fld 2; Fld 3]]])).
  { split; [reflexivity|]. repeat constructor; cbn; intuition discriminate. }
  specialize (H W).
  assert (A : forall x, In x [0; 1] -> In x (leaves (Outer [Fld 0; Outer [Fld 1; Inner [Fld 2; Fld 3]]]))).
  { cbn. intuition. }
  specialize (H A).
  assert (B : forall f, In f (leaves (Outer [Fld 0; Outer [Fld 1; Inner [Fld 2; Fld 3]]])) ->
                        nprod (nth f [[2]; [1]; [2]; [2]] []) >= 1).
  { cbn. intros f [<-|[<-|[<-|[<-|[]]]]]; cbn; lia. }
  specialize (H B). vm_compute in H. assert (C : Some [[(0,0)]] <> (None : option (list assignment))) by discriminate.
  specialize (H ltac:(discriminate)). discriminate.
Qed.
Print Assumptions C02_refuted.
