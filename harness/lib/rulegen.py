"""Generator of pydra task definitions with requirement sets and xor groups (C31, C32).

A *spec* is a JSON-able description from which a real task class is built with
pydra.compose.python.define / pydra.compose.shell.define:

  {"kind": "python"|"shell",
   "fields": [{"name": "a", "type": "str?", "requires": [[["b", null], ["c", ["u", "v"]]], [["d", null]]]}, ...],
   "xor": [["a", "d", null], ...]}

Values are JSON values; the string "@unset" stands for "not given" (attrs.NOTHING on a mandatory field).
Everything the model sees (field order, type kind, requirement sets, xor iteration order, values) is read
back from the *real* class / task object (`model_def`, `model_values`), never from the spec.
"""
import itertools
import re

UNSET = "@unset"

# tag -> (default or UNSET for mandatory, values used when enumerating, allowed-values literal used in requirements)
IN_SCOPE = ["str", "str?", "bool", "bool?"]
EXTENDED = ["strM", "int?", "file?", "any"]
TYPES = {
    "str": dict(default="", values=["", "x", "u"], allowed=["u", "v"]),
    "str?": dict(default=None, values=[None, "", "u", "x"], allowed=["u", "v"]),
    "bool": dict(default=False, values=[False, True], allowed=[True]),
    "bool?": dict(default=None, values=[None, False, True], allowed=[True]),
    "strM": dict(default=UNSET, values=[UNSET, "", "u"], allowed=["u", "v"]),
    "int?": dict(default=None, values=[None, 0, 1, 2], allowed=[1, 3]),
    "file?": dict(default=None, values=[None, False, True], allowed=[True]),
    "any": dict(default=None, values=[None, False, "", "u", 0], allowed=["u", 1]),
    # C32 only (never drawn by the C31 streams)
    "int": dict(default=0, values=[0, 1, 2], allowed=[1, 3]),
    "strs": dict(default=["x", "y"], values=[["x", "y"], [], ["q"]], allowed=[]),
    "pair": dict(default=(1, 2), values=[(1, 2), (3, 4)], allowed=[]),
}
C32_POOL = IN_SCOPE + ["int", "int?", "strs", "pair", "strM"]


def py_type(tag):
    import typing as ty
    from fileformats.generic import File
    return {"str": str, "str?": str | None, "bool": bool, "bool?": bool | None, "strM": str,
            "int?": int | None, "file?": File | bool | None, "any": ty.Any, "int": int, "strs": list[str],
            "pair": tuple[int, int], "file": File, "float": float, "dict": dict[str, int], "tupleAny": ty.Any}[tag]


def _requires_arg(reqs):
    return [[(n if allowed is None else (n, list(allowed))) for n, allowed in rs] for rs in reqs]


def build(spec, side_file=None):
    """The real task class for a spec (raises whatever define() raises)."""
    return build_shell(spec) if spec["kind"] == "shell" else build_python(spec, side_file)


def build_python(spec, side_file=None):
    from pydra.compose import python
    inputs = {}
    for f in spec["fields"]:
        kw = dict(type=py_type(f["type"]), help=f.get("help", ""))
        if f.get("requires"):
            kw["requires"] = _requires_arg(f["requires"])
        d = f.get("default", TYPES[f["type"]]["default"])
        if not (isinstance(d, str) and d == UNSET):
            kw["default"] = d
        if f.get("allowed_values"):
            kw["allowed_values"] = f["allowed_values"]
        inputs[f["name"]] = python.arg(**kw)
    names = [f["name"] for f in spec["fields"]]
    fname = spec.get("name", "Gen")
    src = "def %s(%s):\n" % (fname, ", ".join(names))
    if side_file:
        src += "    with open(%r, 'a') as fh:\n        fh.write('x\\n')\n" % side_file
    nout = len(spec["outputs"]) if spec.get("outputs") else 1
    ret = "repr((%s))" % "".join(n + ", " for n in names)
    src += "    return %s\n" % (ret if nout == 1 else "(" + ", ".join([ret] * nout) + ")")
    ns = {}
    exec(src, ns)
    outputs = {o["name"]: python.out(type=py_type(o["type"]), help=o.get("help", "")) for o in spec["outputs"]} \
        if spec.get("outputs") else ["out"]
    return python.define(ns[fname], inputs=inputs, outputs=outputs, xor=[list(x) for x in spec.get("xor", [])])


def build_shell(spec):
    from pydra.compose import shell
    inputs = {}
    for f in spec["fields"]:
        kw = dict(type=py_type(f["type"]), help=f.get("help", ""), argstr=f.get("argstr", "--" + f["name"]))
        for k in ("position", "sep", "formatter"):
            if f.get(k) is not None:
                kw[k] = f[k]
        if f.get("requires"):
            kw["requires"] = _requires_arg(f["requires"])
        d = f.get("default", TYPES[f["type"]]["default"])
        if not (isinstance(d, str) and d == UNSET):
            kw["default"] = d
        if f.get("allowed_values"):
            kw["allowed_values"] = f["allowed_values"]
        inputs[f["name"]] = shell.arg(**kw)
    outputs = {}
    for o in spec.get("outputs", []):
        if o["cls"] == "outarg":
            kw = dict(type=py_type(o["type"]), help=o.get("help", ""), argstr=o.get("argstr", "--" + o["name"]))
            for k in ("path_template", "position", "default"):
                if k in o:
                    kw[k] = o[k]
            if "keep_extension" in o:
                kw["keep_extension"] = o["keep_extension"]
            outputs[o["name"]] = shell.outarg(**kw)
        else:
            outputs[o["name"]] = shell.out(type=py_type(o["type"]), help=o.get("help", ""), callable=OUT_CALLABLES[o["callable"]])
    return shell.define(spec.get("executable", "echo"), inputs=inputs, outputs=outputs, name=spec.get("name", "GenCmd"),
                        xor=[list(x) for x in spec.get("xor", [])])


def count_chars(stdout: str) -> int:
    return len(stdout)


def first_word(stdout: str) -> str:
    return stdout.split()[0] if stdout.split() else ""


OUT_CALLABLES = {"count_chars": count_chars, "first_word": first_word}


# ------------------------------------------------------------------ reading the real objects back
def model_def(cls):
    """What Model/Rules.v's taskdef needs, computed from the real class with pydra's own predicates."""
    from pydra.utils.general import get_fields
    from pydra.utils.typing import is_optional, is_fileset_or_union
    fields = []
    for f in get_fields(cls):
        if f.type is bool:
            kind = "TBool"
        elif is_optional(f.type) and is_fileset_or_union(f.type):
            kind = "TOptFileset"
        else:
            kind = "TOther"
        fields.append({
            "name": f.name, "kind": kind,
            "may_unset": bool(getattr(f, "path_template", False) or f.readonly),
            "requires": [[[r.name, None if r.allowed_values is None else list(r.allowed_values)]
                          for r in rs.requirements] for rs in f.requires],
        })
    return {"fields": fields, "xor": [list(x) for x in cls._xor]}


def model_value(v):
    import attrs
    if v is attrs.NOTHING:
        return UNSET
    if v is None or isinstance(v, (bool, str)):
        return v
    if isinstance(v, int):
        return v
    return {"obj": bool(v)}


def model_values(task, mdef):
    return [model_value(task[f["name"]]) for f in mdef["fields"]]


_ERR = [
    (re.compile(r"^Mandatory field '([^']+)' is not set$"), "M"),
    (re.compile(r"^'([^']+)' requires"), "R"),
    (re.compile(r"^Mutually exclusive fields \((.*)\) are set together$"), "XM"),
    (re.compile(r"^At least one of the mutually exclusive fields should be set: (.*)$"), "XN"),
]


def parse_errors(errors):
    """['M', name] | ['R', name] | ['XM', [names]] | ['XN', [names]] | ['?', text] (fail closed)."""
    out = []
    for e in errors:
        for rx, tag in _ERR:
            m = rx.match(e)
            if m:
                if tag in ("XM", "XN"):
                    names = [p.split("=", 1)[0] for p in m.group(1).split(", ")] if m.group(1) else []
                    out.append([tag, names])
                else:
                    out.append([tag, m.group(1)])
                break
        else:
            out.append(["?", e])
    return out


def make_task(cls, spec, assignment):
    kw = {f["name"]: v for f, v in zip(spec["fields"], assignment) if not (isinstance(v, str) and v == UNSET)}
    return cls(**kw)


# ------------------------------------------------------------------ Gallina literals
def coq_value(v):
    from . import coqio
    if v == UNSET and isinstance(v, str):
        return "VNothing"
    if v is None:
        return "VNone"
    if isinstance(v, bool):
        return "(VBool %s)" % coqio.boolean(v)
    if isinstance(v, str):
        return "(VStr %s)" % coqio.string(v)
    if isinstance(v, int):
        return "(VInt %s)" % coqio.z(v)
    if isinstance(v, dict) and "obj" in v:
        return "(VObj %s)" % coqio.boolean(v["obj"])
    raise ValueError("value outside the modelled kinds: %r" % (v,))


COQ_ABBREV = """
Local Open Scope string_scope. Local Open Scope list_scope.
Notation mkF := Build_fdef. Notation mkQ := Build_req. Notation mkD := Build_taskdef.
"""


def coq_def(md):
    """Compact literal (constructor applications; needs COQ_ABBREV in the file's header)."""
    from . import coqio
    fs = []
    for f in md["fields"]:
        reqs = coqio.lst([coqio.lst(["(mkQ %s %s)" % (
            coqio.string(n), coqio.option(None if a is None else coqio.lst([coq_value(x) for x in a])))
            for n, a in rs]) for rs in f["requires"]])
        fs.append("(mkF %s %s %s %s)" % (coqio.string(f["name"]), f["kind"], coqio.boolean(f["may_unset"]), reqs))
    xs = coqio.lst([coqio.lst([coqio.option(None if n is None else coqio.string(n)) for n in x]) for x in md["xor"]])
    return "(mkD %s %s)" % (coqio.lst(fs), xs)


def coq_errors(errs):
    from . import coqio
    out = []
    for tag, x in errs:
        if tag == "M":
            out.append("(EMandatory %s)" % coqio.string(x))
        elif tag == "R":
            out.append("(ERequires %s)" % coqio.string(x))
        elif tag == "XM":
            out.append("(EXorMany %s)" % coqio.lst([coqio.string(n) for n in x]))
        elif tag == "XN":
            out.append("(EXorNone %s)" % coqio.lst([coqio.string(n) for n in x]))
        else:
            out.append('(EMandatory "?unparsed?"%string)')     # never produced by the model: a tie failure
    return coqio.lst(out)


# ------------------------------------------------------------------ enumeration / sampling
NAMES = ["a", "b", "c", "d", "e"]


def _shapes(others, types):
    """Requirement structures over the other fields (x = others[0], y = others[1] when present)."""
    def al(n):
        return TYPES[types[n]]["allowed"]
    x = others[0]
    out = [[[[x, None]]], [[[x, al(x)]]]]
    if len(others) > 1:
        y = others[1]
        out += [[[[x, None], [y, None]]], [[[x, None]], [[y, None]]], [[[x, al(x)], [y, None]]],
                [[[x, al(x)]], [[y, None]]], [[[y, None]]], [[[y, al(y)]]]]
    return out


def enum_defs(n, kind="python"):
    """Every definition of the exhaustive grammar with exactly n fields: in-scope types, at most one field with
    requirements (shapes above), at most one xor group (any subset of >= 2 fields with/without None, or a
    singleton without None)."""
    names = NAMES[:n]
    groups = [None]
    for k in range(1, n + 1):
        for sub in itertools.combinations(names, k):
            if k == 1:
                groups.append(list(sub))
            else:
                groups.append(list(sub))
                groups.append(list(sub) + [None])
    for tys in itertools.product(IN_SCOPE, repeat=n):
        types = dict(zip(names, tys))
        reqopts = [None]
        for nm in names:
            others = [o for o in names if o != nm]
            if others:
                reqopts += [(nm, s) for s in _shapes(others, types)]
        for ro in reqopts:
            for g in groups:
                fields = []
                for nm in names:
                    f = {"name": nm, "type": types[nm]}
                    if ro and ro[0] == nm:
                        f["requires"] = ro[1]
                    fields.append(f)
                yield {"kind": kind, "fields": fields, "xor": [g] if g else []}


def all_assignments(spec):
    return itertools.product(*[TYPES[f["type"]]["values"] for f in spec["fields"]])


def sample_def(rng, n, pool=IN_SCOPE, kind=None):
    names = NAMES[:n]
    types = {nm: rng.choice(pool) for nm in names}
    fields = []
    for nm in names:
        f = {"name": nm, "type": types[nm]}
        if rng.random() < 0.45:
            reqs = []
            for _ in range(rng.choice([1, 1, 2, 3])):
                k = rng.choice([1, 1, 2, 3])
                members = rng.sample(names, min(k, n))       # may name the field itself
                rs = []
                for m in members:
                    a = None
                    if rng.random() < 0.4:
                        a = list(TYPES[types[m]]["allowed"])
                        if rng.random() < 0.3:
                            a = a + rng.choice([[""], [0], [False], [1], ["x"]])
                    rs.append([m, a])
                reqs.append(rs)
            f["requires"] = reqs
        fields.append(f)
    xor = []
    for _ in range(rng.choice([0, 1, 1, 2])):
        k = rng.randint(1, min(4, n))
        g = rng.sample(names, k)
        if rng.random() < 0.5:
            g.insert(rng.randrange(len(g) + 1), None)
        if frozenset(g) not in [frozenset(x) for x in xor]:
            xor.append(g)
    return {"kind": kind or ("shell" if rng.random() < 0.3 else "python"), "fields": fields, "xor": xor}


def sample_assignments(rng, spec, cap):
    vals = [TYPES[f["type"]]["values"] for f in spec["fields"]]
    total = 1
    for v in vals:
        total *= len(v)
    if total <= cap:
        return [list(a) for a in itertools.product(*vals)]
    first = [TYPES[f["type"]]["default"] for f in spec["fields"]]
    seen = {repr(first)}            # repr: 0 and False are different assignments
    out = [first]
    while len(out) < cap:
        a = [rng.choice(v) for v in vals]
        if repr(a) not in seen:
            seen.add(repr(a))
            out.append(a)
    return out


def malformed_def(rng, n):
    """A definition define() must reject: a requirement or an xor group naming a field that does not exist."""
    spec = sample_def(rng, n, kind="python")
    if rng.random() < 0.5 or not spec["fields"]:
        spec["xor"] = spec["xor"] + [[spec["fields"][0]["name"], "zz"]]
    else:
        f = rng.choice(spec["fields"])
        f["requires"] = f.get("requires", []) + [[["zz", None]]]
    return spec


# ------------------------------------------------------------------ C32: definitions with richer metadata
HELPS = ["", "", "the value", "a flag; use with care", "path (see docs)"]


def sample_def32(rng, n=None):
    """A C31-style definition (requires, xor) decorated with the metadata unstructure() has to carry: help, explicit
    defaults, allowed_values, and for shell: argstr forms, explicit (also negative) positions, sep, outarg fields with
    a path template, out fields with a callable; for python: typed outputs with help."""
    n = n or rng.choice([1, 2, 3, 3, 4, 5])
    spec = sample_def(rng, n, pool=C32_POOL)
    shell = spec["kind"] == "shell"
    used_pos = set()
    for f in spec["fields"]:
        f["help"] = rng.choice(HELPS)
        t = f["type"]
        if t in ("str", "int") and rng.random() < 0.3:
            f["allowed_values"] = {"str": ["", "u", "v", "x"], "int": [0, 1, 2, 3]}[t]
        if t == "int" and rng.random() < 0.5:
            f["default"] = rng.choice([0, 1, 7])
        if t == "str" and rng.random() < 0.4:
            f["default"] = rng.choice(["", "u"]) if f.get("allowed_values") else rng.choice(["", "dflt", " "])
        if t == "bool" and rng.random() < 0.2:
            f["default"] = True
        if shell:
            r = rng.random()
            if r < 0.2:
                f["argstr"] = ""
            elif r < 0.4:
                f["argstr"] = "-" + f["name"]
            elif r < 0.5 and t not in ("bool", "bool?"):
                f["argstr"] = "--%s={%s}" % (f["name"], f["name"])
            if t == "strs":
                f["sep"] = rng.choice([None, ",", ":"])
                if rng.random() < 0.3:
                    f["argstr"] = "-%s..." % f["name"]
            if rng.random() < 0.35:
                pos = rng.choice([1, 2, 3, 4, -1, -2])
                if pos not in used_pos:
                    used_pos.add(pos)
                    f["position"] = pos
    if shell:
        outs = []
        if rng.random() < 0.5:
            src = rng.choice(spec["fields"])["name"]
            o = {"name": "o1", "cls": "outarg", "type": "file", "path_template": rng.choice(["out.txt", "{%s}_out" % src]),
                 "help": rng.choice(HELPS)}
            if rng.random() < 0.3:
                o["keep_extension"] = False
            if rng.random() < 0.3:
                o["argstr"] = "-o"
            outs.append(o)
        if rng.random() < 0.3:
            outs.append({"name": "o2", "cls": "outarg", "type": "file?", "default": None, "path_template": "o2.dat"})
        if rng.random() < 0.4:
            outs.append({"name": "p", "cls": "out", "type": rng.choice(["int", "str"]), "callable": "count_chars",
                         "help": rng.choice(HELPS)})
        # an input and a plain (non-outarg) output may share a name: unstructure() must keep both
        if rng.random() < 0.35:
            outs.append({"name": rng.choice(spec["fields"])["name"], "cls": "out", "type": "int", "callable": "first_word"
                         if rng.random() < 0.5 else "count_chars", "help": rng.choice(HELPS)})
        spec["outputs"] = outs
    else:
        r = rng.random()
        if r < 0.35:
            # a task that returns an updated version of one of its arguments: output named like an input
            names = [rng.choice(spec["fields"])["name"]] + (["res"] if rng.random() < 0.5 else [])
            rng.shuffle(names)
            spec["outputs"] = [{"name": nm, "type": "str", "help": rng.choice(HELPS)} for nm in names]
        elif r < 0.7:
            spec["outputs"] = [{"name": nm, "type": "str", "help": rng.choice(HELPS)}
                               for nm in rng.choice([["res"], ["res", "aux"]])]
    return spec
