(* Proofs/CacheProto.v — frame lemmas of the step function and the two lock invariants
   (mutual exclusion on <checksum>.lock and on <checksum>_save.lock) for arbitrary traces. *)
From Pydra Require Import Base.Prelude.
From Pydra Require Import Model.CacheProto.
Local Open Scope nat_scope.

Ltac inv_lstep H :=
  unfold lstep, go in H;
  let E := fresh "Epc" in
  match type of H with context [match pc ?q with _ => _ end] => destruct (pc q) eqn:E end;
  try match goal with f : bool |- _ => destruct f end;
  try match goal with i : svpc |- _ => destruct i end;
  match type of H with context [match ?a with _ => _ end] => destruct a end;
  try discriminate H;
  try (unfold exc_target in H; rewrite E in H; cbn [region_at holds_s] in H).

Ltac split_ifs H :=
  repeat match type of H with
         | context [if ?c then _ else _] => destruct c eqn:?; try discriminate H
         | context [match ?c with _ => _ end] => destruct c eqn:?; try discriminate H
         end.

Ltac usepc := try match goal with E : pc _ = _ |- _ => rewrite E in * end; cbn in *.

Ltac fin H := split_ifs H; inversion H; subst; clear H; cbn in *.

Lemma upd_same f p x : upd f p x p = x.
Proof. unfold upd. now rewrite Nat.eqb_refl. Qed.
Lemma upd_other f p x q : q <> p -> upd f p x q = f q.
Proof. unfold upd. intros H. apply Nat.eqb_neq in H. now rewrite H. Qed.

Lemma unlock_self p : unlock p (Some p) = None.
Proof. unfold unlock. now rewrite Nat.eqb_refl. Qed.
Lemma unlock_some p m q : unlock p m = Some q -> m = Some q /\ q <> p.
Proof.
  unfold unlock. destruct m as [r|]; [|discriminate].
  destruct (Nat.eqb r p) eqn:E; [discriminate|]. intros H; inversion H; subst. split; [reflexivity|now apply Nat.eqb_neq].
Qed.

Section Frame.
  Variable pickle : res -> list nat.
  Variable unpickle : list nat -> option res.
  Variable bv : val.
  Notation lstep := (lstep pickle unpickle bv).
  Notation step := (step pickle unpickle bv).
  Notation run := (run pickle unpickle bv).
  Notation init := (init bv).

  (* how a step of p touches <checksum>.lock *)
  Lemma lstep_lock p q g a q' g' : lstep p q g a = Some (q', g') ->
     dead g' = dead g /\
     ( (lock g' = lock g /\ holds (pc q') = holds (pc q))
     \/ (holds (pc q) = false /\ holds (pc q') = true /\ free (lock g) g = true /\ lock g' = Some p)
     \/ (holds (pc q) = true /\ holds (pc q') = false /\ lock g' = unlock p (lock g)) ).
  Proof.
    intros H. inv_lstep H. all: fin H. all: split; [reflexivity|]; usepc; auto 10.
  Qed.

  (* ... and <checksum>_save.lock *)
  Lemma lstep_slock p q g a q' g' : lstep p q g a = Some (q', g') ->
     ( (slock g' = slock g /\ holds_s (pc q') = holds_s (pc q))
     \/ (holds_s (pc q) = false /\ holds_s (pc q') = true /\ free (slock g) g = true /\ slock g' = Some p)
     \/ (holds_s (pc q) = true /\ holds_s (pc q') = false /\ slock g' = unlock p (slock g)) ).
  Proof.
    intros H. inv_lstep H. all: fin H. all: usepc; auto 10.
  Qed.

  (* a process that does not hold <checksum>.lock changes nothing but that lock *)
  Lemma lstep_outside p q g a q' g' : lstep p q g a = Some (q', g') -> holds (pc q) = false ->
     g' = g \/ (pc q = Waiting /\ pc q' = Locked /\ g' = set_lock (Some p) g).
  Proof.
    intros H Hh. inv_lstep H; try discriminate Hh. all: fin H. all: usepc; auto 10.
  Qed.

  Lemma holds_s_holds c : holds_s c = true -> holds c = true.
  Proof. destruct c; cbn; try discriminate; auto. Qed.

  Definition alive (s : state) (p : pid) : Prop := dead (gl s) p = false.

  (* I1: a live process inside the with block owns the marker;  I1c: a marker naming a live process
     means that process is inside its with block *)
  Definition lock_inv (s : state) : Prop :=
    (forall p, alive s p -> holds (pc (procs s p)) = true -> lock (gl s) = Some p) /\
    (forall p, lock (gl s) = Some p -> alive s p -> holds (pc (procs s p)) = true) /\
    (forall p, alive s p -> holds_s (pc (procs s p)) = true -> slock (gl s) = Some p) /\
    (forall p, slock (gl s) = Some p -> alive s p -> holds_s (pc (procs s p)) = true).

  Lemma step_inv s p a s' : step s (p, a) = Some s' ->
    dead (gl s) p = false /\
    ((a = ACrash /\ s' = mkState (procs s) (kill p (gl s))) \/
     (exists q' g', lstep p (procs s p) (gl s) a = Some (q', g') /\ s' = mkState (upd (procs s) p q') g')).
  Proof.
    unfold step, CacheProto.step. destruct (dead (gl s) p) eqn:D; [discriminate|]. intros H. split; [reflexivity|].
    destruct (CacheProto.lstep pickle unpickle bv p (procs s p) (gl s) a) as [[q' g']|] eqn:L.
    - destruct a; try (right; exists q', g'; split; [reflexivity|now inversion H]).
      left. split; [reflexivity|now inversion H].
    - destruct a; try discriminate H. left. split; [reflexivity|now inversion H].
  Qed.

  Lemma lock_inv_init pre : lock_inv (init pre).
  Proof.
    unfold lock_inv, init, glob0, alive; destruct pre; cbn; repeat split; intros; discriminate.
  Qed.

  Lemma free_alive m g q : free m g = true -> m = Some q -> dead g q = false -> False.
  Proof. intros F -> D. cbn in F. congruence. Qed.

  Lemma lock_inv_step s e s' : lock_inv s -> step s e = Some s' -> lock_inv s'.
  Proof.
    intros (I1 & I1c & I2 & I2c) H. destruct e as [p a].
    apply step_inv in H. destruct H as [Dp [[-> ->]|(q' & g' & L & ->)]].
    - (* crash *)
      unfold lock_inv, alive in *; cbn in *.
      repeat split; intros r; destruct (Nat.eqb r p) eqn:E; try discriminate; auto.
    - pose proof (lstep_lock _ _ _ _ _ _ L) as [Dd Hl].
      pose proof (lstep_slock _ _ _ _ _ _ L) as Hs.
      unfold lock_inv, alive in *; cbn [procs gl] in *. rewrite Dd.
      repeat split; intros r.
      + intros Ar Hr. destruct (Nat.eq_dec r p) as [->|Ne].
        * rewrite upd_same in Hr. destruct Hl as [[E1 E2]|[(_ & _ & _ & E)|(_ & E & _)]]; try congruence.
          rewrite E1. apply I1; congruence.
        * rewrite upd_other in Hr by assumption. pose proof (I1 r Ar Hr) as Lr.
          destruct Hl as [[E1 _]|[(_ & _ & F & _)|(Hq & _ & _)]]; try congruence.
          -- exfalso. eapply free_alive; eauto.
          -- pose proof (I1 p Dp Hq). congruence.
      + intros Lr Ar. destruct (Nat.eq_dec r p) as [->|Ne].
        * rewrite upd_same. destruct Hl as [[E1 E2]|[(_ & E & _)|(_ & _ & E)]]; try congruence.
          -- rewrite E2. apply I1c; congruence.
          -- rewrite E in Lr. apply unlock_some in Lr. tauto.
        * rewrite upd_other by assumption.
          destruct Hl as [[E1 _]|[(_ & _ & _ & E)|(_ & _ & E)]].
          -- apply I1c; congruence.
          -- congruence.
          -- rewrite E in Lr. apply unlock_some in Lr. apply I1c; tauto.
      + intros Ar Hr. destruct (Nat.eq_dec r p) as [->|Ne].
        * rewrite upd_same in Hr. destruct Hs as [[E1 E2]|[(_ & _ & _ & E)|(_ & E & _)]]; try congruence.
          rewrite E1. apply I2; congruence.
        * rewrite upd_other in Hr by assumption. pose proof (I2 r Ar Hr) as Lr.
          destruct Hs as [[E1 _]|[(_ & _ & F & _)|(Hq & _ & _)]]; try congruence.
          -- exfalso. eapply free_alive; eauto.
          -- pose proof (I2 p Dp Hq). congruence.
      + intros Lr Ar. destruct (Nat.eq_dec r p) as [->|Ne].
        * rewrite upd_same. destruct Hs as [[E1 E2]|[(_ & E & _)|(_ & _ & E)]]; try congruence.
          -- rewrite E2. apply I2c; congruence.
          -- rewrite E in Lr. apply unlock_some in Lr. tauto.
        * rewrite upd_other by assumption.
          destruct Hs as [[E1 _]|[(_ & _ & _ & E)|(_ & _ & E)]].
          -- apply I2c; congruence.
          -- congruence.
          -- rewrite E in Lr. apply unlock_some in Lr. apply I2c; tauto.
  Qed.

  Lemma run_inv (I : state -> Prop) :
    (forall s e s', I s -> step s e = Some s' -> I s') ->
    forall tr s s', I s -> run s tr = Some s' -> I s'.
  Proof.
    intros Hstep. induction tr as [|e tr IH]; cbn; intros s s' Hs H.
    - inversion H; subst; assumption.
    - destruct (step s e) as [s1|] eqn:E; [|discriminate]. eapply IH; [|exact H]. eapply Hstep; eauto.
  Qed.

  Lemma lock_inv_reachable pre tr s : run (init pre) tr = Some s -> lock_inv s.
  Proof. apply run_inv; [apply lock_inv_step|apply lock_inv_init]. Qed.

  (* C10_mutex: at most one live process is between acquire and release -- every trace, every number of
     processes, crashes and exceptions included *)
  Theorem mutex pre tr s p q :
    run (init pre) tr = Some s ->
    alive s p -> alive s q ->
    holds (pc (procs s p)) = true -> holds (pc (procs s q)) = true -> p = q.
  Proof.
    intros R Ap Aq Hp Hq. destruct (lock_inv_reachable _ _ _ R) as (I1 & _).
    pose proof (I1 p Ap Hp). pose proof (I1 q Aq Hq). congruence.
  Qed.

  Theorem mutex_save pre tr s p q :
    run (init pre) tr = Some s ->
    alive s p -> alive s q ->
    holds_s (pc (procs s p)) = true -> holds_s (pc (procs s q)) = true -> p = q.
  Proof.
    intros R Ap Aq Hp Hq. destruct (lock_inv_reachable _ _ _ R) as (_ & _ & I2 & _).
    pose proof (I2 p Ap Hp). pose proof (I2 q Aq Hq). congruence.
  Qed.
End Frame.
