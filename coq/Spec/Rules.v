(* Spec/Rules.v — C31 reference semantics, written from the property statement:

     "every *set* field with requirements has at least one requirement set whose fields are all set
      (to an allowed value where given); at most one field of each exclusive group is set, exactly
      one unless the group allows none; mandatory fields set."

   The statement has one free parameter: what "set" means.  [Spec_roles] leaves it open (one notion
   per role: the requiring field, the required field, the member of an exclusive group);
   [Spec_ok] fixes the reading adopted here, the one pydra declares at define() time
   ("fields ... must be of optional or truthy/falsy type"): a field is set iff its value is truthy.
   Only the data types of Model/Rules.v are used, never its algorithm. *)
From Pydra Require Import Base.Prelude Model.Rules.
Local Open Scope string_scope.

(* a value is "set": it is none of the falsy values *)
Definition IsSet (v : value) : Prop :=
  match v with
  | VNothing | VNone => False
  | VBool b => b = true
  | VStr s => s <> ""
  | VInt z => z <> 0%Z
  | VObj b => b = true
  end.

Definition notion := tkind -> value -> Prop.
Definition set_notion : notion := fun _ v => IsSet v.

Section Roles.
  (* T: the field that carries requirements is set; R: a required field is set; X: a member of an
     exclusive group is set *)
  Variables T R X : notion.

  Definition allowed_ok (r : req) (v : value) : Prop :=
    match rallowed r with
    | None => True
    | Some l => exists a, In a l /\ py_eq v a = true
    end.

  (* mandatory fields (those that may not be left to pydra: no path template, not read-only) set *)
  Definition mandatory_ok (d : taskdef) (e : env) : Prop :=
    forall f, In f (fields d) -> fmay_unset f = false -> e (fname f) <> VNothing.

  (* the field a requirement names is set, to an allowed value where given *)
  Definition requirement_met (d : taskdef) (e : env) (r : req) : Prop :=
    exists g, In g (fields d) /\ fname g = rname r /\
              R (ftype g) (e (rname r)) /\ allowed_ok r (e (rname r)).

  Definition requires_ok (d : taskdef) (e : env) : Prop :=
    forall f, In f (fields d) -> T (ftype f) (e (fname f)) -> frequires f <> [] ->
      exists rs, In rs (frequires f) /\ forall r, In r rs -> requirement_met d e r.

  (* n names a field of group x that is set *)
  Definition member_set (d : taskdef) (e : env) (x : list (option string)) (n : string) : Prop :=
    In (Some n) x /\ exists g, In g (fields d) /\ fname g = n /\ X (ftype g) (e n).

  Definition xor_ok (d : taskdef) (e : env) : Prop :=
    forall x, In x (xors d) ->
      (forall n m, member_set d e x n -> member_set d e x m -> n = m) /\     (* at most one *)
      (~ In None x -> exists n, member_set d e x n).                         (* exactly one unless None allowed *)

  Definition Spec_roles (d : taskdef) (e : env) : Prop :=
    mandatory_ok d e /\ requires_ok d e /\ xor_ok d e.
End Roles.

(* the property's formula, with one notion of "set" *)
Definition Spec_gen (S : notion) : taskdef -> env -> Prop := Spec_roles S S S.
Definition Spec_ok : taskdef -> env -> Prop := Spec_gen set_notion.

(* ---------------------------------------------------------------- executable version *)
Definition is_setb (v : value) : bool :=
  match v with
  | VNothing | VNone => false
  | VBool b => b
  | VStr s => match s with EmptyString => false | _ => true end
  | VInt z => match z with Z0 => false | _ => true end
  | VObj b => b
  end.

Definition notionb := tkind -> value -> bool.
Definition set_notionb : notionb := fun _ v => is_setb v.

Section RolesB.
  Variables tb rb xb : notionb.

  Definition allowed_okb (r : req) (v : value) : bool :=
    match rallowed r with None => true | Some l => existsb (fun a => py_eq v a) l end.

  Definition mandatory_okb (d : taskdef) (e : env) : bool :=
    forallb (fun f => fmay_unset f || match e (fname f) with VNothing => false | _ => true end) (fields d).

  Definition requirement_metb (d : taskdef) (e : env) (r : req) : bool :=
    existsb (fun g => String.eqb (fname g) (rname r) && rb (ftype g) (e (rname r))
                      && allowed_okb r (e (rname r))) (fields d).

  Definition requires_okb (d : taskdef) (e : env) : bool :=
    forallb (fun f => match frequires f with
                      | [] => true
                      | rss => negb (tb (ftype f) (e (fname f)))
                               || existsb (fun rs => forallb (requirement_metb d e) rs) rss
                      end) (fields d).

  (* how many fields of the task belong to group x and are set *)
  Definition count_set (d : taskdef) (e : env) (x : list (option string)) : nat :=
    List.length (filter (fun g => existsb (option_eqb String.eqb (Some (fname g))) x
                                  && xb (ftype g) (e (fname g))) (fields d)).

  Definition xor_okb (d : taskdef) (e : env) : bool :=
    forallb (fun x => let c := count_set d e x in
                      Nat.leb c 1 && (existsb (option_eqb String.eqb None) x || Nat.leb 1 c)) (xors d).

  Definition spec_rolesb (d : taskdef) (e : env) : bool :=
    mandatory_okb d e && requires_okb d e && xor_okb d e.
End RolesB.

Definition spec_okb : taskdef -> env -> bool := spec_rolesb set_notionb set_notionb set_notionb.
