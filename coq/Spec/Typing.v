(* Spec/Typing.v — reference semantics for C20 / C21. Nothing here mentions how pydra coerces or checks.

   conforms T t v     : the value v is of the declared type t — Python isinstance on plain classes (class
                        relations from the live issubclass matrix T), lifted through containers.
   nss A v v'         : replacing the input v by the stored value v' neither split a string into a collection
                        of its pieces nor joined a collection into a string; [A] lists (input class, result
                        class) conversions that are tolerated (empty, [no_pairs], for the property).
   arity_ok t v       : the only thing C21 lets a run-time value fail on: the length of a fixed-length tuple. *)
From Pydra Require Import Base.Prelude Model.Typing.

Section Conforms.
Variable T : tables.

(* isinstance(v, c), with typing.Any accepting everything *)
Definition py_isinstance (v : val) (c : cls) : bool :=
  match c with
  | KAny => true
  | _ => existsb (cls_eqb c) (lookup_row (class_of T v) (t_rows T))
  end.

(* a container type: the value is an instance of the container class (a subclass instance will do), has the
   container's shape, and its items conform *)
Fixpoint conforms (t : ty) (v : val) {struct t} : Prop :=
  match t with
  | TBase c => py_isinstance v c = true
  | TList a => py_isinstance v CList = true /\ exists k l, v = VList k l /\ Forall (conforms a) l
  | TMulti a => py_isinstance v CList = true /\ exists k l, v = VList k l /\ Forall (conforms a) l
  | TTupleVar a => py_isinstance v CTuple = true /\ exists k l, v = VTuple k l /\ Forall (conforms a) l
  | TSet fr a =>
      py_isinstance v (if fr then CFrozenset else CSet) = true /\
      exists k l, v = VSet k fr l /\ Forall (conforms a) l
  | TTuple ts =>
      py_isinstance v CTuple = true /\
      exists k l, v = VTuple k l /\
        (fix go (ts : list ty) (l : list val) : Prop :=
           match ts, l with
           | [], [] => True
           | a :: r, x :: xs => conforms a x /\ go r xs
           | _, _ => False
           end) ts l
  | TDict k x =>
      py_isinstance v CDict = true /\
      exists g kv, v = VDict g kv /\ Forall (fun p => conforms k (fst p) /\ conforms x (snd p)) kv
  | TUnion ts => (fix go (ts : list ty) : Prop := match ts with [] => False | a :: r => conforms a v \/ go r end) ts
  end.

(* the executable version used on the correspondence cases *)
Fixpoint conformsb (t : ty) (v : val) {struct t} : bool :=
  match t with
  | TBase c => py_isinstance v c
  | TList a | TMulti a =>
      py_isinstance v CList && match v with VList _ l => forallb (conformsb a) l | _ => false end
  | TTupleVar a => py_isinstance v CTuple && match v with VTuple _ l => forallb (conformsb a) l | _ => false end
  | TSet fr a =>
      py_isinstance v (if fr then CFrozenset else CSet) &&
      match v with VSet _ fr' l => Bool.eqb fr fr' && forallb (conformsb a) l | _ => false end
  | TTuple ts =>
      py_isinstance v CTuple &&
      match v with
      | VTuple _ l =>
          (fix go (ts : list ty) (l : list val) : bool :=
             match ts, l with
             | [], [] => true
             | a :: r, x :: xs => conformsb a x && go r xs
             | _, _ => false
             end) ts l
      | _ => false
      end
  | TDict k x =>
      py_isinstance v CDict &&
      match v with
      | VDict _ kv => forallb (fun p => conformsb k (fst p) && conformsb x (snd p)) kv
      | _ => false
      end
  | TUnion ts => existsb (fun a => conformsb a v) ts
  end.

End Conforms.

(* ------------------------------------------------------------------ strings are not split, sequences not joined *)
Definition is_strlike (v : val) : bool := match v with VStr _ _ | VBytes _ _ => true | _ => false end.
Definition is_coll (v : val) : bool :=
  match v with VList _ _ | VTuple _ _ | VSet _ _ _ | VDict _ _ => true | _ => false end.
Definition children (v : val) : list val :=
  match v with
  | VList _ l | VTuple _ l | VSet _ _ l => l
  | VDict _ kv => map fst kv ++ map snd kv
  | _ => []
  end.

Section NoStrSeq.
Variable T : tables.
Variable A : cls -> cls -> bool.       (* tolerated (class of the input, class of what it became) *)

(* v is the input (or a part of it), v' what is stored in its place *)
Fixpoint nss (v v' : val) {struct v'} : bool :=
  A (class_of T v) (class_of T v') ||
  (if is_coll v'
   then
     (* the whole input wrapped as the single item of a list (what a MultiInputObj field does) *)
     (match v' with VList _ [x] => nss v x | _ => false end)
     (* or a collection re-typed item by item: every stored item stands for some item of the input *)
     || (is_coll v &&
         match v' with
         | VList _ l | VTuple _ l | VSet _ _ l => forallb (fun x' => existsb (fun x => nss x x') (children v)) l
         | VDict _ kv =>
             forallb (fun p => let '(k', x') := p in
                        existsb (fun x => nss x k') (children v) && existsb (fun x => nss x x') (children v)) kv
         | _ => false
         end)
     (* or the input is neither a string nor a collection (None standing for "no items" in a MultiInputObj[File]
        field, say): nothing was split *)
     || negb (is_coll v || is_strlike v)
   else negb (is_coll v && is_strlike v')).

End NoStrSeq.

Definition no_pairs : cls -> cls -> bool := fun _ _ => false.

(* ------------------------------------------------------------------ C21: side conditions on (target type, value) *)
(* what iterating the value yields: the items of a list/tuple/set, the keys of a dict *)
Definition items_of (v : val) : list val :=
  match v with VList _ l | VTuple _ l | VSet _ _ l => l | VDict _ kv => map fst kv | _ => [] end.

(* "fixed-length tuple arity aside": wherever the target type has a tuple[t1..tn], the collection that reaches it
   has n items.  Stated on the target type and the value alone (a Union must be fine whichever arm is taken, a
   MultiInputObj whether the value is taken as the list or as its single item). *)
Fixpoint arity_ok (t : ty) (v : val) {struct t} : bool :=
  match t with
  | TBase _ => true
  | TList a | TSet _ a | TTupleVar a => forallb (arity_ok a) (items_of v)
  | TMulti a => arity_ok a v && forallb (arity_ok a) (items_of v)
  | TTuple ts =>
      negb (is_coll v) ||
      (Nat.eqb (List.length (items_of v)) (List.length ts) &&
       (fix go (ts : list ty) (l : list val) : bool :=
          match ts, l with
          | a :: r, x :: xs => arity_ok a x && go r xs
          | _, _ => true
          end) ts (items_of v))
  | TDict k x =>
      match v with
      | VDict _ kv => forallb (fun p => arity_ok k (fst p) && arity_ok x (snd p)) kv
      | _ => true
      end
  | TUnion ts => forallb (fun a => arity_ok a v) ts
  end.

(* may storing v under type t leave an unhashable object? *)
Fixpoint unhash_after (t : ty) (v : val) {struct t} : bool :=
  match t with
  | TBase KAny => negb (hashable v)
  | TBase _ => false
  | TList _ | TDict _ _ | TMulti _ | TSet false _ => true
  | TSet true _ => false
  | TTupleVar a => existsb (unhash_after a) (items_of v)
  | TTuple ts =>
      (fix go (ts : list ty) (l : list val) : bool :=
         match ts, l with
         | a :: r, x :: xs => unhash_after a x || go r xs
         | _, _ => false
         end) ts (items_of v)
  | TUnion ts => existsb (fun a => unhash_after a v) ts
  end.

(* finding F21b: an item of a set / a key of a dict of the target type would be unhashable *)
Fixpoint unhash_hit (t : ty) (v : val) {struct t} : bool :=
  match t with
  | TBase _ => false
  | TSet _ a => existsb (fun x => unhash_after a x || unhash_hit a x) (items_of v)
  | TList a | TTupleVar a => existsb (unhash_hit a) (items_of v)
  | TMulti a => unhash_hit a v || existsb (unhash_hit a) (items_of v)
  | TTuple ts =>
      (fix go (ts : list ty) (l : list val) : bool :=
         match ts, l with
         | a :: r, x :: xs => unhash_hit a x || go r xs
         | _, _ => false
         end) ts (items_of v)
  | TDict k x =>
      match v with
      | VDict _ kv => existsb (fun p => unhash_after k (fst p) || unhash_hit k (fst p) || unhash_hit x (snd p)) kv
      | _ => false
      end
  | TUnion ts => existsb (fun a => unhash_hit a v) ts
  end.

(* ------------------------------------------------------------------ the domain of the idempotence theorem *)
Definition is_none_ty (t : ty) : bool := match t with TBase CNone => true | _ => false end.

(* no Union other than Optional[...] (a two-armed union with None) *)
Fixpoint union_free (t : ty) : bool :=
  match t with
  | TBase _ => true
  | TList a | TTupleVar a | TSet _ a | TMulti a => union_free a
  | TTuple ts => forallb union_free ts
  | TDict k x => union_free k && union_free x
  | TUnion ts =>
      match ts with
      | [a; b] => (is_none_ty b && union_free a) || (is_none_ty a && union_free b)
      | _ => false
      end
  end.

(* ------------------------------------------------------------------ the domain of the C21 theorem (target side) *)
Definition scalar_value_classes : list cls :=
  [CNone; CBool; CInt; CFloat; CStr; CBytes; CPath; CFile FFile; CFile FText; CFile FDir].

(* whatever is stored under such a type is hashable *)
Fixpoint hashable_ty (t : ty) : bool :=
  match t with
  | TBase c => existsb (cls_eqb c) scalar_value_classes
  | TTuple ts | TUnion ts => forallb hashable_ty ts
  | TTupleVar a => hashable_ty a
  | TSet true _ => true
  | _ => false
  end.

(* set items and dict keys of hashable types only (finding F21b) *)
Fixpoint c21_target_ok (t : ty) : bool :=
  match t with
  | TBase c => cls_eqb c KAny || existsb (cls_eqb c) scalar_value_classes
  | TList a | TTupleVar a | TMulti a => c21_target_ok a
  | TSet _ a => c21_target_ok a && hashable_ty a
  | TTuple ts | TUnion ts => forallb c21_target_ok ts
  | TDict k x => c21_target_ok k && hashable_ty k && c21_target_ok x
  end.
