(* Proofs/GraphBase.v — list / dictionary lemmas used by the DiGraph proofs. *)
From Pydra Require Import Base.Prelude Model.Graph.
From Coq Require Import Sorting.Permutation.
Local Open Scope nat_scope.
Local Open Scope list_scope.

Lemma bind_ok {A B} (r : result A) (f : A -> result B) b :
  bind r f = Ok b -> exists a, r = Ok a /\ f a = Ok b.
Proof. destruct r; cbn; [eauto|discriminate]. Qed.

Lemma of_opt_ok {A} e (o : option A) a : of_opt e o = Ok a -> o = Some a.
Proof. destruct o; cbn; congruence. Qed.

Lemma memb_In x l : memb x l = true <-> In x l.
Proof.
  unfold memb. rewrite existsb_exists. split.
  - intros [y [Hy E]]. apply Nat.eqb_eq in E. now subst.
  - intros H. exists x. split; [assumption|apply Nat.eqb_refl].
Qed.
Lemma memb_false x l : memb x l = false <-> ~ In x l.
Proof. rewrite <- memb_In. destruct (memb x l); split; congruence. Qed.

Lemma has_dup_false l : has_dup l = false <-> NoDup l.
Proof.
  induction l as [|x l IH]; cbn.
  - split; [constructor|reflexivity].
  - rewrite orb_false_iff, IH, memb_false. split.
    + intros [H1 H2]. now constructor.
    + intros H. inversion H; auto.
Qed.

Lemma edge_eqb_eq x y : edge_eqb x y = true <-> x = y.
Proof.
  unfold edge_eqb. destruct x as [a b], y as [c d]. cbn.
  rewrite andb_true_iff, !Nat.eqb_eq. split; [intros [-> ->]; reflexivity|intros E; inversion E; auto].
Qed.

(* ---- remove_one *)
Section RemoveOne.
  Context {A : Type} (eqb : A -> A -> bool) (eqb_eq : forall x y, eqb x y = true <-> x = y).

  Lemma remove_one_perm x l l' : remove_one eqb x l = Some l' -> Permutation l (x :: l').
  Proof.
    revert l'. induction l as [|y l IH]; cbn; intros l' H; [discriminate|].
    destruct (eqb x y) eqn:E.
    - apply eqb_eq in E. subst. inversion H; subst. reflexivity.
    - destruct (remove_one eqb x l) as [r|]; [|discriminate]. inversion H; subst.
      rewrite (IH r eq_refl). apply perm_swap.
  Qed.

  Lemma remove_one_In x l l' : remove_one eqb x l = Some l' -> In x l.
  Proof. intros H. apply remove_one_perm in H. eapply Permutation_in; [symmetry; exact H|left; reflexivity]. Qed.

  Lemma remove_one_incl x l l' y : remove_one eqb x l = Some l' -> In y l' -> In y l.
  Proof. intros H Hy. apply remove_one_perm in H. eapply Permutation_in; [symmetry; exact H|right; exact Hy]. Qed.

  Lemma remove_one_other x l l' y : remove_one eqb x l = Some l' -> y <> x -> In y l -> In y l'.
  Proof.
    intros H Hne Hy. apply remove_one_perm in H.
    eapply Permutation_in in Hy; [|exact H]. destruct Hy as [E|Hy]; [congruence|exact Hy].
  Qed.

  Lemma remove_one_some x l : In x l -> exists l', remove_one eqb x l = Some l'.
  Proof.
    induction l as [|y l IH]; cbn; intros H; [contradiction|].
    destruct (eqb x y) eqn:E; [eauto|].
    destruct H as [H|H]; [subst; assert (eqb x x = true) by (apply eqb_eq; reflexivity); congruence|].
    destruct (IH H) as [r ->]. eauto.
  Qed.

  Lemma remove_one_nodup x l l' : remove_one eqb x l = Some l' -> NoDup l -> NoDup l' /\ ~ In x l'.
  Proof.
    intros H Hnd. apply remove_one_perm in H.
    assert (Hnd' : NoDup (x :: l')) by (eapply Permutation_NoDup; eauto).
    inversion Hnd'; auto.
  Qed.
End RemoveOne.

(* ---- foldM *)
Lemma foldM_app {A S} (f : S -> A -> result S) l1 l2 s :
  foldM f (l1 ++ l2) s = (s' <- foldM f l1 s ;; foldM f l2 s').
Proof.
  revert s. induction l1 as [|x l1 IH]; intros s; cbn; [reflexivity|].
  destruct (f s x); cbn; [apply IH|reflexivity].
Qed.

(* invariant rule *)
Lemma foldM_inv {A S} (f : S -> A -> result S) (P : S -> Prop) l :
  (forall s x s', In x l -> P s -> f s x = Ok s' -> P s') ->
  forall s s', P s -> foldM f l s = Ok s' -> P s'.
Proof.
  induction l as [|x l IH]; cbn; intros Hstep s s' Hp H.
  - inversion H; subst; assumption.
  - apply bind_ok in H. destruct H as [s1 [H1 H2]].
    apply (IH (fun s0 x0 s0' Hin => Hstep s0 x0 s0' (or_intror Hin)) s1 s'); [|exact H2].
    eapply Hstep; [left; reflexivity|exact Hp|exact H1].
Qed.

(* ---- dictionaries *)
Lemma dget_dset d k v b : dget (dset d k v) b = if Nat.eqb b k then Some v else dget d b.
Proof.
  induction d as [|[k' v'] d IH]; cbn.
  - destruct (Nat.eqb b k); reflexivity.
  - destruct (Nat.eqb k k') eqn:E; cbn.
    + apply Nat.eqb_eq in E. subst. destruct (Nat.eqb b k'); reflexivity.
    + destruct (Nat.eqb b k') eqn:E2.
      * apply Nat.eqb_eq in E2. subst. rewrite Nat.eqb_sym, E. reflexivity.
      * exact IH.
Qed.

Lemma dget_In_keys d k : (exists v, dget d k = Some v) <-> In k (dkeys d).
Proof.
  unfold dkeys. induction d as [|[k' v'] d IH]; cbn.
  - split; [intros [v H]; discriminate|contradiction].
  - destruct (Nat.eqb k k') eqn:E.
    + apply Nat.eqb_eq in E. subst. split; [auto|eauto].
    + apply Nat.eqb_neq in E. rewrite IH. split; [auto|intros [H|H]; [congruence|assumption]].
Qed.

Lemma dget_None_keys d k : dget d k = None <-> ~ In k (dkeys d).
Proof.
  rewrite <- dget_In_keys. destruct (dget d k) as [v|].
  - split; [discriminate|]. intros H. exfalso. apply H. eauto.
  - split; [|reflexivity]. intros _ [v H]. discriminate.
Qed.

Lemma dkeys_dset_In d k v x : In x (dkeys (dset d k v)) <-> x = k \/ In x (dkeys d).
Proof.
  rewrite <- !dget_In_keys. rewrite dget_dset. destruct (Nat.eqb x k) eqn:E.
  - apply Nat.eqb_eq in E. subst. split; [auto|eauto].
  - apply Nat.eqb_neq in E. split; [auto|intros [H|H]; [congruence|assumption]].
Qed.

Lemma dset_nodup_keys d k v : NoDup (dkeys d) -> NoDup (dkeys (dset d k v)).
Proof.
  unfold dkeys. induction d as [|[k' v'] d IH]; cbn; intros H.
  - constructor; [auto|constructor].
  - destruct (Nat.eqb k k') eqn:E; cbn; [exact H|].
    inversion H; subst. constructor; [|auto].
    intros Hin. apply (dkeys_dset_In d k v k') in Hin. apply Nat.eqb_neq in E.
    destruct Hin as [Hin|Hin]; [congruence|auto].
Qed.

Lemma dpop_spec d k d' :
  dpop d k = Some d' -> NoDup (dkeys d) ->
  (forall b, dget d' b = if Nat.eqb b k then None else dget d b) /\ NoDup (dkeys d').
Proof.
  unfold dkeys. revert d'. induction d as [|[k' v'] d IH]; cbn; intros d' H Hnd; [discriminate|].
  inversion Hnd as [|? ? Hnotin Hnd']; subst.
  destruct (Nat.eqb k k') eqn:E.
  - apply Nat.eqb_eq in E. subst. inversion H; subst. split; [|assumption].
    intros b. destruct (Nat.eqb b k') eqn:E2; [|reflexivity].
    apply Nat.eqb_eq in E2. subst. apply dget_None_keys. exact Hnotin.
  - destruct (dpop d k) as [r|] eqn:Hp; [|discriminate]. inversion H; subst.
    destruct (IH r eq_refl Hnd') as [Hget Hnd2]. split.
    + intros b. cbn. destruct (Nat.eqb b k') eqn:E2.
      * apply Nat.eqb_eq in E2. subst. rewrite Nat.eqb_sym, E. reflexivity.
      * apply Hget.
    + cbn. constructor; [|assumption]. intros Hin.
      apply dget_In_keys in Hin. destruct Hin as [v Hv]. rewrite Hget in Hv.
      destruct (Nat.eqb k' k); [discriminate|]. apply Hnotin. apply dget_In_keys. eauto.
Qed.

Lemma dpop_some d k : In k (dkeys d) -> exists d', dpop d k = Some d'.
Proof.
  unfold dkeys. induction d as [|[k' v'] d IH]; cbn; intros H; [contradiction|].
  destruct (Nat.eqb k k') eqn:E; [eauto|].
  apply Nat.eqb_neq in E. destruct H as [H|H]; [congruence|]. destruct (IH H) as [r ->]. eauto.
Qed.

(* dremove / dappend keep the key set and touch one list *)
Lemma dremove_ok d k x d' :
  dremove d k x = Ok d' ->
  exists v v', dget d k = Some v /\ remove_one Nat.eqb x v = Some v' /\ d' = dset d k v'.
Proof.
  unfold dremove. destruct (dget d k) as [v|]; [|discriminate].
  destruct (remove_one Nat.eqb x v) as [v'|] eqn:E; [|discriminate].
  intros H. inversion H; subst. eauto.
Qed.

Lemma dappend_ok d k x d' :
  dappend d k x = Ok d' -> exists v, dget d k = Some v /\ d' = dset d k (v ++ [x]).
Proof. unfold dappend. destruct (dget d k) as [v|]; [|discriminate]. intros H. inversion H; subst. eauto. Qed.
