(* Proofs/Typing.v — lemmas for C20 (coercion produces conforming values; task-field histories;
   idempotence on union-free types; which string<->collection conversions exist). *)
From Pydra Require Import Base.Prelude Model.Typing Spec.Typing.
Local Open Scope string_scope.

(* ------------------------------------------------------------------ induction on the type grammar *)
Section TyInd.
Variable P : ty -> Prop.
Hypothesis HBase : forall c, P (TBase c).
Hypothesis HList : forall a, P a -> P (TList a).
Hypothesis HTuple : forall ts, Forall P ts -> P (TTuple ts).
Hypothesis HTupleVar : forall a, P a -> P (TTupleVar a).
Hypothesis HDict : forall k x, P k -> P x -> P (TDict k x).
Hypothesis HSet : forall fr a, P a -> P (TSet fr a).
Hypothesis HUnion : forall ts, Forall P ts -> P (TUnion ts).
Hypothesis HMulti : forall a, P a -> P (TMulti a).

Fixpoint ty_ind' (t : ty) : P t :=
  match t with
  | TBase c => HBase c
  | TList a => HList a (ty_ind' a)
  | TTuple ts => HTuple ts ((fix go (l : list ty) : Forall P l :=
                               match l with [] => Forall_nil P | a :: r => Forall_cons a (ty_ind' a) (go r) end) ts)
  | TTupleVar a => HTupleVar a (ty_ind' a)
  | TDict k x => HDict k x (ty_ind' k) (ty_ind' x)
  | TSet fr a => HSet fr a (ty_ind' a)
  | TUnion ts => HUnion ts ((fix go (l : list ty) : Forall P l :=
                               match l with [] => Forall_nil P | a :: r => Forall_cons a (ty_ind' a) (go r) end) ts)
  | TMulti a => HMulti a (ty_ind' a)
  end.
End TyInd.

(* ------------------------------------------------------------------ generic list helpers *)
Lemma map_res_ok {A B} (f : A -> result B) l l' :
  map_res f l = Ok l' -> Forall2 (fun x y => f x = Ok y) l l'.
Proof.
  revert l'. induction l as [|x l IH]; intros l' H; cbn in H.
  - inversion H. constructor.
  - destruct (f x) as [y|e] eqn:E; [|discriminate].
    destruct (map_res f l) as [ys|e] eqn:E2; [|discriminate].
    inversion H; subst. constructor; auto.
Qed.

Lemma Forall2_right {A B} (R : A -> B -> Prop) (P : B -> Prop) l l' :
  Forall2 R l l' -> (forall x y, In x l -> R x y -> P y) -> Forall P l'.
Proof.
  induction 1 as [|x y l l' Hxy H IH]; intros HP; constructor.
  - apply (HP x y); [left; reflexivity|assumption].
  - apply IH. intros a b Ha. apply HP. right; assumption.
Qed.

Lemma first_ok_ok {A B} (f : A -> result B) l y :
  first_ok f l = Ok y -> exists x, In x l /\ f x = Ok y.
Proof.
  induction l as [|x l IH]; cbn; [discriminate|].
  destruct (f x) as [z|e] eqn:E.
  - intros H; inversion H; subst. exists x; split; [left; reflexivity|assumption].
  - destruct e; try discriminate. intros H. destruct (IH H) as [a [Ha Hf]]. exists a; split; [right|]; assumption.
Qed.

(* ------------------------------------------------------------------ what the proofs need from the live tables *)
Definition value_classes : list cls :=
  [CNone; CBool; CInt; CFloat; CStr; CBytes; CPath; CFile FFile; CFile FText; CFile FDir;
   CList; CTuple; CSet; CFrozenset; CDict].
Definition container_classes : list cls := [CList; CTuple; CSet; CFrozenset; CDict].

(* issubclass is reflexive on the classes values have, and the builtin containers have no modelled subclasses *)
Definition tables_wf (T : tables) : bool :=
  forallb (fun c => sub T c c) value_classes &&
  forallb (fun o => forallb (fun c => implb (sub T c o) (cls_eqb c o)) value_classes) container_classes.

Lemma cls_eqb_eq a b : cls_eqb a b = true <-> a = b.
Proof.
  split.
  - destruct a, b; cbn; try discriminate; try reflexivity.
    + destruct f, f0; cbn; try discriminate; reflexivity.
    + intros H. apply Nat.eqb_eq in H. now subst.
  - intros ->. destruct b; cbn; try reflexivity.
    + destruct f; reflexivity.
    + apply Nat.eqb_refl.
Qed.

Lemma class_of_value v : In (class_of v) value_classes.
Proof.
  destruct v as [| | | | | | |f| | |fr|]; cbn; try tauto.
  - destruct f; tauto.
  - destruct fr; tauto.
Qed.

Lemma class_of_not_any v : class_of v <> KAny.
Proof. destruct v as [| | | | | | |f| | |fr|]; cbn; try discriminate. destruct fr; discriminate. Qed.

Section WithTables.
Variable T : tables.
Variable W : world.
Hypothesis WF : tables_wf T = true.

Lemma sub_refl_value v : sub T (class_of v) (class_of v) = true.
Proof.
  unfold tables_wf in WF. apply andb_true_iff in WF. destruct WF as [H _].
  rewrite forallb_forall in H. apply H, class_of_value.
Qed.

Lemma sub_container v o : In o container_classes -> sub T (class_of v) o = true -> class_of v = o.
Proof.
  intros Ho Hs. unfold tables_wf in WF. apply andb_true_iff in WF. destruct WF as [_ H].
  rewrite forallb_forall in H. specialize (H o Ho). rewrite forallb_forall in H.
  specialize (H _ (class_of_value v)). rewrite Hs in H. cbn in H. now apply cls_eqb_eq.
Qed.

Lemma py_isinstance_is_instance v c : py_isinstance T v c = is_instance T v c.
Proof.
  unfold py_isinstance, is_instance, is_subclass, sub.
  destruct c; try reflexivity; pose proof (class_of_not_any v); destruct (class_of v); try reflexivity; congruence.
Qed.

Lemma is_instance_container v o :
  In o container_classes -> is_instance T v o = true -> class_of v = o.
Proof.
  intros Ho H. apply sub_container; [assumption|].
  unfold is_instance, is_subclass in H. pose proof (class_of_not_any v).
  destruct Ho as [<-|[<-|[<-|[<-|[<-|[]]]]]]; destruct (class_of v); try congruence; exact H.
Qed.

(* ------------------------------------------------------------------ constructors return their own class *)
Lemma mk_set_class fr l v : mk_set fr l = Ok v -> v = VSet fr (dedupe l []).
Proof. unfold mk_set. destruct (forallb hashable l); [|discriminate]. now inversion 1. Qed.

Lemma construct_container_class c items v :
  construct_container c items = Ok v -> class_of v = c.
Proof.
  destruct c; cbn; try discriminate; intros H.
  - now inversion H.
  - now inversion H.
  - apply mk_set_class in H. now subst.
  - apply mk_set_class in H. now subst.
Qed.

Lemma fileset_ctor_class f ps v : fileset_ctor W f ps = Ok v -> class_of v = CFile f.
Proof.
  unfold fileset_ctor. destruct (existsb _ _); [discriminate|].
  destruct (dedupe_str _ _) as [|p [|q r]]; try discriminate.
  destruct (w_check W f p); [discriminate|]. now inversion 1.
Qed.

Lemma construct_class c v v' : construct W c v = Ok v' -> class_of v' = c /\ In c value_classes.
Proof.
  intros H. assert (class_of v' = c) as E.
  { destruct c; cbn in H; try discriminate.
    - now inversion H.
    - destruct v; try discriminate; now inversion H.
    - destruct (num_of v); [|discriminate]. now inversion H.
    - destruct (py_str v); [|discriminate]. now inversion H.
    - destruct v; try discriminate; try (now inversion H);
        try (destruct (bytes_of _); [|discriminate]; now inversion H).
    - destruct v; try discriminate; now inversion H.
    - destruct (is_pathish v).
      + eapply fileset_ctor_class; eassumption.
      + destruct v; try discriminate;
          (destruct (all_some _); [|discriminate]; eapply fileset_ctor_class; eassumption).
    - destruct (iter v) as [l|]; [|discriminate]. exact (construct_container_class CList l v' H).
    - destruct (iter v) as [l|]; [|discriminate]. exact (construct_container_class CTuple l v' H).
    - destruct (iter v) as [l|]; [|discriminate]. exact (construct_container_class CSet l v' H).
    - destruct (iter v) as [l|]; [|discriminate]. exact (construct_container_class CFrozenset l v' H).
    - destruct v; try discriminate; now inversion H. }
  split; [exact E|]. rewrite <- E. apply class_of_value.
Qed.

Variable sac : bool.

(* ------------------------------------------------------------------ C20_conforms *)
Lemma coerce_basic_conforms c v v' : coerce_basic T W sac c v = Ok v' -> py_isinstance T v' c = true.
Proof.
  unfold coerce_basic. destruct (is_instance T v c) eqn:E.
  - inversion 1; subst. now rewrite py_isinstance_is_instance.
  - destruct (check_coercible T sac v c); [|discriminate]. intros H.
    apply construct_class in H. destruct H as [<- _].
    rewrite py_isinstance_is_instance. unfold is_instance, is_subclass.
    pose proof (class_of_not_any v') as Hn. pose proof (sub_refl_value v') as Hr.
    destruct (class_of v'); try exact Hr; congruence.
Qed.

Lemma enter_container o v c :
  In o container_classes -> enter T sac o v = Ok c -> c = o.
Proof.
  intros Ho. unfold enter. destruct (is_instance T v o) eqn:E.
  - inversion 1; subst. now apply is_instance_container.
  - destruct (check_coercible T sac v o); [|discriminate]. now inversion 1.
Qed.

Lemma dedupe_incl l : forall acc x, In x (dedupe l acc) -> In x l \/ In x acc.
Proof.
  induction l as [|y l IH]; intros acc x; cbn.
  - rewrite <- in_rev. auto.
  - destruct (existsb _ acc).
    + intros H. destruct (IH _ _ H); auto.
    + intros H. destruct (IH _ _ H) as [|[->|]]; auto.
Qed.

Lemma build_items c r v :
  build c r = Ok v -> exists items, r = Ok items /\ construct_container c items = Ok v.
Proof. unfold build. destruct r; [|discriminate]. eauto. Qed.

Lemma container_conforms (P : val -> Prop) c items v :
  Forall P items -> construct_container c items = Ok v ->
  match c with
  | CList => exists l, v = VList l /\ Forall P l
  | CTuple => exists l, v = VTuple l /\ Forall P l /\ List.length l = List.length items
  | CSet => exists l, v = VSet false l /\ Forall P l
  | CFrozenset => exists l, v = VSet true l /\ Forall P l
  | _ => True
  end.
Proof.
  intros HP. destruct c; cbn; try tauto; intros H.
  - inversion H; eauto.
  - inversion H; eauto.
  - apply mk_set_class in H. subst. eexists; split; [reflexivity|].
    rewrite Forall_forall in *. intros x Hx. apply dedupe_incl in Hx. destruct Hx as [Hx|[]]. auto.
  - apply mk_set_class in H. subst. eexists; split; [reflexivity|].
    rewrite Forall_forall in *. intros x Hx. apply dedupe_incl in Hx. destruct Hx as [Hx|[]]. auto.
Qed.

Lemma coerce_seq_conforms (P : val -> Prop) o f v v' :
  In o [CList; CTuple; CSet; CFrozenset] ->
  (forall x y, f x = Ok y -> P y) ->
  coerce_seq T sac o f v = Ok v' ->
  match o with
  | CList => exists l, v' = VList l /\ Forall P l
  | CTuple => exists l, v' = VTuple l /\ Forall P l
  | CSet => exists l, v' = VSet false l /\ Forall P l
  | CFrozenset => exists l, v' = VSet true l /\ Forall P l
  | _ => True
  end.
Proof.
  intros Ho Hf. unfold coerce_seq.
  destruct (enter T sac o v) as [c|] eqn:E; [|discriminate].
  apply enter_container in E; [|cbn in *; tauto]. subst c.
  destruct (iter v) as [items|]; [|discriminate]. intros H.
  apply build_items in H. destruct H as [l [Hl Hc]].
  apply map_res_ok in Hl.
  assert (Forall P l) as HP by (eapply Forall2_right; [exact Hl|]; intros x y _ HR; exact (Hf _ _ HR)).
  pose proof (container_conforms P o l v' HP Hc) as R.
  destruct o; try exact R. destruct R as [l0 [? [? _]]]. eauto.
Qed.

Lemma dict_set_forall (A B : val -> Prop) d k x :
  Forall (fun p => A (fst p) /\ B (snd p)) d -> A k -> B x ->
  Forall (fun p => A (fst p) /\ B (snd p)) (dict_set d k x).
Proof.
  induction d as [|[k' x'] d IH]; cbn; intros H Hk Hx.
  - constructor; [cbn; auto|constructor].
  - inversion H as [|? ? [Hk' Hx'] Hd]; subst. cbn in *.
    destruct (py_eq k' k); constructor; cbn; auto.
Qed.

Lemma dict_res_forall (A B : val -> Prop) fk fx :
  (forall a a', fk a = Ok a' -> A a') -> (forall b b', fx b = Ok b' -> B b') ->
  forall kv acc d, Forall (fun p => A (fst p) /\ B (snd p)) acc ->
    dict_res fk fx kv acc = Ok d -> Forall (fun p => A (fst p) /\ B (snd p)) d.
Proof.
  intros HA HB. induction kv as [|[a b] kv IH]; cbn; intros acc d Hacc H.
  - now inversion H; subst.
  - destruct (fk a) as [a'|] eqn:Ea; [|discriminate].
    destruct (fx b) as [b'|] eqn:Eb; [|discriminate].
    destruct (hashable a'); [|discriminate].
    eapply IH; [|exact H]. apply dict_set_forall; eauto.
Qed.

Lemma zip_res_conforms (P : ty -> val -> Prop) (g : ty -> val -> result val) :
  forall ts items l,
    Forall (fun a => forall x y, g a x = Ok y -> P a y) ts ->
    List.length ts = List.length items ->
    zip_res (map g ts) items = Ok l ->
    (fix go (ts : list ty) (l : list val) : Prop :=
       match ts, l with
       | [], [] => True
       | a :: r, x :: xs => P a x /\ go r xs
       | _, _ => False
       end) ts l.
Proof.
  induction ts as [|a ts IH]; intros items l HF Hlen H; destruct items as [|x items]; try discriminate; cbn in H.
  - now inversion H.
  - inversion HF as [|? ? Ha Hts]; subst.
    destruct (g a x) as [y|] eqn:E; [|discriminate].
    destruct (zip_res (map g ts) items) as [ys|] eqn:E2; [|discriminate].
    inversion H; subst. split; [eapply Ha; eassumption|].
    eapply IH; eauto.
Qed.

Lemma union_conforms_in ts v a :
  In a ts -> conforms T a v ->
  (fix go (ts : list ty) : Prop := match ts with [] => False | a :: r => conforms T a v \/ go r end) ts.
Proof.
  induction ts as [|b ts IH]; cbn; [tauto|]. intros [->|Hin] Hc; [left; exact Hc|right; apply IH; assumption].
Qed.

Theorem coerce_conforms : forall t v v', coerce T W sac t v = Ok v' -> conforms T t v'.
Proof.
  induction t as [c|a IHa|ts IHts|a IHa|k x IHk IHx|fr a IHa|ts IHts|a IHa] using ty_ind';
    intros v v' H; cbn [coerce] in H; cbn [conforms].
  - eapply coerce_basic_conforms; eassumption.
  - eapply (coerce_seq_conforms (conforms T a) CList) in H; cbn; auto.
  - (* fixed-length tuple *)
    unfold coerce_tuple in H.
    destruct (enter T sac CTuple v) as [c|] eqn:E; [|discriminate].
    apply enter_container in E; [|cbn; tauto]. subst c.
    destruct (iter v) as [items|]; [|discriminate].
    destruct (Nat.eqb _ _) eqn:El; [|discriminate].
    rewrite map_length in El. apply Nat.eqb_eq in El.
    apply build_items in H. destruct H as [l [Hl Hc]]. cbn in Hc. inversion Hc; subst.
    exists l; split; [reflexivity|].
    eapply (zip_res_conforms (conforms T) (coerce T W sac)); eauto.
  - eapply (coerce_seq_conforms (conforms T a) CTuple) in H; cbn; auto.
  - (* dict *)
    unfold coerce_dict in H.
    destruct (enter T sac CDict v) as [c|] eqn:E; [|discriminate].
    destruct v; try discriminate.
    destruct (dict_res _ _ kv []) as [d|] eqn:Ed; [|discriminate]. inversion H; subst.
    exists d; split; [reflexivity|].
    eapply (dict_res_forall (conforms T k) (conforms T x)); eauto.
  - destruct fr;
      [eapply (coerce_seq_conforms (conforms T a) CFrozenset) in H|eapply (coerce_seq_conforms (conforms T a) CSet) in H];
      cbn; auto.
  - (* union *)
    apply first_ok_ok in H. destruct H as [a [Ha Hc]].
    rewrite Forall_forall in IHts. eapply union_conforms_in; eauto.
  - (* MultiInputObj *)
    unfold coerce_multi in H.
    assert (forall r, wrap1 r = Ok v' -> (forall x, r = Ok x -> conforms T a x) ->
                      exists l, v' = VList l /\ Forall (conforms T a) l) as Hw.
    { intros r Hr Hx. destruct r as [x|]; [|discriminate]. inversion Hr; subst.
      exists [x]; split; [reflexivity|]. constructor; [auto|constructor]. }
    destruct (is_vstr v).
    + eapply Hw; [exact H|]. intros; eapply IHa; eassumption.
    + destruct (match iter v with Ok items => map_res (coerce T W sac a) items | Err e => Err e end) as [l|e] eqn:E.
      * inversion H; subst. exists l; split; [reflexivity|].
        destruct (iter v) as [items|]; [|discriminate]. apply map_res_ok in E.
        eapply Forall2_right; [exact E|]. intros x y _ HR; exact (IHa _ _ HR).
      * destruct e; try discriminate. eapply Hw; [exact H|]. intros; eapply IHa; eassumption.
Qed.

End WithTables.
