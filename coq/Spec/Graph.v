(* Spec/Graph.v — C37 / C18 reference semantics for a directed graph given as a list of
   remaining nodes and a list of connections: what a valid topological order is, what a cycle
   is.  Nothing here mentions how pydra computes the order. *)
From Pydra Require Import Base.Prelude.
From Coq Require Import Sorting.Permutation.
Local Open Scope nat_scope.
Local Open Scope list_scope.

Definition vertex := nat.
Definition arc := (vertex * vertex)%type.

(* position of the first occurrence; |l| when absent *)
Fixpoint pos (a : vertex) (l : list vertex) : nat :=
  match l with [] => 0 | x :: r => if Nat.eqb a x then 0 else S (pos a r) end.

(* [l] lists every remaining node exactly once, and every connection between two remaining
   nodes goes from an earlier to a strictly later position *)
Definition topo_valid (ns : list vertex) (es : list arc) (l : list vertex) : Prop :=
  NoDup l /\ Permutation l ns /\
  forall a b, In (a, b) es -> In a ns -> In b ns -> pos a l < pos b l.

(* executable version *)
Definition mem (x : vertex) (l : list vertex) : bool := existsb (Nat.eqb x) l.
Fixpoint nodupb (l : list vertex) : bool :=
  match l with [] => true | x :: r => negb (mem x r) && nodupb r end.
Definition same_set (l ns : list vertex) : bool :=
  Nat.eqb (List.length l) (List.length ns) && forallb (fun x => mem x ns) l && forallb (fun x => mem x l) ns.
Definition topo_validb (ns : list vertex) (es : list arc) (l : list vertex) : bool :=
  nodupb l && nodupb ns && same_set l ns &&
  forallb (fun e => negb (mem (fst e) ns && mem (snd e) ns) || Nat.ltb (pos (fst e) l) (pos (snd e) l)) es.

(* a path of connections between remaining nodes *)
Inductive path (ns : list vertex) (es : list arc) : vertex -> vertex -> Prop :=
| path_one a b : In (a, b) es -> In a ns -> In b ns -> path ns es a b
| path_cons a b c : In (a, b) es -> In a ns -> In b ns -> path ns es b c -> path ns es a c.

Definition acyclic (ns : list vertex) (es : list arc) : Prop := forall a, ~ path ns es a a.

(* executable: grow the set of nodes reachable from [front] |ns| times *)
Definition step_set (ns : list vertex) (es : list arc) (r : list vertex) : list vertex :=
  fold_left (fun acc e =>
     if mem (fst e) acc && mem (fst e) ns && mem (snd e) ns && negb (mem (snd e) acc) then snd e :: acc else acc) es r.
Fixpoint closure (k : nat) (ns : list vertex) (es : list arc) (r : list vertex) : list vertex :=
  match k with 0 => r | S k' => closure k' ns es (step_set ns es r) end.
Definition succs_of (ns : list vertex) (es : list arc) (a : vertex) : list vertex :=
  map snd (filter (fun e => Nat.eqb (fst e) a && mem a ns && mem (snd e) ns) es).
Definition acyclicb (ns : list vertex) (es : list arc) : bool :=
  forallb (fun a => negb (mem a (closure (List.length ns) ns es (succs_of ns es a)))) ns.

(* ------------------------------------------------------------------------------------------
   The reference reading of a DiGraph history, evaluated on what the implementation was observed
   to do (the model's operations are not used below; only its record and operation types). *)
From Pydra Require Import Model.Graph.

Definition state_ok_predsb (g : graph) : bool :=
  match g_sorted g with None => true | Some s => topo_validb (g_nodes g) (pred_edges (g_preds g)) s end.
Definition state_ok_edgesb (g : graph) : bool :=
  match g_sorted g with None => true | Some s => topo_validb (g_nodes g) (g_edges g) s end.

(* a consistent graph object: what a history of well-formed calls maintains *)
Definition subsetb (l m : list vertex) : bool := forallb (fun x => mem x m) l.
Definition disjointb (l m : list vertex) : bool := forallb (fun x => negb (mem x m)) l.
Definition count_n (a : vertex) (l : list vertex) : nat := List.length (filter (Nat.eqb a) l).
Definition count_e (a b : vertex) (es : list arc) : nat :=
  List.length (filter (fun e => Nat.eqb (fst e) a && Nat.eqb (snd e) b) es).
Definition lookup (d : dict) (k : vertex) : list vertex := match dget d k with Some l => l | None => [] end.

Definition wfb (g : graph) : bool :=
  let ks := g_nodes g ++ g_wip g in
  nodupb ks &&
  nodupb (dkeys (g_preds g)) && same_set (dkeys (g_preds g)) ks &&
  nodupb (dkeys (g_succs g)) && same_set (dkeys (g_succs g)) ks &&
  forallb (fun e => mem (fst e) ks && mem (snd e) ks) (g_edges g) &&
  forallb (fun b => forallb (fun a =>
     Nat.eqb (count_n a (lookup (g_preds g) b)) (count_e a b (g_edges g)) &&
     Nat.eqb (count_n b (lookup (g_succs g) a)) (count_e a b (g_edges g))) ks) ks &&
  forallb (fun kv => subsetb (snd kv) ks) (g_preds g) &&
  forallb (fun kv => subsetb (snd kv) ks) (g_succs g) &&
  acyclicb ks (g_edges g) &&
  state_ok_edgesb g.

(* the calls the documentation and the tests make on such an object *)
Definition pre_opb (g : graph) (o : op) : bool :=
  let ks := g_nodes g ++ g_wip g in
  match o with
  | AddNodes new => nodupb new && disjointb new ks
  | AddEdges new =>
      forallb (fun e => mem (fst e) (g_nodes g) && mem (snd e) (g_nodes g)) (g_edges g ++ new) &&
      acyclicb ks (g_edges g ++ new)
  | RemoveNodes l c =>
      nodupb l && subsetb l (g_nodes g) &&
      (negb c || forallb (fun n => match lookup (g_preds g) n with [] => true | _ => false end) l)
  | RemoveNodesConnections l =>
      (* the node has been run / is ready: no connection from a predecessor is left *)
      nodupb l && subsetb l (g_wip g) &&
      forallb (fun n => match lookup (g_preds g) n with [] => true | _ => false end) l
  | RemovePreviousConnections l =>
      nodupb l && subsetb l (g_wip g) &&
      forallb (fun n => match lookup (g_succs g) n with [] => true | _ => false end) l
  | RemoveSuccessorsNodes n =>
      mem n (g_wip g) && match lookup (g_preds g) n with [] => true | _ => false end
  | Sort | GetSorted | Copy => true
  end.
Definition must_succeed (g : graph) (o : op) : bool := wfb g && pre_opb g o.

(* DiGraph(nodes, edges): succeeds exactly when the names are distinct and every edge joins two
   of the nodes; the new object holds them, unsorted *)
Definition init_okb (ns : list vertex) (es : list arc) (o : obs) : bool :=
  let names_ok := nodupb ns in
  let edges_ok := forallb (fun e => mem (fst e) ns && mem (snd e) ns) es in
  match o with
  | OState g => names_ok && edges_ok && list_eqb Nat.eqb (g_nodes g) ns && list_eqb edge_eqb (g_edges g) es &&
                match g_sorted g with None => true | Some _ => false end
  | OErr EDupName => negb names_ok
  | OErr EEdgeNodes => names_ok && negb edges_ok
  | _ => false
  end.

(* after every operation that returned: the recorded order is valid for the recorded predecessors,
   and for the edges as long as every add_nodes so far met its precondition [dom_ok];
   an operation that [must_succeed] may not raise; nothing may hang *)
Fixpoint walk (dom : bool) (g : graph) (ops : list op) (observed : list obs) : bool :=
  match ops, observed with
  | [], [] => true
  | o :: ops', OState g' :: observed' =>
      let dom' := dom && dom_ok g o in
      state_ok_predsb g' && (negb dom' || state_ok_edgesb g') && walk dom' g' ops' observed'
  | o :: _, [OErr _] => negb (must_succeed g o)
  | _, _ => false
  end.

Definition spec_ok (c : list vertex * list arc * list op * list obs) : bool :=
  let '(ns, es, ops, observed) := c in
  match observed with
  | OState g0 :: rest => init_okb ns es (OState g0) && state_ok_edgesb g0 && walk true g0 ops rest
  | [o] => init_okb ns es o
  | _ => false
  end.
