(* C02 — Combine groups job outputs into an exact, ordered partition. *)
From Coq Require Import Permutation Sorting.Sorted.
From Pydra Require Import Base.Prelude Model.State Spec.State Proofs.State Proofs.StateComb Proofs.StateProj Proofs.StateClass Proofs.StateClass2.

(* the property at full strength: for every well-formed splitter, every non-empty combiner subset of its fields
   and all non-empty lists, the groups the model of State.prepare_states computes are the reference partition *)
Definition C02_full_statement : Prop :=
  forall (e : env) (s : spl) (comb : list nat),
    wf s -> comb <> [] -> (forall x, In x comb -> In x (leaves s)) ->
    (forall f, In f (leaves s) -> nprod (e f) >= 1) -> jobs e s <> None ->
    groups_of (prepare_combined e s comb) = spec_groups e s comb.

(* ['a', ['b', ('c', 'd')]] combined over a, b: the model (and the code) return [[0;2]; []; []; [1;3]] *)
Theorem C02_refuted : ~ C02_full_statement.
Proof.
  intros H.
  specialize (H (fun f => nth f [[2]; [1]; [2]; [2]] []) (Outer [Fld 0; Outer [Fld 1; Inner [Fld 2; Fld 3]]]) [0; 1]).
  assert (W : wf (Outer [Fld 0; Outer [Fld 1; Inner [Fld 2; Fld 3]]])).
  { split; [reflexivity|]. repeat constructor; cbn; intuition discriminate. }
  specialize (H W ltac:(discriminate)).
  assert (A : forall x, In x [0; 1] -> In x (leaves (Outer [Fld 0; Outer [Fld 1; Inner [Fld 2; Fld 3]]]))).
  { cbn. intuition. }
  specialize (H A).
  assert (B : forall f, In f (leaves (Outer [Fld 0; Outer [Fld 1; Inner [Fld 2; Fld 3]]])) ->
                        nprod (nth f [[2]; [1]; [2]; [2]] []) >= 1).
  { cbn. intros f [<-|[<-|[<-|[<-|[]]]]]; cbn; lia. }
  specialize (H B). vm_compute in H. specialize (H ltac:(discriminate)). discriminate.
Qed.
Print Assumptions C02_refuted.

(* no output is lost or duplicated, members stay in enumeration order: whenever the model of
   State.prepare_states (with combiner) returns groups, every job index occurs in exactly one group *)
Theorem C02_partition : forall (e : env) (s : spl) (comb : list nat) si m,
  prepare_combined e s comb = inr (si, m) ->
  Permutation (List.concat m) (seq 0 (List.length si)) /\ Forall (StronglySorted lt) m.
Proof. exact combined_partition. Qed.
Print Assumptions C02_partition.

(* the strongest positive statement: outside the computable class `good_removalb s comb = false` (finding F02)
   the groups are one per job of the remaining splitter, in its order, each holding in order the jobs whose
   remaining fields equal it *)
Theorem C02_partial : forall (e : env) (s : spl) (comb : list nat),
  wfb s = true -> NoDup (leaves s) -> comb <> [] -> (forall f, In f (leaves s) -> nprod (e f) >= 1) ->
  good_removalb s comb = true ->
  groups_of (prepare_combined e s comb) = spec_groups_pruned e s comb.
Proof. exact combined_pruned. Qed.
Print Assumptions C02_partial.

Theorem C02_all : forall (e : env) (s : spl) (comb : list nat) js,
  wfb s = true -> NoDup (leaves s) -> comb <> [] -> (forall f, In f (leaves s) -> nprod (e f) >= 1) ->
  good_removalb s comb = true -> jobs e s = Some js -> prune (linked s comb) s = None ->
  groups_of (prepare_combined e s comb) = Some [seq 0 (List.length js)].
Proof. exact combined_all. Qed.
Print Assumptions C02_all.

Theorem C02_linked : forall s comb ax f g,
  In ax (axes s) -> In f ax -> In f comb -> In g ax -> In g (linked s comb).
Proof. exact linked_axis. Qed.
Print Assumptions C02_linked.

(* the two formulations of the reference partition (indexed by the jobs of the remaining splitter / by the
   distinct remaining assignments in order of first appearance) coincide when every inner product is over plain
   fields and is combined as a whole or not at all *)
Theorem C02_formulations_agree : forall (e : env) (s : spl) (comb : list nat),
  wfb s = true -> flat_innerb s = true -> closedb (linked s comb) s = true ->
  (forall f, In f (leaves s) -> nprod (e f) >= 1) ->
  spec_groups_pruned e s comb = spec_groups e s comb.
Proof. exact pruned_is_distinct. Qed.
Print Assumptions C02_formulations_agree.

(* hence, for every splitter whose inner products are over plain fields and outside the F02 class, the model
   computes the property's own partition: one group per distinct assignment of the remaining axes, in order of first
   appearance, each holding in enumeration order exactly the jobs with that assignment *)
Theorem C02_partial_flat : forall (e : env) (s : spl) (comb : list nat),
  wfb s = true -> NoDup (leaves s) -> comb <> [] -> (forall f, In f (leaves s) -> nprod (e f) >= 1) ->
  flat_innerb s = true -> good_removalb s comb = true ->
  groups_of (prepare_combined e s comb) = spec_groups e s comb.
Proof.
  intros e s comb W ND Hc Pos Fl G.
  rewrite (combined_pruned e s comb W ND Hc Pos G).
  apply pruned_is_distinct; try assumption. apply linked_closed; assumption.
Qed.
Print Assumptions C02_partial_flat.

(* a SYNTACTIC class on which the computable condition of C02_partial is proved for every size: flat outer products
   [f1, f2, ..., fn] (n >= 2 distinct fields, the all-outer splitter in its flat spelling) with ANY non-empty
   combiner over their fields.  For them the model of splits_groups/combine_final_groups yields exactly the combined
   fields and the model of remove_inp_from_splitter_rpn returns the RPN of the remaining flat product (when the first
   field is removed it is the most recently scanned surviving operator that is popped - which is the right one here,
   and the wrong one for the F02 witness ['a',['b',('c','d')]], which is outside this class). *)
Theorem C02_good_removal_class : forall (fs comb : list nat),
  2 <= List.length fs -> NoDup fs -> comb <> [] -> (forall c, In c comb -> In c fs) ->
  good_removalb (Outer (map Fld fs)) comb = true.
Proof.
  intros fs comb L N Hne Hsub. destruct fs as [|f1 [|f2 fs]]; cbn [List.length] in L; try lia.
  exact (good_removal_flat_outer f1 f2 fs comb N Hne Hsub).
Qed.
Print Assumptions C02_good_removal_class.

(* on that class the groups ARE the property's partition (first-appearance formulation), for all non-empty lists *)
Theorem C02_class_groups : forall (e : env) (fs comb : list nat),
  2 <= List.length fs -> NoDup fs -> comb <> [] -> (forall c, In c comb -> In c fs) ->
  (forall f, In f fs -> nprod (e f) >= 1) ->
  groups_of (prepare_combined e (Outer (map Fld fs)) comb) = spec_groups e (Outer (map Fld fs)) comb.
Proof.
  intros e fs comb L N Hne Hsub Pos. destruct fs as [|f1 [|f2 fs]]; cbn [List.length] in L; try lia.
  exact (flat_outer_groups e f1 f2 fs comb N Hne Hsub Pos).
Qed.
Print Assumptions C02_class_groups.

Example C02_class_example :
  good_removalb (Outer (map Fld [3; 0; 2; 5; 1])) [2; 3; 1] = true /\
  groups_of (prepare_combined (fun f => [S (Nat.modulo f 3)]) (Outer (map Fld [3; 0; 2; 5; 1])) [2; 3; 1]) =
    Some [[0; 1; 6; 7; 12; 13]; [2; 3; 8; 9; 14; 15]; [4; 5; 10; 11; 16; 17]] /\
  (* the F02 witness is not in the class and the condition fails there *)
  good_removalb (Outer [Fld 0; Outer [Fld 1; Inner [Fld 2; Fld 3]]]) [0; 1] = false.
Proof. repeat split; vm_compute; reflexivity. Qed.

(* a wider SYNTACTIC class: flat outer products whose operands are plain fields or inner PAIRS of plain fields,
   [f1, (g1,g2), f3, (h1,h2), ...], at least two operands, all fields distinct, ANY non-empty combiner over the fields
   (a pair is then combined as a whole, because combining one of its fields links the other).  `atom`, `sa`, `afields`
   are defined in Proofs/StateClass2.v: AF f is the field f, AP g1 g2 the tuple (g1, g2). *)
Theorem C02_good_removal_class_pairs : forall (L : list atom) (comb : list nat),
  2 <= List.length L -> NoDup (flat_map afields L) -> comb <> [] -> (forall c, In c comb -> In c (flat_map afields L)) ->
  good_removalb (Outer (map sa L)) comb = true.
Proof.
  intros L comb Len N Hne Hsub. destruct L as [|a0 [|a1 rest]]; cbn [List.length] in Len; try lia.
  exact (good_removal_atoms a0 a1 rest comb N Hne Hsub).
Qed.
Print Assumptions C02_good_removal_class_pairs.

Theorem C02_class_pairs_groups : forall (e : env) (L : list atom) (comb : list nat),
  2 <= List.length L -> NoDup (flat_map afields L) -> comb <> [] -> (forall c, In c comb -> In c (flat_map afields L)) ->
  (forall f, In f (flat_map afields L) -> nprod (e f) >= 1) ->
  groups_of (prepare_combined e (Outer (map sa L)) comb) = spec_groups e (Outer (map sa L)) comb.
Proof.
  intros e L comb Len N Hne Hsub Pos. destruct L as [|a0 [|a1 rest]]; cbn [List.length] in Len; try lia.
  exact (atoms_groups e a0 a1 rest comb N Hne Hsub Pos).
Qed.
Print Assumptions C02_class_pairs_groups.

(* non-vacuity, and why the class stops at pairs: with an inner group of THREE fields the condition fails exactly when
   the first operand is combined and the first surviving operand is that group (the removal then pops a '.' of the
   group instead of its '*': the F02 mechanism); nested all-outer trees satisfy the condition on every example tried *)
Example C02_class_pairs_example :
  let s := Outer (map sa [AP 1 2; AF 0; AP 3 4; AF 6]) in
  good_removalb s [0; 1] = true /\ good_removalb s [2] = true /\ good_removalb s [4; 6; 1] = true /\
  groups_of (prepare_combined (fun f => [2]) s [0; 1]) = spec_groups (fun f => [2]) s [0; 1] /\
  good_removalb (Outer [Fld 0; Inner [Fld 1; Fld 2; Fld 3]]) [0] = false /\
  good_removalb (Outer [Inner [Fld 1; Fld 2]; Fld 0; Inner [Fld 3; Fld 4; Fld 5]; Fld 6]) [0; 1] = false /\
  good_removalb (Outer [Inner [Fld 1; Fld 2]; Fld 0; Inner [Fld 3; Fld 4; Fld 5]; Fld 6]) [3] = true /\
  good_removalb (Outer [Outer [Fld 0; Outer [Fld 1; Outer [Fld 2; Fld 3]]]; Outer [Outer [Fld 4; Fld 5]; Fld 6]]) [0; 4; 5] = true.
Proof. cbv zeta. repeat split; vm_compute; reflexivity. Qed.

(* nested all-outer trees: NOT proved as a class. Evidence only (a complete sweep of every non-empty combiner of four
   nested trees with 5-7 fields, by vm_compute): the condition holds on all of them, i.e. the count-based removal returned
   exactly the RPN of the pruned tree there, not merely an equivalent re-bracketing. *)
Fixpoint all_subsets (l : list nat) : list (list nat) :=
  match l with [] => [[]] | x :: r => all_subsets r ++ map (cons x) (all_subsets r) end.
Definition all_combiners_good (s : spl) : bool :=
  forallb (fun c => match c with [] => true | _ => good_removalb s c end) (all_subsets (leaves s)).
Example C02_nested_outer_examples :
  all_combiners_good (Outer [Outer [Fld 0; Fld 1]; Outer [Fld 2; Outer [Fld 3; Fld 4]]]) = true /\
  all_combiners_good (Outer [Outer [Outer [Fld 0; Fld 1]; Fld 2]; Outer [Fld 3; Fld 4; Fld 5]]) = true /\
  all_combiners_good (Outer [Fld 0; Outer [Outer [Fld 1; Fld 2]; Outer [Fld 3; Fld 4]]; Fld 5]) = true /\
  all_combiners_good (Outer [Outer [Fld 0; Outer [Fld 1; Outer [Fld 2; Fld 3]]]; Outer [Outer [Fld 4; Fld 5]; Fld 6]]) = true.
Proof. repeat split; vm_compute; reflexivity. Qed.

(* finding F02b: the declared nesting of the outputs (State.depth, used by nest_output_type) is computed from the
   combiner as written, not from the linked fields: for ([a,d],[c,b]) combined over a,b everything is combined
   (depth 0, one flat list) but the declared depth is 1, and the run fails with a TypeError after all jobs ran *)
Definition C02_declared_depth_statement : Prop :=
  forall (s : spl) (comb : list nat), wf s -> (forall x, In x comb -> In x (leaves s)) ->
    state_depth s comb = state_depth s (linked s comb).
Theorem C02_declared_depth_refuted : ~ C02_declared_depth_statement.
Proof.
  intros H. specialize (H (Inner [Outer [Fld 0; Fld 3]; Outer [Fld 2; Fld 1]]) [0; 1]).
  assert (W : wf (Inner [Outer [Fld 0; Fld 3]; Outer [Fld 2; Fld 1]])).
  { split; [reflexivity|]. repeat constructor; cbn; intuition discriminate. }
  specialize (H W). assert (A : forall x, In x [0; 1] -> In x (leaves (Inner [Outer [Fld 0; Fld 3]; Outer [Fld 2; Fld 1]]))).
  { cbn. intuition. }
  specialize (H A). vm_compute in H. discriminate.
Qed.
Print Assumptions C02_declared_depth_refuted.

(* non-vacuity: the hypotheses of C02_partial hold for the inner-pair splitter when the pair itself is combined,
   and the two formulations of the reference agree there; they fail for the F02 witness *)
Example C02_example :
  let s := Outer [Fld 0; Outer [Fld 1; Inner [Fld 2; Fld 3]]] in
  let e := fun f => nth f [[2]; [1]; [2]; [2]] [] in
  good_removalb s [2] = true /\ good_removalb s [0; 1] = false /\
  groups_of (prepare_combined e s [2]) = Some [[0; 1]; [2; 3]] /\
  spec_groups e s [2] = Some [[0; 1]; [2; 3]] /\ spec_groups_pruned e s [2] = Some [[0; 1]; [2; 3]] /\
  linked s [2] = [2; 3] /\ flat_innerb s = true /\ closedb (linked s [2]) s = true.
Proof. cbv zeta. repeat split; vm_compute; reflexivity. Qed.
