(* Proofs/StateWfNode.v — C03: starting one more node keeps model tables and spec tables in step. *)
From Coq Require Import FinFun.
From Pydra Require Import Base.Prelude Model.StateWf Spec.StateWf Proofs.StateWfLists Proofs.StateWfInv
  Proofs.StateWfStep Proofs.StateWfSel.
Local Open Scope nat_scope.

Lemma nth_error_combine_seq {A} (l : list A) f b :
  nth_error l f = Some b -> In (f, b) (combine (seq 0 (List.length l)) l).
Proof.
  assert (G : forall s, nth_error l f = Some b -> In (s + f, b) (combine (seq s (List.length l)) l)).
  { revert f. induction l as [|a l IH]; intros f s H; [destruct f; discriminate H|].
    destruct f as [|f]; cbn in *.
    - inversion H; subst. left. f_equal. lia.
    - right. replace (s + S f) with (S s + f) by lia. apply IH. exact H. }
  apply (G 0).
Qed.
Lemma flat_map_ext_in {A B} (f g : A -> list B) l : (forall x, In x l -> f x = g x) -> flat_map f l = flat_map g l.
Proof.
  induction l as [|a l IH]; intros H; [reflexivity|]. cbn. rewrite (H a (or_introl eq_refl)), IH; [reflexivity|].
  intros x Hx. apply H. right; exact Hx.
Qed.
Lemma filter_nil {A} (p : A -> bool) l : (forall x, In x l -> p x = false) -> filter p l = [].
Proof.
  induction l as [|x l IH]; intros H; [reflexivity|]. cbn. rewrite (H x (or_introl eq_refl)). apply IH.
  intros y Hy. apply H. right; exact Hy.
Qed.
Lemma NoDup_app_intro {A} (a b : list A) :
  NoDup a -> NoDup b -> (forall k, In k a -> ~ In k b) -> NoDup (a ++ b).
Proof.
  induction a as [|x a IH]; intros Ha Hb D; cbn; [exact Hb|]. inversion Ha; subst. constructor.
  - intros Hin. apply in_app_or in Hin. destruct Hin as [Hin|Hin]; [contradiction | exact (D x (or_introl eq_refl) Hin)].
  - apply IH; [assumption | assumption | intros k Hk; apply D; right; exact Hk].
Qed.
Lemma NoDup_flat_map {A B} (f : A -> list B) l :
  NoDup l -> (forall x, In x l -> NoDup (f x)) ->
  (forall x y k, In x l -> In y l -> x <> y -> In k (f x) -> ~ In k (f y)) -> NoDup (flat_map f l).
Proof.
  induction l as [|a l IH]; intros Hnd H1 H2; cbn; [constructor|].
  inversion Hnd; subst. apply NoDup_app_intro.
  - apply H1; left; reflexivity.
  - apply IH; [assumption | intros x Hx; apply H1; right; exact Hx |].
    intros x y k Hx Hy. apply H2; right; assumption.
  - intros k Hk Hin. apply in_flat_map in Hin. destruct Hin as [y [Hy Hky]].
    apply (H2 a y k (or_introl eq_refl) (or_intror Hy)); [intros ->; contradiction | exact Hk | exact Hky].
Qed.

(* with separate origins the inherited axes are the concatenation of the upstream final axes *)
Lemma up_axes_fold stab : forall fields au aa,
  aa = flat_map (F stab) au ->
  (forall x, In (BUp x) fields -> NoDup (F stab x)) ->
  (forall x y, (In x au \/ In (BUp x) fields) -> (In y au \/ In (BUp y) fields) -> x <> y ->
               forall k, In k (F stab x) -> ~ In k (F stab y)) ->
  fold_left (fun a b => match b with BUp j => add_new a (s_faxes_of stab j) | _ => a end) fields aa
  = flat_map (F stab) (fold_left (ups_step stab) fields au).
Proof.
  induction fields as [|b fields IH]; intros au aa E Hnd D; [exact E|].
  cbn [fold_left]. apply IH.
  - destruct b as [z|vs|j]; cbn [ups_step]; try exact E.
    destruct (is_nil (s_faxes_of stab j)) eqn:EN; cbn [orb].
    + apply is_nil_true in EN. rewrite EN. exact E.
    + destruct (memn j au) eqn:EM.
      * apply memn_In in EM. rewrite <- E. apply add_new_absorb. rewrite E. intros k Hk. apply in_flat_map. exists j. split; [exact EM | exact Hk].
      * apply memn_false in EM. rewrite flat_map_app. cbn [flat_map]. rewrite app_nil_r. rewrite <- E.
        apply add_new_fresh; [apply Hnd; left; reflexivity|].
        intros k Hk Hin. rewrite E in Hin. apply in_flat_map in Hin. destruct Hin as [y [Hy Hky]].
        assert (Hne : j <> y) by (intros ->; contradiction).
        exact (D j y (or_intror (or_introl eq_refl)) (or_introl Hy) Hne k Hk Hky).
  - intros x Hx. apply Hnd. right; exact Hx.
  - intros x y Hx Hy. apply D.
    + destruct Hx as [Hx|Hx]; [|right; right; exact Hx].
      destruct b as [z|vs|j]; cbn [ups_step] in Hx; try (left; exact Hx).
      destruct (is_nil (s_faxes_of stab j) || memn j au); [left; exact Hx|].
      apply in_app_or in Hx. destruct Hx as [Hx|[<-|[]]]; [left; exact Hx | right; left; reflexivity].
    + destruct Hy as [Hy|Hy]; [|right; right; exact Hy].
      destruct b as [z|vs|j]; cbn [ups_step] in Hy; try (left; exact Hy).
      destruct (is_nil (s_faxes_of stab j) || memn j au); [left; exact Hy|].
      apply in_app_or in Hy. destruct Hy as [Hy|[<-|[]]]; [left; exact Hy | right; left; reflexivity].
Qed.
Lemma up_axes_flat stab fields :
  (forall x, In (BUp x) fields -> NoDup (F stab x)) ->
  (forall x y, In (BUp x) fields -> In (BUp y) fields -> x <> y -> forall k, In k (F stab x) -> ~ In k (F stab y)) ->
  up_axes stab fields = flat_map (F stab) (ups stab fields).
Proof.
  intros H1 H2. unfold up_axes, ups. apply (up_axes_fold stab fields [] []); [reflexivity | exact H1 |].
  intros x y [[]|Hx] [[]|Hy]. apply H2; assumption.
Qed.
(* whatever the sharing, the open axes of a consumed node are among the inherited axes *)
Lemma up_axes_incl stab fields x : In (BUp x) fields -> incl (s_faxes_of stab x) (up_axes stab fields).
Proof.
  unfold up_axes.
  assert (G : forall fs a, incl a (fold_left (fun a b => match b with BUp j => add_new a (s_faxes_of stab j) | _ => a end) fs a)).
  { induction fs as [|b fs IH]; intros a; [apply incl_refl|]. cbn [fold_left]. eapply incl_tran; [|apply IH].
    destruct b; try apply incl_refl. apply add_new_incl_acc. }
  generalize (@nil key). induction fields as [|b fields IH]; intros a H; [contradiction|].
  cbn [fold_left]. destruct H as [->|H]; [|apply IH; exact H].
  eapply incl_tran; [|apply G]. apply add_new_incl_new.
Qed.

Section Node.
Variable wf : workflow.
Variables (mtab : list mnode) (stab : list sentry) (n : nat) (nd : node).
Hypothesis TO : tab_ok wf mtab stab.
Hypothesis Hn : n = List.length stab.
Hypothesis Hnd : nth_error wf n = Some nd.
Hypothesis FL : fields_lt wf.
Definition se' : sentry := spec_entry wf stab n nd.
Hypothesis NW : node_wf n se' nd = true.
Hypothesis ZL : zip_ok_node nd = true.
Definition U : list nat := ups stab (n_fields nd).

Definition cur : list key := map (fun f => (n, f)) (n_split nd).

(* --- what node_wf says --- *)
Lemma nw_parts :
  (forall j, In (BUp j) (n_fields nd) -> j < n) /\ NoDup cur /\
  (forall f b, nth_error (n_fields nd) f = Some b ->
               match b with BSplit _ => In (leader_of nd f) (n_split nd) | _ => ~ In f (n_split nd) end) /\
  (forall f, In f (n_split nd) -> f < List.length (n_fields nd)) /\
  NoDup (n_comb nd) /\ incl (n_comb nd) (s_axes se').
Proof.
  pose proof NW as W. unfold node_wf in W.
  apply andb_true_iff in W. destruct W as [W W6]. apply andb_true_iff in W. destruct W as [W W5].
  apply andb_true_iff in W. destruct W as [W W7].
  apply andb_true_iff in W. destruct W as [W W4]. apply andb_true_iff in W. destruct W as [W W3].
  apply andb_true_iff in W. destruct W as [W1 W2].
  repeat split.
  - intros j Hj. rewrite forallb_forall in W1. specialize (W1 _ Hj). apply Nat.ltb_lt in W1. exact W1.
  - apply nodupk_NoDup. exact W2.
  - intros f b Hb. rewrite forallb_forall in W3. specialize (W3 (f, b) (nth_error_combine_seq _ _ _ Hb)). cbn in W3.
    destruct b; [apply memn_false; apply negb_true_iff; exact W3 | apply memn_In; exact W3 | apply memn_false; apply negb_true_iff; exact W3].
  - intros f Hf. rewrite forallb_forall in W4. specialize (W4 f Hf). apply Nat.ltb_lt in W4. exact W4.
  - apply nodupk_NoDup. exact W5.
  - intros k Hk. rewrite forallb_forall in W6. apply memk_In. apply W6. exact Hk.
Qed.
(* only split fields are zipped: every other field is its own "leader"; zipped fields are as long as their leader *)
Lemma leader_self f b : nth_error (n_fields nd) f = Some b -> (forall vs, b <> BSplit vs) -> leader_of nd f = f.
Proof.
  intros Hb Hnb. unfold leader_of. destruct (find (fun p => Nat.eqb (fst p) f) (n_zip nd)) as [p|] eqn:E; [|reflexivity].
  apply find_some in E. destruct E as [Hin E]. apply Nat.eqb_eq in E.
  pose proof NW as W. unfold node_wf in W.
  apply andb_true_iff in W. destruct W as [W _]. apply andb_true_iff in W. destruct W as [W _].
  apply andb_true_iff in W. destruct W as [_ W7]. rewrite forallb_forall in W7. specialize (W7 p Hin).
  rewrite E, Hb in W7. destruct b; try discriminate W7. exfalso. eapply Hnb. reflexivity.
Qed.
Lemma leader_flen f : flen nd (leader_of nd f) = flen nd f.
Proof.
  unfold leader_of. destruct (find (fun p => Nat.eqb (fst p) f) (n_zip nd)) as [p|] eqn:E; [|reflexivity].
  apply find_some in E. destruct E as [Hin E]. apply Nat.eqb_eq in E.
  pose proof ZL as Z. unfold zip_ok_node in Z. rewrite forallb_forall in Z. specialize (Z p Hin).
  apply Nat.eqb_eq in Z. rewrite <- E. symmetry. exact Z.
Qed.

Lemma n_lt_wf : n < List.length wf.
Proof. apply nth_error_Some. rewrite Hnd. discriminate. Qed.
Lemma len_mtab : List.length mtab = n.
Proof. rewrite Hn. exact (proj1 TO). Qed.

Lemma entry_at x : x < n ->
  exists ndx mex sex, nth_error wf x = Some ndx /\ nth_error mtab x = Some mex /\ nth_error stab x = Some sex /\
                      entry_ok wf stab x ndx mex sex.
Proof.
  intros Hx.
  destruct (nth_error wf x) as [ndx|] eqn:E1; [|apply nth_error_None in E1; pose proof n_lt_wf; lia].
  destruct (nth_error mtab x) as [mex|] eqn:E2; [|apply nth_error_None in E2; pose proof len_mtab; lia].
  destruct (nth_error stab x) as [sex|] eqn:E3; [|apply nth_error_None in E3; lia].
  exists ndx, mex, sex. split; [reflexivity|]. split; [reflexivity|]. split; [reflexivity|].
  exact (proj2 TO x ndx mex sex E1 E2 E3).
Qed.

Lemma faxes_nil_of_axes_nil x ndx mex sex :
  entry_ok wf stab x ndx mex sex -> s_axes sex = [] -> s_faxes sex = [].
Proof.
  intros EO E. pose proof (eo_faxes_incl wf _ _ _ _ _ EO) as H. rewrite E in H.
  destruct (s_faxes sex) as [|k r]; [reflexivity|]. exfalso. apply (H k). left; reflexivity.
Qed.

Lemma ent_rpnf_eq x : x < n -> ent_rpnf mtab x = s_faxes_of stab x.
Proof.
  intros Hx. destruct (entry_at x Hx) as [ndx [mex [sex [E1 [E2 [E3 EO]]]]]].
  unfold ent_rpnf, ent, s_faxes_of. rewrite E2, E3.
  destruct (s_axes sex) as [|k0 ax] eqn:EA.
  - rewrite (eo_stateless _ _ _ _ _ _ EO EA). symmetry. eapply faxes_nil_of_axes_nil; eassumption.
  - assert (HA : s_axes sex <> []) by (rewrite EA; discriminate).
    destruct (eo_state _ _ _ _ _ _ EO HA) as [s [-> SO]]. exact (so_rpnf _ _ _ _ _ _ SO).
Qed.

(* a state-carrying input: the entry of an upstream node with open axes *)
Lemma up_state x : In x U ->
  exists ndx sex s, x < n /\ nth_error wf x = Some ndx /\ nth_error mtab x = Some (MState s) /\
    nth_error stab x = Some sex /\ entry_ok wf stab x ndx (MState s) sex /\ state_ok wf stab x ndx sex s /\
    s_faxes sex <> [] /\ s_faxes_of stab x = s_faxes sex.
Proof.
  intros Hx. apply ups_in in Hx. destruct Hx as [Hb HF].
  assert (Hlt : x < n) by (apply (proj1 nw_parts); exact Hb).
  destruct (entry_at x Hlt) as [ndx [mex [sex [E1 [E2 [E3 EO]]]]]].
  assert (EF : s_faxes_of stab x = s_faxes sex) by (unfold s_faxes_of; rewrite E3; reflexivity).
  unfold F in HF. rewrite EF in HF.
  assert (HA : s_axes sex <> []).
  { intros E. apply HF. eapply faxes_nil_of_axes_nil; eassumption. }
  destruct (eo_state _ _ _ _ _ _ EO HA) as [s [-> SO]].
  exists ndx, sex, s. repeat (split; [assumption|]). assumption.
Qed.

Lemma up_ent_indf x : In x U -> ent_indf mtab x = box_idx (lens wf (s_faxes_of stab x)).
Proof.
  intros Hx. destruct (up_state x Hx) as [ndx [sex [s [Hlt [E1 [E2 [E3 [EO [SO [HF EF]]]]]]]]]].
  unfold ent_indf, ent. rewrite E2, EF, (so_indf _ _ _ _ _ _ SO).
  apply is_nil_false in HF. rewrite HF, andb_false_r. reflexivity.
Qed.
Lemma up_ent_keysf x : In x U -> ent_keysf mtab x = s_faxes_of stab x.
Proof.
  intros Hx. destruct (up_state x Hx) as [ndx [sex [s [Hlt [E1 [E2 [E3 [EO [SO [HF EF]]]]]]]]]].
  unfold ent_keysf, ent. rewrite E2, EF. exact (so_keysf _ _ _ _ _ _ SO).
Qed.
Lemma up_ent_nfinal x : In x U -> ent_nfinal mtab x = List.length (ent_indf mtab x).
Proof.
  intros Hx. destruct (up_state x Hx) as [ndx [sex [s [Hlt [E1 [E2 [E3 [EO [SO [HF EF]]]]]]]]]].
  unfold ent_nfinal, ent_indf, ent. rewrite E2, (so_sindf _ _ _ _ _ _ SO), map_length. reflexivity.
Qed.
Lemma up_ent_prev_incl x z : In x U -> In z (ent_prev mtab x) -> In z (ups stab (n_fields (node_at wf x))).
Proof.
  intros Hx Hz. destruct (up_state x Hx) as [ndx [sex [s [Hlt [E1 [E2 [E3 [EO [SO [HF EF]]]]]]]]]].
  unfold ent_prev, ent in Hz. rewrite E2 in Hz. unfold node_at. rewrite (nth_error_nth _ _ _ E1).
  exact (so_prev_incl _ _ _ _ _ _ SO z Hz).
Qed.
Lemma up_faxes_nodup x : In (BUp x) (n_fields nd) -> NoDup (F stab x).
Proof.
  intros Hb. assert (Hlt : x < n) by (apply (proj1 nw_parts); exact Hb).
  destruct (entry_at x Hlt) as [ndx [mex [sex [E1 [E2 [E3 EO]]]]]].
  unfold F, s_faxes_of. rewrite E3. exact (eo_faxes_nodup wf _ _ _ _ _ EO).
Qed.
Lemma up_faxes_bound x k : In (BUp x) (n_fields nd) -> In k (F stab x) -> fst k < n.
Proof.
  intros Hb Hk. assert (Hlt : x < n) by (apply (proj1 nw_parts); exact Hb).
  destruct (entry_at x Hlt) as [ndx [mex [sex [E1 [E2 [E3 EO]]]]]].
  unfold F, s_faxes_of in Hk. rewrite E3 in Hk.
  pose proof (eo_bound _ _ _ _ _ _ EO k (eo_faxes_incl wf _ _ _ _ _ EO k Hk)). lia.
Qed.

Definition other0 := upstream mtab (n_fields nd).
Lemma other0_fst : map fst other0 = U.
Proof. apply upstream_fst. intros x Hx. apply ent_rpnf_eq. apply (proj1 nw_parts). exact Hx. Qed.

(* --- everything below only needs to know which upstream states survive _add_state_history (P) and
   which fields each of them feeds afterwards (other') --- *)
Section Abs.
Variables (P : list nat) (other' : list (nat * list nat)).
Definition cf : nat -> list nat := fields_of other'.
Hypothesis HPc : (if is_nil other0 then Some ([], []) else connect mtab other0) = Some (P, other').
Hypothesis HPu : incl P U.
Hypothesis HPnd : NoDup P.
Hypothesis HPd : forall p q k, In p P -> In q P -> p <> q -> In k (F stab p) -> ~ In k (F stab q).
Hypothesis HPa : up_axes stab (n_fields nd) = flat_map (F stab) P.
Hypothesis HPf1 : forall f x, nth_error (n_fields nd) f = Some (BUp x) -> F stab x <> [] ->
                    exists p, In p P /\ In f (cf p) /\ F stab x = F stab p.
Hypothesis HPf2 : forall p f, In p P -> In f (cf p) -> exists x, nth_error (n_fields nd) f = Some (BUp x) /\ F stab x <> [].
Hypothesis HPf3 : forall p q f, In p P -> In q P -> p <> q -> In f (cf p) -> ~ In f (cf q).
Hypothesis HPf4 : forall p, In p P -> NoDup (cf p).
Hypothesis HPo : other' = [] -> P = [].
Hypothesis HPn : U = [] -> other' = [].
Hypothesis HPs : List.length U <= 1 -> P = U /\ map fst other' = U.

(* --- the node's axes and index tuples --- *)
Definition K : list key := flat_map (F stab) P ++ cur.
Definition indf' (x : nat) : list (list nat) := box_idx (lens wf (F stab x)).
Definition curbox : list (list nat) := box_idx (lens wf cur).

Lemma axes_eq : s_axes se' = K.
Proof. unfold se', spec_entry, K, cur. cbn [s_axes]. rewrite HPa. reflexivity. Qed.

Lemma flatF_bound k : In k (flat_map (F stab) P) -> fst k < n.
Proof.
  intros H. apply in_flat_map in H. destruct H as [x [Hx Hk]]. apply HPu in Hx. apply ups_in in Hx. eapply up_faxes_bound; [exact (proj1 Hx) | exact Hk].
Qed.
Lemma cur_fst k : In k cur -> fst k = n.
Proof. unfold cur. intros H. apply in_map_iff in H. destruct H as [f [<- _]]. reflexivity. Qed.
Lemma K_nodup : NoDup K.
Proof.
  unfold K. apply NoDup_app_intro.
  - apply NoDup_flat_map; [exact HPnd | intros x Hx; apply up_faxes_nodup; apply HPu in Hx; apply ups_in in Hx; tauto |].
    intros x y k Hx Hy Hne. exact (HPd x y k Hx Hy Hne).
  - exact (proj1 (proj2 nw_parts)).
  - intros k Hk Hc. apply flatF_bound in Hk. apply cur_fst in Hc. lia.
Qed.

Lemma lens_flat_map (l : list nat) : lens wf (flat_map (F stab) l) = List.concat (map (fun x => lens wf (F stab x)) l).
Proof. induction l as [|x l IH]; [reflexivity|]. cbn [flat_map map List.concat]. rewrite lens_app, IH. reflexivity. Qed.

Lemma TST'_eq : prod2 (prods (map indf' P)) curbox = box_idx (lens wf K).
Proof.
  unfold K, curbox. rewrite lens_app, box_idx_app. f_equal.
  unfold indf'. rewrite <- (map_map (fun x => lens wf (F stab x)) box_idx). rewrite prods_box_idx, lens_flat_map. reflexivity.
Qed.
Lemma TST_eq : prod2 (prods (map (ent_indf mtab) P)) curbox = box_idx (lens wf K).
Proof.
  rewrite (map_ext_in _ indf') by (intros x Hx; apply up_ent_indf; apply HPu; exact Hx). exact TST'_eq.
Qed.
Lemma cols_eq x : In x U -> idx_cols mtab other' x = cols cf indf' x.
Proof.
  intros Hx. unfold idx_cols, cols, cf. rewrite (up_ent_nfinal x Hx), (up_ent_indf x Hx). reflexivity.
Qed.
Lemma indf'_len x t : In t (indf' x) -> List.length t = List.length (F stab x).
Proof. intros H. apply box_idx_elem_length in H. rewrite lens_length in H. exact H. Qed.

Lemma lookup_lt (ks : list key) : forall o k i,
  Forall2 lt o (lens wf ks) -> lookup (combine ks o) k = Some i -> i < key_len wf k.
Proof.
  induction ks as [|k0 ks IH]; intros o k i HF HL; [discriminate HL|].
  inversion HF as [|v l o' ls Hv HF']; subst. cbn in HL.
  destruct (key_eqb k0 k) eqn:E.
  - apply key_eqb_eq in E; subst. inversion HL; subst. exact Hv.
  - eapply IH; eassumption.
Qed.

Section Elem.
Variables a_in a_st o : list nat.
Hypothesis HS : sel cf indf' P a_in a_st.
Hypothesis Ho : In o curbox.
Definition rho : row := combine K (a_st ++ o).
Definition din : row := combine (flat_map (kin n cf) P ++ cur) (a_in ++ o).

Lemma elem_lengths :
  List.length a_in = List.length (flat_map (kin n cf) P) /\ List.length a_st = List.length (flat_map (F stab) P) /\
  List.length o = List.length cur.
Proof.
  destruct (sel_lengths n cf (F stab) indf' indf'_len P a_in a_st HS) as [L1 L2].
  split; [exact L1|]. split; [exact L2|]. unfold curbox in Ho. apply box_idx_elem_length in Ho. rewrite lens_length in Ho. exact Ho.
Qed.

Lemma rho_own f : In f (n_split nd) -> exists i, lookup rho (n, f) = Some i /\ i < key_len wf (n, f).
Proof.
  intros Hf. destruct elem_lengths as [L1 [L2 L3]]. unfold rho, K.
  assert (Hc : In (n, f) cur) by (unfold cur; apply in_map; exact Hf).
  rewrite lookup_combine_app_r; [| symmetry; exact L2 | intros H; apply flatF_bound in H; cbn in H; lia].
  destruct (lookup_combine_some cur o (n, f) Hc (eq_sym L3)) as [i Hi]. exists i. split; [exact Hi|].
  eapply lookup_lt; [|exact Hi]. apply box_idx_elem. exact Ho.
Qed.
Lemma rho_not_own f : ~ In f (n_split nd) -> lookup rho (n, f) = None.
Proof.
  intros Hf. destruct elem_lengths as [L1 [L2 L3]]. apply lookup_none. unfold rho.
  rewrite map_fst_combine by (unfold K; rewrite !app_length; lia).
  unfold K. intros H. apply in_app_or in H. destruct H as [H|H].
  - apply flatF_bound in H. cbn in H. lia.
  - unfold cur in H. apply in_map_iff in H. destruct H as [f' [E Hf']]. inversion E; subst. contradiction.
Qed.
Lemma din_none f : (forall x, In x P -> ~ In f (cf x)) -> ~ In f (n_split nd) -> lookup din (n, f) = None.
Proof.
  intros Hcf Hf. destruct elem_lengths as [L1 [L2 L3]]. apply lookup_none. unfold din.
  rewrite map_fst_combine by (rewrite !app_length; lia).
  intros H. apply in_app_or in H. destruct H as [H|H].
  - apply in_flat_map in H. destruct H as [x [Hx H]]. unfold kin in H. apply in_map_iff in H.
    destruct H as [f' [E Hf']]. inversion E; subst. exact (Hcf x Hx Hf').
  - unfold cur in H. apply in_map_iff in H. destruct H as [f' [E Hf']]. inversion E; subst. contradiction.
Qed.

Lemma key_len_flen f : key_len wf (n, f) = flen nd f.
Proof. unfold key_len, split_list, flen. cbn [fst snd]. rewrite Hnd. destruct (nth_error (n_fields nd) f) as [[z|vs|j]|]; reflexivity. Qed.

Definition sem_arg (f : nat) (b : binding) : val :=
  match b with
  | BConst z => VInt z
  | BSplit vs => VInt (nth (match lookup rho (n, leader_of nd f) with Some i => i | None => 0 end) vs 0%Z)
  | BUp j => outsel (osel_of nd f) (s_out_of stab j rho)
  end.

Lemma field_ok f b : nth_error (n_fields nd) f = Some b ->
  (match lookup (mkdict K (a_st ++ o)) (n, leader_of nd f), b with
   | Some i, BSplit vs => option_map VInt (nth_error vs i)
   | Some i, _ => None
   | None, BUp j => option_map (outsel (osel_of nd f)) (get_value_of mtab j (lookup (mkdict (keys_prev n other' P ++ cur) (a_in ++ o)) (n, f)))
   | None, BConst z => Some (VInt z)
   | None, BSplit _ => None
   end) = Some (sem_arg f b).
Proof.
  intros Hb. rewrite (mkdict_nodup _ _ K_nodup). fold rho.
  pose proof (proj1 (proj2 (proj2 nw_parts)) f b Hb) as Hkind.
  destruct b as [z|vs|x].
  - rewrite (leader_self f _ Hb) by (intros vs; discriminate). rewrite (rho_not_own f Hkind). reflexivity.
  - destruct (rho_own _ Hkind) as [i [Hi Hlt]]. rewrite Hi. cbn [sem_arg]. rewrite Hi.
    rewrite key_len_flen, leader_flen in Hlt.
    assert (EL : flen nd f = List.length vs) by (unfold flen; rewrite Hb; reflexivity).
    rewrite EL in Hlt. rewrite (nth_error_nth' vs 0%Z Hlt). reflexivity.
  - rewrite (leader_self f _ Hb) by (intros vs; discriminate). rewrite (rho_not_own f Hkind). cbn [sem_arg].
    cut (get_value_of mtab x (lookup (mkdict (keys_prev n other' P ++ cur) (a_in ++ o)) (n, f)) = Some (s_out_of stab x rho));
      [intros G; rewrite G; reflexivity|].
    assert (Hin : In (BUp x) (n_fields nd)) by (eapply nth_error_In; exact Hb).
    assert (Hlt : x < n) by (apply (proj1 nw_parts); exact Hin).
    destruct (entry_at x Hlt) as [ndx [mex [sex [E1 [E2 [E3 EO]]]]]].
    assert (EF : s_faxes_of stab x = s_faxes sex) by (unfold s_faxes_of; rewrite E3; reflexivity).
    assert (Kin_nodup : NoDup (keys_prev n other' P ++ cur)).
    { apply NoDup_app_intro.
      - unfold keys_prev. apply NoDup_flat_map; [exact HPnd | |].
        + intros y Hy. apply Injective_map_NoDup; [intros p q E; inversion E; reflexivity | exact (HPf4 y Hy)].
        + intros y y' k Hy Hy' Hne Hk Hk'. apply in_map_iff in Hk. destruct Hk as [g [<- Hg]].
          apply in_map_iff in Hk'. destruct Hk' as [g' [E Hg']]. inversion E; subst g'.
          exact (HPf3 y y' g Hy Hy' Hne Hg Hg').
      - exact (proj1 (proj2 nw_parts)).
      - intros k Hk Hc. unfold keys_prev in Hk. apply in_flat_map in Hk. destruct Hk as [y [Hy Hk]].
        apply in_map_iff in Hk. destruct Hk as [g [<- Hg]]. destruct (HPf2 y g Hy Hg) as [x' [Hg' _]].
        unfold cur in Hc. apply in_map_iff in Hc. destruct Hc as [g' [E Hg'']]. inversion E; subst g'.
        pose proof (proj1 (proj2 (proj2 nw_parts)) g _ Hg') as Hk. cbn in Hk. contradiction. }
    rewrite (mkdict_nodup _ _ Kin_nodup).
    change (combine (keys_prev n other' P ++ cur) (a_in ++ o)) with din.
    unfold get_value_of, s_out_of. rewrite E2, E3.
    assert (Hcase : s_faxes sex = [] \/ s_faxes sex <> []) by (destruct (s_faxes sex); [left; reflexivity | right; discriminate]).
    destruct Hcase as [EFX|HFX].
    + (* nothing open upstream: the whole output *)
      rewrite din_none; [apply (get_value_none_closed wf _ _ _ _ _ EO); exact EFX | | exact Hkind].
      intros y Hy Hfy. destruct (HPf2 y f Hy Hfy) as [x' [Hx' HFx']]. rewrite Hb in Hx'. inversion Hx'; subst x'.
      unfold F in HFx'. rewrite EF, EFX in HFx'. contradiction.
    + assert (HFx : F stab x <> []) by (unfold F; rewrite EF; exact HFX).
      destruct (HPf1 f x Hb HFx) as [p [Hp [Hfp EFp]]].
      destruct (sel_lookup n cf (F stab) indf' indf'_len P a_in a_st HS HPnd
                  (fun a b g Ha Hb' Hne => HPf3 a b g Ha Hb' Hne)
                  (fun a b k Ha Hb' Hne => HPd a b k Ha Hb' Hne)
                  cur o cur o p Hp) as [i [t [Hi [Ht [L1 L2]]]]].
      unfold din.
      rewrite (L1 f Hfp).
      unfold indf' in Hi, Ht. rewrite <- EFp in Hi, Ht. unfold F in Hi, Ht. rewrite EF in Hi, Ht.
      rewrite (get_value_some wf _ _ _ _ _ EO i HFX Hi). f_equal.
      rewrite (box_nth wf _ _ Hi). rewrite (nth_error_nth _ _ _ Ht).
      apply (eo_out_ext wf _ _ _ _ _ EO). apply agree_iff. intros k Hk.
      unfold rho, K. symmetry. rewrite <- EF in Hk. fold (F stab x) in Hk. rewrite EFp in Hk.
      rewrite (L2 k Hk). rewrite <- EFp. unfold F. rewrite EF. reflexivity.
Qed.
End Elem.

Lemma job_args_ok a_in a_st o :
  sel cf indf' P a_in a_st -> In o curbox ->
  forall fields' f0,
  (forall i b, nth_error fields' i = Some b -> nth_error (n_fields nd) (f0 + i) = Some b) ->
  all_some (job_args wf mtab n nd f0 fields' (mkdict (keys_prev n other' P ++ cur) (a_in ++ o)) (mkdict K (a_st ++ o)))
  = Some (sem_args stab n nd f0 fields' (rho a_st o)).
Proof.
  intros HS Ho. induction fields' as [|b fields' IH]; intros f0 H; [reflexivity|].
  cbn [job_args sem_args all_some].
  pose proof (H 0 b eq_refl) as Hb. rewrite Nat.add_0_r in Hb.
  rewrite (field_ok a_in a_st o HS Ho f0 b Hb).
  rewrite IH by (intros i b' Hi; specialize (H (S i) b' Hi); rewrite <- Nat.add_succ_comm in H; exact H).
  destruct b; reflexivity.
Qed.

Lemma job_ok a_in a_st o :
  sel cf indf' P a_in a_st -> In o curbox ->
  job_of wf mtab n nd (mkdict (keys_prev n other' P ++ cur) (a_in ++ o), mkdict K (a_st ++ o))
  = Some (s_sem se' (combine K (a_st ++ o))).
Proof.
  intros HS Ho. unfold job_of. cbn [fst snd].
  rewrite (job_args_ok a_in a_st o HS Ho (n_fields nd) 0) by (intros i b Hi; exact Hi). reflexivity.
Qed.

Lemma jobs_ok :
  all_some (map (job_of wf mtab n nd)
     (combine (map (mkdict (keys_prev n other' P ++ cur)) (prod2 (prods (map (idx_cols mtab other') P)) curbox))
              (map (mkdict K) (prod2 (prods (map (ent_indf mtab) P)) curbox))))
  = Some (map (s_sem se') (box wf K)).
Proof.
  rewrite combine_map.
  rewrite (map_ext_in (idx_cols mtab other') (cols cf indf')) by (intros x Hx; apply cols_eq; apply HPu; exact Hx).
  rewrite (map_ext_in (ent_indf mtab) indf') by (intros x Hx; apply up_ent_indf; apply HPu; exact Hx).
  rewrite combine_prod2 by reflexivity.
  destruct (combine_prods (cols cf indf') indf' P) as [CP CL].
  { intros x _. unfold cols. rewrite map_length, seq_length. reflexivity. }
  rewrite CP. rewrite map_map.
  rewrite (all_some_map _ (fun p => s_sem se' (combine K (snd p)))).
  - f_equal. rewrite <- (map_map snd (fun t => s_sem se' (combine K t))).
    rewrite <- CP, <- combine_prod2 by reflexivity.
    rewrite map_snd_combine by (rewrite !prod2_length, CL; lia).
    rewrite TST'_eq.
    unfold box. rewrite map_map. reflexivity.
  - intros [tin tst] Hp. apply In_pprod2 in Hp. destruct Hp as [[a_in a_st] [[o o'] [H1 [H2 E]]]].
    cbn [fst snd] in E. inversion E; subst tin tst. apply In_combine_same in H2. destruct H2 as [<- Ho].
    apply In_pprods_sel in H1. cbn [fst snd]. apply job_ok; assumption.
Qed.

(* --- the new spec entry --- *)
Lemma F_incl_K x : In (BUp x) (n_fields nd) -> incl (F stab x) K.
Proof.
  intros Hb k Hk. unfold K. apply in_or_app. left. rewrite <- HPa. exact (up_axes_incl stab _ x Hb k Hk).
Qed.
Lemma sem_args_ext r1 r2 : agree K r1 r2 = true ->
  forall fields' f0, (forall i b, nth_error fields' i = Some b -> nth_error (n_fields nd) (f0 + i) = Some b) ->
  sem_args stab n nd f0 fields' r1 = sem_args stab n nd f0 fields' r2.
Proof.
  intros HA. rewrite agree_iff in HA.
  induction fields' as [|b fields' IH]; intros f0 H; [reflexivity|]. cbn [sem_args].
  pose proof (H 0 b eq_refl) as Hb. rewrite Nat.add_0_r in Hb.
  rewrite IH by (intros i b' Hi; specialize (H (S i) b' Hi); rewrite <- Nat.add_succ_comm in H; exact H).
  f_equal. destruct b as [z|vs|x]; [reflexivity| |].
  - pose proof (proj1 (proj2 (proj2 nw_parts)) f0 _ Hb) as Hk. cbn in Hk.
    rewrite (HA (n, leader_of nd f0)); [reflexivity|]. unfold K. apply in_or_app. right. unfold cur. apply in_map. exact Hk.
  - f_equal.
    assert (Hin : In (BUp x) (n_fields nd)) by (eapply nth_error_In; exact Hb).
    assert (Hlt : x < n) by (apply (proj1 nw_parts); exact Hin).
    destruct (entry_at x Hlt) as [ndx [mex [sex [E1 [E2 [E3 EO]]]]]].
    unfold s_out_of. rewrite E3. apply (eo_out_ext wf _ _ _ _ _ EO). apply agree_iff. intros k Hk.
    apply HA. apply (F_incl_K x Hin). unfold F, s_faxes_of. rewrite E3. exact Hk.
Qed.

Lemma filter_true {A} (l : list A) : filter (fun _ => true) l = l.
Proof. induction l; cbn; congruence. Qed.

Lemma faxes_eq : s_faxes se' = filter (fun k => negb (memk k (n_comb nd))) K.
Proof. rewrite <- axes_eq. reflexivity. Qed.

Lemma U_nil_of_P_nil : P = [] -> U = [].
Proof.
  intros EP. destruct U as [|x l] eqn:EU; [reflexivity|]. exfalso.
  assert (Hx : In x U) by (rewrite EU; left; reflexivity). apply ups_in in Hx. destruct Hx as [Hb HF].
  pose proof (up_axes_incl stab _ x Hb) as Hi. rewrite HPa, EP in Hi. cbn in Hi.
  unfold F in HF. destruct (s_faxes_of stab x) as [|k r]; [contradiction|]. apply (Hi k). left; reflexivity.
Qed.
Lemma P_nil_of_flat_nil : flat_map (F stab) P = [] -> P = [].
Proof.
  intros E. destruct P as [|x l] eqn:EP; [reflexivity|]. exfalso.
  assert (Hx : In x U) by (apply HPu; left; reflexivity). apply ups_in in Hx. destruct Hx as [_ Hx].
  cbn in E. apply app_eq_nil in E. destruct E as [E _]. contradiction.
Qed.
Lemma K_nil_iff : K = [] <-> (n_split nd = [] /\ n_comb nd = [] /\ other0 = []).
Proof.
  split.
  - intros E. unfold K in E. apply app_eq_nil in E. destruct E as [E1 E2].
    assert (EU : U = []) by (apply U_nil_of_P_nil, P_nil_of_flat_nil; exact E1).
    split; [|split].
    + unfold cur in E2. destruct (n_split nd); [reflexivity | discriminate E2].
    + pose proof (proj2 (proj2 (proj2 (proj2 (proj2 nw_parts))))) as Hc. rewrite axes_eq in Hc. unfold K in Hc.
      rewrite E1, E2 in Hc. destruct (n_comb nd) as [|k r]; [reflexivity|]. exfalso. apply (Hc k). left; reflexivity.
    + pose proof other0_fst as H. rewrite EU in H. destruct other0; [reflexivity | discriminate H].
  - intros [E1 [E2 E3]]. unfold K, cur. rewrite E1. pose proof other0_fst as H. rewrite E3 in H. cbn in H.
    assert (EP : P = []).
    { destruct P as [|x l] eqn:EP; [reflexivity|]. exfalso. assert (Hx : In x U) by (apply HPu; left; reflexivity).
      rewrite <- H in Hx. exact Hx. }
    rewrite EP. reflexivity.
Qed.

Lemma new_entry_common me :
  (K = [] -> me = MStateless (s_sem se' [])) ->
  (K <> [] -> exists s, me = MState s /\ state_ok wf (stab ++ [se']) n nd se' s) ->
  entry_ok wf (stab ++ [se']) n nd me se'.
Proof.
  intros H1 H2. constructor.
  - rewrite axes_eq. exact K_nodup.
  - intros k Hk. rewrite axes_eq in Hk. unfold K in Hk. apply in_app_or in Hk. destruct Hk as [Hk|Hk].
    + apply flatF_bound in Hk. lia.
    + apply cur_fst in Hk. lia.
  - unfold se', spec_entry. cbn [s_axes]. rewrite up_axes_ext; [reflexivity|].
    intros x Hx. rewrite <- Hn. apply (proj1 nw_parts). exact Hx.
  - reflexivity.
  - exact (proj2 (proj2 (proj2 (proj2 (proj2 nw_parts))))).
  - intros r1 r2 HA. rewrite axes_eq in HA. unfold se', spec_entry. cbn [s_sem]. f_equal.
    apply sem_args_ext; [exact HA | intros i b Hi; exact Hi].
  - intros rho0. reflexivity.
  - intros E. rewrite axes_eq in E. exact (H1 E).
  - intros E. rewrite axes_eq in E. exact (H2 E).
Qed.

Lemma ups_ext1 : ups (stab ++ [se']) (n_fields nd) = U.
Proof. apply ups_ext. intros x Hx. rewrite <- Hn. apply (proj1 nw_parts). exact Hx. Qed.

(* --- the model's step --- *)
Lemma step_abs : exists me, step wf mtab n nd = Some me /\ entry_ok wf (stab ++ [se']) n nd me se'.
Proof.
  unfold step. fold other0.
  destruct (is_nil (n_split nd) && is_nil (n_comb nd) && is_nil other0) eqn:EC.
  - (* no state: the single job *)
    apply andb_true_iff in EC. destruct EC as [EC E3]. apply andb_true_iff in EC. destruct EC as [E1 E2].
    apply is_nil_true in E1, E2, E3.
    assert (EK : K = []) by (apply K_nil_iff; auto).
    assert (EU : U = []) by (rewrite <- other0_fst, E3; reflexivity).
    assert (EP : P = []).
    { destruct P as [|x l] eqn:EP; [reflexivity|]. exfalso. assert (Hx : In x U) by (apply HPu; left; reflexivity).
      rewrite EU in Hx. exact Hx. }
    assert (Ecur : cur = []) by (unfold cur; rewrite E1; reflexivity).
    assert (HS : sel cf indf' P [] []) by (rewrite EP; split; reflexivity).
    assert (Ho : In [] curbox) by (unfold curbox; rewrite Ecur; left; reflexivity).
    exists (MStateless (s_sem se' [])). split.
    + unfold resolve_all.
      pose proof (job_args_ok [] [] [] HS Ho (n_fields nd) 0 (fun i b Hi => Hi)) as G.
      unfold rho in G. rewrite EK, EP, Ecur in G. cbn [app flat_map keys_prev mkdict mkdict_from combine] in G.
      rewrite G. reflexivity.
    + apply new_entry_common; [reflexivity | intros H; contradiction].
  - assert (HK : K <> []).
    { intros E. apply K_nil_iff in E. destruct E as [E1 [E2 E3]]. rewrite E1, E2, E3 in EC. discriminate EC. }
    rewrite HPc. unfold build_state. rewrite ZL. cbn [negb].
    assert (EP : flat_map (ent_rpnf mtab) P = flat_map (F stab) P).
    { apply flat_map_ext_in. intros x Hx. apply ent_rpnf_eq. apply HPu in Hx. apply ups_in in Hx. apply (proj1 nw_parts). tauto. }
    assert (EKf : flat_map (ent_keysf mtab) P = flat_map (F stab) P).
    { apply flat_map_ext_in. intros x Hx. apply up_ent_keysf. apply HPu. exact Hx. }
    rewrite EP, EKf. fold cur. fold K. change (box_idx (map (key_len wf) cur)) with curbox.
    assert (Hin : (if is_nil other' then map (mkdict K) (prod2 (prods (map (ent_indf mtab) P)) curbox)
                   else map (mkdict (keys_prev n other' P ++ cur)) (prod2 (prods (map (idx_cols mtab other') P)) curbox))
                  = map (mkdict (keys_prev n other' P ++ cur)) (prod2 (prods (map (idx_cols mtab other') P)) curbox)).
    { destruct (is_nil other') eqn:E; [|reflexivity]. apply is_nil_true in E.
      pose proof (HPo E) as EPn. rewrite EPn. unfold K. rewrite EPn. reflexivity. }
    rewrite Hin, jobs_ok.
    eexists. split; [reflexivity|]. apply new_entry_common; [intros E; contradiction|]. intros _.
    eexists. split; [reflexivity|]. constructor; cbn [m_other m_prev m_cur m_comb m_rpnf m_keys m_sind m_keysf m_indf m_sindf m_jobs].
    + rewrite ups_ext1. exact HPu.
    + rewrite ups_ext1. exact HPn.
    + rewrite ups_ext1. exact HPs.
    + reflexivity.
    + reflexivity.
    + rewrite faxes_eq. reflexivity.
    + rewrite axes_eq. reflexivity.
    + rewrite axes_eq, TST_eq. unfold box. apply map_ext. intros t. apply mkdict_nodup. exact K_nodup.
    + rewrite faxes_eq. destruct (n_comb nd) as [|c0 cs]; [|reflexivity]. cbn. rewrite filter_true. reflexivity.
    + rewrite faxes_eq, TST_eq. destruct (n_comb nd) as [|c0 cs] eqn:ECb; cbn [is_nil negb andb].
      * cbn. rewrite filter_true. reflexivity.
      * destruct (is_nil (filter (fun k => negb (memk k (c0 :: cs))) K)); reflexivity.
    + rewrite faxes_eq, TST_eq. destruct (n_comb nd) as [|c0 cs] eqn:ECb; cbn [is_nil].
      * cbn. rewrite filter_true. reflexivity.
      * reflexivity.
    + rewrite axes_eq. reflexivity.
Qed.
End Abs.

(* --- separate origins: nothing is removed, nothing merged --- *)
Section Sep.
Hypothesis SH : pairwise (sep_ok wf stab) U = true.

Lemma sep_spec x y : In x U -> In y U -> x <> y ->
  (forall k, In k (F stab x) -> ~ In k (F stab y)) /\ ~ In x (ups stab (n_fields (node_at wf y))).
Proof.
  intros Hx Hy Hne. pose proof (pairwise_spec _ _ SH x y Hx Hy Hne) as H. unfold sep_ok, parents in H.
  apply andb_true_iff in H. destruct H as [H1 H2]. split.
  - intros k Hk. unfold disjointk in H1. rewrite forallb_forall in H1. specialize (H1 k Hk).
    apply negb_true_iff in H1. apply memk_false in H1. exact H1.
  - apply negb_true_iff in H2. apply memn_false in H2. exact H2.
Qed.

Lemma up_axes_eq : up_axes stab (n_fields nd) = flat_map (F stab) U.
Proof.
  apply up_axes_flat; [exact up_faxes_nodup|].
  intros x y Hx Hy Hne k Hk Hky.
  assert (HFx : F stab x <> []) by (intros E; rewrite E in Hk; exact Hk).
  assert (HFy : F stab y <> []) by (intros E; rewrite E in Hky; exact Hky).
  exact (proj1 (sep_spec x y (proj2 (ups_in _ _ _) (conj Hx HFx)) (proj2 (ups_in _ _ _) (conj Hy HFy)) Hne) k Hk Hky).
Qed.


Lemma cf0_spec x f : In f (fields_of other0 x) <-> nth_error (n_fields nd) f = Some (BUp x) /\ F stab x <> [].
Proof. unfold other0. apply upstream_fields. intros y Hy. apply ent_rpnf_eq. apply (proj1 nw_parts). exact Hy. Qed.

Lemma connect_ok : connect mtab other0 = Some (U, other0).
Proof.
  rewrite <- other0_fst. apply connect_id. rewrite other0_fst. intros el Hel.
  apply filter_nil. intros z Hz. apply (up_ent_prev_incl el z Hel) in Hz.
  destruct (memn z (filter (fun e => is_nil (ent_other mtab e)) U)) eqn:E; [|reflexivity]. exfalso.
  apply memn_In in E. apply filter_In in E. destruct E as [HzU _].
  assert (Hne : z <> el).
  { intros ->. destruct (up_state el Hel) as [ndx [sex [s [Hlt [E1 _]]]]].
    apply ups_in in Hz. destruct Hz as [Hz _]. unfold node_at in Hz. rewrite (nth_error_nth _ _ _ E1) in Hz.
    pose proof (FL el ndx E1 el Hz). lia. }
  exact (proj2 (sep_spec z el HzU Hel Hne) Hz).
Qed.


Lemma step_ok : exists me, step wf mtab n nd = Some me /\ entry_ok wf (stab ++ [se']) n nd me se'.
Proof.
  apply (step_abs U other0).
  - destruct (is_nil other0) eqn:E; [|exact connect_ok]. apply is_nil_true in E.
    pose proof other0_fst as H. rewrite E in H. cbn in H. rewrite <- H, E. reflexivity.
  - apply incl_refl.
  - apply ups_nodup.
  - intros p q k Hp Hq Hne. exact (proj1 (sep_spec p q Hp Hq Hne) k).
  - exact up_axes_eq.
  - intros f x Hb HF. exists x. split; [apply ups_in; split; [eapply nth_error_In; exact Hb | exact HF]|].
    split; [apply cf0_spec; split; assumption | reflexivity].
  - intros p f _ Hf. apply cf0_spec in Hf. exists p. exact Hf.
  - intros p q f _ _ Hne Hp Hq. apply cf0_spec in Hp. apply cf0_spec in Hq. destruct Hp as [Hp _], Hq as [Hq _]. congruence.
  - intros p _. apply upstream_nodup.
  - intros E. rewrite <- other0_fst, E. reflexivity.
  - intros E. pose proof other0_fst as H. rewrite E in H. destruct other0; [reflexivity | discriminate H].
  - intros _. split; [reflexivity | exact other0_fst].
Qed.
End Sep.

(* --- the one shared origin the code aligns: a state x and a node y that only hands x's state on --- *)
Section Relay.
Variables x y : nat.
Hypothesis HU : U = [x; y] \/ U = [y; x].
Hypothesis HR : relays wf stab x y = true.

Lemma relay_parts :
  parents wf stab x = [] /\ parents wf stab y = [x] /\ n_split (node_at wf y) = [] /\ n_comb (node_at wf y) = [].
Proof.
  pose proof HR as R. unfold relays in R.
  apply andb_true_iff in R. destruct R as [R R4]. apply andb_true_iff in R. destruct R as [R R3].
  apply andb_true_iff in R. destruct R as [R1 R2].
  apply is_nil_true in R1, R3, R4. split; [exact R1|]. split; [|split; assumption].
  apply (list_eqb_spec Nat.eqb Nat.eqb_eq). exact R2.
Qed.
Lemma relay_in : In x U /\ In y U /\ x <> y.
Proof.
  pose proof (ups_nodup stab (n_fields nd)) as Hnd0. fold U in Hnd0.
  destruct HU as [E|E]; rewrite E in *; inversion Hnd0 as [|? ? Hn0 _]; subst; cbn in Hn0;
    (split; [cbn; tauto|]); (split; [cbn; tauto|]); intros ->; apply Hn0; left; reflexivity.
Qed.

Lemma relay_x_other : ent_other mtab x = [].
Proof.
  destruct relay_in as [Hx _]. destruct (up_state x Hx) as [ndx [sex [s [Hlt [E1 [E2 [E3 [EO [SO [HF EF]]]]]]]]]].
  unfold ent_other, ent. rewrite E2. apply (so_other_nil _ _ _ _ _ _ SO).
  pose proof (proj1 relay_parts) as Hp. unfold parents, node_at in Hp. rewrite (nth_error_nth _ _ _ E1) in Hp. exact Hp.
Qed.
Lemma relay_y_state :
  ent_other mtab y <> [] /\ ent_cur mtab y = [] /\ ent_prev mtab y = [x].
Proof.
  destruct relay_in as [_ [Hy _]]. destruct (up_state y Hy) as [ndy [sey [s [Hlt [E1 [E2 [E3 [EO [SO [HF EF]]]]]]]]]].
  destruct relay_parts as [_ [Hp [Hs _]]]. unfold parents, node_at in Hp, Hs. rewrite (nth_error_nth _ _ _ E1) in Hp, Hs.
  destruct (so_exact _ _ _ _ _ _ SO) as [X1 X2]; [rewrite Hp; cbn; lia|].
  unfold ent_other, ent_cur, ent_prev, ent. rewrite E2. split; [|split].
  - intros E. rewrite E, Hp in X2. discriminate X2.
  - rewrite (so_cur _ _ _ _ _ _ SO), Hs. reflexivity.
  - rewrite X1, Hp. reflexivity.
Qed.

Lemma up_axes_const stab0 fields A :
  NoDup A -> (forall j, In (BUp j) fields -> s_faxes_of stab0 j = [] \/ s_faxes_of stab0 j = A) ->
  (exists j, In (BUp j) fields /\ s_faxes_of stab0 j = A) -> up_axes stab0 fields = A.
Proof.
  intros HA Hall Hex. unfold up_axes.
  assert (G : forall fs a, (a = [] \/ a = A) -> (forall j, In (BUp j) fs -> s_faxes_of stab0 j = [] \/ s_faxes_of stab0 j = A) ->
     let r := fold_left (fun a b => match b with BUp j => add_new a (s_faxes_of stab0 j) | _ => a end) fs a in
     (r = [] \/ r = A) /\ (a = A -> r = A) /\ ((exists j, In (BUp j) fs /\ s_faxes_of stab0 j = A) -> r = A)).
  { induction fs as [|b fs IH]; intros a Ha Hfs; cbn [fold_left].
    - split; [exact Ha|]. split; [auto|]. intros [j [[] _]].
    - set (a' := match b with BUp j => add_new a (s_faxes_of stab0 j) | _ => a end).
      assert (Ha' : (a' = [] \/ a' = A) /\ (a = A -> a' = A) /\ (forall j, b = BUp j -> s_faxes_of stab0 j = A -> a' = A)).
      { unfold a'. destruct b as [z|vs|j]; [repeat split; auto; intros j E; discriminate E | repeat split; auto; intros j E; discriminate E |].
        destruct (Hfs j (or_introl eq_refl)) as [E|E]; rewrite E.
        - rewrite add_new_nil. repeat split; auto. intros j' Ej EA. inversion Ej; subst j'. rewrite E in EA. subst A.
          destruct Ha as [->| ->]; reflexivity.
        - destruct Ha as [->| ->].
          + rewrite add_new_fresh by (try exact HA; intros k _ []). cbn. repeat split; auto.
          + rewrite add_new_absorb by apply incl_refl. repeat split; auto. }
      destruct Ha' as [A1 [A2 A3]].
      destruct (IH a' A1 (fun j Hj => Hfs j (or_intror Hj))) as [I1 [I2 I3]]. split; [exact I1|]. split.
      + intros E. apply I2. apply A2. exact E.
      + intros [j [[Ej|Hj] EA]]; [apply I2; apply (A3 j Ej EA) | apply I3; exists j; split; assumption]. }
  destruct (G fields [] (or_introl eq_refl) Hall) as [_ [_ G3]]. apply G3. exact Hex.
Qed.

Lemma relay_F : F stab y = F stab x.
Proof.
  destruct relay_in as [Hx [Hy Hne]]. destruct (up_state y Hy) as [ndy [sey [s [Hlt [E1 [E2 [E3 [EO [SO [HF EF]]]]]]]]]].
  destruct relay_parts as [_ [Hp [Hs Hc]]]. unfold parents, node_at in Hp, Hs, Hc. rewrite (nth_error_nth _ _ _ E1) in Hp, Hs, Hc.
  unfold F at 1. rewrite EF. rewrite (eo_comb_nil_faxes wf _ _ _ _ _ EO Hc), (eo_axes _ _ _ _ _ _ EO), Hs. cbn [map]. rewrite app_nil_r.
  assert (Hxin : In x (ups stab (n_fields ndy))) by (rewrite Hp; left; reflexivity).
  apply ups_in in Hxin. destruct Hxin as [Hbx HFx].
  apply up_axes_const.
  - destruct relay_in as [Hx' _]. apply up_faxes_nodup. apply ups_in in Hx'. tauto.
  - intros j Hj. destruct (s_faxes_of stab j) as [|k r] eqn:EJ; [left; reflexivity|]. right.
    assert (Hju : In j (ups stab (n_fields ndy))) by (apply ups_in; split; [exact Hj | unfold F; rewrite EJ; discriminate]).
    rewrite Hp in Hju. destruct Hju as [<-|[]]. unfold F. rewrite EJ. reflexivity.
  - exists x. split; [exact Hbx | reflexivity].
Qed.

Definition other1 := add_fields other0 x (fields_of other0 y).

Lemma fields_of_add_fields o j fl z :
  fields_of (add_fields o j fl) z = if Nat.eqb z j then fields_of o j ++ fl else fields_of o z.
Proof.
  unfold fields_of. induction o as [|[j' fl'] o IH]; cbn.
  - rewrite (Nat.eqb_sym j z). destruct (Nat.eqb z j); reflexivity.
  - destruct (Nat.eqb j' j) eqn:E; cbn.
    + apply Nat.eqb_eq in E; subst j'. destruct (Nat.eqb j z) eqn:E2.
      * apply Nat.eqb_eq in E2; subst. rewrite Nat.eqb_refl. reflexivity.
      * rewrite (Nat.eqb_sym z j), E2. reflexivity.
    + destruct (Nat.eqb j' z) eqn:E2.
      * apply Nat.eqb_eq in E2; subst j'. rewrite E. reflexivity.
      * exact IH.
Qed.

Lemma hist_relay l : l = [x; y] \/ l = [y; x] -> history mtab l other0 = Some ([x], other1).
Proof.
  destruct relay_in as [_ [_ Hne]]. destruct relay_y_state as [Y1 [Y2 Y3]].
  assert (Bx : is_nil (ent_other mtab x) = true) by (rewrite relay_x_other; reflexivity).
  assert (By : is_nil (ent_other mtab y) = false) by (apply is_nil_false; exact Y1).
  assert (Cy : is_nil (ent_cur mtab y) = true) by (rewrite Y2; reflexivity).
  assert (Exy : Nat.eqb x y = false) by (apply Nat.eqb_neq; exact Hne).
  assert (Eyx : Nat.eqb y x = false) by (apply Nat.eqb_neq; intros E; apply Hne; symmetry; exact E).
  intros [-> | ->]; unfold history; cbn [filter]; rewrite Bx, By, Cy; cbn [negb andb filter fold_left];
    rewrite Y3; cbn [filter memn existsb]; rewrite Nat.eqb_refl; cbn [orb is_nil forallb andb fold_left remove1];
    rewrite ?Exy, ?Eyx, ?Nat.eqb_refl; reflexivity.
Qed.

Lemma connect_relay : connect mtab other0 = Some ([x], other1).
Proof.
  destruct relay_in as [_ [_ Hne]].
  assert (Exy : Nat.eqb x y = false) by (apply Nat.eqb_neq; exact Hne).
  assert (Eyx : Nat.eqb y x = false) by (apply Nat.eqb_neq; intros E; apply Hne; symmetry; exact E).
  unfold connect. rewrite other0_fst. rewrite (hist_relay U HU).
  destruct HU as [E|E]; rewrite E; cbn [filter memn existsb negb orb]; rewrite ?Exy, ?Eyx, ?Nat.eqb_refl; cbn [negb orb];
    apply hist_relay; right; reflexivity.
Qed.

Lemma step_relay : exists me, step wf mtab n nd = Some me /\ entry_ok wf (stab ++ [se']) n nd me se'.
Proof.
  destruct relay_in as [Hx [Hy Hne]].
  assert (HFx : forall j, In j U -> F stab j = F stab x).
  { intros j Hj. destruct HU as [E|E]; rewrite E in Hj; destruct Hj as [<-|[<-|[]]]; auto using relay_F. }
  assert (Hcf : forall f, In f (fields_of other1 x) <-> In f (fields_of other0 x) \/ In f (fields_of other0 y)).
  { intros f. unfold other1. rewrite fields_of_add_fields, Nat.eqb_refl. rewrite in_app_iff. reflexivity. }
  apply (step_abs [x] other1).
  - assert (E : is_nil other0 = false).
    { apply is_nil_false. intros E. pose proof other0_fst as H. rewrite E in H. cbn in H. rewrite <- H in Hx. exact Hx. }
    rewrite E. exact connect_relay.
  - intros p [<-|[]]. exact Hx.
  - constructor; [intros [] | constructor].
  - intros p q k [<-|[]] [<-|[]] H. contradiction.
  - cbn [flat_map]. rewrite app_nil_r. apply up_axes_const.
    + apply up_faxes_nodup. apply ups_in in Hx. tauto.
    + intros j Hj. destruct (s_faxes_of stab j) as [|k r] eqn:EJ; [left; reflexivity|]. right.
      assert (Hju : In j U) by (apply ups_in; split; [exact Hj | unfold F; rewrite EJ; discriminate]).
      rewrite <- EJ. exact (HFx j Hju).
    + exists x. split; [apply ups_in in Hx; tauto | reflexivity].
  - intros f j Hb HF. exists x. split; [left; reflexivity|].
    assert (Hju : In j U) by (apply ups_in; split; [eapply nth_error_In; exact Hb | exact HF]).
    split; [|exact (HFx j Hju)].
    apply Hcf. destruct HU as [E|E]; rewrite E in Hju; destruct Hju as [<-|[<-|[]]];
      ((left; apply cf0_spec; split; assumption) || (right; apply cf0_spec; split; assumption)).
  - intros p f [<-|[]] Hf. apply Hcf in Hf. destruct Hf as [Hf|Hf]; apply cf0_spec in Hf; [exists x | exists y]; exact Hf.
  - intros p q f [<-|[]] [<-|[]] H. contradiction.
  - intros p [<-|[]]. unfold cf, other1. rewrite fields_of_add_fields, Nat.eqb_refl. apply NoDup_app_intro.
    + apply upstream_nodup.
    + apply upstream_nodup.
    + intros f H1 H2. apply cf0_spec in H1. apply cf0_spec in H2. destruct H1 as [H1 _], H2 as [H2 _]. rewrite H1 in H2.
      inversion H2. contradiction.
  - intros E. exfalso. unfold other1 in E. destruct other0 as [|[j fl] o]; cbn in E; [discriminate E|].
    destruct (Nat.eqb j x); discriminate E.
  - intros E. rewrite E in Hx. contradiction.
  - intros L. exfalso. destruct HU as [E|E]; rewrite E in L; cbn in L; lia.
Qed.
End Relay.
End Node.
