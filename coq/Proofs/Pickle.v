(* Proofs/Pickle.v — C29 lemmas. *)
From Pydra Require Import Base.Prelude Model.Pickle Spec.Pickle.
Local Open Scope string_scope.
Local Open Scope list_scope.

Lemma val_ind2 (P : val -> Prop) :
  P VNone -> (forall n, P (VData n)) -> (forall n, P (VLive n)) -> (forall t, P (VFresh t)) ->
  (forall c l, Forall (fun kv => P (snd kv)) l -> P (VObj c l)) ->
  forall v, P v.
Proof.
  intros H0 H1 H2 H3 H4. fix IH 1. intros [|n|n|t|c l]; [exact H0|apply H1|apply H2|apply H3|].
  apply H4. induction l as [|[k x] r IHr]; constructor; [apply IH|assumption].
Qed.

Lemma mem_app k a b : mem k (a ++ b) = mem k a || mem k b.
Proof. unfold mem. apply existsb_app. Qed.

Lemma transient_false d k :
  mem k (transient d) = false ->
  mem k (d_drop d) = false /\ mem k (d_null d) = false /\ mem k (map fst (d_fresh d)) = false.
Proof.
  unfold transient. rewrite !mem_app, !orb_false_iff. tauto.
Qed.

Lemma lookup_set_other k k' v l : String.eqb k k' = false -> lookup k (set k' v l) = lookup k l.
Proof.
  intros E. induction l as [|[k0 v0] r IH]; cbn.
  - rewrite E. reflexivity.
  - destruct (String.eqb k' k0) eqn:E0; cbn.
    + apply String.eqb_eq in E0. subst. rewrite E. reflexivity.
    + destruct (String.eqb k k0); [reflexivity|assumption].
Qed.

Lemma lookup_set_same k v l : lookup k (set k v l) = Some v.
Proof.
  induction l as [|[k0 v0] r IH]; cbn.
  - rewrite String.eqb_refl. reflexivity.
  - destruct (String.eqb k k0) eqn:E0; cbn; [rewrite String.eqb_refl; reflexivity|].
    rewrite E0. assumption.
Qed.

Lemma lookup_set_all_other k fs : forall l,
  mem k (map fst fs) = false -> lookup k (set_all fs l) = lookup k l.
Proof.
  unfold set_all. induction fs as [|[k0 v0] fs IH]; intros l H; cbn in *; [reflexivity|].
  apply orb_false_iff in H. destruct H as [E H]. rewrite IH by assumption.
  apply lookup_set_other. assumption.
Qed.

(* a descriptor table is well formed when what __setstate__ pushes into a held object lands on an
   attribute that is transient for that object's class *)
Definition push_wf (desc : string -> descr) : Prop :=
  forall c ch cc ck own, In (ch, cc, ck, own) (d_push (desc c)) -> mem ck (transient (desc cc)) = true.

Lemma apply_push_lookup desc p l0 l k :
  (let '(_, cc, ck, _) := p in mem ck (transient (desc cc)) = true) ->
  opt_rel (survives desc) (lookup k l0) (lookup k l) ->
  opt_rel (survives desc) (lookup k l0) (lookup k (apply_push p l)).
Proof.
  destruct p as [[[ch cc] ck] own]. intros W H. unfold apply_push.
  destruct (lookup ch l) as [[| | | |c' a]|] eqn:Lc; try assumption.
  destruct (lookup own l) as [v|]; [|assumption].
  destruct (String.eqb c' cc) eqn:Ec; [|assumption]. apply String.eqb_eq in Ec. subst cc.
  destruct (String.eqb k ch) eqn:Ek.
  - apply String.eqb_eq in Ek. subst k. rewrite lookup_set_same. rewrite Lc in H.
    inversion H as [|x y Hxy Ex Ey]; subst. constructor.
    inversion Hxy as [| |c0 l1 l2 Hk]; subst. constructor. intros k' Hk'.
    rewrite lookup_set_other; [apply Hk; assumption|].
    destruct (String.eqb k' ck) eqn:E; [|reflexivity]. apply String.eqb_eq in E. subst. congruence.
  - rewrite lookup_set_other by assumption. assumption.
Qed.

Lemma push_all_lookup desc ps : forall l0 l k,
  (forall p, In p ps -> let '(_, cc, ck, _) := p in mem ck (transient (desc cc)) = true) ->
  opt_rel (survives desc) (lookup k l0) (lookup k l) ->
  opt_rel (survives desc) (lookup k l0) (lookup k (push_all ps l)).
Proof.
  unfold push_all. induction ps as [|p ps IH]; intros l0 l k W H; cbn; [assumption|].
  apply IH; [intros q Hq; apply W; right; assumption|].
  apply apply_push_lookup; [apply W; left; reflexivity|assumption].
Qed.

Section Facts.
  Variable desc : string -> descr.
  Variable cp : nat -> option nat.

  Lemma rt_obj c l :
    rt desc cp (VObj c l) =
    match rt_attrs desc cp (desc c) l with
    | Some st => Some (VObj c (setstate (desc c) st))
    | None => None
    end.
  Proof.
    cbn [rt].
    match goal with |- match ?f l with _ => _ end = _ =>
      assert (E : forall r, f r = rt_attrs desc cp (desc c) r) end.
    { induction r as [|[k x] r IH]; [reflexivity|]. cbn [rt_attrs]. rewrite <- IH. reflexivity. }
    rewrite E. reflexivity.
  Qed.

  (* cloudpickle is faithful on plain data: whatever it returns is what went in *)
  Hypothesis cp_faithful : forall n m, cp n = Some m -> m = n.

  Lemma rt_attrs_lookup d l :
    Forall (fun kv => forall v', rt desc cp (snd kv) = Some v' -> survives desc (snd kv) v') l ->
    forall st, rt_attrs desc cp d l = Some st ->
    forall k, mem k (d_drop d) = false -> mem k (d_null d) = false ->
    opt_rel (survives desc) (lookup k l) (lookup k st).
  Proof.
    induction 1 as [|[k0 x] r Hx _ IH]; intros st E k Hd Hn; cbn in *.
    - inversion E; subst. constructor.
    - destruct (mem k0 (d_drop d)) eqn:D0.
      + assert (String.eqb k k0 = false) as ->.
        { destruct (String.eqb k k0) eqn:Ek; [|reflexivity]. apply String.eqb_eq in Ek. subst. congruence. }
        apply IH; assumption.
      + destruct (mem k0 (d_null d)) eqn:N0.
        * destruct (rt_attrs desc cp d r) as [r'|] eqn:Er; [|discriminate]. inversion E; subst. cbn.
          assert (String.eqb k k0 = false) as ->.
          { destruct (String.eqb k k0) eqn:Ek; [|reflexivity]. apply String.eqb_eq in Ek. subst. congruence. }
          apply IH; auto.
        * destruct (rt desc cp x) as [x'|] eqn:Ex; [|discriminate].
          destruct (rt_attrs desc cp d r) as [r'|] eqn:Er; [|discriminate]. inversion E; subst. cbn.
          destruct (String.eqb k k0); [constructor; apply Hx; first [assumption|reflexivity]| apply IH; auto].
  Qed.

  Hypothesis pushes_ok : push_wf desc.

  Theorem roundtrip_nontransient : forall v v', rt desc cp v = Some v' -> survives desc v v'.
  Proof.
    induction v as [|n|n|t|c l IH] using val_ind2; intros v' E.
    - cbn in E. inversion E. constructor.
    - cbn in E. destruct (cp n) as [m|] eqn:C; [|discriminate]. inversion E; subst.
      rewrite (cp_faithful _ _ C). constructor.
    - discriminate.
    - discriminate.
    - rewrite rt_obj in E. destruct (rt_attrs desc cp (desc c) l) as [st|] eqn:Es; [|discriminate].
      inversion E; subst. constructor. intros k Hk.
      apply transient_false in Hk. destruct Hk as (Hd & Hn & Hf).
      unfold setstate. apply push_all_lookup.
      { intros [[[ch cc] ck] own] Hin. eapply pushes_ok; eassumption. }
      rewrite lookup_set_all_other by assumption.
      eapply rt_attrs_lookup; eassumption.
  Qed.

  (* what __setstate__ assigns is there afterwards (the last assignment to a key wins) *)
  Lemma recreated c l v' k x :
    rt desc cp (VObj c l) = Some v' -> d_fresh (desc c) = [(k, x)] -> d_push (desc c) = [] ->
    exists l', v' = VObj c l' /\ lookup k l' = Some x.
  Proof.
    rewrite rt_obj. destruct (rt_attrs desc cp (desc c) l) as [st|]; [|discriminate].
    intros E F G. inversion E; subst. eexists; split; [reflexivity|]. unfold setstate. rewrite F, G. cbn.
    apply lookup_set_same.
  Qed.

  (* ---- cache identity ---- *)
  Lemma survives_data_eq n v' : survives desc (VData n) v' -> v' = VData n.
  Proof. intros H. inversion H. reflexivity. Qed.

  Theorem identity_preserved (task_hash : val -> nat) c l v' n :
    identity_safe desc c = true ->
    lookup "task" l = Some (VData n) ->                    (* the task travels as cloudpickle bytes: a plain datum *)
    rt desc cp (VObj c l) = Some v' ->
    checksum task_hash v' = checksum task_hash (VObj c l).
  Proof.
    intros S T E. pose proof (roundtrip_nontransient _ _ E) as H. inversion H as [| |c0 l0 l' Hk]; subst.
    unfold identity_safe, job_reads in S. cbn in S. rewrite !andb_true_iff, !negb_true_iff in S.
    destruct S as (S1 & S2 & _).
    pose proof (Hk "_checksum" S1) as H1. pose proof (Hk "task" S2) as H2.
    rewrite T in H2. inversion H2 as [|a b Hab Ea Eb]; subst. apply survives_data_eq in Hab. subst b.
    unfold checksum. rewrite T, <- Eb.
    inversion H1 as [E1 E2|a b Hab' Ea' Eb']; [reflexivity|].
    inversion Hab'; subst; reflexivity.
  Qed.

  (* ---- when pickling is defined ---- *)
  Hypothesis cp_total : forall n, cp n <> None.

  Lemma picklable_obj c l :
    picklableb desc (VObj c l) =
    forallb (fun kv => mem (fst kv) (d_drop (desc c)) || mem (fst kv) (d_null (desc c)) || picklableb desc (snd kv)) l.
  Proof. cbn. induction l as [|[k x] r IH]; cbn; [reflexivity|]. rewrite IH. reflexivity. Qed.

  Theorem pickling_defined_iff : forall v, picklableb desc v = true <-> exists v', rt desc cp v = Some v'.
  Proof.
    induction v as [|n|n|t|c l IH] using val_ind2.
    - cbn. split; eauto.
    - cbn. split; [intros _|reflexivity]. destruct (cp n) eqn:C; [eauto|]. exfalso. eapply cp_total; eassumption.
    - cbn. split; [discriminate|intros [v' H]; discriminate].
    - cbn. split; [discriminate|intros [v' H]; discriminate].
    - rewrite picklable_obj, rt_obj.
      assert (A : forallb (fun kv => mem (fst kv) (d_drop (desc c)) || mem (fst kv) (d_null (desc c)) || picklableb desc (snd kv)) l = true
                  <-> exists st, rt_attrs desc cp (desc c) l = Some st).
      { induction IH as [|[k x] r Hx _ IHr]; cbn.
        - split; eauto.
        - rewrite andb_true_iff, IHr. cbn in Hx. destruct (mem k (d_drop (desc c))); cbn.
          + tauto.
          + destruct (mem k (d_null (desc c))); cbn.
            * split.
              -- intros [_ [st ->]]. eauto.
              -- intros [st E]. destruct (rt_attrs desc cp (desc c) r); [eauto|discriminate].
            * rewrite Hx. split.
              -- intros [[x' ->] [st ->]]. eauto.
              -- intros [st E]. destruct (rt desc cp x); [|discriminate].
                 destruct (rt_attrs desc cp (desc c) r); [eauto|discriminate]. }
      rewrite A. split.
      + intros [st ->]. eauto.
      + intros [v' E]. destruct (rt_attrs desc cp (desc c) l); [eauto|discriminate].
  Qed.
End Facts.

(* ---- the executable comparison is sound for the specification ---- *)
Lemma survivesb_obj desc c l c' l' :
  survivesb desc (VObj c l) (VObj c' l') =
  String.eqb c c' &&
  forallb (fun kv => mem (fst kv) (transient (desc c)) ||
                     match lookup (fst kv) l' with Some x' => survivesb desc (snd kv) x' | None => false end) l &&
  forallb (fun kv => mem (fst kv) (transient (desc c)) ||
                     match lookup (fst kv) l with Some _ => true | None => false end) l'.
Proof.
  cbn. f_equal. f_equal. induction l as [|[k x] r IH]; cbn; [reflexivity|]. rewrite IH. reflexivity.
Qed.

Lemma lookup_in k l v : lookup k l = Some v -> In (k, v) l.
Proof.
  induction l as [|[k0 v0] r IH]; cbn; [discriminate|].
  destruct (String.eqb k k0) eqn:E; [apply String.eqb_eq in E; subst; intros H; inversion H; auto|auto].
Qed.
Lemma lookup_none_in k l : lookup k l = None -> forall v, ~ In (k, v) l.
Proof.
  induction l as [|[k0 v0] r IH]; cbn; intros H v; [tauto|].
  destruct (String.eqb k k0) eqn:E; [discriminate|]. intros [X|X]; [inversion X; subst; rewrite String.eqb_refl in E; discriminate| eapply IH; eauto].
Qed.

Theorem survivesb_sound desc : forall a b, survivesb desc a b = true -> survives desc a b.
Proof.
  induction a as [|n|n|t|c l IH] using val_ind2; intros b H; destruct b as [|m|m|t'|c' l']; try discriminate.
  - constructor.
  - cbn in H. apply Nat.eqb_eq in H. subst. constructor.
  - rewrite survivesb_obj, !andb_true_iff in H. destruct H as [[Ec F1] F2].
    apply String.eqb_eq in Ec. subst c'. constructor. intros k Hk.
    rewrite forallb_forall in F1, F2. rewrite Forall_forall in IH.
    destruct (lookup k l) as [x|] eqn:L.
    + pose proof (lookup_in _ _ _ L) as Hin. specialize (F1 _ Hin). cbn in F1. rewrite Hk in F1. cbn in F1.
      destruct (lookup k l') as [x'|]; [|discriminate]. constructor. apply (IH _ Hin). assumption.
    + destruct (lookup k l') as [x'|] eqn:L'; [|constructor].
      pose proof (lookup_in _ _ _ L') as Hin. specialize (F2 _ Hin). cbn in F2. rewrite Hk, L in F2. discriminate.
Qed.

Lemma table_in t c : table t c = no_descr \/ exists c', In (c', table t c) t.
Proof.
  induction t as [|[c0 d0] r IH]; cbn; [auto|].
  destruct (String.eqb c c0); [right; exists c0; auto|].
  destruct IH as [H|[c' H]]; [auto|right; exists c'; auto].
Qed.

Lemma push_wfb_ok t : push_wfb t = true -> push_wf (table t).
Proof.
  unfold push_wfb, push_wf. rewrite forallb_forall. intros H c ch cc ck own Hin.
  destruct (table_in t c) as [E|[c' E]].
  - rewrite E in Hin. destruct Hin.
  - specialize (H _ E). cbn in H. rewrite forallb_forall in H. apply (H _ Hin).
Qed.

Theorem roundtrip_nontransient_table t cp :
  (forall n m, cp n = Some m -> m = n) -> push_wfb t = true ->
  forall v v', rt (table t) cp v = Some v' -> survives (table t) v v'.
Proof. intros F W. apply roundtrip_nontransient; [assumption| apply push_wfb_ok; assumption]. Qed.

Theorem identity_preserved_table t cp (task_hash : val -> nat) c l v' n :
  (forall n m, cp n = Some m -> m = n) -> push_wfb t = true ->
  identity_safe (table t) c = true -> lookup "task" l = Some (VData n) ->
  rt (table t) cp (VObj c l) = Some v' ->
  checksum task_hash v' = checksum task_hash (VObj c l).
Proof.
  intros F W. apply identity_preserved; [assumption| apply push_wfb_ok; assumption].
Qed.

(* ---- a table shaped like pydra's (the driver reads the real one off the live classes on every run) ---- *)
Definition ex_table : list (string * descr) :=
  [("Job", no_descr);
   ("Submitter", mkDescr [] ["loop"] [("loop", VFresh "loop")] [("worker", "ConcurrentFuturesWorker", "loop", "loop")]);
   ("ConcurrentFuturesWorker", mkDescr ["pool"] ["loop"] [("loop", VNone); ("pool", VFresh "pool")] []);
   ("Audit", no_descr)].
Definition ex_job : val :=
  VObj "Job" [("task", VData 1); ("submitter",
      VObj "Submitter" [("audit", VObj "Audit" [("audit_flags", VData 2)]); ("_cache_root", VData 3);
                        ("loop", VLive 1);
                        ("worker", VObj "ConcurrentFuturesWorker" [("loop", VLive 1); ("n_procs", VData 4); ("pool", VLive 2)])]);
      ("name", VData 5); ("_checksum", VNone); ("audit", VObj "Audit" [("audit_flags", VData 2)])].

Example ex_roundtrip :
  push_wfb ex_table = true /\ identity_safe (table ex_table) "Job" = true /\
  picklableb (table ex_table) ex_job = true /\
  rt (table ex_table) Some ex_job =
  Some (VObj "Job" [("task", VData 1); ("submitter",
      VObj "Submitter" [("audit", VObj "Audit" [("audit_flags", VData 2)]); ("_cache_root", VData 3);
                        ("loop", VFresh "loop");
                        ("worker", VObj "ConcurrentFuturesWorker" [("loop", VFresh "loop"); ("n_procs", VData 4); ("pool", VFresh "pool")])]);
      ("name", VData 5); ("_checksum", VNone); ("audit", VObj "Audit" [("audit_flags", VData 2)])]).
Proof. vm_compute. repeat split; reflexivity. Qed.

(* a live ResourceMonitor held by the job's Audit (F36 with AuditFlag.RESOURCE) is not transient: no pickle *)
Example ex_live_member_unpicklable :
  rt (table ex_table) Some
     (VObj "Job" [("task", VData 1); ("audit", VObj "Audit" [("audit_flags", VData 2); ("resource_monitor", VLive 3)])]) = None.
Proof. reflexivity. Qed.

Theorem required_survive t cp req c l v' :
  (forall n m, cp n = Some m -> m = n) -> push_wfb t = true -> config_safeb t req = true ->
  rt (table t) cp (VObj c l) = Some v' ->
  exists l', v' = VObj c l' /\
    forall ks k, In (c, ks) req -> In k ks -> opt_rel (survives (table t)) (lookup k l) (lookup k l').
Proof.
  intros F W S E. pose proof (roundtrip_nontransient_table t cp F W _ _ E) as H.
  inversion H as [| |c0 l0 l' Hk]; subst. exists l'. split; [reflexivity|].
  intros ks k Hc Hin. apply Hk.
  unfold config_safeb in S. rewrite forallb_forall in S. specialize (S _ Hc). cbn in S.
  rewrite forallb_forall in S. specialize (S _ Hin). apply negb_true_iff in S. exact S.
Qed.
