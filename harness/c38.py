"""C38 — mount lookup compares whole path components (pydra/utils/mount_identifier.py)."""
from .lib import coqio
from .lib.runner import Outcome, Failure

PROP = "C38"
PROPS_FILE = "Props/C38.v"
MANIFEST = dict(
    text="Theorem C38_full (Coq, closed under the global context): for every list of parsed mount lines and every "
         "path, the entry get_mount selects from parse_mount_table's output is a longest entry whose mount point is a "
         "path-component prefix of the path (default when none); C38_sibling_never_confused; "
         "C38_table_longest_first. The model (Model/Mount.v, Base/PyPath.v) is tied to the code by running "
         "parse_mount_table/get_mount/on_cifs/on_same_mount on generated mount outputs and paths and evaluating model "
         "and executable spec on the same cases inside Coq (vm_compute).",
    note="Trusted: Coq kernel + vm_compute; hand-written model of get_mount/parse_mount_table and of PurePosixPath "
         "(lexical); per-line regex not modelled; correspondence is differential testing.",
    technique="Coq proof (first match in a length-sorted table is the longest component-prefix match) + model/impl correspondence via generated cases.v",
    design="§8 Group G / C38",
)
TIE_NAME = "Model.Mount.parse_table/get_mount vs MountIndentifier.parse_mount_table/get_mount"
TRUSTED = [
    "Model/Mount.v + Base/PyPath.v: hand-written model of parse_mount_table (after the per-line regex), get_mount, "
    "on_cifs, on_same_mount and of PurePosixPath parsing / is_relative_to / str()",
    "the per-line regex of parse_mount_table is not modelled: the harness knows which (path, fstype) it wrote on each line",
]
ASSUMPTIONS = ["mount points and paths are byte strings without NUL; '//'-rooted paths are modelled as pathlib does"]
RULE = ("generated `mount` outputs (Linux and macOS line formats, 1-7 lines, mount points sharing string prefixes, "
        "fstypes incl. cifs/CIFS) parsed by parse_mount_table, then 6 paths per table built from the mount points "
        "(exact, child, sibling sharing a string prefix, '..', doubled slashes, relative); non-trivial = the table is "
        "non-empty and the path string-prefix-matches some mount point")

POINTS = ["/", "/data", "/data2", "/data/sub", "/data/sub2", "/data/sub/deep", "/mnt", "/mnt/c", "/mnt/cifs",
          "/mnt/cifs2", "/da", "/home/u", "/home/user", "/datax/y"]
FSTYPES = ["cifs", "CIFS", "ext4", "nfs", "tmpfs", "Cifs", "cifs2"]
SUFFIX = ["", "/", "/x", "/x/y.txt", "2/x", "x", "/../x", "//x", "/./x", "_b/f", "/sub", "/sub2/f", ".bak"]


def gen_table(rng):
    n = rng.choice([0, 1, 1, 2, 3, 4, 5, 7])
    pts = rng.sample(POINTS, min(n, len(POINTS)))
    lines, matches = [], []
    for p in pts:
        t = rng.choice(FSTYPES if rng.random() < 0.5 else ["cifs", "ext4"])
        if rng.random() < 0.7:
            lines.append("//srv/share%d on %s type %s (rw,relatime)" % (rng.randrange(9), p, t))
        else:
            lines.append("/dev/disk%d on %s (%s, local, journaled)" % (rng.randrange(9), p, t))
        matches.append((p, t))
    if rng.random() < 0.2:
        lines.insert(rng.randrange(len(lines) + 1), "garbage line without the keyword")
    return "\n".join(lines), matches


def gen_paths(rng, matches):
    out = []
    for _ in range(6):
        base = rng.choice([m[0] for m in matches] + POINTS[:6]) if matches else rng.choice(POINTS)
        r = rng.random()
        if r < 0.08:
            out.append(rng.choice(["rel/x", "data/x", ".", ""]))
        elif r < 0.12:
            out.append("/" + base + rng.choice(SUFFIX))          # '//'-rooted
        else:
            out.append((base if base != "/" else "") + rng.choice(SUFFIX) or "/")
    return out


def enc_table(t):
    return coqio.lst([coqio.pair(coqio.string(p), coqio.string(ty)) for p, ty in t])


SPEC_TABLE_DEF = """
Definition spec_table (matches : table) : table :=
  let cifs := map fst (filter (fun e => String.eqb (lower (snd e)) "cifs") matches) in
  filter (fun m => existsb (fun p => str_prefix p (fst m)) cifs) matches.
"""


def run(ctx):
    from pydra.utils.mount_identifier import MountIndentifier as M
    rng = ctx.rng
    n = ctx.budget(400, 6000)
    cases, meta = [], []
    dist = {"tables_empty": 0, "paths_matching_some_mount": 0, "paths_default": 0, "lines_macos": 0}
    seen = set()
    nontrivial = 0
    corpus = [(c["output"], [tuple(m) for m in c["matches"]], c["paths"]) for c in ctx.corpus()]
    for i in range(n):
        if i < len(corpus):
            output, matches, paths = corpus[i]
        else:
            output, matches = gen_table(rng)
            paths = gen_paths(rng, matches)
        table = [tuple(x) for x in M.parse_mount_table(0, output)]
        dist["tables_empty"] += not table
        dist["lines_macos"] += output.count("journaled")
        obs = []
        with M.patch_table(table):
            for p in paths:
                mp, ty = M.get_mount(p)
                obs.append((p, (str(mp), ty), M.on_cifs(p), M.on_same_mount(p, paths[0])))
                if (str(mp), ty) == ("/", "ext4") and ("/", "ext4") not in table:
                    dist["paths_default"] += 1
                else:
                    dist["paths_matching_some_mount"] += 1
                key = (tuple(table), p)
                if key not in seen:
                    seen.add(key)
                    if table and any(p.startswith(m[0]) for m in table):
                        nontrivial += 1
        cases.append(coqio.pair(
            enc_table(matches), enc_table(table),
            coqio.lst([coqio.pair(coqio.string(p), coqio.pair(coqio.string(o[0]), coqio.string(o[1])),
                                  coqio.boolean(c), coqio.boolean(s)) for p, o, c, s in obs]),
            coqio.string(paths[0])))
        meta.append({"output": output, "matches": matches, "paths": paths, "table": table,
                     "observed": [[p, list(o), c, s] for p, o, c, s in obs]})
    ety = "(string * string)"
    extra = """
Definition entry_eqb (a b : %s) : bool := String.eqb (fst a) (fst b) && String.eqb (snd a) (snd b).
Definition case_t := (table * table * list (string * %s * bool * bool) * string)%%type.
Definition tie_ok (c : case_t) : bool :=
  let '(matches, tab, obs, p0) := c in
  list_eqb entry_eqb (parse_table matches) tab &&
  forallb (fun o => let '(p, e, cifs, same) := o in
     entry_eqb (get_mount tab p) e && Bool.eqb (on_cifs tab p) cifs && Bool.eqb (on_same_mount tab p p0) same) obs.
(* reference reading of "the mount table as parsed": the (mount point, fstype) pairs of the mount lines that lie
   under a CIFS mount (what parse_mount_table documents), as a set, in line order, with no sorting; the lookup
   is then judged against THAT table, so losing or inventing entries while parsing shows up as a wrong mount *)
Definition spec_table (matches : table) : table :=
  let cifs := map fst (filter (fun e => String.eqb (lower (snd e)) "cifs") matches) in
  filter (fun m => existsb (fun p => str_prefix p (fst m)) cifs) matches.
Definition spec_ok (c : case_t) : bool :=
  let '(matches, tab, obs, p0) := c in
  let st := spec_table matches in
  forallb (fun o => let '(p, e, cifs, same) := o in
     entry_eqb (spec_mount st p) e
     && Bool.eqb cifs (String.eqb (snd (spec_mount st p)) "cifs")
     && Bool.eqb same (String.eqb (fst (spec_mount st p)) (fst (spec_mount st p0)))) obs.
""" % (ety, ety)
    res = coqio.run_cases(ctx.scratch, "c38", ["Base.PyPath", "Model.Mount", "Spec.Mount"], "case_t", cases,
                          {"tie": "tie_ok", "spec": "spec_ok"}, extra=extra)
    out = Outcome(evaluations=sum(len(m["paths"]) for m in meta), distinct_nontrivial=nontrivial, rule=RULE,
                  samples=[{"mount_output": m["output"], "paths": m["paths"], "observed": m["observed"]} for m in meta[:3]],
                  distribution=dist, traces_validated=len(meta))
    for kind in ("spec", "tie"):
        for i in res[kind][:20]:
            m = meta[i]
            exp = coqio.eval_terms(ctx.scratch, "x%d" % i, ["Base.PyPath", "Model.Mount", "Spec.Mount"],
                                   ["(parse_table %s, map (%s %s) %s)" % (
                                       enc_table(m["matches"]), "spec_mount" if kind == "spec" else "get_mount",
                                       ("(spec_table %s)" % enc_table(m["matches"])) if kind == "spec" else enc_table(m["table"]),
                                       coqio.lst([coqio.string(p) for p in m["paths"]]))],
                                   extra=SPEC_TABLE_DEF)
            out.failures.append(Failure(case={"output": m["output"], "matches": m["matches"], "paths": m["paths"]},
                                        observed={"table": m["table"], "lookups": m["observed"]},
                                        expected=exp[0], kind=kind,
                                        note="longest component-prefix mount" if kind == "spec" else "model/impl"))
    return out


def replay(ctx, payload):
    from pydra.utils.mount_identifier import MountIndentifier as M
    c = payload["case"]
    table = [tuple(x) for x in M.parse_mount_table(0, c["output"])]
    print("implementation table:", table)
    with M.patch_table(table):
        for p in c["paths"]:
            print("  get_mount(%r) = %r" % (p, M.get_mount(p)))
    vals = coqio.eval_terms(ctx.scratch, "replay", ["Base.PyPath", "Model.Mount", "Spec.Mount"],
                            ["map (get_mount %s) %s" % (enc_table(table), coqio.lst([coqio.string(p) for p in c["paths"]])),
                             "map (spec_mount %s) %s" % (enc_table(table), coqio.lst([coqio.string(p) for p in c["paths"]]))])
    print("model:", vals[0])
    print("spec :", vals[1])
