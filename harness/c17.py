"""C17 — workflow results do not depend on worker or schedule (pydra/engine/submitter.py expand_workflow,
expand_workflow_async; pydra/workers/cf.py, debug.py)."""
from .lib import coqio, fakes
from .lib.runner import Outcome, Failure

PROP = "C17"
PROPS_FILE = "Props/C17.v"
MANIFEST = dict(
    text="PARTIAL. Coq theorem C17_confluence over the model of the two scheduling loops (Model/Sched.v): with job "
         "values an uninterpreted function of (node, index, values read from the predecessors' results when the node "
         "is started), any two asynchronous runs (any oracles, any max_concurrent) and the sequential run that end "
         "by themselves without failures produce, for every node, exactly the outputs of the reference evaluation "
         "in dependency order (C17_reference_equation characterises it); C17_confluence_total removes the "
         "'end by themselves' hypothesis (every node >= 1 job, max_concurrent >= 1, fuel >= |jobs|+1: both loops "
         "terminate for every oracle). C17_confluence_with_failures: when some jobs fail, every job that is not downstream of a failure and does not fail itself has the reference value in every run that ends by itself, whatever the oracle / max_concurrent. C17_sync_reference_any: sequential loop, zero-job nodes anywhere, outputs = reference outputs within 2(|jobs|+|nodes|)+3 passes. C17_async_reference_bounded_empty: the same for the asynchronous loop with fewer than ten empty nodes. What the model cannot exhibit: the real "
         "process pool's timing, cloudpickle transport of jobs and results between processes, file-system latency — "
         "these are covered only by the correspondence run: generated workflows executed with the debug worker, the "
         "controlled fake worker (several oracles, k) and the cf worker with 1-8 processes and several "
         "max_concurrent values; all outputs compared with each other and with the Coq reference value.",
    note="partial: pool timing / cloudpickle / fileformats are runtime; workflows are those with static job counts "
         "(split nodes combined); state-propagating shapes (split over three fields, partial combiner, element-wise "
         "downstream consumer) are compared across debug / fake (out-of-order oracles) / cf workers by the driver "
         "only (their grouping semantics is inside the uninterpreted body of the Coq model).",
    technique="Coq proof (invariant: every stored result is body applied to the stored results of the upstream jobs; induction along the topological order) + differential execution across workers",
    design="§8 Group D / C17",
)
TIE_NAME = "Model.Sched.run_async / run_sync vs Submitter loops; outputs vs Spec.Sched.reference_outputs"
TRUSTED = [
    "Model/Sched.v (+Base/SchedBase.v) hand-written model; Section variable body: uninterpreted job function, no hypothesis",
    "modelled-not-verified: lazy inputs are read from the result files when NodeExecution.start() runs (a missing "
    "result would be None in the model, RuntimeError in pydra — excluded by C15_safety); cloudpickle = identity",
    "harness/lib/fakeworker.py: the task body returns the tree [node, index, inputs] (injective tagging)",
]
ASSUMPTIONS = ["wf_graph", "no job fails; the run ends by itself (status Finished)"]
RULE = ("the outputs of one generated workflow (2-6 nodes, some split, <=10 jobs, no failures) under one "
        "(worker, schedule, max_concurrent) configuration; distinct = different (workflow, configuration, observed "
        "log); non-trivial = >=2 nodes, >=1 edge, >=3 jobs")

SPEC = """
Definition spec_ok (c : case_t) : bool :=
  (* runs whose outputs are not in the model's tree encoding (state-propagating shapes) carry no outputs here:
     they are compared with the sequential worker's outputs by the driver *)
  (c_status c =? 0) && (is_nil (c_outs c) || outs_eqb (c_outs c) (reference_outputs tv T (c_graph c))).
"""


def coerce_nodes(xs):
    """Half: declared float, returns int for even x; Pair: declared list[int], returns a tuple; Describe reports the
    values and Python types it receives (its inputs are untyped)."""
    if isinstance(xs, list):
        return [dict(id=0, kind="half", preds=[], xs=xs, njobs=len(xs)), dict(id=1, kind="pair", preds=[], xs=xs, njobs=len(xs)),
                dict(id=2, kind="describe", preds=[0, 1], njobs=1)]
    return [dict(id=0, kind="half", preds=[], x=xs, njobs=1), dict(id=1, kind="pair", preds=[], x=xs, njobs=1),
            dict(id=2, kind="describe", preds=[0, 1], njobs=1)]


def coerce_expected(xs):
    """The stored (type-coerced) values: what every worker must hand downstream and return."""
    if isinstance(xs, list):
        h, p = [x / 2 for x in xs], [[x, x + 1] for x in xs]
    else:
        h, p = xs / 2, [xs, xs + 1]
    return [repr(h), repr(p), repr("%r:%s %r:%s" % (h, type(h).__name__, p, type(p).__name__))]


def hook_nodes(xs):
    return [dict(id=0, kind="third", preds=[], xs=xs, njobs=len(xs)), dict(id=1, kind="sumup", preds=[0], njobs=1)]


def hook_expected(xs):
    """Every node carries pre_run / pre_run_task / post_run_task / post_run hooks; post_run_task rounds the output to
    two digits.  Expected under EVERY worker: rounded values, and each hook called once per job."""
    thirds = [round(float(x) / 3, 2) for x in xs]
    outs = [repr(thirds), repr(round(sum(thirds), 2))]
    calls = sorted("%s %s %s" % (h, nm, idx) for h in ("pre_run", "pre_run_task", "post_run_task", "post_run")
                   for nm, idx in [("n0", i) for i in range(len(xs))] + [("n1", None)])
    return outs, calls


def run(ctx):
    rng = ctx.rng
    # the same workflows under several configurations
    extra = []
    groups = []
    for _ in range(fakes.bud(ctx, 3, 14)):
        nodes = fakes.gen_nodes(rng)
        nj = sum(fakes.njobs(n) for n in nodes)
        grp = []
        grp.append(dict(nodes=nodes, k=None, fail=[], oracle=[], mode="sync"))
        for _ in range(2):
            grp.append(dict(nodes=nodes, k=fakes.gen_k(rng, nj), fail=[], oracle=fakes.gen_oracle(rng, nj), mode="async"))
        for n_procs in rng.sample([1, 2, 4, 8], 1 if ctx.tier == "quick" else 2):
            grp.append(dict(nodes=nodes, k=rng.choice([None, 1, 2, max(nj, 1)]), fail=[], oracle=[], mode="cf", n_procs=n_procs))
        groups.append((len(extra), len(grp)))
        extra += grp
    # state-propagating shapes: a node split over three fields with a partial combiner, read element-wise by a
    # downstream node that inherits the remaining state; out-of-order completions inside the groups
    sgroups = []
    for c in [c.get("case", c) for c in ctx.corpus()]:
        if c.get("mode") == "state":            # corpus cases get the sequential run as their reference
            sgroups.append((len(extra), 2))
            extra += [dict(nodes=c["nodes"], k=None, fail=[], oracle=[], mode="state_sync"), dict(c)]
    for _ in range(fakes.bud(ctx, 2, 14)):
        nodes = fakes.gen_state_nodes(rng)
        nj = sum(fakes.njobs(n) for n in nodes)
        grp = [dict(nodes=nodes, k=None, fail=[], oracle=[], mode="state_sync")]
        for visp in (0.0, 0.5, 1.0):
            grp.append(dict(nodes=nodes, k=rng.choice([None, None, 2, 3]), fail=[],
                            oracle=fakes.gen_oracle(rng, nj, multi=0.15, visp=visp), mode="state"))
        grp.append(dict(nodes=nodes, k=rng.choice([None, 2]), fail=[], oracle=[], mode="state_cf",
                        n_procs=rng.choice([2, 4])))
        sgroups.append((len(extra), len(grp)))
        extra += grp
    # node bodies whose return value needs coercion to the declared output type, across workers
    cgroups = []
    ccases = [c.get("case", c) for c in ctx.corpus() if c.get("case", c).get("mode", "").startswith("coerce")]
    for n in range(fakes.bud(ctx, 2, 10) + len(ccases)):
        if n < len(ccases):
            xs = ccases[n].get("xs_param")
        else:
            xs = rng.choice([rng.randint(0, 9), rng.sample(range(10), rng.randint(1, 3))])   # distinct: equal inputs = equal checksums = one job
        nodes = coerce_nodes(xs)
        nj = sum(fakes.njobs(nd) for nd in nodes)
        grp = [dict(nodes=nodes, k=None, fail=[], oracle=[], mode="coerce_sync", xs_param=xs),
               dict(nodes=nodes, k=rng.choice([None, 1, 2]), fail=[], oracle=fakes.gen_oracle(rng, nj), mode="coerce", xs_param=xs),
               dict(nodes=nodes, k=None, fail=[], oracle=[], mode="coerce_cf", n_procs=rng.choice([1, 3]), xs_param=xs)]
        cgroups.append((len(extra), len(grp), xs))
        extra += grp
    # node-level hooks that alter the outputs / record their calls, across workers
    hgroups = []
    hcorp = [c.get("case", c)["xs_param"] for c in ctx.corpus() if c.get("case", c).get("mode", "").startswith("hook")]
    for n in range(fakes.bud(ctx, 2, 10) + len(hcorp)):
        xs = hcorp[n] if n < len(hcorp) else rng.sample([1, 2, 4, 5, 7, 8, 10, 11], rng.randint(2, 3))
        nodes = hook_nodes(xs)
        grp = [dict(nodes=nodes, k=None, fail=[], oracle=[], mode="hook_sync", xs_param=xs),
               dict(nodes=nodes, k=rng.choice([None, 1, 2]), fail=[], oracle=fakes.gen_oracle(rng, len(xs) + 1), mode="hook", xs_param=xs),
               dict(nodes=nodes, k=None, fail=[], oracle=[], mode="hook_cf", n_procs=rng.choice([1, 2]), xs_param=xs)]
        hgroups.append((len(extra), len(grp), xs))
        extra += grp
    out, cases, obs, usable, bad = fakes.drive(
        ctx, "c17", SPEC, fakes.bud(ctx, 10, 150), fakes.bud(ctx, 3, 30), fakes.bud(ctx, 6, 200), RULE,
        "outputs differ from the reference evaluation of the workflow", fail_p=0.0, extra_cases=extra)
    base = len(cases) - len(extra)
    ngroups = 0
    for start, n in groups:
        outs = [(cases[base + start + j], obs[base + start + j]) for j in range(n)]
        driven = [(c, o) for c, o in outs if o.get("outcome") in ("ok", "error")]   # harness errors are reported by drive()
        vals = [o.get("outputs") for _, o in driven if o.get("outcome") == "ok"]
        ngroups += 1
        if len(vals) != len(driven) or any(v != vals[0] for v in vals):
            c0 = outs[0][0]
            out.failures.append(Failure(
                case=dict(nodes=c0["nodes"], configurations=[{k: c.get(k) for k in ("mode", "k", "n_procs")} for c, _ in outs]),
                observed=[o.get("outputs") if o.get("outcome") == "ok" else o.get("msg") for _, o in outs],
                expected="identical outputs under every configuration", kind="spec",
                note="outputs depend on worker / schedule / max_concurrent"))
    nstate = 0
    for start, n in sgroups:
        outs = [(cases[base + start + j], obs[base + start + j]) for j in range(n)]
        driven = [(c, o) for c, o in outs if o.get("outcome") in ("ok", "error")]
        ref = outs[0][1].get("outputs") if outs[0][1].get("outcome") == "ok" else None    # sequential (debug) worker
        nstate += 1
        for c, o in driven[1:]:
            if ref is None or o.get("outcome") != "ok" or o.get("outputs") != ref:
                out.failures.append(Failure(
                    case=c, observed=fakes.slim(o),
                    expected={"outputs_of_the_sequential_worker": ref}, kind="spec",
                    note="state-propagating workflow: outputs depend on the completion order / worker"))
                break
    for start, n, xs in cgroups:
        want = coerce_expected(xs)
        for j in range(n):
            c, o = cases[base + start + j], obs[base + start + j]
            if o.get("outcome") not in ("ok", "error"):
                continue
            if o.get("outcome") != "ok" or o.get("outputs") != want:
                out.failures.append(Failure(
                    case=c, observed=fakes.slim(o), expected={"outputs (repr)": want}, kind="spec",
                    note="outputs that need coercion to the declared type differ between workers / from the stored value"))
                break
    for start, n, xs in hgroups:
        want_out, want_calls = hook_expected(xs)
        for j in range(n):
            c, o = cases[base + start + j], obs[base + start + j]
            if o.get("outcome") not in ("ok", "error"):
                continue
            if o.get("outcome") != "ok" or o.get("outputs") != want_out or o.get("hook_calls") != want_calls:
                out.failures.append(Failure(
                    case=c, observed=fakes.slim(o), expected={"outputs (repr)": want_out, "hook_calls": want_calls},
                    kind="spec", note="node-level hooks are not applied identically by every worker"))
                break
    out.extra["hook_workflows_compared_across_workers"] = len(hgroups)
    out.extra["coercion_workflows_compared_across_workers"] = len(cgroups)
    out.extra["state_propagating_workflows_compared"] = nstate
    out.extra["workflows_compared_across_workers"] = ngroups
    out.extra["configurations_per_workflow"] = groups[0][1] if groups else 0
    return out


def replay(ctx, payload):
    case = payload["case"]
    if "configurations" in case:
        cs = [dict(nodes=case["nodes"], fail=[], oracle=[], **cfg) for cfg in case["configurations"]]
        for c, o in zip(cs, fakes.run_batch(cs, nproc=2)):
            print({k: c.get(k) for k in ("mode", "k", "n_procs")}, "->", o.get("outputs") if o.get("outcome") == "ok" else o.get("msg"))
        return
    if case.get("mode", "").startswith("hook"):
        cs = [dict(case, mode=m, oracle=case.get("oracle") if m == "hook" else [], n_procs=case.get("n_procs") or 2)
              for m in ("hook_sync", "hook", "hook_cf")]
        for c, o in zip(cs, fakes.run_batch(cs, nproc=3)):
            print(c["mode"], "->", o.get("outputs") if o.get("outcome") == "ok" else o.get("msg"), o.get("hook_calls"))
        print("expected:", hook_expected(case["xs_param"]))
        return
    if case.get("mode", "").startswith("coerce"):
        cs = [dict(case, mode=m, oracle=case.get("oracle") if m == "coerce" else [], n_procs=case.get("n_procs") or 2)
              for m in ("coerce_sync", "coerce", "coerce_cf")]
        for c, o in zip(cs, fakes.run_batch(cs, nproc=3)):
            print(c["mode"], "->", o.get("outputs") if o.get("outcome") == "ok" else o.get("msg"))
        print("expected (stored, coerced values):", coerce_expected(case["xs_param"]))
        return
    if case.get("mode") in ("state", "state_cf"):
        ref, o = fakes.run_batch([dict(case, mode="state_sync", oracle=[]), case], nproc=2)
        print("sequential worker outputs:", ref.get("outputs"))
        print("this configuration       :", o.get("outputs"))
        print("equal:", ref.get("outputs") == o.get("outputs"))
    fakes.replay_case(ctx, payload, SPEC)
