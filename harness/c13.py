"""C13 — failures are reported and never cached as success.

Two correspondence streams, both evaluated in Coq on the observed cases:
 (1) histories (machinery of harness/c11.py) over a pool of tasks that fail in different ways when the
     harness raises their flag — python raise, shell non-zero exit, shell missing output file, python dict
     without a mandatory key, python wrong tuple arity, workflows containing such nodes — followed by
     submissions of the same identity with the flag lowered;
 (2) PythonTask._run's return-value binding on generated (declared outputs, returned value) pairs.
"""
import json
import os
import sys
import tempfile
import shutil

from . import c11

PROP = "C13"
PROPS_FILE = "Props/C13.v"
MANIFEST = dict(
    text="Theorem C13_full (Coq, closed under the global context): for every world, configuration, well-formed task "
         "tree and store, a submission in the sequential model (Model/CacheSeq.v: Job.run early exit / re-execution of "
         "an errored stored result, record_error + save in finally, Submitter.__call__) serves only stored successes, "
         "reports exactly the outcome of the execution of the submitted task and leaves that outcome in the cache "
         "root; and PythonTask._run's binding of None / single / tuple / dict return values either provides every "
         "mandatory declared output or fails (bind_complete, bind_fails_when_not_provided). "
         "C13_shell_nonzero_never_cached_as_success: the outcome of a shell body is shell_outcome(return code, "
         "declared output files) as Native.execute + ShellOutputs._from_job compute it — for every return code other "
         "than 0 (negative = killed by a signal included) the stored result is errored, the failure is reported and a "
         "later submission executes again; code 0 with every mandatory output file present is a success. The return "
         "codes a plain subprocess observes for the pool's shell tasks (-15, -9, 3, 126, 127, 255, 0) are passed into "
         "Coq on every run. "
         "C13_error_not_served, C13_failure_reexecuted (the next submission under the same root executes again, "
         "whatever flags, caches and world), C13_error_reported. Two defects found with this property were "
         "repaired in /repo (stale Job._errored after a re-execution; dict return lacking a mandatory key stored as "
         "success), C13_unrepaired_binding_refuted documents the latter on the pre-repair rule. The model is tied to "
         "the code by differential execution of failing-task histories and of generated return values.",
    note="partial: output *type* checking of bound values, shell output collection and the debug worker only; the "
         "failure modes are python raise, shell exit code, missing shell output file, dict/tuple binding errors; "
         "trusted: Coq kernel + vm_compute, the hand-written model, TaskHooks as observation of executions.",
    technique="Coq proof (Job.run invariant; case analysis of the binding rules) + model/impl correspondence via generated cases.v",
    design="§8 Group C / C13",
)
TIE_NAME = "Model.CacheSeq.submit / bind_outputs vs Submitter.__call__ (debug worker) / PythonTask._run"
TRUSTED = c11.TRUSTED + [
    "Model/CacheSeq.v bind_outputs: hand-written model of PythonTask._run + PythonOutputs._from_job + Outputs._from_job; "
    "declared outputs are untyped (Any) in the correspondence, so output type checking is outside the model",
]
ASSUMPTIONS = c11.ASSUMPTIONS + ["python tasks declare at least one output (python.define adds 'out' otherwise)"]
RULE = ("(1) random histories of 3-8 steps over a pool of failing tasks (python raise, shell exit 3 / exit 255 / killed by "
        "SIGKILL / SIGTERM / command not found / not executable, python or workflow output collection failure, shell output file "
        "not created, python dict without a mandatory key, python tuple of wrong arity) and two workflows containing "
        "them, with per-step failure flags so that failures are followed by successes of the same identity; "
        "non-trivial = a submission whose store before is non-empty; (2) generated (declared outputs with/without "
        "defaults, returned None/int/list/tuple/dict) pairs; non-trivial = at least two declared outputs or a "
        "container return; distinct by case content")

# ------------------------------------------------------------------------------------------------ pool
SHF_MODES = ["kill9", "term", "exit255", "notfound", "noexec"]
TOP13 = ([["Raise", 1], ["Sh", 1], ["MF", 1], ["DictMiss", 1], ["Arity", 1], ["PyColl", 1], ["WR", 1], ["WD", 1], ["WT", 1]]
         + [["ShF", 1, m] for m in SHF_MODES])


def children13(d):
    if d[0] == "WR":        # n1 = Raise(a); n2 = Add(n1.out, 1)
        return [["Raise", d[1]], ["Add", d[1] + 1, 1]]
    if d[0] == "WD":        # n1 = Add(a, 1); n2 = DictMiss(n1.out); n3 = Sh(a); returns n2.y
        # execution order is the graph's: the nodes without predecessors (n1, n3) first, then n2
        return [["Add", d[1], 1], ["Sh", d[1]], ["DictMiss", d[1] + 1]]
    if d[0] == "WT":        # n1 = Loose(a); the workflow's declared output type rejects the value while flagged
        return [["Loose", d[1]]]
    return []


def cf_fail_ok13(top):
    """failures that leave a pool-worker submission inside the sequential model"""
    ch = children13(top)
    if not ch:
        return [top]
    if top[0] == "WD":
        return [ch[-1]]            # Add and Sh are independent: only the last node may fail
    return ch + [top]              # chains (WR, WT): any node, and the workflow's own output collection


def expected13(d):
    k = d[0]
    if k in ("PyColl", "Loose", "WT"):
        return {"out": d[1] + 1}
    if k == "Raise":
        return {"out": d[1] + 1}
    if k in ("Sh", "ShF"):
        return {"return_code": 0, "stderr": "", "stdout": "%d\n" % (d[1] + 1)}
    if k == "MF":
        return {"outfile": "fileset:outfile", "return_code": 0, "stderr": "", "stdout": ""}
    if k in ("DictMiss", "Arity"):
        return {"x": d[1], "y": d[1] + 10}
    if k == "Add":
        return {"out": d[1] + d[2]}
    if k == "WR":
        return {"out": d[1] + 2}
    if k == "WD":
        return {"out": d[1] + 11}
    raise ValueError(d)


POOL13 = c11.Pool(TOP13, children13, expected13, "harness.c13", collect_fail=[["WT", 1]], cf_fail_ok=cf_fail_ok13)

SH_SCRIPT = """echo "BODY [\\"Sh\\", $1]" >> $C11_LOG
if [ -e $C11_FLAGS/Sh_$1 ]; then exit 3; fi
echo $(( $1 + 1 ))
"""
MF_SCRIPT = """echo "BODY [\\"MF\\", $1]" >> $C11_LOG
if [ -e $C11_FLAGS/MF_$1 ]; then exit 0; fi
echo $1 > $2
"""
# shell failure modes beyond a positive exit code: death by signal (negative return code in subprocess),
# exit 255, command not found (127), file without execute permission (126)
SHF_SCRIPT = """echo "BODY [\\"ShF\\", $1, \\"$2\\"]" >> $C11_LOG
if [ -e $C11_FLAGS/ShF_$1_$2 ]; then
  case $2 in
    kill9) kill -9 $$ ;;
    term) kill -TERM $$ ;;
    exit255) exit 255 ;;
    notfound) exec /nonexistent/verif-c13-command ;;
    noexec) exec /tmp/verif-c13-scripts/noexec.txt ;;
  esac
fi
echo $(( $1 + 1 ))
"""
SCRIPT_DIR = "/tmp/verif-c13-scripts"     # fixed path: it is an input of the shell tasks, hence part of their identity


def _runner_pool13(logf, flagdir):
    import typing as ty
    from pydra.compose import python, workflow, shell
    from pydra.engine.hooks import TaskHooks

    os.makedirs(SCRIPT_DIR, exist_ok=True)
    for name, txt in (("sh.sh", SH_SCRIPT), ("mf.sh", MF_SCRIPT), ("shf.sh", SHF_SCRIPT), ("noexec.txt", "not executable\n")):
        path = os.path.join(SCRIPT_DIR, name)
        if not os.path.exists(path) or open(path).read() != txt:
            tmp = path + ".%d" % os.getpid()
            with open(tmp, "w") as f:
                f.write(txt)
            os.replace(tmp, path)

    def log(line):
        import os
        with open(os.environ["C11_LOG"], "a") as f:
            f.write(line + "\n")

    def flagged(desc):
        import os, json
        log("BODY " + json.dumps(desc))
        return os.path.exists(os.path.join(os.environ["C11_FLAGS"], "_".join(str(x) for x in desc)))

    def h_pre_run(job, *a):
        log("ENTER " + job.checksum)

    def h_pre_run_task(job, *a):
        log("START " + job.checksum)

    def h_post_run_task(job, result, *a):
        import json
        outs = None
        if not result.errored and result.outputs is not None:
            import attrs
            outs = {a_.name: c11._canon(getattr(result.outputs, a_.name)) for a_ in attrs.fields(type(result.outputs))
                    if not a_.name.startswith("_")}
        log("END %s %d %s" % (job.checksum, 1 if result.errored else 0, json.dumps(outs, sort_keys=True)))

    hooks = TaskHooks(pre_run=h_pre_run, pre_run_task=h_pre_run_task, post_run_task=h_post_run_task)

    @python.define
    def Raise(a: int) -> int:
        if flagged(["Raise", a]):
            raise ValueError("planned failure")
        return a + 1

    @python.define
    def Add(a: int, b: int) -> int:
        if flagged(["Add", a, b]):
            raise KeyError("planned failure")
        return a + b

    @python.define(outputs=["x", "y"])
    def DictMiss(a: int):
        if flagged(["DictMiss", a]):
            return {"x": a}                      # mandatory output y missing
        return {"x": a, "y": a + 10}

    @python.define(outputs=["x", "y"])
    def Arity(a: int):
        if flagged(["Arity", a]):
            return (a, a + 10, 0)                # three values for two outputs
        return (a, a + 10)

    # failure *after* the body, in output collection (Outputs._from_job): the declared output type rejects
    # the value while the flag of the given identity is up
    class FlagMeta(type):
        def __instancecheck__(cls, v):
            import os
            return isinstance(v, int) and not os.path.exists(os.path.join(os.environ["C11_FLAGS"], cls.flag))

    made = {}

    def flag_type(kind, a):
        return FlagMeta("FlagInt_%s_%d" % (kind, a), (), {"flag": "%s_%d" % (kind, a)})

    def PyColl(a):
        if ("PyColl", a) not in made:
            def pycoll(a: int):
                flagged(["PyColl", a])          # logs the body execution; the flag acts on the output type
                return a + 1
            made[("PyColl", a)] = python.define(pycoll, outputs={"out": flag_type("PyColl", a)})
        return made[("PyColl", a)](a=a)

    @python.define(outputs={"out": ty.Any})
    def Loose(a: int):
        if flagged(["Loose", a]):
            raise ValueError("planned failure")
        return a + 1

    def WT(a):
        if ("WT", a) not in made:
            def wt(a: int):
                n1 = workflow.add(Loose(a=a), name="n1", hooks=hooks)
                return n1.out
            made[("WT", a)] = workflow.define(wt, outputs={"out": flag_type("WT", a)})
        return made[("WT", a)](a=a)

    Sh = shell.define("sh <script:str> <a:int>", name="Sh")
    MF = shell.define("sh <script:str> <a:int> <out|outfile:generic/file>", name="MF")
    ShF = shell.define("sh <script:str> <a:int> <mode:str>", name="ShF")

    @workflow.define
    def WR(a: int) -> int:
        n1 = workflow.add(Raise(a=a), name="n1", hooks=hooks)
        n2 = workflow.add(Add(a=n1.out, b=1), name="n2", hooks=hooks)
        return n2.out

    @workflow.define
    def WD(a: int) -> int:
        n1 = workflow.add(Add(a=a, b=1), name="n1", hooks=hooks)
        n2 = workflow.add(DictMiss(a=n1.out), name="n2", hooks=hooks)
        workflow.add(Sh(script=os.path.join(SCRIPT_DIR, "sh.sh"), a=a), name="n3", hooks=hooks)
        return n2.y

    def build(d):
        k = d[0]
        if k == "Raise":
            return Raise(a=d[1])
        if k == "Add":
            return Add(a=d[1], b=d[2])
        if k == "DictMiss":
            return DictMiss(a=d[1])
        if k == "Arity":
            return Arity(a=d[1])
        if k == "Sh":
            return Sh(script=os.path.join(SCRIPT_DIR, "sh.sh"), a=d[1])
        if k == "MF":
            return MF(script=os.path.join(SCRIPT_DIR, "mf.sh"), a=d[1])
        if k == "ShF":
            return ShF(script=os.path.join(SCRIPT_DIR, "shf.sh"), a=d[1], mode=d[2])
        if k == "PyColl":
            return PyColl(d[1])
        if k == "Loose":
            return Loose(a=d[1])
        if k == "WT":
            return WT(d[1])
        if k == "WR":
            return WR(a=d[1])
        if k == "WD":
            return WD(a=d[1])
        raise ValueError(d)

    return build, hooks


# ------------------------------------------------------------------------------------------------ binding
DEFAULT_SENTINEL = 777


def _bind_runner(inp, outp):
    import typing as ty
    import attrs
    from pydra.compose import python
    with open(inp) as f:
        cases = json.load(f)
    res = []
    base = tempfile.mkdtemp(prefix="c13b-", dir="/tmp")
    try:
        for i, c in enumerate(cases):
            kind, payload = c["ret"][0], (c["ret"][1] if len(c["ret"]) > 1 else None)
            if kind == "none":
                ret = None
            elif kind == "int":
                ret = payload
            elif kind == "tuple":
                ret = tuple(payload)
            elif kind == "list":
                ret = list(payload)
            else:
                ret = dict(payload)
            outs = {n: (python.out(type=ty.Any) if m else python.out(type=ty.Any, default=DEFAULT_SENTINEL))
                    for n, m in c["ds"]}

            def f(x: int, _ret=ret):
                return _ret

            try:
                T = python.define(f, outputs=outs)
                o = T(x=i)(cache_root=os.path.join(base, "c%d" % i))
                got = []
                for a in attrs.fields(type(o)):
                    if a.name.startswith("_"):
                        continue
                    v = getattr(o, a.name)
                    if v is attrs.NOTHING:
                        e = "nothing"
                    elif v is None:
                        e = "none"
                    elif isinstance(v, bool):
                        e = ["other", repr(v)]
                    elif isinstance(v, int):
                        e = "default" if v == DEFAULT_SENTINEL else ["val", v]
                    elif isinstance(v, tuple):
                        e = ["val", 1000 + len(v)]
                    elif isinstance(v, dict):
                        e = ["val", 2000 + len(v)]
                    elif isinstance(v, list):
                        e = ["val", 3000]
                    else:
                        e = ["other", repr(v)]
                    got.append([a.name, e])
                # the declared order is what the model uses
                order = [n for n, _ in c["ds"]]
                got.sort(key=lambda p_: order.index(p_[0]) if p_[0] in order else 99)
                res.append({"ok": got})
            except Exception as e:
                res.append({"err": type(e).__name__ + ": " + str(e).splitlines()[0][:100]})
    finally:
        shutil.rmtree(base, ignore_errors=True)
    with open(outp, "w") as f:
        json.dump(res, f)


def gen_bind_case(rng):
    names = ["a", "b", "c"]
    n = rng.choice([1, 1, 2, 2, 2, 3])
    ds = [[names[i], rng.random() < 0.7] for i in range(n)]
    kind = rng.choice(["none", "int", "tuple", "tuple", "dict", "dict", "dict", "list"])
    if kind == "none":
        ret = ["none"]
    elif kind == "int":
        ret = ["int", rng.randrange(1, 50)]
    elif kind in ("tuple", "list"):
        k = rng.choice([n, n, n, 0, 1, 2, 3, 4])
        ret = [kind, [rng.randrange(1, 50) for _ in range(k)]]
    else:
        keys = [nm for nm, _ in ds if rng.random() < 0.75] + (["zz"] if rng.random() < 0.2 else [])
        ret = ["dict", {k: rng.randrange(1, 50) for k in keys}]
    return {"ds": ds, "ret": ret}


def _ret_term(ret):
    from .lib import coqio
    k = ret[0]
    if k == "none":
        return "RNone"
    if k == "int":
        return "(ROther %d)" % ret[1]
    if k == "list":
        return "(ROther 3000)"
    if k == "tuple":
        return "(RTuple %s)" % coqio.lst([str(v) for v in ret[1]])
    return "(RDict %s)" % coqio.lst(["(%s, %d)" % (coqio.string(kk), v) for kk, v in ret[1].items()])


def _oval_term(e):
    if e == "nothing":
        return "Nothing"
    if e == "none":
        return "PyNone"
    if e == "default":
        return "Default"
    if e[0] == "val":
        return "(Val %d)" % e[1]
    return "(Val 999999)"


BIND_EXTRA = r"""
Definition oval_eqb (a b : oval) : bool :=
  match a, b with Val x, Val y => Nat.eqb x y | PyNone, PyNone => true | Default, Default => true
                | Nothing, Nothing => true | _, _ => false end.
Definition outs_eqb (a b : list (string * oval)) : bool :=
  list_eqb (fun x y => String.eqb (fst x) (fst y) && oval_eqb (snd x) (snd y)) a b.
Definition bcase := (list decl * retval * option (list (string * oval)))%type.
Definition bind_tie (c : bcase) : bool :=
  let '(ds, r, o) := c in option_eqb outs_eqb (bind_outputs true ds r) o.
(* spec: success => every mandatory output provided; a return value that does not provide them => failure *)
Definition bind_spec (c : bcase) : bool :=
  let '(ds, r, o) := c in
  match o with Some outs => outputs_complete_b ds outs && provides ds r | None => true end.
(* the pre-repair rule, to name the class of a failure: lenient binding would have produced this *)
Definition not_lenient (c : bcase) : bool :=
  let '(ds, r, o) := c in negb (option_eqb outs_eqb (bind_outputs false ds r) o) || option_eqb outs_eqb (bind_outputs true ds r) o.
"""


def run_binding(ctx, out):
    import subprocess
    from .lib import coqio
    from .lib.runner import Failure
    rng = ctx.rng
    n = ctx.budget(80, 1000)
    cases = [{"ds": c["ds"], "ret": c["ret"]} for c in ctx.corpus() if "ds" in c]
    while len(cases) < n:
        cases.append(gen_bind_case(rng))
    tmp = tempfile.mkdtemp(prefix="c13-", dir="/tmp")
    try:
        nb = 4
        procs = []
        env = dict(os.environ, PYTHONPATH=coqio.VERIF + ":" + os.environ.get("VERIF_REPO", "/repo"), PYTHONHASHSEED="0",
                   NO_ET="1", PYTHONDONTWRITEBYTECODE="1")
        for b in range(nb):
            inp, outp = os.path.join(tmp, "bi%d.json" % b), os.path.join(tmp, "bo%d.json" % b)
            with open(inp, "w") as f:
                json.dump(cases[b::nb], f)
            procs.append((b, outp, subprocess.Popen(["timeout", "1200", "/venv/bin/python", "-m", "harness.c13", "--bind", inp, outp],
                                                    env=env, cwd=tmp, stdout=subprocess.PIPE, stderr=subprocess.STDOUT, text=True)))
        obs = [None] * len(cases)
        for b, outp, pr in procs:
            so, _ = pr.communicate()
            if pr.returncode != 0:
                raise RuntimeError("bind runner failed: " + so[-1500:])
            with open(outp) as f:
                for j, r in enumerate(json.load(f)):
                    obs[b + j * nb] = r
    finally:
        shutil.rmtree(tmp, ignore_errors=True)
    terms = []
    for c, o in zip(cases, obs):
        ds = coqio.lst(["(%s, %s)" % (coqio.string(nm), coqio.boolean(m)) for nm, m in c["ds"]])
        ob = "None" if "err" in o else "(Some %s)" % coqio.lst(["(%s, %s)" % (coqio.string(nm), _oval_term(e)) for nm, e in o["ok"]])
        terms.append("(%s, %s, %s)" % (ds, _ret_term(c["ret"]), ob))
    res = coqio.run_cases(ctx.scratch, "c13bind", c11.IMPORTS, "bcase", terms,
                          {"tie": "bind_tie", "spec": "bind_spec"}, extra=BIND_EXTRA, shard=500)
    seen = set()
    dist = {"bind_cases": len(cases), "bind_errors_observed": 0, "bind_ret_none": 0, "bind_ret_int": 0, "bind_ret_tuple": 0,
            "bind_ret_dict": 0, "bind_ret_list": 0, "bind_with_default": 0}
    for c, o in zip(cases, obs):
        dist["bind_errors_observed"] += "err" in o
        dist["bind_ret_" + c["ret"][0]] += 1
        dist["bind_with_default"] += any(not m for _, m in c["ds"])
        if len(c["ds"]) >= 2 or c["ret"][0] in ("tuple", "dict", "list"):
            seen.add(json.dumps(c, sort_keys=True))
    out.evaluations += len(cases)
    out.distinct_nontrivial += len(seen)
    out.distribution.update(dist)
    out.samples += [{"declared": c["ds"], "returned": c["ret"], "observed": o} for c, o in list(zip(cases, obs))[:3]]
    for kind in ("spec", "tie"):
        for i in res[kind][:10]:
            vals = coqio.eval_terms(ctx.scratch, "b%s%d" % (kind, i), c11.IMPORTS,
                                    ["let '(ds, r, o) := %s in (bind_outputs true ds r, provides ds r)" % terms[i]], extra=BIND_EXTRA)
            out.failures.append(Failure(case={"ds": cases[i]["ds"], "ret": cases[i]["ret"]}, observed=obs[i],
                                        expected={"model bind_outputs, spec provides": vals[0]}, kind=kind,
                                        note=("a return value that does not provide every mandatory declared output is "
                                              "stored as a success" if kind == "spec" else "binding model/impl")))
    return out


# ------------------------------------------------------------------------------------------------ shell return codes
def _shellrc_runner(inp, outp):
    """For every (shell pool task, flag up/down): the return code the command really gives (plain subprocess, no
    pydra), which declared output files exist, and what pydra makes of it: errored?, what is stored, and whether a
    second submission with the flag down executes the body again."""
    import subprocess
    from pydra.engine.submitter import Submitter
    with open(inp) as f:
        cases = json.load(f)
    logf, flagdir = [None], [None]
    build, hooks = _runner_pool13(logf, flagdir)
    res = []
    top = tempfile.mkdtemp(prefix="c13s-", dir="/tmp")
    try:
        for n, c in enumerate(cases):
            base = os.path.join(top, "c%d" % n)
            os.makedirs(os.path.join(base, "flags"))
            os.environ["C11_FLAGS"] = os.path.join(base, "flags")
            os.environ["C11_LOG"] = os.path.join(base, "log.txt")
            open(os.environ["C11_LOG"], "w").close()
            d = c["desc"]
            flag = os.path.join(base, "flags", "_".join(str(x) for x in d))
            if c["flagged"]:
                open(flag, "w").close()
            script = {"Sh": "sh.sh", "MF": "mf.sh", "ShF": "shf.sh"}[d[0]]
            args = ["sh", os.path.join(SCRIPT_DIR, script), str(d[1])]
            files = []
            if d[0] == "MF":
                ref_out = os.path.join(base, "ref_outfile")
                args.append(ref_out)
            elif d[0] == "ShF":
                args.append(d[2])
            rc = subprocess.run(args, stdout=subprocess.PIPE, stderr=subprocess.PIPE, cwd=base).returncode
            if d[0] == "MF":
                files = [[True, os.path.exists(ref_out)]]
            ob = {"rc": rc, "files": files}
            cache = os.path.join(base, "cache")

            def bodies():
                with open(os.environ["C11_LOG"]) as f_:
                    return sum(1 for ln in f_ if ln.startswith("BODY"))

            b0 = bodies()
            try:
                with Submitter(worker="debug", cache_root=cache) as sub:
                    r1 = sub(build(d), raise_errors=False)
                ob["errored1"] = bool(r1.errored)
                ob["recorded1"] = bool(r1.errors) if r1.errored else None
            except Exception as e:
                ob["errored1"], ob["recorded1"] = True, None
                ob["exc1"] = type(e).__name__ + ": " + str(e).splitlines()[0][:80]
            st = c11._classify(os.path.join(cache, build(d)._checksum))
            ob["stored1"] = st if isinstance(st, str) else st[0]
            b1 = bodies()
            if os.path.exists(flag):
                os.unlink(flag)
            try:
                with Submitter(worker="debug", cache_root=cache) as sub:
                    r2 = sub(build(d), raise_errors=False)
                ob["errored2"] = bool(r2.errored)
            except Exception as e:
                ob["errored2"] = True
            ob["second_executed"] = bodies() > b1
            ob["first_executed"] = b1 > b0
            res.append(ob)
    finally:
        shutil.rmtree(top, ignore_errors=True)
    with open(outp, "w") as f:
        json.dump(res, f)


SHELLRC_EXTRA = r"""
(* return code seen by a plain subprocess, declared output files (not optional, exists), and what pydra did:
   first submission errored, stored as errored, second submission (flag down) executed the body, second errored *)
Definition scase := (Z * list (bool * bool) * (bool * bool * bool * bool))%type.
Definition shell_tie (c : scase) : bool :=
  let '(rc, files, (err1, stored_err, exec2, err2)) := c in
  let m := shell_outcome rc files 1 in
  Bool.eqb (is_ok m) (negb err1) && Bool.eqb (is_ok m) (negb stored_err) &&
  (* the model's history: a stored failure is executed again, a stored success is served *)
  Bool.eqb exec2 (negb (is_ok m)) && negb err2.
Definition shell_spec (c : scase) : bool :=
  let '(rc, files, (err1, stored_err, exec2, err2)) := c in
  if Z.eqb rc 0 then (negb (files_present files) || (negb err1 && negb stored_err))
  else err1 && stored_err && exec2.
"""


def run_shellrc(ctx, out):
    import subprocess
    from .lib import coqio
    from .lib.runner import Failure
    cases = []
    for d in [["Sh", 1], ["MF", 1]] + [["ShF", 1, m] for m in SHF_MODES]:
        for flagged in (True, False):
            cases.append({"desc": d, "flagged": flagged})
    tmp = tempfile.mkdtemp(prefix="c13-", dir="/tmp")
    try:
        inp, outp = os.path.join(tmp, "si.json"), os.path.join(tmp, "so.json")
        with open(inp, "w") as f:
            json.dump(cases, f)
        env = dict(os.environ, PYTHONPATH=coqio.VERIF + ":" + os.environ.get("VERIF_REPO", "/repo"), PYTHONHASHSEED="0",
                   NO_ET="1", PYTHONDONTWRITEBYTECODE="1")
        pr = subprocess.run(["timeout", "600", "/venv/bin/python", "-m", "harness.c13", "--shellrc", inp, outp], env=env,
                            cwd=tmp, stdout=subprocess.PIPE, stderr=subprocess.STDOUT, text=True)
        if pr.returncode != 0:
            raise RuntimeError("shellrc runner failed: " + pr.stdout[-1500:])
        with open(outp) as f:
            obs = json.load(f)
    finally:
        shutil.rmtree(tmp, ignore_errors=True)
    terms = []
    for o in obs:
        terms.append("(%s, %s, (%s, %s, %s, %s))" % (
            coqio.z(o["rc"]), coqio.lst(["(%s, %s)" % (coqio.boolean(a), coqio.boolean(b)) for a, b in o["files"]]),
            coqio.boolean(o["errored1"]), coqio.boolean(o["stored1"] == "err"), coqio.boolean(o["second_executed"]),
            coqio.boolean(o["errored2"])))
    res = coqio.run_cases(ctx.scratch, "c13shell", c11.IMPORTS, "scase", terms,
                          {"tie": "shell_tie", "spec": "shell_spec"}, extra=SHELLRC_EXTRA)
    out.evaluations += len(cases)
    out.distinct_nontrivial += sum(1 for o in obs if o["rc"] != 0)
    out.distribution["shell_return_codes_observed"] = sorted({o["rc"] for o in obs})
    out.samples.append({"shell_return_codes": [{"task": c["desc"], "flag": c["flagged"], "rc": o["rc"],
                                                "errored": o["errored1"], "stored": o["stored1"],
                                                "second_submission_executed": o["second_executed"]}
                                               for c, o in zip(cases, obs)][:6]})
    for kind in ("spec", "tie"):
        for i in res[kind]:
            out.failures.append(Failure(case=cases[i], observed=obs[i],
                                        expected="shell_outcome rc files: any non-zero return code (negative included) is a "
                                                 "failure: stored errored, reported, executed again later",
                                        kind=kind, note=("a shell command with a non-zero return code is not handled as a failure"
                                                         if kind == "spec" else "shell return code model/impl")))
    return out


def gen13(rng, pool):
    return c11.gen_history(rng, pool, flaky_p=0.5, nflaky=(1, 2, 2, 3), p_plant=0.08, p_rerun=0.15, p_cf=0.25,
                           kinds=("empty", "jobonly", "zero"))


def run(ctx):
    out = c11.run(ctx, prop="C13", pool=POOL13, gen=gen13, rule=RULE, budget=(20, 200))
    out = run_binding(ctx, out)
    return run_shellrc(ctx, out)


def replay(ctx, payload):
    c = payload["case"]
    if "steps" in c:
        return c11.replay(ctx, payload, pool=POOL13, prop="C13")
    from .lib import coqio
    tmp = tempfile.mkdtemp(prefix="c13r-", dir="/tmp")
    try:
        inp, outp = os.path.join(tmp, "i.json"), os.path.join(tmp, "o.json")
        with open(inp, "w") as f:
            json.dump([c], f)
        _bind_runner(inp, outp)
        with open(outp) as f:
            print("implementation:", json.load(f)[0])
    finally:
        shutil.rmtree(tmp, ignore_errors=True)
    ds = coqio.lst(["(%s, %s)" % (coqio.string(nm), coqio.boolean(m)) for nm, m in c["ds"]])
    vals = coqio.eval_terms(ctx.scratch, "replay", c11.IMPORTS,
                            ["bind_outputs true %s %s" % (ds, _ret_term(c["ret"])), "provides %s %s" % (ds, _ret_term(c["ret"]))])
    print("model bind_outputs:", vals[0])
    print("spec provides     :", vals[1])


if __name__ == "__main__":
    if len(sys.argv) == 4 and sys.argv[1] == "--run":
        c11.runner_main(sys.argv[2], sys.argv[3], _runner_pool13)
        sys.exit(0)
    if len(sys.argv) == 4 and sys.argv[1] == "--shellrc":
        _shellrc_runner(sys.argv[2], sys.argv[3])
        sys.exit(0)
    if len(sys.argv) == 4 and sys.argv[1] == "--bind":
        _bind_runner(sys.argv[2], sys.argv[3])
        sys.exit(0)
    sys.exit(2)
