"""C02 — combine groups the job outputs into an exact, ordered partition (pydra/engine/state.py combiner path,
Task.split(...).combine(...) end to end)."""
import itertools
import json

from .lib import coqio
from .lib import state_gen as G
from .lib.runner import Outcome, Failure

PROP = "C02"
PROPS_FILE = "Props/C02.v"
MANIFEST = dict(
    text="PARTIAL. The unchanged code violates the property: C02_refuted (Coq, vm_compute witness "
         "['a',['b',('c','d')]] combined over a,b: the model of remove_inp_from_splitter_rpn turns the inner pair "
         "into an outer product and final_combined_ind_mapping gets spurious empty groups [[0,2],[],[],[1,3]]; "
         "reproduced at State level and end to end, known finding F02). Proved for all inputs: C02_partition "
         "(whenever the model of prepare_states_combined_ind returns groups, every job index occurs in exactly one "
         "group and members are in enumeration order - nothing lost, duplicated or reordered); C02_partial (every "
         "splitter, every non-empty combiner, all non-empty inputs: if the computable condition good_removalb holds - "
         "the axis bookkeeping finds exactly the linked fields and the RPN removal returns the RPN of the pruned "
         "splitter - the groups are one per job of the remaining splitter, in its order, each holding in order the "
         "jobs whose remaining fields equal it); C02_formulations_agree + C02_partial_flat (when inner products are "
         "over plain fields this is exactly the property's partition: one group per distinct assignment of the "
         "remaining axes in order of first appearance); C02_good_removal_class + C02_class_groups (a SYNTACTIC class on "
         "which good_removalb is proved for every size: flat outer products [f1,...,fn], n>=2, with any non-empty "
         "combiner - there the groups are the property's partition unconditionally), widened by "
         "C02_good_removal_class_pairs + C02_class_pairs_groups to flat outer products whose operands are plain fields or "
         "inner PAIRS of fields [f1,(g1,g2),f3,...] with any non-empty combiner (inner groups of >=3 fields are outside: "
         "the condition fails when the first operand is combined and the first surviving operand is such a group; nested "
         "all-outer trees are covered by examples only); C02_all, C02_linked. The negation of good_removalb is the "
         "classifier of F02. The model is tied to State.final_combined_ind_mapping and to split().combine() "
         "outputs by generated cases evaluated in Coq.",
    note="Trusted: Coq kernel + vm_compute; hand-written model of splits_groups/combine_final_groups (as far as "
         "they decide combiner_all and errors), remove_inp_from_splitter_rpn, prepare_states_combined_ind; "
         "splitter2rpn o rpn2splitter taken as the identity; the positive theorems are conditional on the "
         "computable good_removalb (evaluated per case); for inner products over composite operands the first-"
         "appearance formulation is compared with the implementation by correspondence only.",
    technique="Coq proof (partition by construction; compile-correctness reuse for the pruned splitter; dictionary "
              "lookup on duplicate-free expansions; distinct(cart A B) = cart(distinct A)(distinct B)) + _refuted "
              "witness + model/impl correspondence via generated cases.v",
    design="§8 Group A / C02",
)
TIE_NAME = "Model.State.prepare_combined vs State.prepare_states (final_combined_ind_mapping) and split().combine() outputs"
TRUSTED = [
    "Model/State.v: hand-written model of splits_groups + combine_final_groups (groups dict, group numbering, the "
    "axis renumbering of scalar products, combiner_all, the not-ready check), remove_inp_from_splitter_rpn, "
    "State.prepare_states_combined_ind (ind_map, final_combined_ind_mapping)",
    "splitter2rpn(rpn2splitter(rpn)) is taken to be the identity on the RPN of a splitter",
    "grouping of the outputs at run time (LazyOutField._get_value, the implicit Split workflow) is observed end to end, not modelled",
]
ASSUMPTIONS = [
    "no previous states (a single split task), distinct combiner fields, split values are plain non-empty lists",
]
RULE = ("a case = (splitter tree, lengths, combiner subset, level state|e2e); sources: corpus, every tree over <=4 "
        "fields x every non-empty combiner subset x length vectors in 1..3 (all accepted ones in the thorough tier, "
        "seeded sample in quick), random permuted/wrapped trees, random 5-6 field trees, end-to-end "
        "split().combine() runs; non-trivial = accepted split with >= 2 jobs and a non-empty combiner; distinct by full case")

IMPORTS = ["Model.State", "Spec.State"]
EXTRA = """
Inductive obs := OGroups (g : list (list nat)) | ORows (g : list (list (list nat))) | OErr (shape_reject : bool).
Definition case_t := (spl * list (list nat) * list nat * obs)%type.
Definition envof (sh : list (list nat)) : env := fun f => nth f sh [].
Definition ll_eqb := list_eqb (list_eqb Nat.eqb).
Definition rowsof (js : list assignment) (g : list (list nat)) : list (list (list nat)) :=
  map (map (fun i => map snd (sort_kv (nth i js [])))) g.
Definition is_shape (x : cerr) : bool := match x with CShape | CSplit EShape => true | _ => false end.
Definition tie_ok (c : case_t) : bool :=
  let '(s, sh, comb, o) := c in
  match prepare_combined (envof sh) s comb, o with
  | inr (js, g), OGroups g' => ll_eqb g g'
  | inr (js, g), ORows r => list_eqb ll_eqb (rowsof js g) r
  | inl x, OErr b => Bool.eqb (is_shape x) b
  | _, _ => false
  end.
Definition spec_ok (c : case_t) : bool :=
  let '(s, sh, comb, o) := c in
  wfb s &&
  match spec_groups (envof sh) s comb, jobs (envof sh) s, o with
  | Some g, _, OGroups g' => ll_eqb g g'
  | Some g, Some js, ORows r => list_eqb ll_eqb (rowsof js g) r
  | None, _, OErr _ => true            (* the split itself is rejected: any error, no groups *)
  | _, _, _ => false
  end.
Definition good_ok (c : case_t) : bool := let '(s, sh, comb, o) := c in good_removalb s comb.
(* the two formulations of the reference agree on the case (proved for the flat/closed class: C02_formulations_agree) *)
Definition same_ok (c : case_t) : bool :=
  let '(s, sh, comb, o) := c in
  match jobs (envof sh) s with
  | None => true
  | Some _ => option_eqb ll_eqb (spec_groups (envof sh) s comb) (spec_groups_pruned (envof sh) s comb)
  end.
Definition depth_ok (c : case_t) : bool := let '(s, sh, comb, o) := c in type_depth_okb s comb.
Definition flat_ok (c : case_t) : bool := let '(s, sh, comb, o) := c in flat_innerb s && closedb (linked s comb) s.
"""
F02 = "F02"
F02B = "F02b"


def coq_groups(gs):
    return "[" + ";".join(G.coq_nats(g) for g in gs) + "]"


def coq_obs(o):
    if o[0] == "groups":
        return "(OGroups %s)" % coq_groups(o[1])
    if o[0] == "rows":
        return "(ORows [%s])" % ";".join(G.coq_rows(g) for g in o[1])
    return "(OErr %s)" % coqio.boolean(o[1] == "shape")


def observe(tree, shapes, comb, level):
    """returns (obs, python-side failure note or None, details)"""
    if level == "e2e":
        r = G.run_e2e(tree, shapes, combiner=comb)
        det = {"exc": r["exc"], "bodies": r["bodies"], "out": r["out"]}
        if r["out"] is None:
            if r["obs"][0] == "err" and r["obs"][1] == "EShape":
                return ("err", "shape"), None, det
            return ("err", "other"), None, det      # judged in Coq: only a rejected split may fail
        out = r["out"]
        fs = sorted(G.leaves(tree))

        def row(job):
            return [G.untag(job[f])[1] for f in fs]
        first = next((x for x in out if x), None)
        if first is not None and isinstance(first[0], int):
            groups = [[row(j) for j in out]]           # everything combined: one flat list of job outputs
        else:
            groups = [[row(j) for j in g] for g in out]
        return ("rows", groups), None, det
    r = G.run_state(tree, shapes, combiner=comb)
    det = {"exc": r["exc"]}
    if r["state"] is None:
        if r["obs"] == ("err", "EShape"):           # classified on the full message (r["exc"] is truncated)
            return ("err", "shape"), None, det
        return ("err", "other"), None, det          # judged in Coq: only a rejected split may fail
    st = r["state"]
    mp = st.final_combined_ind_mapping
    det["keys_final"] = list(st.keys_final)
    det["splitter_rpn_final"] = list(st.splitter_rpn_final)
    groups = [list(mp[k]) for k in sorted(mp)]
    if sorted(mp) != list(range(len(mp))):
        return ("groups", groups), "final_combined_ind_mapping keys are not 0..n-1", det
    return ("groups", groups), None, det


def subsets(fs):
    for n in range(1, len(fs) + 1):
        for c in itertools.combinations(fs, n):
            yield list(c)


def gen_cases(ctx):
    rng = ctx.rng
    for c in ctx.corpus():
        t = G.from_json(c["tree"])
        yield t, c["shapes"], c["comb"], "state", "corpus"
        yield t, c["shapes"], c["comb"], "e2e", "corpus"
    small = []
    for k in (1, 2, 3, 4):
        for t in G.tree_shapes(k):
            for lens in itertools.product((1, 2, 3), repeat=k):
                sh = [[n] for n in lens]
                if G.py_expand(t, sh) is None:
                    continue                     # "every valid combiner": the split itself must be accepted
                for comb in subsets(list(range(k))):
                    small.append((t, sh, comb))
    if ctx.tier == "thorough":
        chosen = small
    else:
        chosen = rng.sample(small, min(len(small), 1500))
    for t, sh, comb in chosen:
        yield t, sh, comb, "state", "enum<=4"
    for _ in range(ctx.budget(400, 4000)):
        k = rng.choice([2, 3, 3, 4, 4, 4, 5, 5, 6])
        t = G.random_tree(rng, k, p_wrap=0.12)
        sh = G.assign_shapes(rng, t, k, lens=(1, 2, 2, 3), p_consistent=0.97, allow_nd=False)
        e = G.py_expand(t, sh)
        if (e is not None and len(e[0]) > 150) or (e is None and rng.random() < 0.8):
            continue
        fs = sorted(G.leaves(t))
        comb = rng.sample(fs, rng.randrange(1, len(fs) + 1))
        yield t, sh, comb, "state", "random"
    n = ctx.budget(60, 700)
    made = 0
    while made < n:
        k = rng.choice([1, 2, 2, 3, 3, 4, 4, 4, 5])
        t = G.random_tree(rng, k, p_wrap=0.1)
        sh = G.assign_shapes(rng, t, k, lens=(1, 2, 2, 3), p_consistent=0.97, allow_nd=False)
        e = G.py_expand(t, sh)
        if e is None or len(e[0]) > 18:
            continue
        fs = sorted(G.leaves(t))
        comb = rng.sample(fs, rng.randrange(1, len(fs) + 1))
        made += 1
        yield t, sh, comb, "e2e", "e2e"


def run(ctx):
    cases, meta, pyfail = [], [], []
    dist = {"source": {}, "fields": {}, "combiner_size": {}, "groups": {"1": 0, "2-3": 0, "4+": 0}, "rejected_shape": 0,
            "with_inner": 0, "e2e_runs": 0, "empty_groups_observed": 0}
    seen, nontrivial = set(), 0
    for tree, shapes, comb, level, source in gen_cases(ctx):
        shapes = [list(x) for x in shapes]
        shapes = shapes + [[1]] * (max(G.leaves(tree)) + 1 - len(shapes))
        o, note, det = observe(tree, shapes, comb, level)
        m = {"tree": tree, "shapes": shapes, "comb": comb, "level": level, "source": source, "obs": o, "details": det}
        dist["source"][source] = dist["source"].get(source, 0) + 1
        k = str(len(G.leaves(tree)))
        dist["fields"][k] = dist["fields"].get(k, 0) + 1
        dist["combiner_size"][str(len(comb))] = dist["combiner_size"].get(str(len(comb)), 0) + 1
        dist["with_inner"] += '"I"' in json.dumps(tree)
        dist["e2e_runs"] += level == "e2e"
        if o[0] == "err":
            dist["rejected_shape"] += o[1] == "shape"
        else:
            ng = len(o[1])
            dist["groups"]["1" if ng == 1 else "2-3" if ng < 4 else "4+"] += 1
            dist["empty_groups_observed"] += any(len(g) == 0 for g in o[1])
        key = (json.dumps(tree), json.dumps(shapes), json.dumps(comb), level)
        if key not in seen:
            seen.add(key)
            if o[0] != "err" and sum(len(g) for g in o[1]) >= 2:
                nontrivial += 1
        if note is not None:
            pyfail.append((m, note))
            continue
        cases.append(coqio.pair(G.to_coq(tree), G.coq_shapes(shapes), G.coq_nats(comb), coq_obs(o)))
        meta.append(m)
    res = coqio.run_cases(ctx.scratch, "c02", IMPORTS, "case_t", cases,
                          {"tie": "tie_ok", "spec": "spec_ok", "good": "good_ok", "same": "same_ok", "flat": "flat_ok",
                           "depth": "depth_ok"},
                          extra=EXTRA, shard=400)
    f02_class = set(res["good"])            # cases where good_removalb is false
    # F02b: end to end only - the declared output nesting (State.depth over the combiner as written) is not the nesting
    # of the value (State.depth over the linked fields)
    f02b_class = set(i for i in res["depth"] if meta[i]["level"] == "e2e" and meta[i]["obs"][0] == "err"
                     and "Incorrect type for field" in (meta[i]["details"].get("exc") or ""))
    out = Outcome(evaluations=len(meta) + len(pyfail), distinct_nontrivial=nontrivial, rule=RULE,
                  samples=[sample(m) for m in pick(meta)], distribution=dist, traces_validated=len(meta),
                  exhaustive=(ctx.tier == "thorough"))
    out.extra["cases_inside_C02_partial_domain"] = len(meta) - len(f02_class)
    out.extra["cases_in_F02_class"] = len(f02_class)
    out.extra["e2e_cases_in_F02b_class"] = len(f02b_class)
    not_flat = set(res["flat"])
    out.extra["cases_inside_C02_partial_flat_domain"] = len([i for i in range(len(meta)) if i not in f02_class and i not in not_flat])
    out.extra["cases_where_the_two_reference_formulations_differ"] = len(res["same"])
    out.extra["exhaustive_domain"] = ("every splitter tree over <=4 fields (canonical field order) x every length vector "
                                      "in 1..3 the split accepts x every non-empty combiner subset, State level"
                                      if ctx.tier == "thorough" else "sampled")

    def case_json(m):
        return {"tree": m["tree"], "splitter": G.show(m["tree"]), "shapes": m["shapes"], "comb": m["comb"],
                "combiner": [G.FIELDS[c] for c in m["comb"]], "level": m["level"]}
    for m, note in pyfail[:6]:
        out.failures.append(Failure(case=case_json(m), observed={"obs": m["obs"], **m["details"]},
                                    expected=expected(ctx, m, "spec"), kind="spec", note=note))
    spec_bad = set(res["spec"])
    shown = {True: 0, False: 0}
    for i in sorted(res["spec"], key=lambda i: len(json.dumps(case_json(meta[i])))):
        m = meta[i]
        in_class = i in f02_class or i in f02b_class
        fid = (F02 if i in f02_class else F02B) if in_class else None
        if shown[in_class] >= 4:
            # the expected value is evaluated (one coqc run each) only for the first few failures of each kind
            out.failures.append(Failure(case=case_json(m), observed={"obs": m["obs"]}, expected=None, kind="spec",
                                        finding=fid,
                                        note="groups differ from the ordered partition by the remaining axes (%s level)" % m["level"]))
            continue
        shown[in_class] += 1
        out.failures.append(Failure(
            case=case_json(m), observed={"obs": m["obs"], **{k: v for k, v in m["details"].items() if k != "out"}},
            expected=expected(ctx, m, "spec"), kind="spec", finding=fid,
            note="groups differ from the ordered partition by the remaining axes (%s level)" % m["level"]))
        if len(out.failures) > 400:
            break
    for i in res["same"][:5]:
        m = meta[i]
        if i not in not_flat:
            out.failures.append(Failure(case=case_json(m), observed="spec_groups <> spec_groups_pruned inside the class of C02_formulations_agree",
                                        expected=expected(ctx, m, "spec"), kind="tie", note="reference formulations differ"))
    n_tie = 0
    for i in res["tie"]:
        # inside the domain of C02_partial the model must agree; in the F02 class the implementation is compared with
        # the spec only (a tie failure there without a spec failure means the defect was repaired)
        if i in spec_bad or i in f02_class or i in f02b_class:
            continue
        m = meta[i]
        n_tie += 1
        if n_tie <= 10:
            out.failures.append(Failure(case=case_json(m), observed={"obs": m["obs"], **{k: v for k, v in m["details"].items() if k != "out"}},
                                        expected=expected(ctx, m, "tie"), kind="tie", note="model/impl"))
    return out


def pick(meta):
    by = {}
    for m in meta:
        by.setdefault((m["source"], m["obs"][0]), m)
    return list(by.values())[:8]


def sample(m):
    return {"splitter": G.show(m["tree"]), "shapes": m["shapes"], "combiner": [G.FIELDS[c] for c in m["comb"]],
            "level": m["level"], "source": m["source"], "observed": m["obs"] if m["obs"][0] != "rows" else
            {"groups_of_rows": [len(g) for g in m["obs"][1]]}}


def expected(ctx, m, kind):
    e = "(envof %s)" % G.coq_shapes(m["shapes"])
    s = G.to_coq(m["tree"])
    c = G.coq_nats(m["comb"])
    term = ("(spec_groups %s %s %s, good_removalb %s %s)" % (e, s, c, s, c)) if kind == "spec" else \
        ("match prepare_combined %s %s %s with inr (_, g) => inr g | inl x => inl x end" % (e, s, c))
    try:
        return coqio.eval_terms(ctx.scratch, "x%d" % abs(hash(json.dumps([m["tree"], m["shapes"], m["comb"], kind]))),
                                IMPORTS, [term], extra=EXTRA)[0]
    except Exception as ex:  # noqa: BLE001
        return "coq evaluation failed: %r" % (ex,)


def replay(ctx, payload):
    c = payload["case"]
    t = G.from_json(c["tree"])
    print("splitter:", G.show(t), "shapes:", c["shapes"], "combiner:", c["comb"], "level:", c.get("level", "state"))
    o, note, det = observe(t, c["shapes"], c["comb"], c.get("level", "state"))
    print("implementation:", o, {k: v for k, v in det.items() if k != "out"}, note or "")
    e = "(envof %s)" % G.coq_shapes(c["shapes"])
    s = G.to_coq(t)
    cm = G.coq_nats(c["comb"])
    vals = coqio.eval_terms(ctx.scratch, "replay", IMPORTS,
                            ["match prepare_combined %s %s %s with inr (_, g) => inr g | inl x => inl x end" % (e, s, cm),
                             "spec_groups %s %s %s" % (e, s, cm), "good_removalb %s %s" % (s, cm)], extra=EXTRA)
    print("model groups:", vals[0])
    print("spec groups :", vals[1])
    print("inside the domain of C02_partial (good_removalb):", vals[2])
