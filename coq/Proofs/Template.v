(* Proofs/Template.v — lemmas for C26. *)
From Pydra Require Import Base.Prelude Base.PyPath Base.PyFormat Model.Template Spec.Template.
Local Open Scope char_scope.
Local Open Scope list_scope.

(* ------------------------------------------------------------------ pathlib: components produced by parse *)
Definition comp_ok (c : list ascii) : Prop := keep_comp c = true /\ ~ In slash c.
Definition wf_path (p : ppath) : Prop := Forall comp_ok (p_comps p).

Lemma eqb_slash c : Ascii.eqb c slash = true <-> c = slash.
Proof. apply Ascii.eqb_eq. Qed.

Lemma split_slash_noslash l : forall cur, ~ In slash cur ->
  Forall (fun c => ~ In slash c) (split_slash l cur).
Proof.
  induction l as [|c l IH]; intros cur Hc; cbn.
  - constructor; [|constructor]. now rewrite <- in_rev.
  - destruct (Ascii.eqb c slash) eqn:E.
    + constructor; [now rewrite <- in_rev| apply IH; intros []].
    + apply IH. intros [->|H]; [|auto]. rewrite Ascii.eqb_refl in E. discriminate.
Qed.

Lemma parse_wf s : wf_path (parse s).
Proof.
  unfold wf_path, parse; cbn. apply Forall_forall. intros c Hc.
  apply filter_In in Hc. destruct Hc as [Hin Hk]. split; [exact Hk|].
  pose proof (split_slash_noslash s [] (fun x => x)) as H. rewrite Forall_forall in H. now apply H.
Qed.

Lemma split_slash_plain l : ~ In slash l -> forall cur, split_slash l cur = [rev cur ++ l].
Proof.
  induction l as [|c l IH]; intros Hn cur; cbn.
  - now rewrite app_nil_r.
  - destruct (Ascii.eqb c slash) eqn:E.
    + apply eqb_slash in E. subst. exfalso. apply Hn. now left.
    + rewrite IH; [|intros H; apply Hn; now right]. cbn. now rewrite <- app_assoc.
Qed.

Lemma split_slash_app c rest : ~ In slash c -> forall cur,
  split_slash (c ++ slash :: rest) cur = (rev cur ++ c) :: split_slash rest [].
Proof.
  induction c as [|x c IH]; intros Hn cur; cbn.
  - now rewrite app_nil_r.
  - destruct (Ascii.eqb x slash) eqn:E.
    + apply eqb_slash in E. subst. exfalso. apply Hn. now left.
    + rewrite IH; [|intros H; apply Hn; now right]. cbn. now rewrite <- app_assoc.
Qed.

Lemma comp_ok_nonempty c : comp_ok c -> c <> [].
Proof. intros [H _] ->. discriminate. Qed.

Lemma leading_slashes_comp c r : comp_ok c -> leading_slashes (c ++ r) = 0.
Proof.
  intros [Hk Hn]. destruct c as [|x c]; [discriminate|]. cbn.
  destruct (Ascii.eqb x slash) eqn:E; [|reflexivity].
  apply eqb_slash in E. subst. exfalso. apply Hn. now left.
Qed.

(* a single good component parses to itself *)
Lemma parse_comp c : comp_ok c -> parse c = {| p_anchor := ARel; p_comps := [c] |}.
Proof.
  intros H. unfold parse. rewrite <- (app_nil_r c) at 1. rewrite (leading_slashes_comp c [] H).
  destruct H as [Hk Hn]. rewrite (split_slash_plain c Hn []). cbn. now rewrite Hk.
Qed.

Lemma parse_nil : parse [] = {| p_anchor := ARel; p_comps := [] |}.
Proof. reflexivity. Qed.

Lemma split_join cs : Forall comp_ok cs -> cs <> [] -> split_slash (join_slash cs) [] = cs.
Proof.
  induction cs as [|c cs IH]; intros Hf Hne; [congruence|].
  inversion Hf as [|? ? Hc Hcs]; subst. destruct cs as [|d cs].
  - cbn. destruct Hc as [_ Hn]. now rewrite (split_slash_plain c Hn []).
  - change (join_slash (c :: d :: cs)) with (c ++ slash :: join_slash (d :: cs)).
    destruct Hc as [_ Hn]. rewrite (split_slash_app c _ Hn []). cbn [rev app].
    rewrite IH; [reflexivity|assumption|discriminate].
Qed.

Lemma filter_keep_ok cs : Forall comp_ok cs -> filter keep_comp cs = cs.
Proof.
  induction 1 as [|c cs [Hk _] _ IH]; cbn; [reflexivity|]. now rewrite Hk, IH.
Qed.

Lemma leading_join cs : Forall comp_ok cs -> leading_slashes (join_slash cs) = 0.
Proof.
  intros Hf. destruct cs as [|c cs]; [reflexivity|]. inversion Hf as [|? ? Hc Hcs]; subst.
  destruct cs as [|d cs].
  - cbn. rewrite <- (app_nil_r c). now apply leading_slashes_comp.
  - change (join_slash (c :: d :: cs)) with (c ++ slash :: join_slash (d :: cs)). now apply leading_slashes_comp.
Qed.

Lemma comps_of_join cs : Forall comp_ok cs -> filter keep_comp (split_slash (join_slash cs) []) = cs.
Proof.
  intros Hf. destruct cs as [|c cs]; [reflexivity|].
  rewrite split_join; [now apply filter_keep_ok|assumption|discriminate].
Qed.

(* str() followed by Path() gives the path back *)
Lemma parse_render p : wf_path p -> parse (render p) = p.
Proof.
  destruct p as [a cs]. unfold wf_path; cbn [p_comps]. intros Hf. unfold render; cbn [p_anchor p_comps].
  destruct a.
  - destruct cs as [|c cs]; [reflexivity|].
    unfold parse. rewrite (leading_join _ Hf), (comps_of_join _ Hf). reflexivity.
  - unfold parse. cbn [leading_slashes]. rewrite Ascii.eqb_refl, (leading_join _ Hf).
    cbn [split_slash]. rewrite Ascii.eqb_refl. cbn [rev filter keep_comp]. now rewrite (comps_of_join _ Hf).
  - unfold parse. cbn [leading_slashes]. rewrite !Ascii.eqb_refl, (leading_join _ Hf).
    cbn [split_slash]. rewrite !Ascii.eqb_refl. cbn [rev filter keep_comp]. now rewrite (comps_of_join _ Hf).
Qed.

Lemma parse_render_parse s : parse (render (parse s)) = parse s.
Proof. apply parse_render, parse_wf. Qed.

(* PurePath.name is "" or one of the components *)
Lemma last_in {A} (l : list A) d : l <> [] -> In (last l d) l.
Proof.
  induction l as [|x l IH]; [congruence|]. intros _. destruct l as [|y l]; [now left|].
  right. apply IH. discriminate.
Qed.

Lemma pname_cases p : wf_path p -> pname p = [] \/ comp_ok (pname p).
Proof.
  intros Hf. unfold pname. destruct (p_comps p) as [|c cs] eqn:E; [now left|].
  right. unfold wf_path in Hf. rewrite E in Hf. rewrite Forall_forall in Hf. apply Hf, last_in. discriminate.
Qed.

Lemma app_last_removelast {A} (l : list A) d : l <> [] -> l = removelast l ++ [last l d].
Proof. apply app_removelast_last. Qed.

(* ------------------------------------------------------------------ cache_dir / value.name *)
Definition in_cache_path (cd s : list ascii) : ppath := pjoin (parse cd) (parse (pname (parse s))).

Lemma in_cache_render cd s : in_cache cd s = render (in_cache_path cd s).
Proof. reflexivity. Qed.

Lemma in_cache_path_wf cd s : wf_path (in_cache_path cd s).
Proof.
  unfold in_cache_path, pjoin. destruct (p_anchor (parse (pname (parse s)))); try apply parse_wf.
  unfold wf_path; cbn. apply Forall_app. split; apply parse_wf.
Qed.

Lemma in_cache_path_name cd s : pname (parse s) <> [] ->
  in_cache_path cd s = {| p_anchor := p_anchor (parse cd); p_comps := p_comps (parse cd) ++ [pname (parse s)] |}.
Proof.
  intros Hne. destruct (pname_cases (parse s) (parse_wf s)) as [H|H]; [congruence|].
  unfold in_cache_path. now rewrite (parse_comp _ H).
Qed.

Lemma in_cache_path_empty cd s : pname (parse s) = [] -> in_cache_path cd s = parse cd.
Proof.
  intros E. unfold in_cache_path. rewrite E, parse_nil. unfold pjoin; cbn [p_anchor p_comps].
  rewrite app_nil_r. now destruct (parse cd).
Qed.

Lemma is_dotdot_spec c : is_dotdot c = true <-> c = dotdot.
Proof. apply la_eqb_spec. Qed.

Lemma bad_name_spec s : bad_name s = false <-> pname (parse s) <> [] /\ pname (parse s) <> dotdot.
Proof.
  unfold bad_name. destruct (pname (parse s)) as [|x n] eqn:E.
  - split; [discriminate|intros [H _]; congruence].
  - split.
    + intros H. split; [discriminate|]. intros H2. apply la_eqb_spec in H2. unfold dotdot in *. congruence.
    + intros [_ H]. destruct (la_eqb (x :: n) ["."; "."]) eqn:E2; [|reflexivity].
      apply la_eqb_spec in E2. contradiction.
Qed.

(* the heart of C26: a proper last component lands strictly inside the job directory *)
Lemma in_cache_inside cd s : bad_name s = false -> inside (parse cd) (in_cache_path cd s).
Proof.
  intros Hb. apply bad_name_spec in Hb. destruct Hb as [Hne Hdd].
  rewrite (in_cache_path_name cd s Hne). split; [reflexivity|].
  exists [pname (parse s)], 0. split; [reflexivity|]. cbn [walk].
  destruct (is_dotdot (pname (parse s))) eqn:E; [|reflexivity].
  apply is_dotdot_spec in E. contradiction.
Qed.

Lemma in_cache_inside_str cd s : bad_name s = false -> inside_str cd (in_cache cd s).
Proof.
  intros Hb. unfold inside_str. rewrite in_cache_render, (parse_render _ (in_cache_path_wf cd s)).
  now apply in_cache_inside.
Qed.

(* and the two degenerate names do not *)
Lemma walk_app_nil d : walk d [] = Some d.
Proof. reflexivity. Qed.

Lemma inside_comps_longer job p : inside job p -> List.length (p_comps job) < List.length (p_comps p).
Proof.
  intros [_ (rest & d & E & W)]. rewrite E, app_length. destruct rest; [discriminate|]. cbn. lia.
Qed.

Lemma in_cache_degenerate_not_inside cd s : bad_name s = true -> ~ inside (parse cd) (in_cache_path cd s).
Proof.
  intros Hb Hin. unfold bad_name in Hb. destruct (pname (parse s)) as [|x n] eqn:E.
  - rewrite (in_cache_path_empty cd s E) in Hin. apply inside_comps_longer in Hin. lia.
  - apply la_eqb_spec in Hb.
    assert (Hne : pname (parse s) <> []) by (rewrite E; discriminate).
    rewrite (in_cache_path_name cd s Hne) in Hin. destruct Hin as [_ (rest & d & Ec & W)].
    cbn [p_comps] in Ec. apply app_inv_head in Ec. subst rest. rewrite E, Hb in W. cbn in W. discriminate.
Qed.

(* ------------------------------------------------------------------ C26_inside *)
Definition formatted_strings (f : formatted) : list (list ascii) :=
  match f with FNone => [] | FOne s => [s] | FMany l => l end.
Definition resolved_paths (r : resolved) : list (list ascii) :=
  match r with ROne s => [s] | RMany l => l | _ => [] end.

Lemma resolve_output_shape o values cd r :
  resolve_output o values cd = Ok r ->
  exists f, template_formatting o values = Ok f /\ r = place cd f.
Proof.
  unfold resolve_output, bind. destruct (template_formatting o values) as [f|e]; [|discriminate].
  intros H. inversion H. now exists f.
Qed.

Lemma place_paths cd f : resolved_paths (place cd f) = map (in_cache cd) (formatted_strings f).
Proof. destruct f; reflexivity. Qed.

(* every resolved path is job_dir / last component of a filled-in template; it is strictly inside the job
   directory exactly when that component is neither missing nor ".." *)
Theorem resolve_output_inside o values cd r :
  resolve_output o values cd = Ok r ->
  exists f, template_formatting o values = Ok f /\
    resolved_paths r = map (in_cache cd) (formatted_strings f) /\
    (forall s, In s (formatted_strings f) ->
       (bad_name s = false ->
          in_cache_path cd s = {| p_anchor := p_anchor (parse cd); p_comps := p_comps (parse cd) ++ [pname (parse s)] |}
          /\ inside_str cd (in_cache cd s)) /\
       (bad_name s = true -> ~ inside_str cd (in_cache cd s))).
Proof.
  intros H. destruct (resolve_output_shape _ _ _ _ H) as (f & Hf & ->).
  exists f. split; [exact Hf|]. split; [apply place_paths|].
  intros s _. split.
  - intros Hb. split; [|now apply in_cache_inside_str].
    apply in_cache_path_name. now apply bad_name_spec in Hb.
  - intros Hb. unfold inside_str. rewrite in_cache_render, (parse_render _ (in_cache_path_wf cd s)).
    now apply in_cache_degenerate_not_inside.
Qed.

Lemma existsb_false_forall {A} (f : A -> bool) l : existsb f l = false -> forall x, In x l -> f x = false.
Proof.
  intros H x Hx. destruct (f x) eqn:E; [|reflexivity].
  assert (existsb f l = true) by (apply existsb_exists; eauto). congruence.
Qed.

Theorem resolve_output_all_inside o values cd r :
  resolve_output o values cd = Ok r -> degenerate_name o values = false -> all_inside cd r.
Proof.
  intros H Hd. destruct (resolve_output_shape _ _ _ _ H) as (f & Hf & ->).
  unfold degenerate_name in Hd. rewrite Hf in Hd. destruct f as [|s|l]; cbn.
  - exact I.
  - now apply in_cache_inside_str.
  - apply Forall_forall. intros x Hx. apply in_map_iff in Hx. destruct Hx as (s & <- & Hs).
    apply in_cache_inside_str. exact (existsb_false_forall _ _ Hd s Hs).
Qed.

Theorem resolve_input_all_inside o values cd r :
  resolve_input o GTrue values cd = Ok r -> degenerate_name o values = false -> all_inside cd r.
Proof. apply resolve_output_all_inside. Qed.

(* ------------------------------------------------------------------ refutation of the unguarded statement *)
Definition full_statement : Prop :=
  forall o values cd r, resolve_output o values cd = Ok r -> all_inside cd r.

Definition dotdot_outarg : outarg := {| o_multi := false; o_keep := true; o_template := TOne (la_of "..") |}.
Definition jobdir_outarg : outarg := {| o_multi := false; o_keep := false; o_template := TOne (la_of "{a}") |}.

Lemma insideb_spec job p : insideb job p = true <-> inside job p.
Proof.
  unfold insideb, inside. rewrite !andb_true_iff. split.
  - intros [[Ha Hp] Hw]. split.
    + destruct (p_anchor p), (p_anchor job); cbn in Ha; congruence.
    + apply (is_prefix_spec la_eqb la_eqb_spec) in Hp. destruct Hp as [rest E].
      rewrite E in Hw. rewrite skipn_app, skipn_all, Nat.sub_diag in Hw. cbn in Hw.
      destruct (walk 0 rest) as [[|d]|] eqn:W; try discriminate. now exists rest, d.
  - intros [Ha (rest & d & E & W)]. split; [split|].
    + rewrite Ha. now destruct (p_anchor job).
    + apply (is_prefix_spec la_eqb la_eqb_spec). now exists rest.
    + rewrite E, skipn_app, skipn_all, Nat.sub_diag. cbn. now rewrite W.
Qed.

(* a template that is literally ".." resolves to the parent of the job directory (the cache root) *)
Lemma refuted_dotdot : ~ full_statement.
Proof.
  intros H. specialize (H dotdot_outarg [] (la_of "/cache/job") (ROne (la_of "/cache/job/..")) eq_refl).
  cbn in H. apply insideb_spec in H. vm_compute in H. discriminate.
Qed.

(* a template that fills in to "" / "." / "/" resolves to the job directory itself *)
Lemma refuted_jobdir :
  exists o values cd r, resolve_output o values cd = Ok r /\ ~ all_inside cd r /\ r = ROne (la_of "/cache/job").
Proof.
  exists jobdir_outarg, [(la_of "a", VAtom (AStr (la_of ".")))], (la_of "/cache/job"), (ROne (la_of "/cache/job")).
  split; [reflexivity|]. split; [|reflexivity].
  intros H. cbn in H. apply insideb_spec in H. vm_compute in H. discriminate.
Qed.

(* ------------------------------------------------------------------ explicit output paths *)
Theorem explicit_as_given o s values cd :
  exists x, resolve_input o (GPath s) values cd = Ok (ROne x) /\ same_path x s.
Proof.
  exists (pstr (parse s)). split; [reflexivity|]. unfold same_path, pstr. apply parse_render_parse.
Qed.

Theorem false_is_absent o values cd : resolve_input o GFalse values cd = Ok RAbsent.
Proof. reflexivity. Qed.

(* ================================================================== determinism: the frame of a template *)
Definition template_refs (o : outarg) : list (list ascii) :=
  match o_template o with TOne t => inp_fields t | TMany ts => flat_map inp_fields ts end.

Lemma collect_frame names v1 v2 : (forall n, In n names -> lookup n v1 = lookup n v2) ->
  forall d ft, collect names v1 d ft = collect names v2 d ft.
Proof.
  induction names as [|n r IH]; intros H d ft; [reflexivity|]. cbn [collect].
  rewrite <- (H n (or_introl eq_refl)).
  assert (Hr : forall m, In m r -> lookup m v1 = lookup m v2) by (intros m Hm; apply H; now right).
  destruct (lookup n v1) as [[|[s|z|ng m k|p]|l]|]; try reflexivity; try (now apply IH).
  destruct ft; [reflexivity|now apply IH].
Qed.

Lemma single_frame multi keep t v1 v2 : (forall n, In n (inp_fields t) -> lookup n v1 = lookup n v2) ->
  single_template_formatting multi keep t v1 = single_template_formatting multi keep t v2.
Proof.
  intros H. unfold single_template_formatting. destruct (inp_fields t) as [|n r] eqn:E; [reflexivity|].
  now rewrite (collect_frame (n :: r) v1 v2 H).
Qed.

Lemma mapM_ext {A B} (f g : A -> res B) l : (forall x, In x l -> f x = g x) -> mapM f l = mapM g l.
Proof.
  induction l as [|x l IH]; intros H; [reflexivity|]. cbn. rewrite (H x (or_introl eq_refl)).
  rewrite IH; [reflexivity|]. intros y Hy. apply H. now right.
Qed.

Theorem template_formatting_frame o v1 v2 :
  (forall n, In n (template_refs o) -> lookup n v1 = lookup n v2) ->
  template_formatting o v1 = template_formatting o v2.
Proof.
  unfold template_refs, template_formatting. destruct (o_template o) as [t|ts]; intros H.
  - now apply single_frame.
  - rewrite (mapM_ext _ (fun t => single_template_formatting (o_multi o) (o_keep o) t v2) ts); [reflexivity|].
    intros t Ht. apply single_frame. intros n Hn. apply H. apply in_flat_map. now exists t.
Qed.

(* the resolved path is a function of the job directory and of the values of the referenced fields only *)
Theorem resolve_deterministic o g v1 v2 cd :
  (forall n, In n (template_refs o) -> lookup n v1 = lookup n v2) ->
  resolve_output o v1 cd = resolve_output o v2 cd /\ resolve_input o g v1 cd = resolve_input o g v2 cd.
Proof.
  intros H. assert (E : resolve_output o v1 cd = resolve_output o v2 cd).
  { unfold resolve_output. now rewrite (template_formatting_frame o v1 v2 H). }
  split; [exact E|]. destruct g; cbn; auto.
Qed.

(* ================================================================== keep_extension = False: the extension does not matter *)
Definition ft_rel (a b : option (list ascii * list ascii)) : Prop :=
  match a, b with
  | None, None => True
  | Some (n1, f1), Some (n2, f2) => n1 = n2 /\ file_stem_path f1 = file_stem_path f2
  | _, _ => False
  end.

(* two input assignments that differ at most in the extensions of path-valued fields *)
Definition same_up_to_ext (v1 v2 : env) : Prop :=
  forall k, match lookup k v1, lookup k v2 with
            | Some (VAtom (APath f1)), Some (VAtom (APath f2)) => file_stem_path f1 = file_stem_path f2
            | a, b => a = b
            end.

Definition collected_rel (a b : res collected) : Prop :=
  match a, b with
  | Ok CNone, Ok CNone => True
  | Ok (CDict d1 f1), Ok (CDict d2 f2) => d1 = d2 /\ ft_rel f1 f2
  | Err e1, Err e2 => e1 = e2
  | _, _ => False
  end.

Lemma collect_rel names v1 v2 : same_up_to_ext v1 v2 ->
  forall d ft1 ft2, ft_rel ft1 ft2 -> collected_rel (collect names v1 d ft1) (collect names v2 d ft2).
Proof.
  intros Hv. induction names as [|n r IH]; intros d ft1 ft2 Hft; cbn [collect].
  - cbn. auto.
  - specialize (Hv n).
    destruct (lookup n v1) as [[|[s1|z1|ng1 m1 k1|p1]|l1]|], (lookup n v2) as [[|[s2|z2|ng2 m2 k2|p2]|l2]|];
      try discriminate; try (inversion Hv; subst); try (cbn; auto; fail); try (now apply IH).
    destruct ft1 as [[a1 b1]|], ft2 as [[a2 b2]|]; cbn in Hft; try contradiction; cbn; auto.
    apply IH. cbn. auto.
Qed.

Lemma element_formatting_dropped t d ft1 ft2 : ft_rel ft1 ft2 ->
  element_formatting t d ft1 false = element_formatting t d ft2 false.
Proof.
  destruct ft1 as [[n1 f1]|], ft2 as [[n2 f2]|]; cbn; try contradiction; [|reflexivity].
  intros [-> E]. unfold element_formatting. now rewrite E.
Qed.

Lemma single_dropped multi t v1 v2 : same_up_to_ext v1 v2 ->
  single_template_formatting multi false t v1 = single_template_formatting multi false t v2.
Proof.
  intros Hv. unfold single_template_formatting. destruct (inp_fields t) as [|n r]; [reflexivity|].
  pose proof (collect_rel (n :: r) v1 v2 Hv [] None None I) as H.
  destruct (collect (n :: r) v1 [] None) as [[|d1 f1]|e1], (collect (n :: r) v2 [] None) as [[|d2 f2]|e2];
    cbn in H; try contradiction; cbn [bind]; try reflexivity; [|now subst].
  destruct H as [<- Hf].
  rewrite (element_formatting_dropped t d1 f1 f2 Hf).
  destruct (multi && existsb (fun kv => is_list (snd kv)) d1); [|reflexivity].
  destruct (list_keys d1) as [|k0 ks]; [reflexivity|].
  match goal with |- (if ?c then _ else _) = _ => destruct c end; [reflexivity|].
  rewrite (mapM_ext _ (fun ii => element_formatting t (pick ii d1) f2 false)); [reflexivity|].
  intros; now apply element_formatting_dropped.
Qed.

(* with keep_extension = False the resolved path does not depend on the extension of the input file *)
Theorem ext_dropped o v1 v2 cd :
  o_keep o = false -> same_up_to_ext v1 v2 -> resolve_output o v1 cd = resolve_output o v2 cd.
Proof.
  intros Hk Hv. unfold resolve_output, template_formatting. rewrite Hk. destruct (o_template o) as [t|ts].
  - now rewrite (single_dropped (o_multi o) t v1 v2 Hv).
  - rewrite (mapM_ext _ (fun t => single_template_formatting (o_multi o) false t v2) ts); [reflexivity|].
    intros t _. now apply single_dropped.
Qed.

(* ================================================================== keep_extension = True: where the extension goes *)
Lemma lookup_set_same k v d : lookup k (dict_set k v d) = Some v.
Proof.
  induction d as [|[k' v'] d IH]; cbn.
  - assert (la_eqb k k = true) as -> by now apply la_eqb_spec. reflexivity.
  - destruct (la_eqb k k') eqn:E; cbn.
    + assert (la_eqb k k = true) as -> by now apply la_eqb_spec. reflexivity.
    + now rewrite E.
Qed.

Lemma lookup_set_other k k' v d : k' <> k -> lookup k' (dict_set k v d) = lookup k' d.
Proof.
  intros Hne. induction d as [|[k2 v2] d IH]; cbn.
  - destruct (la_eqb k' k) eqn:E; [apply la_eqb_spec in E; contradiction|reflexivity].
  - destruct (la_eqb k k2) eqn:E; cbn.
    + apply la_eqb_spec in E. subst k2.
      destruct (la_eqb k' k) eqn:E2; [apply la_eqb_spec in E2; contradiction|reflexivity].
    + now rewrite IH.
Qed.

Lemma render_pieces_app d ps qs :
  render_pieces d (ps ++ qs) =
  bind (render_pieces d ps) (fun a => bind (render_pieces d qs) (fun b => Ok (a ++ b))).
Proof.
  induction ps as [|p ps IH]; cbn.
  - destruct (render_pieces d qs); reflexivity.
  - destruct (render_piece d p) as [a|e]; cbn; [|reflexivity]. rewrite IH.
    destruct (render_pieces d ps) as [x|e]; cbn; [|reflexivity].
    destruct (render_pieces d qs) as [y|e]; cbn; [|reflexivity]. now rewrite app_assoc.
Qed.

Definition piece_names (ps : list piece) : list (list ascii) :=
  flat_map (fun p => match p with Field n _ => [n] | Lit _ => [] end) ps.

Lemma render_piece_agree d1 d2 p :
  (forall k, In k (piece_names [p]) -> lookup k d1 = lookup k d2) -> render_piece d1 p = render_piece d2 p.
Proof.
  destruct p as [c|n sp]; [reflexivity|]. intros H. cbn in H. unfold render_piece.
  rewrite (H n (or_introl eq_refl)). reflexivity.
Qed.

Lemma render_pieces_agree d1 d2 ps :
  (forall k, In k (piece_names ps) -> lookup k d1 = lookup k d2) -> render_pieces d1 ps = render_pieces d2 ps.
Proof.
  induction ps as [|p ps IH]; intros H; [reflexivity|]. cbn [render_pieces].
  rewrite (render_piece_agree d1 d2 p).
  - rewrite IH; [reflexivity|]. intros k Hk. apply H. unfold piece_names in *. cbn. apply in_or_app. now right.
  - intros k Hk. apply H. unfold piece_names in *. cbn in *. apply in_or_app. left. now rewrite app_nil_r in Hk.
Qed.

(* the tokenizer on a template that ends with "{n}" *)
Lemma scan_word_field n : all_word n = true -> forall acc rest out,
  scan (InField acc) (n ++ rbrace :: rest) out = scan Top rest (mk_field (rev acc ++ n) :: out).
Proof.
  induction n as [|c n IH]; intros Hw acc rest out.
  - cbn. now rewrite app_nil_r.
  - cbn in Hw. apply andb_true_iff in Hw. destruct Hw as [Hc Hw]. cbn [app scan].
    assert (Ascii.eqb c rbrace = false) as ->.
    { destruct (Ascii.eqb c rbrace) eqn:E; [|reflexivity]. apply Ascii.eqb_eq in E. subst. discriminate. }
    assert (Ascii.eqb c lbrace = false) as ->.
    { destruct (Ascii.eqb c lbrace) eqn:E; [|reflexivity]. apply Ascii.eqb_eq in E. subst. discriminate. }
    rewrite (IH Hw). cbn [rev]. now rewrite <- app_assoc.
Qed.

Lemma scan_word_top n : all_word n = true -> forall rest out,
  scan Top (n ++ rest) out = scan Top rest (rev (map Lit n) ++ out).
Proof.
  induction n as [|c n IH]; intros Hw rest out; [reflexivity|].
  cbn in Hw. apply andb_true_iff in Hw. destruct Hw as [Hc Hw]. cbn [app scan].
  assert (Ascii.eqb c rbrace = false) as ->.
  { destruct (Ascii.eqb c rbrace) eqn:E; [|reflexivity]. apply Ascii.eqb_eq in E. subst. discriminate. }
  assert (Ascii.eqb c lbrace = false) as ->.
  { destruct (Ascii.eqb c lbrace) eqn:E; [|reflexivity]. apply Ascii.eqb_eq in E. subst. discriminate. }
  rewrite (IH Hw). cbn [map rev]. now rewrite <- app_assoc.
Qed.

Lemma split_colon_word n : all_word n = true -> forall acc, split_colon n acc = (rev acc ++ n, None).
Proof.
  induction n as [|c n IH]; intros Hw acc; cbn.
  - now rewrite app_nil_r.
  - cbn in Hw. apply andb_true_iff in Hw. destruct Hw as [Hc Hw].
    assert (Ascii.eqb c ":" = false) as ->.
    { destruct (Ascii.eqb c ":") eqn:E; [|reflexivity]. apply Ascii.eqb_eq in E. subst. discriminate. }
    rewrite (IH Hw). cbn. now rewrite <- app_assoc.
Qed.

Lemma mk_field_word n : all_word n = true -> mk_field n = Field n None.
Proof. intros Hw. unfold mk_field. now rewrite (split_colon_word n Hw []). Qed.

Lemma scan_ends_with_field n : all_word n = true -> n <> [] ->
  forall t st out ps, scan st (t ++ field_ref n) out = Ok ps -> exists ps', ps = ps' ++ [Field n None].
Proof.
  intros Hw Hne. induction t as [|c t IH]; intros st out ps H.
  - cbn [app] in H. unfold field_ref in H. destruct n as [|c0 n0]; [congruence|].
    assert (Hc0 : is_word c0 = true /\ all_word n0 = true) by (cbn in Hw; now apply andb_true_iff in Hw).
    destruct Hc0 as [Hc0 Hn0].
    assert (Hr : Ascii.eqb c0 rbrace = false).
    { destruct (Ascii.eqb c0 rbrace) eqn:E; [|reflexivity]. apply Ascii.eqb_eq in E. subst. discriminate. }
    assert (Hl : Ascii.eqb c0 lbrace = false).
    { destruct (Ascii.eqb c0 lbrace) eqn:E; [|reflexivity]. apply Ascii.eqb_eq in E. subst. discriminate. }
    destruct st as [| |acc|].
    + (* Top *) cbn [scan app] in H. change (Ascii.eqb lbrace lbrace) with true in H. cbn iota in H.
      rewrite Hl, Hr in H.
      change ((c0 :: n0) ++ [rbrace]) with (c0 :: (n0 ++ rbrace :: [])) in H.
      rewrite (scan_word_field n0 Hn0 [c0] [] out) in H. cbn [rev app scan] in H.
      rewrite (mk_field_word (c0 :: n0) Hw) in H. inversion H. cbn [rev]. now exists (rev out).
    + (* AfterOpen: "{{" then "n}" -> a lone "}" *)
      cbn [scan app] in H. change (Ascii.eqb lbrace lbrace) with true in H. cbn iota in H.
      rewrite Hl, Hr in H. rewrite (scan_word_top n0 Hn0) in H. cbn in H. discriminate.
    + cbn [scan app] in H. change (Ascii.eqb lbrace rbrace) with false in H.
      change (Ascii.eqb lbrace lbrace) with true in H. cbn iota in H. discriminate.
    + cbn [scan app] in H. change (Ascii.eqb lbrace rbrace) with false in H. cbn iota in H. discriminate.
  - cbn [app scan] in H.
    destruct st as [| |acc|].
    + destruct (Ascii.eqb c lbrace); [now apply IH in H|]. destruct (Ascii.eqb c rbrace); now apply IH in H.
    + destruct (Ascii.eqb c lbrace); [now apply IH in H|]. destruct (Ascii.eqb c rbrace); now apply IH in H.
    + destruct (Ascii.eqb c rbrace); [now apply IH in H|]. destruct (Ascii.eqb c lbrace); [discriminate|now apply IH in H].
    + destruct (Ascii.eqb c rbrace); [now apply IH in H|discriminate].
Qed.

Lemma ends_with_app l suf : ends_with l suf = true -> exists pre, l = pre ++ suf.
Proof.
  induction l as [|c l IH]; cbn [ends_with].
  - destruct (la_eqb [] suf) eqn:E; intros H; [|discriminate]. apply la_eqb_spec in E. subst. now exists [].
  - destruct (la_eqb (c :: l) suf) eqn:E; intros H.
    + apply la_eqb_spec in E. subst. now exists [].
    + destruct (IH H) as [pre ->]. now exists (c :: pre).
Qed.

Fixpoint count_field (n : list ascii) (ps : list piece) : nat :=
  match ps with
  | [] => 0
  | Field m _ :: r => (if la_eqb m n then 1 else 0) + count_field n r
  | Lit _ :: r => count_field n r
  end.

Lemma count_field_app n ps qs : count_field n (ps ++ qs) = count_field n ps + count_field n qs.
Proof. induction ps as [|[c|m sp] ps IH]; cbn; [reflexivity|exact IH|rewrite IH; lia]. Qed.

Lemma count_zero_not_in n ps : count_field n ps = 0 -> ~ In n (piece_names ps).
Proof.
  induction ps as [|[c|m sp] ps IH]; cbn; [tauto|exact IH|].
  destruct (la_eqb m n) eqn:E; [discriminate|]. intros H [->|Hin]; [|now apply IH].
  assert (la_eqb n n = true) by now apply la_eqb_spec. congruence.
Qed.

(* str.format with the trailing field's value extended = the formatted text extended *)
Lemma format_trailing_field t n d x y :
  all_word n = true -> n <> [] ->
  ends_with t (field_ref n) = true ->
  (forall ps, tokenize t = Ok ps -> count_field n ps <= 1) ->
  py_format t (dict_set n (VAtom (AStr (x ++ y))) d) =
  bind (py_format t (dict_set n (VAtom (AStr x)) d)) (fun s => Ok (s ++ y)).
Proof.
  intros Hw Hne He Hc. unfold py_format. destruct (tokenize t) as [ps|e] eqn:Et; [|reflexivity]. cbn [bind].
  destruct (ends_with_app _ _ He) as [pre ->].
  destruct (scan_ends_with_field n Hw Hne pre Top [] ps Et) as [ps' ->].
  specialize (Hc _ eq_refl). rewrite count_field_app in Hc. cbn in Hc.
  assert (la_eqb n n = true) as Enn by now apply la_eqb_spec. rewrite Enn in Hc.
  assert (Hz : count_field n ps' = 0) by lia. apply count_zero_not_in in Hz.
  rewrite !render_pieces_app.
  rewrite (render_pieces_agree (dict_set n (VAtom (AStr (x ++ y))) d) (dict_set n (VAtom (AStr x)) d) ps').
  2:{ intros k Hk. assert (k <> n) by (intros ->; contradiction). now rewrite !lookup_set_other. }
  destruct (render_pieces (dict_set n (VAtom (AStr x)) d) ps') as [a|e]; cbn [bind]; [|reflexivity].
  cbn [render_pieces render_piece]. destruct n as [|c0 n0]; [congruence|].
  destruct (all_digits (c0 :: n0)); [reflexivity|]. rewrite Hw. cbn [negb].
  rewrite !lookup_set_same. cbn. now rewrite !app_nil_r, app_assoc.
Qed.

Lemma bind_ok_id {A} (r : res A) : bind r (fun s => Ok s) = r.
Proof. now destruct r. Qed.

Lemma dict_set_set k v1 v2 d : dict_set k v2 (dict_set k v1 d) = dict_set k v2 d.
Proof.
  induction d as [|[k' v'] d IH]; cbn.
  - assert (la_eqb k k = true) as -> by now apply la_eqb_spec. reflexivity.
  - destruct (la_eqb k k') eqn:E; cbn.
    + assert (la_eqb k k = true) as -> by now apply la_eqb_spec. reflexivity.
    + now rewrite E, IH.
Qed.

(* keep_extension = True, the file has an extension e and the template has no '.' of its own:
   the result is the keep_extension = False result followed by "." e *)
Theorem ext_kept t d n f e :
  all_word n = true -> n <> [] ->
  file_ext f = Some e -> has_dot t = false ->
  (forall ps, tokenize t = Ok ps -> count_field n ps <= 1) ->
  element_formatting t d (Some (n, f)) true =
  bind (element_formatting t d (Some (n, f)) false) (fun s => Ok (s ++ "." :: e)).
Proof.
  intros Hw Hne He Hd Hc. unfold element_formatting. rewrite He, Hd. cbn [negb dot_join].
  destruct (ends_with t (field_ref n)) eqn:Ee.
  - rewrite !dict_set_set. now apply format_trailing_field.
  - now rewrite bind_ok_id.
Qed.
